"""Collects the per-property driver configuration from config/CXX.py (one file per property, each
defining CONFIG): which test units run, with how many cases per tier, and the evidence/manifest texts."""
import glob
import importlib
import os

PROPS = {}
# property id -> reason; properties that are deliberately not claimed
NOT_APPLICABLE = {}
# commits in /repo that add build-tag guarded hooks (none are needed)
HOOK_COMMITS = []

_here = os.path.dirname(os.path.abspath(__file__))
for _f in sorted(glob.glob(os.path.join(_here, "config", "C[0-9]*.py"))):
    _id = os.path.basename(_f)[:-3]
    PROPS[_id] = importlib.import_module("config." + _id).CONFIG
