"""Collects the per-property driver configuration from config/CNN.py (one file per property, each
defining CONFIG): which test units run, with how many cases per tier, and the evidence/manifest texts.
Configs are loaded lazily, so that a broken config file of one property cannot break another property's check."""
import glob
import importlib
import os
import sys

# property id -> reason; properties that are deliberately not claimed
NOT_APPLICABLE = {}
# commits in /repo that add build-tag guarded hooks (none are needed)
HOOK_COMMITS = []

_here = os.path.dirname(os.path.abspath(__file__))


class _Props(dict):
    def __init__(self):
        super().__init__()
        self._ids = sorted(os.path.basename(f)[:-3] for f in glob.glob(os.path.join(_here, "config", "C[0-9]*.py")))

    def _load(self, pid):
        if not dict.__contains__(self, pid):
            dict.__setitem__(self, pid, importlib.import_module("config." + pid).CONFIG)

    def __contains__(self, pid):
        return pid in self._ids

    def __getitem__(self, pid):
        if pid not in self._ids:
            raise KeyError(pid)
        self._load(pid)
        return dict.__getitem__(self, pid)

    def __iter__(self):
        return iter(self._ids)

    def keys(self):
        return list(self._ids)

    def items(self):
        out = []
        for pid in self._ids:
            try:
                out.append((pid, self[pid]))
            except Exception as e:  # noqa: BLE001 - report and go on with the other properties
                print("CONFIG ERROR in config/%s.py: %r" % (pid, e), file=sys.stderr)
        return out

    def __len__(self):
        return len(self._ids)


PROPS = _Props()
