from config.common import NOTE_COMMON

CONFIG = dict(
    pkg="c01", level="exploration",
    technique="rapid-generated multi-epoch DAG scenarios and parents-first delivery orders; differential between 2-3 instances (metamorphic: order, cache configuration, reset instead of replay)",
    level_text=("Each case draws validators/weights, a 1-3 epoch DAG with lagging, offline and partitioned validators and forks by a "
                "<1/3-weight set, a sealing policy with validator-set changes, and an independent parents-first order per instance "
                "(priority-driven Kahn order: every topological order is reachable). All instances must accept every event and emit "
                "identical block sequences and identical epoch/decided state after every epoch."),
    level_note=NOTE_COMMON + " Event frames are assigned by the reference frame rule (acceptance itself is checked by C04/C10).",
    rule=("Case = scenario + per-instance orders + cache configs + optional Reset into a later epoch. Oracle = equality of block logs "
          "(epoch, frame, Atropos, cheaters, sealed flag) and of persisted epoch/decided state between instances. Non-trivial = at least 2 "
          "blocks decided and at least one instance received an order different from creation order; distinct by scenario hash."),
    assumptions=["forking validators hold < 1/3 of the weight", "events of a sealed epoch are no longer fed (real callers reject them by epoch check)"],
    level_more='Unit TestC01Shapes runs the same property on four large shapes (65-70 validators at the quorum margin with forkers beyond sorted index 63; one block confirming 700-1200 events; 66-70 same-sequence events of one validator; a validator cut off for more than 100 frames).',
    units=[dict(test="TestC01Agreement", quick=1200, thorough=24000, shards=16),
           # the rare large shapes: 65-70 validators, one block confirming several hundred events, 66-70 same-seq events
           dict(test="TestC01Shapes", quick=8, thorough=480, shards=16)],
)
