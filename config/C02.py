from config.common import NOTE_COMMON

CONFIG = dict(
    pkg="c02", level="exploration",
    technique="rapid-generated DAG scenarios and delivery orders; per-block set oracle from graph ancestry (bitsets) over logged ApplyEvent calls",
    level_text=("For every block emitted on generated 1-2 epoch scenarios (forks below 1/3, 4 cache configurations, drawn parents-first "
                "order) the logged ApplyEvent calls are compared, in both directions, with the ancestors-or-self of the Atropos minus "
                "everything delivered earlier in the epoch; frame numbering, root-ness of the Atropos and ancestry closure are checked too."),
    level_note=NOTE_COMMON,
    rule=("Case = scenario + order + cache config. Oracle = graphref ancestry bitsets. Non-trivial = the run contains a block that "
          "delivers >= 2 events while some ancestor of its Atropos had been delivered by an earlier block; distinct by scenario hash."),
    assumptions=["forking validators hold < 1/3 of the weight"],
    level_more='The instance sometimes processes a prefix of an epoch, is Reset to the same epoch and is fed the epoch again. Unit TestC02Shapes runs the property on the four large shapes (see C01), preferring the one-huge-block shape.',
    units=[dict(test="TestC02Delivery", quick=1800, thorough=96000, shards=16),
           # the rare large shapes: one block confirming 700-1200 events, 65-70 validators, 66-70 same-seq events
           dict(test="TestC02Shapes", quick=16, thorough=640, shards=16)],
)
