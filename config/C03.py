from config.common import NOTE_COMMON

CONFIG = dict(
    pkg="c03", level="exploration",
    technique="rapid-generated forky DAG scenarios; cheater list compared with the graph definition of a visible fork (two events, same creator and seq, in the Atropos' ancestry)",
    level_text=("Scenarios where any subset of validators may fork (two thirds of the cases keep forkers below 1/3 so that blocks keep "
                "being decided after forks become visible, one third is unrestricted) are processed until the instance reports a broken "
                "assumption; every emitted block's cheater list must equal, as a sequence in canonical validator order, the validators "
                "whose fork is visible from the block's Atropos by the graph definition."),
    level_note=NOTE_COMMON,
    rule=("Case = scenario + order + cache config. Non-trivial = a block whose Atropos sees at least one forker while another validator "
          "that forked somewhere in the DAG is not (yet) visible as forker from it; distinct by scenario hash."),
    assumptions=["the Atropos is taken from the implementation; only the cheater list is judged here (Atropos choice is C10's subject)"],
    level_more='Unit TestC03SplitView: a constructed family of DAGs in which the first validator of the canonical order alone sees a fork and falls silent while the second reaches the next frame without having heard of it (cheater lists that shrink from one block to the next). On instances that switch epochs by Reset, an epoch is sometimes replayed after a Reset to the same epoch with other weights (another canonical order) for the same validators. Unit TestC03Shapes runs the property on the large shapes, preferring the mass fork.',
    units=[dict(test="TestC03Cheaters", quick=3000, thorough=144000, shards=16),
           # the rare large shapes: a forker with 66-70 same-seq events of which only the last are built upon, 65-70 validators, huge blocks
           dict(test="TestC03Shapes", quick=16, thorough=640, shards=16),
           # a constructed family (synchronous rounds) in which consecutive Atropoi have non-nested views of a fork
           dict(test="TestC03SplitView", quick=200, thorough=16000, shards=16)],
)
