from config.common import NOTE_COMMON

CONFIG = dict(
    pkg="c04", level="exploration",
    technique="rapid-generated growing DAGs with wrong-frame twins, non-maximal claims and long Build histories; accept/reject and built frames compared with a reference frame rule from the graph definition",
    level_text=("Every event of a generated DAG (any creator, parent subset, forks below 1/3) is submitted with its allowed claimed frame "
                "(sometimes non-maximal) and, for drawn events, with claimed frames just outside the allowed range (hi+1, lo-1, 0, far above): "
                "Process must accept exactly the allowed claims. Build must assign the highest allowed frame, also after histories of up to "
                "800 (quick) / 3100 (thorough) speculative Build calls over candidates that share creator and Lamport time but differ in "
                "parents, under all cache configurations (the 256th/512th-call temporary-ID reuse is inside the generated classes)."),
    level_note=NOTE_COMMON,
    rule=("Case = validators/weights + DAG (20-90 events) + cache config + Build-history class {none, short, 256+, 512+, long}. "
          "Non-trivial = the case has an event with >= 2 allowed frames, a rejected claim, or a Build after >= 256 earlier Builds; "
          "distinct by hash of DAG, probe position and history class. Unit TestC04DeepLag: three validators holding a quorum run past frame 103-112 "
          "while a fourth has only its first event; its second event may claim any frame up to the true maximum (> 101): Build must assign exactly 101, "
          "Process must accept claims above 101 and reject claims above the true maximum; non-trivial = true maximum above the Build cap."),
    assumptions=["forking validators hold < 1/3 of the weight", "one epoch without sealing"],
    level_more='In a third of the Build histories one mutable event object is rebuilt after its parents were changed.',
    units=[dict(test="TestC04FrameRule", quick=700, thorough=40000, shards=16),
           dict(test="TestC04DeepLag", quick=6, thorough=320, shards=16)],
)
