from config.common import NOTE_COMMON

CONFIG = dict(
    pkg="c05", level="exploration",
    technique="rapid-generated forky DAGs indexed directly into vecfc.Index in drawn orders; ForklessCause compared with a graph-definition oracle (ancestry bitsets) on all pairs, cold and warm",
    level_text=("The index is driven directly (Reset, Add, Flush per event) in a drawn parents-first order with drawn cache sizes "
                "(0, 1, small, medium, lite); queries are interleaved with further Adds and asked twice; for DAGs of <= 40 events all "
                "(A,B) pairs are asked in a drawn order. Every answer is compared with the definition in the property text computed "
                "from ancestry bitsets; a second index fed in another order must agree as well."),
    level_note=NOTE_COMMON,
    rule=("Case = validators/weights + DAG (8-70 events, forks by any subset or by a <1/3 subset) + two indexing orders + cache sizes + "
          "query order. Non-trivial = the DAG has a validator whose fork is visible to some events but not to others, and both true and "
          "false answers occur; distinct by DAG hash."),
    assumptions=["events are indexed parents-first and flushed one by one, as IndexedLachesis does"],
    level_more='Both indexes are driven through drawn sessions (flush periods, reloads from the database by DropNotFlushed / Reset / a new index object); a third of the index objects served another validator group before. Unit TestC05Shapes runs the property on the large shapes.',
    units=[dict(test="TestC05ForklessCause", quick=5000, thorough=240000, shards=16),
           # the rare large shapes: 65-70 validators with forkers at sorted index >= 64 and marginal quorums, long quorum-less phases, mass forks
           dict(test="TestC05Shapes", quick=10, thorough=640, shards=16)],
)
