from config.common import NOTE_COMMON

CONFIG = dict(
    pkg="c06", level="exploration",
    technique="rapid-generated forky DAGs indexed into vecfc.Index; merged highest-before vector (direct and through adapters.VectorToDagIndexer) compared with the graph definition for every event and validator",
    level_text=("For every event (right after it is added and again on the full index) and every validator the merged clock must report "
                "a fork exactly when two same-seq events of that validator are among the event's ancestors-or-self, otherwise the highest "
                "ancestor sequence number (0 if none). Forks by any subset of validators, drawn indexing order and cache sizes."),
    level_note=NOTE_COMMON,
    rule=("Case = validators/weights + DAG (8-80 events) + indexing order + cache sizes; evaluates every (event, validator) entry. "
          "Non-trivial = some event sees a fork of one validator and at the same time a clean (fork-free so far) history of another "
          "forking validator; distinct by DAG hash."),
    assumptions=["validator index i of the merged vector is the i-th validator in canonical order (Validators.Idxs)"],
    level_more="The index is driven through a drawn session (flush periods, reloads), a third of the index objects served another validator group before, and the adapter's reports for all validators are collected before they are compared.",
    units=[dict(test="TestC06MergedClock", quick=5000, thorough=240000, shards=16)],
)
