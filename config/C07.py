from config.common import NOTE_COMMON

CONFIG = dict(
    pkg="c07", level="exploration",
    technique="rapid-generated event streams with injected Build calls and wrong-frame Process calls; metamorphic comparison of a dirty instance with a clean one and with a freshly replayed one",
    level_text=("A clean and a dirty instance process the same generated valid stream (1-2 epochs, forks below 1/3); into the dirty stream "
                "rapid inserts bursts of Build(candidate) and Process(wrong-frame twin) calls, preferably right before deciding events. "
                "Every inserted Process must fail with ErrWrongFrame, every valid event must be accepted, decisions must happen at the same "
                "events, blocks and persisted state must be identical, and Build of a probe event must give the same frame on the dirty "
                "instance, on a freshly replayed instance and in the reference."),
    level_note=NOTE_COMMON,
    rule=("Case = scenario + cache configs + injection schedule. Non-trivial = at least one rejected event (it has parents, so indexing it "
          "updated its ancestors' vectors before the rollback) and at least one block decided afterwards in the same epoch; distinct by "
          "hash of scenario and injection counts. Unit TestC07HugeCandidate: a never-submitted candidate that observes ~600 new ancestors at once is built "
          "(and rejected) on the dirty instance only, then a different event takes its slot and both instances go on."),
    assumptions=["rejected events are not stored in the event source (as real callers do)", "forking validators hold < 1/3 of the weight"],
    level_more='In half of the cases event IDs do not depend on the claimed frame; in a quarter of the epochs the dirty instance first builds and processes a prefix of the epoch and is Reset to the same epoch.',
    units=[dict(test="TestC07NoTrace", quick=800, thorough=38400, shards=16),
           dict(test="TestC07HugeCandidate", quick=40, thorough=192, shards=16)],
)
