from config.common import NOTE_COMMON

CONFIG = dict(
    pkg="c08", level="exploration",
    technique="rapid-generated multi-epoch runs; EVERY event boundary is a restart point (copied main and epoch DBs, fresh Store and vector index, Bootstrap); restarted instances are followed in lock step with the running one",
    level_text=("For each generated run (up to 3 epochs with sealing, forks below 1/3, drawn delivery order) a restarted instance is created "
                "at every event boundary from deep copies of the persisted databases, with a possibly different cache configuration. Bootstrap "
                "must not emit blocks; then each restarted instance receives the following events (next 12 in quick, in 10% of the cases and "
                "in thorough all remaining ones, across decisions and epoch seals) and must return the same results, emit the same blocks with "
                "the same applied events and reach the same persisted state after every event as the instance that kept running."),
    level_note=NOTE_COMMON + " Restart = databases as persisted at the boundary (memorydb copies); partial writes inside one Process call are not modelled (Process is not a crash-atomic unit in the property either: it speaks of boundaries between processed events).",
    rule=("Case = scenario + order + two cache configs; evaluates every boundary of the run (exhaustive per run). Non-trivial = the run has a "
          "boundary right after a deciding event and a boundary with undecided roots in >= 2 frames; classes count boundaries right after "
          "decisions and right after seals; distinct by scenario hash."),
    assumptions=["forking validators hold < 1/3 of the weight"],
    level_more='In a quarter of the cases the running instance first tried the epoch with outdated weights; in half of them its application keeps editing the builders its validator sets were built from.',
    units=[dict(test="TestC08Restart", quick=250, thorough=9600, shards=16, timeout_t=10000)],
)
