from config.common import NOTE_COMMON

CONFIG = dict(
    pkg="c09", level="exploration",
    technique="rapid-generated multi-epoch scenarios with drawn sealing frames and validator-set mutations; state checked right after the sealing call, differential against an instance Reset directly into each epoch",
    level_text=("Scenarios of up to 3 epochs seal at a drawn decided frame with a drawn next validator set (same, re-weighted, member removed, "
                "member added, single validator, fresh set). Right after the sealing Process call the persisted epoch state must be "
                "(epoch+1, exactly the returned set in canonical order, no decided frame), no further block of the old epoch may follow the "
                "sealing block, blocks of every epoch are numbered from 1, and an instance Reset directly to the epoch emits the same blocks. "
                "An unsealed twin instance measures how often the sealing event would have decided further frames."),
    level_note=NOTE_COMMON,
    rule=("Case = scenario + delivery orders + cache configs. Non-trivial = a seal that changed the validator set and was followed by at least "
          "one block of the new epoch (numbering from frame 1 and reset-equivalence exercised with a changed set); distinct by scenario hash. "
          "Class sealing_event_would_decide_further_frames counts seals where voting would go on without the stop-once-sealed rule (rare: needs a late-round decision)."),
    assumptions=["forking validators hold < 1/3 of the weight", "events of the sealed epoch are not fed afterwards"],
    units=[dict(test="TestC09Sealing", quick=1500, thorough=120000, shards=16)],
)
