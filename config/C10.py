from config.common import NOTE_COMMON

CONFIG = dict(
    pkg="c10", level="exploration",
    technique="rapid-generated DAG scenarios; differential against a naive reference of the Lachesis rules (graph-definition forkless cause, frame rule, virtual voting, Atropos choice)",
    level_text=("Generated event sets (1-8 validators, all weight classes, lagging/offline/partitioned validators, forks by a "
                "<1/3-weight set, 1-2 epochs with sealing) are processed by IndexedLachesis (4 cache configurations) and by an "
                "independent reference written from the property text; every Process result, every Build frame and every block "
                "(frame, Atropos, cheaters) must agree. This detects rule changes applied consistently in the code, which "
                "self-comparison tests cannot."),
    level_note=NOTE_COMMON + " The reference (harness/internal/graphref) is part of the trusted base; it was cross-checked against the unchanged implementation on all generated cases.",
    rule=("Case = one rapid-drawn multi-epoch scenario (30-130 events per epoch). Oracle = graphref naive election over the whole "
          "event set. Non-trivial = some frame was decided in round >= 3 or some validator before the Atropos' validator in canonical "
          "order was decided 'no'; distinct by hash of the first epoch's event list. Classes report exact yes==no ties, forks, cache "
          "configuration, number of epochs, cases without any block."),
    assumptions=["forking validators hold < 1/3 of the weight (generator enforces it; the reference reports any state only reachable otherwise)",
                 "events of a sealed epoch are no longer fed, as real callers do"],
    level_more='Unit TestC10Shapes runs the property on the large shapes (see C01).',
    units=[dict(test="TestC10Reference", quick=3000, thorough=200000, shards=16),
           # the rare large shapes (see DESIGN 3.1): 65-70 validators at the quorum margin, one huge block, mass forks
           dict(test="TestC10Shapes", quick=8, thorough=480, shards=16)],
)
