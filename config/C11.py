from config.common import NOTE_COMMON

CONFIG = dict(
    pkg="c11", level="exploration",
    technique="exhaustive enumeration of totals + rapid property tests against 64-bit reference arithmetic",
    level_text=("Every total 1..2^31-1 is enumerated in the thorough tier (one-validator set plus the boundary set "
                "{q-1,1,T-q} per total), which settles the quorum value and the counter's quorum boundary for every total; "
                "multi-validator sets, subset pairs and counting call sequences are sampled."),
    level_note=NOTE_COMMON + (" No source hook: totals are enumerated through ArrayToValidators. The code has no "
                              "WeightCounter.NumCounted in this version, so it is not exercised."),
    rule=("totals: thorough = all totals 1..2^31-1 split over 16 processes (exhaustive), quick = 1..2^22-1, the last 2^22 totals, "
          "windows of ±2^12 around 2^23..2^30, 2^32/3, 2^31/3, 2^32/6; per total a one-validator set and the set {q-1,1,T-q} "
          "whose counted prefixes weigh exactly quorum-1 and quorum. Oracle: 64-bit arithmetic, 3(Q-1) <= 2T < 3Q and "
          "Q = floor(2T/3)+1. sets/counter/limit: rapid-drawn sets of 1-8 validators with an exactly drawn total (small, 3k+r, "
          "near 2^31-1, near powers of two, uniform) split in modes random/boundary/third/twothirds/equal; every subset is "
          "counted through a fresh counter, all pairs of quorum-reaching subsets are intersected for <= 6 validators (drawn "
          "pairs for 7-8); counter sequences mix Count/CountByIdx with repeats; limit cases have 64-bit totals around 2^31 "
          "and 2^32. Non-trivial = some subset / counted sum weighs exactly quorum or quorum-1 (totals: the boundary set "
          "was checked; distinct keys are recorded for the sub-grid T % 4096 == 0 only, the class boundary_set_checked "
          "counts all of them); limit: total is exactly 2^31-1 or 2^31. Distinct by hash of IDs, weights (and calls)."),
    assumptions=[
        "Count is only called with IDs of members and CountByIdx with indexes < Len (every caller in the repository does so)",
        "weights are 32-bit values; the total of a set is the mathematical sum of its weights",
    ],
    level_more='At a drawn point of a counting sequence the Validators object the counter came from is refilled in place by RLP decoding. The next set may be derived from the current one before counting, and array-constructor inputs are overwritten by the caller afterwards.',
    units=[
        dict(test="TestC11Totals", kind="plain", shards=16, timeout_t=3000, gomaxprocs=1),
        dict(test="TestC11Sets", quick=40000, thorough=3200000, shards=16),
        dict(test="TestC11Counter", quick=60000, thorough=4800000, shards=16),
        dict(test="TestC11Limit", quick=50000, thorough=3200000, shards=16),
    ],
)
