from config.common import NOTE_COMMON

CONFIG = dict(
    pkg="c12", level="exploration",
    technique="rapid property tests against a map/sort model, RLP round trips and math/big reference scaling",
    level_text=("Validator sets are built from generated entry lists through every construction path and compared, observable "
                "by observable, with a sorted-pair model; big-stake builds are compared with math/big scaling."),
    level_note=NOTE_COMMON + (" 'Just enough' is read as: the smallest power of two 2^s such that floor(total stake / 2^s) <= 2^31-1 "
                              "(the class rounded_weights_would_fit_with_shift_minus_1 counts cases in which the rounded-down "
                              "weights alone would also have fitted with s-1)."),
    rule=("canonical: up to 12 Builder.Set operations over a pool of 1-8 IDs (weights 0, 1-3, a per-case tie value, tie+1, "
          "random up to 2^27; one case in 8 is filled to total 2^31-1), then the same final non-zero pairs in a second drawn "
          "order with stale/zero entries through Builder.Set / ArrayToValidators / a directly written builder map, Copy(), "
          "Builder(), mutation of the builders afterwards, RLP encode/decode of the set, of a struct holding it, and decode of "
          "the serialised pair list in the second order. Oracle: last-write-wins map without zeros, sorted by (weight desc, ID "
          "asc); every accessor is compared. Non-trivial = at least two members share a weight. big: 1-8 stakes in modes "
          "scaled (weights with total near 2^30..2^33 times 2^s plus noise, s <= 221), pow2total (total 2^p±3, p <= 256), free "
          "(1-256 random bits or exactly 2^256), small (total <= 2^32), floor_slack (total exactly 2^31*2^k with rounded-down "
          "weights summing to 2^31-1), plus overwritten, zero and nil stakes. Oracle: shift = number of halvings until the "
          "total stake is <= 2^31-1, weight = floor(stake / 2^shift), zero weights absent, no panic, order of stakes kept, "
          "input stakes unchanged. Non-trivial = shift > 0. Distinct by hash of the operation lists."),
    assumptions=[
        "stakes are non-negative big integers of at most 2^256 each",
        "the total weight of a set built through the plain builder is at most 2^31-1 (larger totals are rejected, see C11)",
    ],
    level_more='Encodings are also decoded into objects and struct fields that already hold another set. The equal-weight constructor is called with repeated IDs, and now and then a set of 6000-14000 validators (an encoding above 64 KiB) is round-tripped.',
    units=[
        dict(test="TestC12Canonical", quick=60000, thorough=6400000, shards=16),
        dict(test="TestC12Big", quick=60000, thorough=6400000, shards=16),
    ],
)
