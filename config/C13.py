from config.common import NOTE_COMMON

CONFIG = dict(
    pkg="c13", level="exploration",
    technique="rapid property test against a clause-by-clause predicate transcribed from the property text + native fuzzing (rapid.MakeFuzz)",
    level_text=("Events and their parent events are drawn from boundary classes of every numeric field (0, 1, 2, 2^31-3, "
                "2^31-2, 2^31-1, 2^32-1, small, mid), parents are made coherent with the child and then perturbed "
                "(duplicates, own-creator parent not first / missing / doubled, sequence and Lamport off by one, foreign "
                "epoch, non-validator creator); eventcheck.Checkers.Validate must accept exactly when the predicate holds."),
    level_note=NOTE_COMMON + " The parents handed to Validate are always the events named by e.Parents() (documented precondition).",
    rule=("Cases drawn by rapid: current epoch and validator set (1-5 of 10 ids incl. 0, 2^31, 2^32-1), event fields from "
          "boundary classes, 0-4 parents (coherent with the child in 85% of cases, free otherwise) and 0-2 perturbations. "
          "Oracle: 16 clauses of the statement evaluated on the drawn plain values in int64 arithmetic; accept iff none "
          "fails. Non-trivial = rejected case in which exactly one clause fails (lamport_zero and parents_present are "
          "counted with the one clause they imply); every clause has its own only_<clause> class and the run is reported "
          "inconclusive if one of them stays empty. Distinct by hash of the full case."),
    assumptions=["parents passed to Validate correspond one-to-one to e.Parents() (the checker panics otherwise by contract)",
                 "two parents are 'the same' iff they have the same event ID"],
    level_more="Setter order (parents before sequence number) and a next epoch's set derived from the current one before the check are drawn dimensions. In a third of the cases the node's validators object was RLP-decoded into twice.",
    units=[
        dict(test="TestC13Checkers", quick=50000, thorough=8000000, shards=16),
        dict(test="FuzzC13", kind="fuzz", fuzztime="60s", tiers=["thorough"]),
    ],
)
