from config.common import NOTE_COMMON

CONFIG = dict(
    pkg="c14", level="exploration",
    technique=("exhaustive enumeration of all push orders of small DAGs + rapid property test over push histories, "
               "checked against a history invariant and an independent reference model of the buffer"),
    level_text=("Every DAG shape over 3-4 labelled events (quick: 5 with exact limits and no failure; thorough: 5 fully, 6 with a reduced configuration list) and "
                "rapid-drawn DAGs with up to 6 (thorough 7) pushes are run under ALL arrival orders; larger histories "
                "(3-12 events, duplicates, omitted events, missing parents, interleaved Clear, outside connections, limit "
                "classes {0,1,exact-1,exact,ample}, failing Check/Process) are sampled with rapid-drawn orders. "
                "A quarter of the drawn cases (Perms, Random) and an extra configuration list of the enumeration (3-4 events, thorough 5: nothing fails / each "
                "single event failing Process or Check / one duplicate push) run against a buffer built WITHOUT a Released callback "
                "(Callback.Released == nil, supported by the buffer); the generator biases parents towards triangles (a parent of a parent) "
                "and, in a third of the failing cases, lets exactly one multi-parent event fail, so that a waiting event fails inside a nested cascade."),
    level_note=NOTE_COMMON + (" Sequential driver only (the concurrent case belongs to C28). The harness owns Exists/Get: an "
                              "event is connected once Process returned nil for it (or once the harness connected it outside the buffer)."),
    rule=("Evaluation = one (DAG, configuration) case; for TestC14Enum/TestC14Perms a case runs every arrival order of its "
          "pushes (classes orders_* count single histories), for TestC14Random it is one drawn history. Each pushed copy is its "
          "own wrapper object with its own peer string. Oracle per history: Process(e) only while all parents are connected; per "
          "copy at most one Process call and at most one Check call (Check is the first step of handing a copy to processing) and none after its Released; Released carries the copy's peer; every pushed copy "
          "released exactly once by every Clear; after every PushEvent Total() and the copies pushed-and-not-released stay "
          "within the limits (and agree); when the limits are >= the peak of an independent reference model and no callback "
          "fails, after every operation exactly the events the model connects were processed, each exactly once. Non-trivial = "
          "the order makes an event wait for >= 2 unconnected parents AND a Check/Process failure hits an event that was itself "
          "waiting in the buffer or has a descendant waiting there (the F2 witness shape); for all-orders cases: at least one "
          "order of the case is non-trivial. Distinct by hash of (events, operations, limits, released-callback yes/no). "
          "Without a Released callback the at-most-once Check/Process, parents-first, Total()-within-limits, empty-after-Clear and liveness clauses "
          "are judged; the release-accounting clauses cannot be observed (classes *without_released_callback; "
          "failure_of_waiting_event_in_nested_cascade = a callback fails for a waiting copy two of whose parents were connected during the same "
          "PushEvent, the later one a descendant of the earlier)."),
    assumptions=["TestC14Concurrent: the events of a parents-closed DAG are pushed from 2-4 goroutines (25 runs per drawn case, ample limits, nothing fails); only the completeness clause is judged there, per-copy clauses are judged by the sequential units and linearizability by C28", 
        "an event counts as connected exactly when the harness-owned Exists/Get say so (Process returned nil, or connected outside)",
        "callbacks are invoked synchronously by PushEvent/Clear (sequential driver)",
        "'limits suffice' = both limits are at least the peak number/bytes of events the reference model must keep waiting",
    ],
    units=[
        dict(test="TestC14Regression", kind="plain"),
        dict(test="TestC14Enum", kind="plain", shards=16),
        dict(test="TestC14Perms", quick=150, thorough=3200, shards=16),
        dict(test="TestC14Random", quick=20000, thorough=1600000, shards=16),
        dict(test="TestC14Concurrent", quick=1500, thorough=96000, shards=16),
        # harness-owned schedule: Clear() from another goroutine while the cascade of a push is held inside Check
        dict(test="TestC14ClearDuringCascade", quick=300, thorough=16000, shards=16),
    ],
)
