from config.common import NOTE_COMMON

CONFIG = dict(
    pkg="c15", level="exploration",
    technique=("rapid property test: generated batches and a harness-owned parentless-check schedule drive the real "
               "processor (its worker goroutines, the events semaphore, the ordering buffer); timeline monitor over the logged callbacks"),
    level_text=("1-4 batches (ordered/unordered, 1-8 events, duplicates across batches, Lamport times placed around the "
                "'too far ahead' boundary) over DAGs of 2-10 events are enqueued (some from their own goroutines) into a started "
                "processor; CheckParentless only stores the closure and the driver fires the closures in a drawn order, "
                "first interleaved with the Enqueue calls and then from 1-3 goroutines, with drawn check/process failures, "
                "semaphore capacity classes and buffer limit classes. Safety clauses are checked on the logged callback order."),
    level_note=NOTE_COMMON + (" Timing policy: the only real-time waits (arrival of a stored closure, return of Enqueue, the done "
                              "callbacks) have a 60 s deadline and make the case inconclusive, never a violation; whether an Enqueue "
                              "is accepted when the semaphore is short depends on timing and the oracle accepts both outcomes."),
    rule=("Evaluation = one generated case run against a fresh processor. Oracle: every copy of an accepted batch (Enqueue "
          "returned nil) is reported released exactly once by the end of Stop (never twice), with its batch's peer; "
          "DataSemaphore.Processing() <= capacity inside every callback and == 0 after Stop, the semaphore's inconsistency "
          "warning never fires; copies of an ordered batch reach the ordering buffer in batch order (first ID() call on the "
          "copy's wrapper, and first Exists query per event for events with a single copy); Process is never called for an event "
          "with Lamport > highest known (at that moment) + EventsBufferLimit.Num + 1, and a copy that passed its check and is "
          "not that far ahead of the initial highest Lamport reaches the buffer; Process only when all parents are connected, "
          "per copy at most once, never after its Released, never for a copy rejected by its parentless check; in clean runs "
          "(nothing fails, nothing refused, ample limits, constant highest Lamport) exactly the supplied events that are not too "
          "far ahead and whose ancestry is supplied and not too far ahead are processed, each exactly once, before the last done. "
          "Non-trivial = an accepted ordered batch whose checks completed out of batch order, or an accepted batch containing "
          "an event too far ahead. Distinct by hash of the whole case description."),
    assumptions=[
        "'accepted' = Enqueue returned nil (ErrBusy when the events semaphore cannot be acquired in time)",
        "the highest known Lamport time is what the harness-owned HighestLamport callback returns (constant, or the maximum over processed events); it never decreases",
        "an event is connected exactly when the harness-owned Exists/Get say so (Process returned nil)",
        "Lamport arithmetic of the rule does not overflow (highest and the buffer limit stay far below 2^31)",
        "MaxTasks is at least the number of batches (otherwise Enqueue itself blocks on the task queue until the checks complete)",
    ],
    units=[
        dict(test="TestC15Processor", quick=1500, thorough=160000, shards=16),
    ],
)
