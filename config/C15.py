from config.common import NOTE_COMMON

CONFIG = dict(
    pkg="c15", level="exploration",
    technique=("rapid property test: generated batches and a harness-owned parentless-check schedule drive the real "
               "processor (its worker goroutines, the events semaphore, the ordering buffer); timeline monitor over the logged callbacks"),
    level_text=("1-4 batches (ordered/unordered, 1-8 events, duplicates across batches, Lamport times placed around the "
                "'too far ahead' boundary) over DAGs of 2-10 events are enqueued (some from their own goroutines) into a started "
                "processor; CheckParentless only stores the closure and the driver fires the closures in a drawn order, "
                "first interleaved with the Enqueue calls and then from 1-3 goroutines, with drawn check/process failures, "
                "semaphore capacity classes and buffer limit classes. The highest known Lamport is constant, follows the processed "
                "events upwards, or follows a drawn schedule that also DECREASES (epoch switch: changes right before the Enqueue "
                "call of a batch or between two firings, drops by more/less than the buffer limit, rises). In a third of the cases "
                "Stop() overlaps the handling of the last batch: that batch (1-3 events, mostly ending with an event whose parent "
                "is never supplied) is enqueued after every other done, all its check closures are fired, the inserter is held "
                "inside the HighestLamport call for the copy handled last, Stop() is started from its own goroutine, and only then "
                "the inserter continues (the batch finishes, its done fires, Stop returns). "
                "Safety clauses are checked on the logged callback order. "
                "TestC15ShortLived (GOMAXPROCS=1): the same 1-3 batches (1-5 events: roots, children, events whose parent is never supplied, "
                "events too far ahead, failing checks/Process) are given to 8-24 FRESH processors each, and every processor is stopped right "
                "after its last Enqueue (drawn per processor: immediately / after one runtime.Gosched / after a 1-400 us sleep / Gosched "
                "between Start and the first Enqueue), typically before the worker goroutines spawned by Start() ran at all, so the batches "
                "are handled inside Stop() or cancelled by it. "
                "TestC15Burst: a burst of 2-16 batches (1-4 events: roots, children, copies of earlier events, events whose parent is never "
                "supplied, failing checks) is enqueued from 1-3 goroutines into a processor with Config.MaxTasks 1, 2, 4 or 128 while the "
                "processor is slow - the n-th CheckParentless call or the n-th HighestLamport call (the inserter) waits for a harness-owned "
                "gate, or the first calls sleep for drawn 20-200 us - so that the task queues are full when Enqueue is called (Enqueue then "
                "waits for room); the driver goroutine, which never calls Enqueue, opens the gate when the enqueuing goroutines stopped "
                "making progress, and everything drains; semaphore ample or smaller than the burst (0-3 ms timeout), Clear() before Stop() or not."),
    level_note=NOTE_COMMON + (" Timing policy: the only real-time waits (arrival of a stored closure, return of Enqueue, the done "
                              "callbacks) have a 60 s deadline and make the case inconclusive, never a violation; whether an Enqueue "
                              "is accepted when the semaphore is short depends on timing and the oracle accepts both outcomes."),
    rule=("Evaluation = one generated case run against a fresh processor. Oracle: every copy of an accepted batch (Enqueue "
          "returned nil) whose done was called is reported released exactly once by the time Stop has returned (never twice), "
          "with its batch's peer - also when Stop() was started while the last check result of the last batch was still being "
          "handled (every event of that batch went through the processor's handling and its done fired, so it is a finished "
          "batch); "
          "DataSemaphore.Processing() <= capacity inside every callback and == 0 after Stop, the semaphore's inconsistency "
          "warning never fires; copies of an ordered batch reach the ordering buffer in batch order (first ID() call on the "
          "copy's wrapper, and first Exists query per event for events with a single copy); Process is never called for a copy "
          "with Lamport > h + EventsBufferLimit.Num + 1 for EVERY value h the highest known Lamport had between the Enqueue call "
          "of the copy's batch and that Process call (without decreases: the value at that moment), and a copy that passed its "
          "check and has Lamport <= m + EventsBufferLimit.Num + 1, m = the minimum value the highest known Lamport had between "
          "the Enqueue call and the done of its batch, reaches the buffer; Process only when all parents are connected, "
          "per copy at most once, never after its Released, never for a copy rejected by its parentless check; in clean runs "
          "(nothing fails, nothing refused, ample limits, constant highest Lamport) exactly the supplied events that are not too "
          "far ahead and whose ancestry is supplied and not too far ahead are processed, each exactly once, before the last done. "
          "Non-trivial = an accepted ordered batch whose checks completed out of batch order, or an accepted batch containing "
          "an event too far ahead. Distinct by hash of the whole case description. "
          "TestC15ShortLived, per processor life (classes lives_*; one evaluation = one drawn set of batches with all its lives): every copy "
          "the processor handled (released at once, or handed to the ordering buffer: first ID() call on the copy's wrapper) is reported "
          "released exactly once by the time Stop() has returned, no callback of the processor (CheckParentless, HighestLamport, Exists, Get, "
          "CheckParents, Process, Released, done, notifyAnnounces) runs after Stop() has returned (observed for a bounded settle time: "
          "until the goroutine count is back at its value before Start(), at most 3 ms), the ordering buffer is empty after Stop(), and the "
          "semaphore is back at zero when every copy of every accepted batch was released; per copy at most one Process, parents first. "
          "Non-trivial there = in at least one life Stop() was called before any worker callback was seen and a copy that stayed incomplete in "
          "the buffer was released by the final Clear of that Stop(). "
          "TestC15Burst (evaluation = one burst against a fresh processor): every copy of a batch whose Enqueue returned nil is reported released "
          "exactly once by the time Stop() has returned (after Clear() already, when Clear() is called first); no copy of a batch whose Enqueue "
          "returned an error is ever handed to Process or reported released, and such a batch does not stay accounted in the semaphore: when every "
          "Enqueue call has returned and every accepted batch is done, Processing() equals the weight of the accepted copies not released yet, it is "
          "zero after Clear()/Stop(), and after Clear() the full capacity can be acquired again; Processing() <= capacity inside every callback, no "
          "inconsistency warning; per copy at most one Process, parents first. Non-trivial there = an Enqueue call that had already acquired its "
          "weight was seen waiting for room in a full task queue."),
    assumptions=[
        "'accepted' = Enqueue returned nil (ErrBusy when the events semaphore cannot be acquired in time)",
        "the highest known Lamport time is what the harness-owned HighestLamport callback returns (constant, the maximum over processed events, or a drawn schedule that may decrease); "
        "when it changes while a batch is in flight the processor may have seen any value of the window [Enqueue call of the batch, observation]: the 'never processed' clause is asserted "
        "against the maximum of that window (the event may have been admitted to the buffer under an older, higher value), the 'reaches the buffer' clause against its minimum",
        "'finished handling' = the batch's done callback was called after every event of the batch went through the processor's handling; a Stop() that begins before the inserter has "
        "taken every check result of a batch cancels that batch (done fires, unhandled events are never released - 'Stop interrupts the processor, canceling all the pending operations'): "
        "such cancelled batches are outside the property and are not generated; the overlap class starts Stop() only when the inserter already holds the last check result of the batch",
        "an event is connected exactly when the harness-owned Exists/Get say so (Process returned nil)",
        "Lamport arithmetic of the rule does not overflow (highest and the buffer limit stay far below 2^31)",
        "TestC15Processor/TestC15ShortLived: MaxTasks is at least the number of batches (otherwise Enqueue itself blocks on the task queue until the checks complete); "
        "TestC15Burst generates the other case and never waits for a blocked Enqueue call from the goroutine that opens the gate",
        "TestC15Burst: when a gate is opened (after the enqueuing goroutines made no progress for a bounded number of polls) only decides how full the task "
        "queues get, never a verdict; the processor is stopped only after every Enqueue call has returned and every accepted batch is done",
        "TestC15ShortLived: a batch enqueued right before Stop() may be cancelled by it (the checker or the inserter sees the closed quit channel first); "
        "events of such a batch that the inserter never took are never handled and never released, nothing is claimed for them (class lives_accepted_batch_cancelled_by_stop); "
        "'Stop waits until all the internal goroutines have finished' (doc of Processor.Stop) is taken as the guarantee that no callback runs after Stop() returned; "
        "the settle time after Stop() only decides how much is observed, a correct run is never judged by timing",
    ],
    units=[
        dict(test="TestC15Processor", quick=1500, thorough=160000, shards=16),
        dict(test="TestC15ShortLived", quick=1500, thorough=160000, shards=16, gomaxprocs=1),
        dict(test="TestC15Burst", quick=600, thorough=48000, shards=16),
    ],
)
