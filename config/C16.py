from config.common import NOTE_COMMON

CONFIG = dict(
    pkg="c16", level="exploration",
    technique="rapid-generated timed histories against a running fetcher (real clock, short timeouts); timeline monitor written from the property text",
    level_text=("Generated timed histories (2-3 peers with their own requester functions, 1-6 items, ArriveTimeout 30/60 ms, "
                "ForgetTimeout 5x/100x, announcements, suspension toggles, receipts, interest changes, pauses of 0..3 arrive "
                "timeouts) are played against the real fetcher; a timeline monitor checks every logged request and every "
                "announcement's deadline."),
    level_note=NOTE_COMMON + (" The fetcher uses the wall clock and its own goroutines. Clauses on logged order (S1, S2) are timing "
                              "independent; the 'stops shortly' and deadline clauses use the bound 4*ArriveTimeout + 1 s and are reported "
                              "only when the same history, re-run alone, re-fails three times in a row; a canary goroutine measures "
                              "scheduler delay and re-runs during which it overslept by more than 100 ms are not counted either way "
                              "(suspects that cannot be confirmed are counted inconclusive). Operations are issued one at "
                              "a time (marker round trips), because the fetcher's random select leaves the processing order of a "
                              "queued receipt and a queued announcement undefined. HashLimit is large: evictions are outside the "
                              "property. With ForgetTimeout = 5x the deadline clause is waived (the bound exceeds the forget timeout)."),
    rule=("One rapid case = 10 independent histories run concurrently, each on its own fetcher; evaluations count histories. A history "
          "is 2-15 operations drawn from three templates: everything is announced while suspended and idle, then the suspension ends (1/5); two "
          "item groups announced a little apart, the first group arrives, another peer announces the pending group later (2/5); free mix (2/5). "
          "Oracle: S1 request (p,x) preceded by an announcement of x by p; S2 preceded by an OnlyInterested call returning x; T1 no "
          "request to p for x later than the bound after x was reported received unless p announced it anew; T3 no request for x "
          "that has not been interesting during the last bound; T4 every announcement of an item that stays interesting and "
          "unreceived, with the item's first announcement younger than the forget timeout, is followed by a request for the item "
          "within 4*ArriveTimeout + 1 s after max(announcement, end of suspension). Non-trivial = an item announced by >= 2 peers "
          "that was requested at least twice (re-fetch), or an item announced while suspended whose suspension ended; distinct by "
          "hash of the generated history. Unit TestC16ManyPeers: 5-8 peers each announce their own item while the idle fetcher is "
          "suspended, then the suspension ends; T4 is checked with the tight bound 4*ArriveTimeout + 150 ms (runs whose canary overslept "
          "more than 37 ms are not counted; three re-fails required)."),
    assumptions=["announcement timestamps are time.Now() at the call",
                 "operations are issued one at a time; 40 marker round trips after NotifyReceived mean it was consumed (2^-40)",
                 "requests made while suspended are not forbidden by the property (the fetcher's re-fetch timer ignores Suspend)"],
    level_more='Units TestC16InterestFlip (every pending item uninteresting for longer than the bound, then interesting again without a new announcement; monitor rule T2) and TestC16ReceiptBurst (more receipts than MaxQueuedBatches while the loop is held inside a slow callback).',
    units=[
        dict(test="TestC16Regression", kind="plain"),
        dict(test="TestC16Timeline", quick=6, thorough=608, shards=16),
        dict(test="TestC16ManyPeers", quick=12, thorough=640, shards=16),
        # every pending item is uninteresting for longer than the bound, then interesting again without a new announcement (T2)
        dict(test="TestC16InterestFlip", quick=6, thorough=320, shards=16),
        # more receipts than MaxQueuedBatches while the loop is held inside a slow OnlyInterested callback (T1)
        dict(test="TestC16ReceiptBurst", quick=6, thorough=320, shards=16),
    ],
)
