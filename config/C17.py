from config.common import NOTE_COMMON

CONFIG = dict(
    pkg="c17", level="exploration",
    technique=("rapid-generated request/unregister histories against a running seeder, one operation at a time and with overlapping "
               "requests while SendChunk is held back; reference model of the session table and of the per-session item stream"),
    level_text=("Generated histories (1-3 peers, five session IDs per peer, integer item universe with gaps, request limits "
                "0/1/2/5/unlimited, 0..limit chunks, resumed sessions, unregistrations, held-back SendChunk) are replayed "
                "against the real seeder; after each operation the harness waits for quiescence and compares the responses "
                "with a session-table model written from the property text. A second unit overlaps requests: SendChunk of one or "
                "more peers is held back (per-peer gates, single calls let through) with 1-4 sender threads while further requests "
                "resume the same sessions or serve sessions of the same and of other (held-back or free) peers; only the reader "
                "loop is awaited between requests, responses are collected and checked when the gates are opened. A third unit injects send "
                "faults: a drawn subset of the peers is broken (every SendChunk returns an error) or flaky (a drawn subset of the sends of "
                "each request fails) with mostly small pending-memory limits, so that a handful of failed responses add up to the limit; "
                "all other sessions must still be served as the property states and the seeder's pending-memory counter must return to "
                "zero whenever nothing is pending."),
    level_note=NOTE_COMMON + (" The reader loop is asynchronous: TestC17Sessions issues operations one at a time and waits for a "
                              "sentinel request of a private peer to be reached (40 round trips after UnregisterPeer) and for the responses; "
                              "TestC17Pipelined waits for the reader loop only, so responses of several requests, sessions and peers overlap "
                              "in the sender queues, but requests are still submitted by one goroutine and unregistrations happen between "
                              "windows (all responses sent). The driver never lets the reader loop block while a gate is closed (a request is "
                              "issued only if its responses fit into one sender queue and under the pending limit, else the gates are opened "
                              "first); a 2 s stall would open the gates (never observed). The pending-memory clause is "
                              "bounded from outside (responses handed to the sender whose SendChunk has not returned), which is a "
                              "lower bound of the private counter; in addition the private counter BaseSeeder.pendingResponsesSize "
                              "itself is read (reflect + atomic load, observation point 'BaseSeeder pending size'): at every ForEachItem/SendChunk "
                              "entry it must be <= limit - 1 + largest response and >= the memory of the responses inside SendChunk at that "
                              "moment; when nothing is pending it must be 0, decided without timing (one sentinel response is pushed through "
                              "every sender thread first; a sender thread runs its tasks one after the other). If the reader loop stands still "
                              "because the counter stays at its limit for 10 s although SendChunk returned for every produced response, that is "
                              "reported (inconclusive if the canary saw the machine stall)."),
    rule=("One case = one history of 4-30 operations on a fresh seeder with drawn configuration (1-4 sender threads, sender queue "
          "1/4/64, pending limit 1/20/60/unbounded, response limits). Oracle: per peer at most three live sessions, the oldest is "
          "dropped only when a new session is opened while three are held, unregister clears; each session delivers the items of "
          "[start,stop) in order without gaps or repeats, exactly one Done when everything was delivered, nothing after Done, at "
          "most the requested number of chunks, each payload <= item limit + 1 and size limit + one item; selector mismatch -> one "
          "Misbehaviour and no response; MaxChunks above the configured limit -> ErrTooManyChunks; outstanding response memory <= "
          "limit - 1 + largest response. Non-trivial = a session that was served by at least two requests while its peer held "
          "three sessions; distinct by hash of universe, configuration and the full history with responses. "
          "TestC17Pipelined: one case = 1-4 windows of 3-10 requests on a fresh seeder (1-4 sender threads uniformly, sender queue "
          "4/16/64, pending limit 150/600/unbounded, 1-3 peers each held back with probability 0.65 per window, sentinel opening a new "
          "session per barrier or resuming one endless session, which varies the assignment of sessions to sender threads). Same "
          "model oracle per request (requests checked in issue order with the responses produced for them, attributed by the "
          "ForEachItem calls seen between two sentinels), plus: every produced response reaches SendChunk of its peer exactly once, and "
          "for each session the order in which SendChunk is CALLED (recorded at entry) equals the order in which its responses were "
          "produced, i.e. the items of the session arrive in order across requests. Non-trivial = a session is resumed and served by "
          "a request while at least two of its earlier responses have not been sent yet. "
          "TestC17SendFaults: the histories of TestC17Sessions with 1-3 peers of which at least one is broken (all sends fail) or flaky "
          "(each send of a request fails with probability 1/2, drawn), pending limit 1/20/40/60/100/150/400/unbounded. A response whose "
          "SendChunk returned an error still has to be the regular next response of its session; from then on its session only owes "
          "what holds under every reading of the property (consecutive items of the session, none that was already delivered, limits, "
          "Done only with the last items, nothing after a delivered Done). Every other session - of healthy peers and of the faulty "
          "peers themselves - gets the full oracle, including being served to its Done once enough chunks were requested, and after "
          "every request the pending counter must be back at zero. Non-trivial = a session without failed sends is served to its Done by "
          "a request issued after at least one send failed."),
    assumptions=["TestC17Sessions: requests are issued one at a time (quiescence between operations)",
                 "TestC17Pipelined: requests are submitted by one goroutine (their order in the request channel is the issue order); "
                 "calls of SendChunk for one session are serialized (one sender thread per session), so the order of call entries is well defined",
                 "SendChunk blocks only as long as the harness gate of its peer is closed and returns nil; sender queue and pending limit are "
                 "ample for what is queued while a gate is closed",
                 "a short pause (0.3 ms steps until no SendChunk call starts or ends) lets sender threads start the calls they can; it only "
                 "affects how much the scenarios overlap, never a verdict",
                 "ForEachItem is implemented the documented way (onKey before adding an item, onAppended after)",
                 "after UnregisterPeer, 40 sentinel round trips mean the unregistration was consumed (failure probability 2^-40)",
                 "TestC17SendFaults: a failing Peer.SendChunk returns promptly with an error (it does not block or panic); a response counts as "
                 "sent when SendChunk returned nil; the seeder is not required to retry, skip or abandon a session after a failed send",
                 "the pending counter is the int64 field BaseSeeder.pendingResponsesSize; if it cannot be located the counter clauses are skipped "
                 "and only the externally visible behaviour is checked"],
    units=[
        dict(test="TestC17Regression", kind="plain"),
        dict(test="TestC17Sessions", quick=200, thorough=32000, shards=16),
        dict(test="TestC17Pipelined", quick=150, thorough=16000, shards=16),
        dict(test="TestC17SendFaults", quick=150, thorough=16000, shards=16),
    ],
)
