from config.common import NOTE_COMMON

CONFIG = dict(
    pkg="c17", level="exploration",
    technique="rapid-generated request/unregister histories against a running seeder; reference model of the session table and of the per-session item stream",
    level_text=("Generated histories (1-3 peers, five session IDs per peer, integer item universe with gaps, request limits "
                "0/1/2/5/unlimited, 0..limit chunks, resumed sessions, unregistrations, held-back SendChunk) are replayed "
                "against the real seeder; after each operation the harness waits for quiescence and compares the responses "
                "with a session-table model written from the property text."),
    level_note=NOTE_COMMON + (" The reader loop is asynchronous: operations are issued one at a time and the harness waits for a "
                              "sentinel request of a private peer to be reached (40 round trips after UnregisterPeer), so overlapping "
                              "operations of different peers inside the seeder's queues are not explored. The pending-memory clause is "
                              "bounded from outside (responses handed to the sender whose SendChunk has not returned), which is a "
                              "lower bound of the private counter."),
    rule=("One case = one history of 4-30 operations on a fresh seeder with drawn configuration (1-3 sender threads, sender queue "
          "1/4/64, pending limit 1/20/60/unbounded, response limits). Oracle: per peer at most three live sessions, the oldest is "
          "dropped only when a new session is opened while three are held, unregister clears; each session delivers the items of "
          "[start,stop) in order without gaps or repeats, exactly one Done when everything was delivered, nothing after Done, at "
          "most the requested number of chunks, each payload <= item limit + 1 and size limit + one item; selector mismatch -> one "
          "Misbehaviour and no response; MaxChunks above the configured limit -> ErrTooManyChunks; outstanding response memory <= "
          "limit - 1 + largest response. Non-trivial = a session that was served by at least two requests while its peer held "
          "three sessions; distinct by hash of universe, configuration and the full history with responses."),
    assumptions=["requests are issued one at a time (quiescence between operations)",
                 "ForEachItem is implemented the documented way (onKey before adding an item, onAppended after)",
                 "after UnregisterPeer, 40 sentinel round trips mean the unregistration was consumed (failure probability 2^-40)"],
    units=[
        dict(test="TestC17Regression", kind="plain"),
        dict(test="TestC17Sessions", quick=200, thorough=32000, shards=16),
    ],
)
