from config.common import NOTE_COMMON

CONFIG = dict(
    pkg="c18", level="exploration",
    technique="rapid-generated driver histories against running leechers; oracle on the sequential callback log (peer leecher) and on an embedder-side session model (base leecher)",
    level_text=("Peer leecher: generated sequences of chunk notifications, processing progress, suspension toggles, done and pauses "
                "are played against a leecher with a 1 ms recheck interval; every callback is logged and the flow-control, suspension "
                "and done clauses are evaluated on that log. Base leecher: generated Register/Unregister/Routine/Terminate histories "
                "with embedder-style session callbacks, Routine driven directly under Mu and (half of the cases) by the ticker. "
                "Crowd unit: node-sized peer sets (peak of 16-40 registered peers) that are unregistered in waves down to few or zero "
                "peers and refilled, with ticks, session terminations and eligibility changes interleaved."),
    level_note=NOTE_COMMON + (" The leechers run on their own goroutines and the wall clock; the safety clauses are evaluated on logged "
                              "callback order (timing independent). 'Stops once done' is checked with a 3 s bound (nominal 1 ms), a "
                              "canary for scheduler delay and three re-fails before it is reported."),
    rule=("Peer leecher case = parallelism 1-4 and 3-25 driver actions (notify chunk, notify duplicate, mark processed, suspend, resume, "
          "done, pauses up to 4 ms), ended by done (3/4) or Terminate. Oracle on the callback log: at every RequestChunks the sum of "
          "requested chunks minus the chunks reported processed (each delivered chunk counted once) is <= parallelism and the request "
          "asks for >= 1 chunk; every RequestChunks is preceded in its routine by Done()->false and Suspend()->false; after Done()->true "
          "only Done() may be polled again, and the loop exits (Stopped() true). Non-trivial = a request issued after the window slid "
          "(some chunk was reported processed). Base leecher case = 1-4 peers, 3-30 operations, session peer picked from the candidates "
          "by pre-drawn indices. Oracle: no StartSession while a session runs, after Terminate returned, or with a candidate that is "
          "not registered; when UnregisterPeer(p) returns no session with p runs; without ticker the restart inside UnregisterPeer(p) "
          "must not offer p. Non-trivial = UnregisterPeer of the running session's peer (other peers present / none present). "
          "Crowd case (TestC18BaseLeecherCrowd) = peak of 16-40 peers, 1-3 cycles of a registration wave (first one up to the peak) and a wave "
      "of unregistrations (of the running session's peer or of the n-th registered peer, named at run time from the model) down to "
      "0-5 peers or a quarter/half of the level, 0-2 interleaved ticks/shouldTerminate/eligibility toggles/duplicate registrations/"
      "unknown-peer unregistrations per step, ticker in 1/3 of the cases; same oracle, and in all base leecher units: the session is "
      "started with a registered peer and, until Terminate, PeersNum() after every RegisterPeer/UnregisterPeer equals the number of "
      "registered peers of the model (an unregistered peer is no longer counted). "
      "Distinct by hash of the generated case."),
    assumptions=["Done() is monotone (an embedder never un-reports a finished download)",
                 "Terminate is called at most once per leecher (it closes Quit)",
                 "a request for zero chunks counts as a request issued while the window is full"],
    units=[
        dict(test="TestC18Regression", kind="plain"),
        dict(test="TestC18PeerLeecher", quick=500, thorough=80000, shards=16),
        dict(test="TestC18BaseLeecher", quick=500, thorough=80000, shards=16),
        dict(test="TestC18BaseLeecherCrowd", quick=300, thorough=32000, shards=16),
    ],
)
