from config.common import NOTE_COMMON

CONFIG = dict(
    pkg="c19", level="exploration",
    technique="rapid property test; result and a log of every strategy consultation checked against the clauses of the property text",
    level_text=("ChooseParents is run on drawn existing-parent lists, option lists with overlaps and duplicates over a "
                "10-id universe, and 0-6 strategies (drawn-rank strategy, MetricStrategy over a drawn metric table with "
                "zeros, ties and values above 2^32, RandomStrategy with a drawn seed); MetricStrategy.Choose is also called "
                "directly on drawn option lists."),
    level_note=NOTE_COMMON + " ChooseParents offers the remaining options in Go map-iteration order; the drawn-rank strategy picks by id order so results do not depend on it, metric ties and RandomStrategy picks do (every outcome must satisfy the clauses).",
    rule=("Cases drawn by rapid: 0-5 existing parents (distinct; 8% with one duplicate, where only added parents must be "
          "fresh), 0-16 options with repetition, 0-6 strategies. Oracle: result starts with the existing parents in order; "
          "#added == min(#strategies, |options minus existing|); every added parent is an option, not an earlier parent, and "
          "is the option its strategy (the i-th strategy for the i-th added parent, consulted exactly once) was offered and "
          "chose; a metric strategy's pick has the maximal table value among the options it was offered. Non-trivial = "
          "selection stopped early because options ran out, or a metric strategy faced a tie at the maximum or all-zero "
          "metrics; distinct by hash of (existing, options, strategies)."),
    assumptions=["MetricStrategy.Choose is only called with a non-empty option list (ChooseParents guarantees it)",
                 "existing parents are distinct except in the marked duplicate class"],
    level_more='In half of the cases the existing-parents list is a buffer with spare capacity and a second selection from the same buffer must not rewrite the first result.',
    units=[
        dict(test="TestC19ChooseParents", quick=50000, thorough=8000000, shards=16),
        dict(test="TestC19MetricChoose", quick=30000, thorough=1600000, shards=16),
    ],
)
