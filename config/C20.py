from config.common import NOTE_COMMON

CONFIG = dict(
    pkg="c20", level="exploration",
    technique="rapid property test; brute-force weighted median and plain metric sum computed from the property text, over a fake DagIndex and over the real vecfc index with graph-defined observations",
    level_text=("QuorumIndexer is driven through drawn histories of ProcessEvent calls (self/non-self) interleaved with "
                "queries. (a) a fake DagIndex returns drawn observation vectors (0, small, equal, large up to 2^31-3, fork "
                "markers); (b) the real vecfc index is filled with rapid-drawn DAGs of up to 24 events with forks, and the "
                "observations are recomputed from ancestor sets. GetGlobalMedianSeqs and GetMetricOf must equal the "
                "definition at every query."),
    level_note=NOTE_COMMON + " In domain (b) the observation vectors come from vecfc (property C06); the oracle recomputes them from the graph definition.",
    rule=("Cases drawn by rapid: 1-6 validators with weights from classes equal/small/skewed/huge(sum 2^31-1), a drawn diff "
          "function (position-sensitive wrapping hash, wrapping linear form, or the capped form of the repo test), the "
          "node's own validator, and a history of up to 12 (fake) / 24 (vecfc DAG events, 85% processed, 8% re-processing "
          "of an older event) ProcessEvent calls with queries after 25-35% of the steps and at the end. Oracle: median(v) = "
          "max{s among observations : 3*weight{i : obs_i(v) >= s} > 2*total}, a fork being +infinity and reported as "
          "MaxUint32/2-1, obs_i = vector of validator i's latest processed event (0 if none); metric(id) = wrapping sum "
          "over v of diff(median_v, selfObs_v, obs_id(v), v). Non-trivial = at some query a median is decided by a fork "
          "observation (it is the fork value or differs from the median with forks read as 0) or some validator has no "
          "processed event; distinct by hash of weights, node, diff function and history."),
    assumptions=["sequence numbers are below 2^31-2 (C13), so a fork marker is the maximal observation",
                 "ProcessEvent is called for events of current validators that the DagIndex knows",
                 "the self flag marks the node's own events (85% of fake cases: flag == creator is the node; 15%: free flags, 'own latest observation' = latest event flagged self)"],
    level_more='Now and then 2^8, 2^16 or 2^16+1 events are processed between two queries of a long-lived indexer.',
    units=[
        dict(test="TestC20FakeIndex", quick=10000, thorough=1600000, shards=16),
        dict(test="TestC20VecfcIndex", quick=6000, thorough=800000, shards=16),
    ],
)
