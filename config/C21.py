from config.common import NOTE_COMMON

CONFIG = dict(
    pkg="c21", level="exploration",
    technique="rapid property tests with a math/big oracle on true (non-saturating) time differences",
    level_text=("SyncedToEmit and DetectParallelInstance are evaluated on generated SyncStatus values whose timestamps are "
                "built from Unix seconds (+-2^55) and nanoseconds, including the zero time, timestamps equal to Now, at the "
                "threshold +-3 ns, and at and far beyond +-2^63 ns from Now where time.Time.Sub saturates; the results are "
                "compared with exact integer arithmetic."),
    level_note=NOTE_COMMON,
    rule=("Cases drawn by rapid: Now from 6 classes (present, Unix epoch, zero time, domain edge, uniform), six timestamps "
          "each from 11 classes placed relative to Now and the threshold, thresholds >= 0 from {0,1,..hours,MaxInt64,uniform}; "
          "negative thresholds (1 case in 5) only together with differences inside the int64 range (with a saturated "
          "difference the exact remaining time cannot be recovered from Sub). Oracle in math/big on Now-t computed from "
          "seconds and nanoseconds: permitted <=> peers != 0 and P2PSynced is not the zero time and all five differences "
          ">= threshold (checked as err == nil); otherwise err != nil, and when a timestamp is the cause wait == "
          "min(MaxInt64, longest remaining) > 0 (for the no-peer / not-synced exits only err != nil is required). "
          "DetectParallelInstance <=> created >= startup and Now-created < threshold. Non-trivial (SyncedToEmit) = the "
          "timestamp clauses are reached and (some difference lies outside the int64 range or two timestamps violate with "
          "different remaining times); non-trivial (parallel instance) = created within 1 ns of startup, or Now-created "
          "within 3 ns of the threshold, or Now-created outside the int64 range; distinct by case hash."),
    assumptions=["time.Unix / time.Time.Sub of the Go standard library are trusted (Sub saturates exactly at the int64 range "
                 "for timestamps within +-2^55 s)",
                 "PeersNum is never negative (it is a count)"],
    units=[
        dict(test="TestC21SyncedToEmit", quick=100000, thorough=12000000, shards=16),
        dict(test="TestC21ParallelInstance", quick=100000, thorough=4000000, shards=16),
        dict(test="TestC21Regression", kind="plain"),
    ],
)
