from config.common import NOTE_COMMON

CONFIG = dict(
    pkg="c22", level="exploration",
    technique="rapid state-machine test (t.Repeat) against a two-layer reference model + native fuzzing of the same property",
    level_text=("Operation histories over flushable.Wrap(memorydb) and flushable.NewLazy are drawn by rapid from a small colliding "
                "key alphabet and compared, after every operation, with an independent two-layer model (underlying map + overlay "
                "of puts and tombstones); the thorough tier adds 16 differently seeded processes and a coverage-guided fuzz campaign. "
            "Iterator handles are part of the history: iterators of the store, of its snapshots and of a second independent "
            "flushable store are kept open, released early or when exhausted, and released AGAIN at any later point while other "
            "iterators are live and are stepped and compared with the model afterwards."),
    level_note=NOTE_COMMON,
    rule=("A case is one history (about 50 actions: put, delete, batch put/delete/write/reset/replay, get/has, iterate(prefix,start), "
          "snapshot take/read/iterate/release, iterators kept open across later operations, flush, drop-not-flushed, direct writes to "
          "the underlying store, lazy initialisation) over keys of length 0-3 from bytes {00,01,7f,fe,ff}, values of length 0-2 and "
          "nil/empty/non-empty prefixes and start keys. After every action: NotFlushedPairs == distinct keys written since the last "
          "flush/drop, full iteration and Get/Has of every relevant key equal the model, the underlying store equals its model "
          "(changes only on Flush). Fresh iterators and snapshot reads must equal the model exactly; an iterator that is used after "
          "a later write/flush/drop only has to be strictly ascending, inside its prefix/start and to report values the key really "
          "had since the iterator was created. Non-trivial = the history contains an iteration whose range includes an underlying "
          "key shadowed by a tombstone, or a snapshot read after a later flush; distinct by hash of the operation history. "
      "Released iterators (exhausted or released early) stay in the history and are released again (second, third ... Release, as the "
      "kvdb.Iterator contract allows) at drawn later points, while up to four other iterators - of the store, of snapshots, of a second "
      "independent flushable store with fixed content (part flushed, part overlay) - are open; those must keep enumerating exactly what "
      "the model says (class rerelease_of_old_iterator_while_another_is_live_and_later_stepped), and both stores must read as their "
      "models at the end."),
    assumptions=[
        "a lazy flushable store's underlying store is the always-empty placeholder until its first Flush/InitUnderlyingDb, "
        "and the produced database from then on",
        "keys and values passed to the store are non-nil (Flushable.Put rejects nil)",
        "iterators kept open across later writes are only promised the weak contract stated in the rule (the property text does "
        "not promise snapshot isolation for them)",
    ],
    units=[
        dict(test="TestC22", quick=20000, thorough=1600000, shards=16, steps=50),
        dict(test="FuzzC22", kind="fuzz", fuzztime="60s", tiers=["thorough"]),
    ],
)
