from config.common import NOTE_COMMON

CONFIG = dict(
    pkg="c23", level="exploration",
    technique="rapid state-machine test (t.Repeat) of backend/wrapper stackings against one ordered-map model, side-by-side runs, native fuzzing",
    level_text=("Operation histories are drawn by rapid over a small colliding key alphabet and run on a stack of 0-3 wrappers "
                "(table(prefix), flushable, synced in any order) over memorydb, LevelDB or Pebble (tmpfs directories), for about half "
                "of the cases on a second, independently drawn stack side by side; every store is compared with one ordered byte-string "
                "map model after every action. The thorough tier adds 16 differently seeded processes per backend and a "
                "coverage-guided fuzz campaign."),
    level_note=NOTE_COMMON,
    rule=("A case is one history (about 40 actions: put, delete, batch put/delete/replay/write+reset/reset, get/has, "
          "iterate(prefix,start), two interleaved iterators, snapshot take/read/release, flush of all flushable layers, "
          "close+reopen of disk backends) over non-nil keys of length 0-3 from bytes {00,01,7f,fe,ff}, non-nil values of length "
          "0-2 and nil/empty/non-empty prefixes and start keys, on a drawn backend/wrapper stack whose backend also holds "
          "neighbour keys outside the table prefix. After every action full iteration and Get/Has (present key: non-nil equal "
          "value, absent key: nil) equal the model on every stack; replay delivers the batch's ops in order with un-prefixed keys; "
          "snapshots stay frozen; after flushing/reopening the backend holds exactly prefix+model plus the neighbour keys. "
          "Non-trivial = the history iterates with a prefix ending in 0xff and a non-empty start key on a disk backend; distinct by "
          "hash of stack description and operation history."),
    assumptions=[
        "keys and values are non-nil (the property quantifies over non-nil keys and values); empty keys and empty values are included "
        "because no backend documents a restriction on them",
        "a batch is Reset after Write before it is used again (documented reuse protocol; Pebble forbids re-applying a batch)",
        "iterators and snapshots are released before a database is closed; flushable layers are flushed before close",
        "the nokeyiserr wrapper is not part of the property and is excluded",
    ],
    units=[
        dict(test="TestC23Memory", quick=6000, thorough=160000, shards=16, steps=40),
        dict(test="TestC23LevelDB", quick=3000, thorough=80000, shards=16, steps=40),
        dict(test="TestC23Pebble", quick=3000, thorough=80000, shards=16, steps=40),
        dict(test="FuzzC23", kind="fuzz", fuzztime="60s", tiers=["thorough"]),
    ],
)
