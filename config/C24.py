from config.common import NOTE_COMMON

CONFIG = dict(
    pkg="c24", level="exploration",
    technique="rapid state-machine test (t.Repeat) of 1-3 tables over a recording store against a filtered/stripped view of one map model, enumeration of whole-table compaction ranges, native fuzzing",
    level_text=("Histories through one to three tables (root-level or nested, with prefixes that extend, shorten, neighbour or equal "
                "one another, incl. empty, 0x00.. and 0xff.. prefixes) and directly on the underlying store are drawn by rapid; the "
                "underlying store is seeded with the neighbours of every table's key space first. After every action the underlying "
                "store equals the model map and every table reads as the model's keys that start with its prefix, with the prefix "
                "removed. Whole-table compaction ranges are additionally enumerated for all short prefixes, root and nested."),
    level_note=NOTE_COMMON,
    rule=("A case is one history (about 40 actions: put, delete, get/has, iterate(prefix,start), batch put/delete/replay/write+reset/"
          "reset, snapshot take/read/release through a drawn table, direct puts/deletes on the underlying store, Compact(nil,nil) and "
          "Compact(start,limit)) over keys of length 0-3 from bytes {00,01,7f,fe,ff}. The underlying store is a memorydb that "
          "records Compact calls, pre-filled with p-1, p+1 (with carry), p itself, p shortened, p extended for each table prefix p. "
          "Oracle: table view == {k[len(p):] : k in underlying, HasPrefix(k,p)} for reads, iterations, snapshots; a write through a "
          "table changes only underlying key p+k (the whole underlying content is compared after every action); replay delivers the "
          "un-prefixed keys in order; a recorded compaction range [s,l) of Compact(nil,nil) has s <= p and (l == nil or l > p and "
          "not HasPrefix(l,p)); Compact(start,limit) must cover [p+start, p+limit). Non-trivial = an operation goes through a table "
          "whose effective prefix ends in 0xff, or through a nested table, while keys of the neighbouring key spaces p-1 / p+1 are "
          "present underneath; distinct by hash of table layout and history. The enumeration unit covers every prefix of length "
          "0-1 and every prefix of length 2-3 over the alphabet, alone and as (outer, inner) pairs. "
          "A batch is also written without Reset (write_keep) and written again after the same keys were changed through the table or the "
          "underlying store (the model re-applies every operation queued since the last Reset, which is what the memorydb/flushable "
          "batch under the tables does), and a third of the cases pad table prefixes to 4-40 bytes and draw keys of 30-70 bytes so "
          "that prefix+key ends at or around 32, 64 and 128 bytes, for root and nested tables."),
    assumptions=[
        "keys and values are non-nil",
        "a batch's Write() re-applies every operation queued since the last Reset() (flushable/memorydb and leveldb batches do)",
        "Compact(start,limit) with explicit bounds is required to cover the prefixed range (the property text only speaks about "
        "whole-table compaction; this reading holds trivially for the current code)",
    ],
    level_more='Unit TestC24Migrate: tables handed out by MigrateTables for anonymous, run-time made and same-named function-local struct types.',
    units=[
        dict(test="TestC24", quick=12000, thorough=1600000, shards=16, steps=40),
        dict(test="TestC24CompactPrefixes", kind="plain"),
        # tables handed out by MigrateTables for anonymous, run-time made and (same-named function-local) named structs
        dict(test="TestC24Migrate", quick=2000, thorough=160000, shards=16),
        dict(test="FuzzC24", kind="fuzz", fuzztime="60s", tiers=["thorough"]),
    ],
)
