from config.common import NOTE_COMMON

CONFIG = dict(
    pkg="c25", level="fault_enumeration",
    technique=("rapid-generated multi-session histories over a durable-operation recorder (crashlog); every prefix of the "
               "recorded log is replayed into fresh stores and restarted (exhaustive crash-point enumeration per history)"),
    level_text=("For each generated history (1-3 sessions of open/put/delete/batch/drop/reopen/Flush over flushable.SyncedPool "
                "and over flaggedproducer.Wrap, both on the crashlog producer; for the pool also steps 'Flush || (puts; Drop of an open "
                "database) by a second goroutine', where the harness owns the schedule: the k-th operation of the flush on the "
                "underlying store of another database - Close/Drop inside the close-and-drop loop, marker put, data batch - blocks on a "
                "gate until the second goroutine has finished, k drawn, or the drop is issued right before/after the flush) EVERY prefix of the durable-operation log "
                "(create, put, delete, atomic batch write, drop records) is taken as a crash point: a fresh producer stack is "
                "started over the replayed state, Initialize(surviving names, nil) is called and its answer is compared with "
                "snapshots taken when each Flush returned. Crash points are enumerated completely per history; histories are sampled. "
                "Unit TestC25RepeatedFlushIDs draws the flush ids from a tiny alphabet (nil, empty, 'A', 'B', the id of the previous flush, a unique id), "
                "so that consecutive flushes often carry equal ids and the marks of two flushes cannot be told apart; the other units use unique ids."),
    level_note=NOTE_COMMON + (" Fault model: a crash loses exactly a suffix of the ordered durable operations; a batch Write is "
                              "atomic (LevelDB/Pebble batch semantics); torn single writes and reordering between databases are not modelled."),
    rule=("Oracle (DESIGN.md §4 C25, weak 'surviving databases' reading): a restart that returns an error (dirty / not synced / "
          "non-initialised) is accepted; a nil flush id requires all surviving stores to be empty; a flush id must be the id of a "
          "completed Flush(N) and every surviving store must equal the raw snapshot S_N[name] taken when Flush(N) returned "
          "(marker keys included in the comparison; stores unknown to S_N must be empty); sanity: a restart exactly at the end "
          "of a completed flush with >= 1 surviving database must return that flush's id. Independently of the snapshots the "
          "harness keeps the caller's own record of dropped names: a restart that reports Flush(N) without error must find every "
          "database whose Drop() had returned before Flush(N) was called (and that was not opened again) absent or empty; a Drop() "
          "issued by another goroutine while Flush(N) runs is concurrent with it (either order is accepted for N: the snapshot "
          "decides) and binds from Flush(N+1) on. "
          "Flush ids are not assumed unique: at crash point p only the latest flush that had returned at p and the flush running at p are reportable, "
          "the returned id must be the id of one of them and ALL databases must match the snapshot of ONE such flush with that id "
          "(a flush called after p, or one superseded by a later completed flush, is never accepted on the strength of an equal id); "
          "a database that held data at the reported flush may be missing only if the log has a drop record for it after that flush "
          "(a dropped database need not reappear, any other must exist). evaluations = crash points checked. "
          "Non-trivial = crash point strictly inside a flush (after its first marker record, not after its last one) that "
          "marked >= 2 databases; distinct by hash of (variant, log, p)."),
    assumptions=[
        "a crash preserves a prefix of the globally ordered durable operations (single process, synchronous writes)",
        "a batch Write is atomic; batch writes without operations have no durable effect and are not crash points",
        "flush ids are opaque byte strings, possibly nil, empty or repeated (unit TestC25RepeatedFlushIDs); callers do not use a store after dropping it, and with SyncedPool reopen a dropped name only after the next Flush "
        "(after the next Flush that was called after Drop() returned, for a drop that overlapped a flush)",
        "while a SyncedPool.Flush runs, other goroutines only write to and Close+Drop pool databases (OpenDB/Flush/Close of the pool are serialised by the caller)",
        "'every database' in the property is read as 'every surviving database' (DESIGN.md §4 C25): a database dropped after the reported flush need not reappear; "
        "a database that held data at the reported flush and has no drop record after it must exist",
    ],
    units=[
        dict(test="TestC25CrashPoints", quick=1300, thorough=200000, shards=16, env={"GOGC": "400"}),
        dict(test="TestC25DropRacesFlush", quick=400, thorough=60000, shards=16, env={"GOGC": "400"}),
        dict(test="TestC25RepeatedFlushIDs", quick=800, thorough=100000, shards=16, env={"GOGC": "400"}),
    ],
)
