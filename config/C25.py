from config.common import NOTE_COMMON

CONFIG = dict(
    pkg="c25", level="fault_enumeration",
    technique=("rapid-generated multi-session histories over a durable-operation recorder (crashlog); every prefix of the "
               "recorded log is replayed into fresh stores and restarted (exhaustive crash-point enumeration per history)"),
    level_text=("For each generated history (1-3 sessions of open/put/delete/batch/drop/reopen/Flush over flushable.SyncedPool "
                "and over flaggedproducer.Wrap, both on the crashlog producer) EVERY prefix of the durable-operation log "
                "(create, put, delete, atomic batch write, drop records) is taken as a crash point: a fresh producer stack is "
                "started over the replayed state, Initialize(surviving names, nil) is called and its answer is compared with "
                "snapshots taken when each Flush returned. Crash points are enumerated completely per history; histories are sampled."),
    level_note=NOTE_COMMON + (" Fault model: a crash loses exactly a suffix of the ordered durable operations; a batch Write is "
                              "atomic (LevelDB/Pebble batch semantics); torn single writes and reordering between databases are not modelled."),
    rule=("Oracle (DESIGN.md §4 C25, weak 'surviving databases' reading): a restart that returns an error (dirty / not synced / "
          "non-initialised) is accepted; a nil flush id requires all surviving stores to be empty; a flush id must be the id of a "
          "completed Flush(N) and every surviving store must equal the raw snapshot S_N[name] taken when Flush(N) returned "
          "(marker keys included in the comparison; stores unknown to S_N must be empty); sanity: a restart exactly at the end "
          "of a completed flush with >= 1 surviving database must return that flush's id. evaluations = crash points checked. "
          "Non-trivial = crash point strictly inside a flush (after its first marker record, not after its last one) that "
          "marked >= 2 databases; distinct by hash of (variant, log, p)."),
    assumptions=[
        "a crash preserves a prefix of the globally ordered durable operations (single process, synchronous writes)",
        "a batch Write is atomic; batch writes without operations have no durable effect and are not crash points",
        "callers use unique flush ids, do not use a store after dropping it, and with SyncedPool reopen a dropped name only after the next Flush",
        "'every database' in the property is read as 'every surviving database' (DESIGN.md §4 C25)",
    ],
    units=[
        dict(test="TestC25CrashPoints", quick=1500, thorough=240000, shards=16, env={"GOGC": "400"}),
    ],
)
