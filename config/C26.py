from config.common import NOTE_COMMON

CONFIG = dict(
    pkg="c26", level="exploration",
    technique=("rapid property test: generated routing tables, open/drop histories before and after a restart and mutated tables "
               "against a record-keeping model of the requests currently recorded per database (successful opens minus dropped "
               "databases), behavioural marker-key isolation checks and a determinism relation "
               "over 24 freshly constructed producers; native fuzzing (rapid.MakeFuzz) over template/request strings"),
    level_text=("Routing tables (default route, exact routes with nested paths, %d/%s pattern routes with one and two ops, "
                "overlapping patterns, tables from a small alphabet) over flaggedproducer/plain producers are sampled together "
                "with two request histories with repeats (before and after a restart over the same databases) in which a step may "
                "Close+Drop the database of the request just opened (NoDrop and droppable routes, databases shared by several "
                "requests, re-open with the same producer and after the restart), a mutated table probed with Verify() right "
                "after the restart and another one at the end; at a drawn point of either history the caller may change, in place, the map "
                "object it had passed to NewProducer (routes deleted, retargeted to another type/name/table, exact and pattern routes "
                "added, everything but a default route removed; the producers map and the records key, which the producer shares with "
                "its caller, are not touched); a second unit and "
                "a 60 s native fuzz campaign draw arbitrary template/request strings."),
    level_note=NOTE_COMMON,
    rule=("Oracle: RouteOf equal across repeated calls, before/after opens and across 24 producers freshly built from the same "
          "table; the model keeps the requests currently recorded per (type,name): a successful open records the request, "
          "Close+Drop of a store of a route without NoDrop removes the records (and data) of every request of that database, "
          "Drop through a NoDrop route changes nothing. OpenDB refused exactly when the model holds, at that time, a prefix-related "
          "table of another request in the same (type,name) (or the type has no producer), so a request is accepted again in a "
          "re-created database; a newly recorded request starts with an empty store, a dropped database holds no keys; marker "
          "keys written through one store are invisible through every other store and sit in the raw backend database under "
          "(type,name,table) that RouteOf names; reopen on the same and on a restarted producer reads the marker back (after the "
          "restart every recorded request is re-opened, in an order independent of the first history); Verify() with the "
          "unchanged table passes; Verify() of a (mutated) table, right after the restart and at the end, fails exactly when "
          "some currently recorded request is routed to a different type, name or table, and when it passes every recorded "
          "request is still reachable. A producer works on the configuration it was constructed with: after the caller changed the "
          "map object it had passed to NewProducer, RouteOf of the running producer is unchanged for every request of the case and "
          "the history continues against the model built from the original table (re-open reaches the same database and table, "
          "conflicts refused as before, Verify() of the running first and restarted producer passes). Requests whose table is a non-empty prefix of a metadata key are skipped (precondition of "
          "the property). Non-trivial = two recorded requests share a database, or a request is matched by >= 2 pattern routes, "
          "or a mutated table moves a recorded request, or the caller's changed map would route a request of the case differently; "
          "distinct by hash of (table, both histories, backends, mutated tables, step log). "
          "Classes: history_with_drop (a database was really dropped), drop_then_reopen_same_producer, restart_after_drop, "
          "restart_after_drop_and_reopen, drop_after_restart, drop_removes_records_of_2plus_requests, "
          "drop_on_nodrop_route_is_noop, overlap_with_dropped_record_accepted, caller_map_changed_first_run / _after_restart "
          "(the map handed to NewProducer was changed during that history), caller_map_change_would_move_a_request (a fresh "
          "producer over the changed map routes a request of the case differently; _exact_only_table: the original table has no "
          "pattern routes); restart_probe_* = Verify() outcome of the "
          "mutated table probed right after the restart."),
    assumptions=[
        "tables that are non-empty prefixes of the table-records key or of the flush-id key are excluded (property precondition)",
        "the expected Verify() answer uses RouteOf of the new producer for 'would now be routed' (RouteOf itself is checked for determinism)",
        "a database is dropped only through Close()+Drop() of a store returned by OpenDB, after every other store of the same (type,name) handed out by the producer was closed (a store of another request that is still open when its database is dropped is a caller error and is not generated); closed stores are never used again, the requests are re-opened",
        "Drop through a store whose route has NoDrop is a no-op (data and records stay); Drop through any other store drops the whole (type,name) database, also for requests of that database whose own route has NoDrop",
        "underlying producers are flaggedproducer over memorydb, flaggedproducer over a persistent logging store and that store directly; all support drop and re-creation of a database; a restart closes all stores and the producer (memorydb producers are not closed: a memorydb loses its content on Close)",
    ],
    units=[
        dict(test="TestC26Routing", quick=2500, thorough=480000, shards=16, env={"GOGC": "400"}),
        dict(test="TestC26RoutingWild", quick=1500, thorough=160000, shards=16, env={"GOGC": "400"}),
        dict(test="FuzzC26", kind="fuzz", fuzztime="60s", tiers=["thorough"]),
    ],
)
