from config.common import NOTE_COMMON

CONFIG = dict(
    pkg="c26", level="exploration",
    technique=("rapid property test: generated routing tables, request sequences, restarts and mutated tables against a "
               "record-keeping model of successful opens, behavioural marker-key isolation checks and a determinism relation "
               "over 24 freshly constructed producers; native fuzzing (rapid.MakeFuzz) over template/request strings"),
    level_text=("Routing tables (default route, exact routes with nested paths, %d/%s pattern routes with one and two ops, "
                "overlapping patterns, tables from a small alphabet) over flaggedproducer/plain producers are sampled together "
                "with request sequences with repeats, a restart over the same databases and a mutated table; a second unit and "
                "a 60 s native fuzz campaign draw arbitrary template/request strings."),
    level_note=NOTE_COMMON,
    rule=("Oracle: RouteOf equal across repeated calls, before/after opens and across 24 producers freshly built from the same "
          "table; OpenDB refused exactly when the harness' own record of successful opens has a prefix-related table of another "
          "request in the same (type,name) (or the type has no producer); marker keys written through one store are invisible "
          "through every other store and sit in the raw backend database under (type,name,table) that RouteOf names; reopen on "
          "the same and on a restarted producer reads the marker back; Verify() fails exactly when some recorded request is "
          "routed to a different type, name or table by the (mutated) table, and when it passes every recorded request is still "
          "reachable. Requests whose table is a non-empty prefix of a metadata key are skipped (precondition of the property). "
          "Non-trivial = two recorded requests share a database, or a request is matched by >= 2 pattern routes, or the mutated "
          "table moves a recorded request; distinct by hash of (table, requests, backends, mutated table)."),
    assumptions=[
        "tables that are non-empty prefixes of the table-records key or of the flush-id key are excluded (property precondition)",
        "the expected Verify() answer uses RouteOf of the new producer for 'would now be routed' (RouteOf itself is checked for determinism)",
        "databases are not dropped between the opens and Verify()",
    ],
    units=[
        dict(test="TestC26Routing", quick=2500, thorough=480000, shards=16, env={"GOGC": "400"}),
        dict(test="TestC26RoutingWild", quick=1500, thorough=160000, shards=16, env={"GOGC": "400"}),
        dict(test="FuzzC26", kind="fuzz", fuzztime="60s", tiers=["thorough"]),
    ],
)
