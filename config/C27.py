from config.common import NOTE_COMMON

CONFIG = dict(
    pkg="c27", level="exploration",
    technique="rapid t.Repeat state machine over a counting fake producer, checked against a reference-counter model",
    level_text=("Histories of open / close / over-close / drop (plus a put/get probe) over 1-3 database names are run through "
                "cachedproducer.Wrap and cachedproducer.WrapAll on top of a fake producer (memorydb stores) that counts "
                "underlying OpenDB / Close / Drop calls and, like a real backend, refuses to open a database twice; after "
                "every step the observations are compared with a per-name reference counter."),
    level_note=NOTE_COMMON,
    rule=("Histories drawn by rapid t.Repeat (about 40 steps) from the actions open(name), open of a name that is already open, "
          "close, over-close, drop, put+get, for Wrap or WrapAll (drawn) and 1-3 names. Only histories a caller may "
          "legitimately produce: close/over-close/drop are issued on the handle returned by the latest group of opens of the "
          "name (never on a stale handle after the name was re-opened), and Drop is only issued once every open of the name "
          "has been closed (the wrapper forwards the first Drop unconditionally and the flushable/leveldb/pebble/memorydb "
          "stores panic on Drop before Close); Drop may be repeated. Oracle (reference counter per name): an open while "
          "count > 0 returns the identical store; exactly one underlying database is open while count > 0 and none while "
          "count == 0; the close that brings the count to 0 makes exactly one underlying Close call, other closes none; no "
          "underlying store is closed twice; a close at count 0 returns an error and makes no underlying call; underlying "
          "Drop calls <= 1 since the last open and <= number of opens. Non-trivial = a history in which some name had >= 2 "
          "overlapping opens and, after they were all closed, was closed once more; distinct by history hash. "
          "Injected fault closeFails: the last Close of a name reaches an underlying Close that returns an error; the open is "
          "consumed all the same and the failed call is the one underlying close (no retry, whether the caller sees the error is "
          "not judged), so a further Close must be refused without an underlying call and a re-open must get a fresh database. "
          "TestC27ConcurrentFirstOpens: 2-3 goroutines are held at a gate inside the underlying OpenDB of one uncached name "
          "(first open or re-open after a full close, permissive or exclusive backend), released one by one, 0-2 later opens, "
          "closes in a drawn order plus a drawn over-close: every Close of a successful open succeeds, no underlying Close before "
          "the last one, the last one makes exactly one, no holder writes to a closed database, the over-close is an error."),
    assumptions=["TestC27ConcurrentDrops: after every holder closed the shared store, 2-4 holders drop it at the same time over an underlying store whose Drop takes 50-400 microseconds (10 runs per case); only the drop/close counts are judged there", "an OpenDB call whose underlying open fails (injected fault) is not an open for the reference count, but counts as an open attempt for the bound of one underlying drop per open (weaker reading)", "single-threaded histories apart from the harness-owned schedules (races are the subject of C28)",
                 "TestC27ConcurrentFirstOpens does not require racing first opens to get the identical store nor every underlying database they created to be closed (the code opens one per racing caller and closes only one of them); the 5 s bound while waiting for the goroutines to arrive at the gate only shapes the schedule, no verdict depends on it",
                 "stale handles (of a name that was fully closed and opened again) are not used any more"],
    level_more='Unit TestC27OpenDuringSlowClose: harness-owned schedule, opens of a name while its last Close is held inside a slow underlying Close.',
    units=[
        dict(test="TestC27", quick=20000, thorough=3200000, shards=16, steps=40),
        dict(test="TestC27Regression", kind="plain"),
        dict(test="TestC27ConcurrentDrops", quick=60, thorough=3200, shards=16),
        # harness-owned schedule: opens of a name while its last Close is held inside a slow underlying Close
        dict(test="TestC27OpenDuringSlowClose", quick=200, thorough=3200, shards=16),
        # harness-owned schedule: 2-3 first opens of one uncached name held together inside the underlying OpenDB
        dict(test="TestC27ConcurrentFirstOpens", quick=400, thorough=6400, shards=16),
    ],
)
