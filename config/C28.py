from config.common import NOTE_COMMON

CONFIG = dict(
    pkg="c28", level="exploration",
    technique=("rapid-generated concurrent programs (2-8 goroutines, <= 40 operations, drawn Gosched/spin/sleep perturbation, "
               "GOMAXPROCS in {2,4,16}) under the Go race detector; call/return-stamped histories checked with porcupine "
               "against hand-written sequential models"),
    level_text=("Sampled schedules only: each case runs one concurrent program once under whatever interleaving the Go scheduler "
                "and the machine produce. A data race is reported when the race detector sees two unsynchronised accesses "
                "(happens-before based, so it does not need the accesses to collide in time); a linearizability violation is "
                "reported only when the recorded history admits no sequential order, which needs the offending interleaving to "
                "actually occur."),
    level_note=NOTE_COMMON + (" The race detector and porcupine v1.3.0 are trusted. Histories are stamped with CLOCK_MONOTONIC "
                              "readings (no shared atomic, so the harness adds no happens-before edges between program goroutines); "
                              "porcupine's timeout result (Unknown) is counted as inconclusive, never as a violation."),
    rule=("One rapid case = initial state built sequentially (checked against the model step by step) + 2-8 concurrent programs "
          "over all public operations of the component + a final sequential read-out that is part of the checked history. "
          "Checked for linearizability: wlru.Cache - all 15 operations incl. eviction callbacks; DataSemaphore - TryAcquire, "
          "Acquire (timeout 0 and 0.2-3 ms, outcome modelled as a try at its last attempt), Release (incl. the over-release "
          "warning), Processing, Available, Terminate; Flushable - Put (also nil key/value), Delete, Get, Has, Flush, "
          "DropNotFlushed, NotFlushedPairs, NotFlushedSizeEst, GetSnapshot (whole snapshot content), Close and the closed check "
          "of NewIterator (in 'closing' cases restricted to operations defined on a closed store), each entry of a Batch.Write "
          "as its own operation inside the Write interval (documented as not atomic); SyncedPool - OpenDB, Names, Flush (head + "
          "one atomic flush per database), NotFlushedSizeEst (sum of per-database reads), Get/Has through GetUnderlying stores "
          "(atomic w.r.t. a whole pool Flush), and all handle operations incl. Drop/Close/GetSnapshot; EventsBuffer - PushEvent "
          "and Clear with their return value, processed events and released copies (attributed to the call by goroutine), "
          "IsBuffered and Total; TestC28BufferMidPushRead builds the overlap deterministically (a second goroutine reads from "
          "inside a Process callback of a running PushEvent). Known finding C28:buffer-total-isbuffered-overlap-push: while "
          "that key is listed, an IsBuffered/Total call that overlaps a PushEvent/Clear of another goroutine is excluded "
          "from the porcupine history (counted in excluded_known) and only checked for a weaker contract (consistent "
          "(count,size) snapshot of pushed, unconnected events); without the key every call is in the history. "
          "Weaker contracts only: iterators concurrent with writers (ascending keys in range, only values ever stored under "
          "the key, keys no program writes listed exactly). Race detection only: Flushable.Stat/Compact. Non-trivial = the recorded "
          "history contains two operations of different goroutines that overlap in time and touch the same key/resource; "
          "distinct by program hash. The per-unit 'extra' carries the overlapping op-pair coverage matrix (overlap:A|B)."),
    assumptions=[
        "SyncedPool.Initialize (start-up) and SyncedPool.Close (shutdown) are life-cycle calls executed single-threaded by every caller; "
        "they are run in the sequential phases only (Initialize touches the wrapper map without the pool lock, Close takes no lock)",
        "a store or pool handle is not used after Close/Drop of that store by anybody (Put/NotFlushedPairs on a closed Flushable dereference nil); "
        "a pool database is dropped only by the goroutine that alone uses it",
        "the flush-ID key of the pool is reserved: programs do not read or write it through handles",
        "wlru.Resize is called with a non-negative size (NewWithEvict rejects a negative one)",
        "memorydb's fake file system (test helper, deletes from its map without its lock on Drop) is replaced by a locked producer",
        "CLOCK_MONOTONIC readings taken on different cores are mutually consistent (kernel guarantee)",
    ],
    units=[
        dict(test="TestC28Flushable", quick=1500, thorough=40000, shards=16, race=True, shrinktime="3s"),
        dict(test="TestC28Pool", quick=1500, thorough=40000, shards=16, race=True, shrinktime="3s"),
        dict(test="TestC28Wlru", quick=2500, thorough=80000, shards=16, race=True, shrinktime="3s"),
        dict(test="TestC28Semaphore", quick=2500, thorough=80000, shards=16, race=True, shrinktime="3s"),
        # listed before TestC28Buffer so that the KNOWN-FINDING line carries its (real) witness
        dict(test="TestC28BufferMidPushRead", quick=400, thorough=32000, shards=16, race=True, shrinktime="3s"),
        dict(test="TestC28Buffer", quick=2500, thorough=80000, shards=16, race=True, shrinktime="3s"),
    ],
)
