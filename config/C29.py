from config.common import NOTE_COMMON

CONFIG = dict(
    pkg="c29", level="exploration",
    technique="rapid state machine (t.Repeat) over simplewlru and wlru in lock step against a list model; native fuzzing of the same property",
    level_text=("Random operation histories (add, get, peek, contains, remove, remove-oldest, get-oldest, resize, purge, "
                "contains-or-add, peek-or-add) over 5 keys, maxSize 0-4, maxWeight 0-6 and weights 0..maxWeight+2 are applied to "
                "both caches and to an oldest->newest list model written from the property text; after every operation the "
                "bounds, Keys(), Len/Weight/Total, the return values and the eviction-callback log of that operation are compared."),
    level_note=NOTE_COMMON,
    rule=("Histories drawn by rapid's t.Repeat (60 steps nominal) from the 11 operations with drawn keys (5 values of mixed "
          "type), weights 0..maxWeight+2 and resizes to maxSize 0-4 / maxWeight 0-6; one of the two caches is built without "
          "callback in 1/4 of the cases. Oracle: list model with evict-oldest-until-within-bounds; per operation the callback "
          "log must equal the model's removals (in least-recently-used order; as a multiset for Purge), return values and "
          "Keys()/Len/Weight/Total must equal the model, Len<=maxSize and Weight<=maxWeight. Non-trivial = history that "
          "contains an add (or contains-or-add / peek-or-add) that evicts at least two entries or evicts the added entry "
          "itself; distinct by hash of bounds and the operation sequence."),
    assumptions=["Resize is only called with non-negative bounds (the constructors reject negative sizes)",
                 "GetOldest does not change recency (its doc comment describes a pure read)",
                 "Add/Resize/ContainsOrAdd/PeekOrAdd return the number of evicted entries (named result 'evicted int')"],
    level_more='One stored value in six is the nil interface. The caller overwrites every list Keys() returned; one case in eight uses no weight limit bounds.',
    units=[
        dict(test="TestC29Model", quick=20000, thorough=3200000, shards=16, steps=60),
        dict(test="FuzzC29", kind="fuzz", fuzztime="60s", tiers=["thorough"]),
    ],
)
