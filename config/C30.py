from config.common import NOTE_COMMON

CONFIG = dict(
    pkg="c30", level="exploration",
    technique=("rapid property tests: sequential histories against a counter model, and blocking scenarios with real goroutines "
               "judged from recorded time stamps (exact ordering conditions; real-time bounds only for 'returns shortly after')"),
    level_text=("Sequential histories of try/acquire/release/terminate over capacities (0-4 events, 0-8 bytes) are compared with a "
                "counter model (results, Processing(), Available(), exactly one warning per over-release). Blocking scenarios start "
                "one or two goroutines in Acquire (timeouts 5-40 ms, zero/negative, or one hour where the caller must return for "
                "another reason) while the test releases enough, too little, nothing, or terminates; each waiter's result and "
                "return time are judged from time stamps."),
    level_note=NOTE_COMMON + (" Deadline clauses depend on real time: bounds are 10x the nominal timeout plus 1 s, a canary goroutine "
                              "marks a case inconclusive when it overslept more than 100 ms, a suspected deadline violation or a caller "
                              "still blocked 2 s after its timeout (detected by the harness' own watchdog, then unblocked with "
                              "Terminate+Release) is reported only after the same case failed 4 times in a row."),
    rule=("Sequential: 1-25 operations drawn by rapid, amounts relative to the model state (raw, exactly the available amount, one "
          "more than available, a fitting part, all held, one more than held, values up to 2^20/2^30); Acquire is only drawn with "
          "a timeout whose outcome is fixed without other goroutines (fits / above capacity / after terminate: any timeout up to "
          "1 h; otherwise <= 4 ms and the result must be false no earlier than the timeout). Blocking: six scenario kinds "
          "(never release, release enough, release too little, terminate, above capacity, fits at once), optional second waiter "
          "with an arbitrary request, action delay 0-8 ms. A seventh kind releases more than is held while a waiter is blocked (over-release: "
          "one warning, held reset to zero, the waiter must be granted within the 'as soon as' bound), and where a timeout means 'no limit' it "
          "is drawn from one hour, MaxInt64 ns, MaxInt64/2 ns and 290 years. Oracle: counter model; refused within capacity => returned no earlier "
          "than its timeout and the request did not fit the final held amount unless the release ended after its deadline; granted "
          "=> fitted (and not before the enabling release was called); above capacity => refused; final Processing() equals held - "
          "released + granted <= capacity; no spurious warnings. Non-trivial = sequential history with an over-release; blocking "
          "scenario in which a waiter had to wait with no enabling release (timed out with a positive timeout, or was unblocked by "
          "Terminate); distinct by hash of the drawn case."),
    assumptions=["amounts stay far below the uint32/uint64 overflow of held+request (real callers pass event counts and byte sizes)",
                 "the result of an empty request after Terminate is not specified by the property and is not judged",
                 "Available() is judged only before Terminate (capacity minus held)",
                 "time stamps of different goroutines come from Go's monotonic clock"],
    level_more='Unit TestC30TwoDeadlines: two callers blocked at once with deadlines 1.6-1.8 s apart and no release. Practically never timeouts include MaxInt64 and 290 years; scenario kind over_release.',
    units=[
        dict(test="TestC30Sequential", quick=3000, thorough=160000, shards=16, shrinktime="2s"),
        dict(test="TestC30Timed", quick=200, thorough=6400, shards=16, shrinktime="1s"),
        dict(test="TestC30SecondWaiterFits", quick=4, thorough=96, shards=16, shrinktime="1s"),
        dict(test="TestC30SteadyReleases", quick=20, thorough=640, shards=16, shrinktime="1s"),
        # two callers blocked at once whose deadlines are 1.6-1.8 s apart, nothing released: each returns after its own timeout
        dict(test="TestC30TwoDeadlines", quick=4, thorough=96, shards=16, shrinktime="1s"),
        dict(test="TestC30Regression", kind="plain"),
    ],
)
