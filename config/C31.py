from config.common import NOTE_COMMON

CONFIG = dict(
    pkg="c31", level="exploration",
    technique="rapid property test with a math/big oracle + native fuzz target (rapid.MakeFuzz) over the same property",
    level_text=("piecefunc.NewFunc is called on generated dot lists (valid ones with 2-6 dots and coordinates biased to 0..50, "
                "the top of the supported range and powers of ten; invalid ones derived from them) and the resulting function "
                "is evaluated at every dot and at drawn x values (inside segments, next to dots, 0, MaxUint64, uniform); "
                "results are compared with exact big-integer interpolation bounds."),
    level_note=NOTE_COMMON + " The native fuzz campaign (thorough tier) cannot be pinned to a seed; its reproducible unit is the saved input.",
    rule=("Dot lists drawn by rapid: 2-6 dots, strictly increasing X, coordinates from {0..50, maxVal-50..maxVal, uniform "
          "0..maxVal, 0..10^7, m*10^p+-3} with maxVal = MaxUint64/10^6-1 = 18446744073708 (piecefunc.go); one case in five is "
          "made invalid (no/one dot, equal X, decreasing X, X or Y in maxVal+1..MaxUint64) and must make NewFunc panic. For a "
          "valid list neither NewFunc nor the function may panic; f(X_i) == Y_i for every dot; x = 0, x = MaxUint64 and 1-6 drawn "
          "x are checked: first/last Y outside the dots, and inside a segment result <= max(Y), result >= min(Y)-1 and "
          "|result*dX - (y0*dX + dY*(x-x0))|*10^6 <= (|dY| + 2*10^6)*dX in math/big. Non-trivial = valid list with an "
          "evaluated x strictly inside a segment where dX does not divide 10^6*(x-x0) (the ratio is rounded); invalid "
          "lists are counted as evaluations but not as non-trivial; distinct by hash of (dots, xs)."),
    assumptions=["the supported coordinate range is 0..MaxUint64/10^6-1 as defined in piecefunc.go (the property text does not give the number)"],
    level_more='One table in six has 7-70 dots, all of which (and a point of every piece) are evaluated. The dot list is part of a longer caller table that must not change; a fifth of the tables have power-of-two gaps.',
    units=[
        dict(test="TestC31", quick=100000, thorough=16000000, shards=16),
        dict(test="TestC31Constants", kind="plain"),
        dict(test="FuzzC31", kind="fuzz", fuzztime="60s", tiers=["thorough"]),
    ],
)
