from config.common import NOTE_COMMON

CONFIG = dict(
    pkg="c32", level="exploration",
    technique="exhaustive enumeration (16/32-bit) + rapid property test with hand-written reference encoders",
    level_text=("All 16-bit and (thorough) all 32-bit values are enumerated against a reference encoder and neighbour-order "
                "check, which settles those widths completely; 64-bit values, idx types and event IDs are sampled with "
                "boundary-biased pairs."),
    level_note=NOTE_COMMON,
    rule=("16-bit values enumerated completely; 32-bit values enumerated completely in the thorough tier "
          "(16 shards) and over boundary windows in quick; 64-bit pairs and event-ID pairs drawn by rapid from "
          "boundary-biased generators. Oracle: hand-written shift encoders, numeric comparison. Non-trivial = "
          "neighbour pair with a carry into a higher byte (enumerations), pair differing only in the highest or only "
          "in the lowest byte (64-bit pairs), ID pair whose order is decided by Lamport or where epoch and Lamport "
          "order disagree (event IDs); distinct by value hash."),
    assumptions=["bytes.Compare is the byte-wise order meant by the property"],
    level_more='Units TestC32Sort (0-5000 IDs through ByEpochAndLamport: ordered and a permutation) and TestC32Concurrent (2-8 goroutines encoding at the same time). Kept bytes are decoded twice and must stay unchanged; decoders given longer slices read the leading bytes.',
    units=[
        dict(test="TestC32Enum16", kind="plain"),
        dict(test="TestC32Enum32", kind="plain", shards=16),
        dict(test="TestC32Pairs", quick=200000, thorough=16000000, shards=16),
        dict(test="TestC32EventIDs", quick=100000, thorough=8000000, shards=16),
        # slices of 0-5000 IDs (every remainder modulo 4 and 8 above a thousand) through the repository's sorter
        dict(test="TestC32Sort", quick=300, thorough=16000, shards=16),
        # 2-8 goroutines encode index values at the same time and decode them afterwards
        dict(test="TestC32Concurrent", quick=300, thorough=16000, shards=16),
    ],
)
