from config.common import NOTE_COMMON

CONFIG = dict(
    pkg="c33", level="exploration",
    technique="rapid state machine (t.Repeat) over abft.Store root registration, queries and epoch switches with drawn cache sizes; set model per frame",
    level_text=("A consensus store opened through Orderer.Bootstrap with root-cache sizes drawn from {0,1,2,3,50}^2 receives drawn histories of "
                "AddRoot (a root may cover several frames, several roots per validator and frame), GetFrameRoots for hit, miss and empty frames, "
                "and epoch switches through Orderer.Reset; every query is compared, in both directions and without duplicates, with a map "
                "model, and every frame of a new epoch must be empty."),
    level_note=NOTE_COMMON,
    rule=("Case = cache sizes + operation history (rapid default ~30 steps). Non-trivial = a root was appended to a frame that had already "
          "been queried (cached), or a frame was queried again while the cache is too small to keep all frames; distinct by history hash. "
          "The harness keeps the slices returned by earlier queries (the last four and every fifth one, with a copy of what they showed) and "
          "re-reads their first len() elements after every later query, registration and epoch switch: a returned list must not change."),
    assumptions=["every registered root event has a distinct ID (real callers register an event once)"],
    level_more='Frames with up to 130+ roots registered in a row and root caches of 101, 250 and 1000 entries are included. Slices returned by earlier GetFrameRoots calls are kept and re-read after later operations.',
    units=[dict(test="TestC33Roots", quick=5000, thorough=320000, shards=16)],
)
