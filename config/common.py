NOTE_COMMON = ("Trusted base: the Go toolchain, rapid's generators, and the oracle code in /verif/harness (written from the "
               "property text). Sampling/enumeration over the stated domain; absence beyond the explored cases is not established.")
