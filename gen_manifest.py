#!/usr/bin/env python3
"""Regenerate MANIFEST.json from checks_config.py (single source of truth for the driver)."""
import json, os, sys
sys.path.insert(0, os.path.dirname(os.path.abspath(__file__)))
from checks_config import PROPS, NOT_APPLICABLE, HOOK_COMMITS

ids = [json.loads(l)["id"] for l in open("/verif/properties.jsonl")]
checks = []
for pid in ids:
    if pid not in PROPS:
        continue
    try:
        c = PROPS[pid]
    except Exception as e:
        print("gen_manifest: config/%s.py is broken: %r" % (pid, e))
        sys.exit(1)
    checks.append(dict(
        property_id=pid,
        quick_cmd="./check %s quick" % pid,
        thorough_cmd="./check %s thorough" % pid,
        evidence_file="/verif/evidence/%s.json" % pid,
        replay_cmd_template="./check %s --replay {path}" % pid,
        engine="harness",
        level_claimed=dict(category=c.get("level", "exploration"), text=c["level_text"] + (" " + c["level_more"] if c.get("level_more") else ""), design_ref=c.get("design_ref", "DESIGN.md §4 " + pid)),
        level_note=c["level_note"],
        technique=c["technique"],
    ))
na = [dict(property_id=p, reason=r) for p, r in NOT_APPLICABLE.items()]
for pid in ids:
    if pid not in PROPS and pid not in NOT_APPLICABLE:
        na.append(dict(property_id=pid, reason="check not built yet in this session (planned, see DESIGN.md §4)"))
m = dict(
    version=1,
    setup_cmd="./check --setup",
    hooks=dict(
        guard="verif",
        enable="no source hooks are needed: every check drives exported API of /repo through the harness module's replace directive (go test in /verif/harness)",
        baseline_off_cmd="cd /repo && go test -vet=off -count=1 -timeout 25m ./...",
        source_commits=HOOK_COMMITS,
        add_only=True,
    ),
    engines=[dict(name="harness", path="/verif/harness", serves_properties=[c["property_id"] for c in checks],
                  kind_free_text="Go test module (pgregory.net/rapid v1.3.0 property tests, exhaustive enumerators, porcupine history checker, native go fuzz targets) driven by /verif/check")],
    checks=checks,
    not_applicable=na,
    notes="All checks: exit 0 held / 1 VIOLATION line / 2 inconclusive-infrastructure. VERIF_SEED selects the rapid seeds. Known findings and fixed defects: /verif/known_findings.txt.",
)
json.dump(m, open("/verif/MANIFEST.json", "w"), indent=1)
print("MANIFEST.json: %d checks, %d not_applicable" % (len(checks), len(na)))
