// C01: order-independent agreement on blocks.
package c01

import (
	"fmt"
	"os"
	"reflect"
	"testing"

	"github.com/Fantom-foundation/lachesis-base/inter/idx"
	"pgregory.net/rapid"

	"verif/harness/internal/cons"
	"verif/harness/internal/dagen"
	"verif/harness/internal/scen"
	"verif/harness/internal/stats"
)

func TestMain(m *testing.M) {
	code := m.Run()
	stats.Flush()
	os.Exit(code)
}

var st = stats.New("agreement")

func prop(t *rapid.T) { propWith(t, "") }

// propShapes runs the same property on the rare large shapes: 65-70 validators, a block confirming several
// hundred events, a validator with 66-70 same-sequence events.
func propShapes(t *rapid.T) {
	propWith(t, dagen.DrawShape(t, "many_validators"))
}

func propWith(t *rapid.T, shape string) {
	sc := dagen.GenScenario(t, 3, dagen.Params{MinEvents: 30, MaxEvents: 120, Forks: dagen.MinorityFork, NonMaxFrames: true, Shape: shape})
	for _, p := range sc.Epochs {
		if p.Elect.Broken != "" {
			t.Fatalf("reference met a >=1/3-Byzantine state although forkers hold < 1/3: %s", p.Elect.Broken)
		}
	}
	nInst := rapid.IntRange(2, 3).Draw(t, "instances")
	cfgs := cons.Configs()
	// in half of the cases the events' frames are the ones a generator node assigns with Build (as real nodes
	// do) instead of the reference's; identical on a correct implementation
	builtFrames := rapid.Bool().Draw(t, "framesAssignedByBuild")
	if builtFrames {
		if err := scen.RebuildWithBuiltFrames(sc, cfgs[rapid.IntRange(0, len(cfgs)-1).Draw(t, "cfgGenerator")]); err != nil {
			t.Fatalf("%v\n%v", err, scen.DescribeScenario(sc))
		}
	}
	type instState struct {
		in       *cons.Instance
		startEp  int // index of the first epoch this instance takes part in
		viaReset bool
	}
	insts := make([]*instState, nInst)
	for j := range insts {
		cfg := cfgs[rapid.IntRange(0, len(cfgs)-1).Draw(t, fmt.Sprintf("cfg%d", j))]
		in, err := cons.New(cons.NewEvents(), cfg, idx.Epoch(sc.FirstEpoch), sc.Epochs[0].Ref.Validators(), scen.SealFn(sc))
		if err != nil {
			t.Fatalf("bootstrap: %v", err)
		}
		insts[j] = &instState{in: in}
		if j > 0 && len(sc.Epochs) > 1 && rapid.IntRange(0, 3).Draw(t, fmt.Sprintf("reset%d", j)) == 0 {
			insts[j].startEp = rapid.IntRange(1, len(sc.Epochs)-1).Draw(t, fmt.Sprintf("resetTo%d", j))
			insts[j].viaReset = true
		}
	}
	ordersDiffer, totalBlocks, forkPairs, resets, partitions := false, 0, 0, 0, 0
	for k, plan := range sc.Epochs {
		ref := plan.Ref
		forkPairs += plan.Info.ForkPairs
		partitions += plan.Info.Partitions
		var blocks0 []string
		var state0 string
		creation := make([]int, len(ref.Evs))
		for i := range creation {
			creation[i] = i
		}
		for j, is := range insts {
			if k < is.startEp {
				continue
			}
			in := is.in
			if is.viaReset && k == is.startEp {
				if err := in.L.Reset(idx.Epoch(ref.Epoch), ref.Validators()); err != nil {
					t.Fatalf("Reset: %v", err)
				}
				resets++
			}
			if in.Store.GetEpoch() != idx.Epoch(ref.Epoch) {
				t.Fatalf("instance %d is in epoch %d at the start of epoch %d\n%v", j, in.Store.GetEpoch(), ref.Epoch, scen.DescribeScenario(sc))
			}
			order := creation
			if j > 0 {
				order = dagen.GenOrder(t, ref, fmt.Sprintf("ep%d.inst%d", k, j))
				if !reflect.DeepEqual(order, creation) {
					ordersDiffer = true
				}
			}
			nb := len(in.Blocks)
			res := scen.FeedEpoch(in, ref, order, nil)
			if res.Err != nil {
				t.Fatalf("instance %d epoch %d: Process(e%d) = %v (order %v)\n%v", j, ref.Epoch, res.ErrAt, res.Err, order, scen.DescribeScenario(sc))
			}
			if len(in.Crits) > 0 {
				t.Fatalf("instance %d epoch %d: crit %v (order %v)\n%v", j, ref.Epoch, in.Crits, order, scen.DescribeScenario(sc))
			}
			blocks := scen.BlocksKey(in.Blocks[nb:])
			state := in.StateString()
			if blocks0 == nil {
				blocks0, state0 = blocks, state
				if blocks0 == nil {
					blocks0 = []string{}
				}
				totalBlocks += len(blocks)
				continue
			}
			if !reflect.DeepEqual(append([]string{}, blocks...), append([]string{}, blocks0...)) {
				t.Fatalf("epoch %d: instance %d emitted different blocks than the first instance of this epoch\n got  %v\n want %v\n order %v\n%v",
					ref.Epoch, j, blocks, blocks0, order, scen.DescribeScenario(sc))
			}
			if state != state0 {
				t.Fatalf("epoch %d: instance %d ends in state %q, the first instance in %q\n%v", ref.Epoch, j, state, state0, scen.DescribeScenario(sc))
			}
		}
		if plan.SealAt > 0 && k+1 < len(sc.Epochs) {
			// every instance must have moved to the next epoch with exactly the returned set
			want := fmt.Sprintf("epoch=%d validators=%s lastDecided=0", ref.Epoch+1, scen.NextValidators(plan).String())
			if state0 != want {
				t.Fatalf("epoch %d sealed at frame %d: state %q, want %q", ref.Epoch, plan.SealAt, state0, want)
			}
		}
	}
	classes := []string{fmt.Sprintf("epochs_%d", len(sc.Epochs)), fmt.Sprintf("instances_%d", nInst), "weights_" + sc.Epochs[0].Info.WeightClass}
	if forkPairs > 0 {
		classes = append(classes, "with_forks")
	}
	if partitions > 0 {
		classes = append(classes, "with_partition")
	}
	if resets > 0 {
		classes = append(classes, "with_reset_instance")
	}
	if ordersDiffer {
		classes = append(classes, "orders_differ")
	}
	if builtFrames {
		classes = append(classes, "frames_assigned_by_build")
	}
	if sh := sc.Epochs[0].Info.Shape; sh != "" {
		classes = append(classes, "shape_"+sh)
	}
	st.Case(stats.Hash(scen.DescribeScenario(sc)), totalBlocks >= 2 && ordersDiffer, classes...)
	st.Class("blocks", int64(totalBlocks))
	st.Sample(func() interface{} {
		return map[string]interface{}{"scenario": scen.DescribeScenario(sc), "instances": nInst, "blocks": totalBlocks}
	})
}

func TestC01Agreement(t *testing.T) { rapid.Check(t, prop) }

func TestC01Shapes(t *testing.T) { rapid.Check(t, propShapes) }
