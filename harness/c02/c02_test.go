// C02: each block delivers exactly the new ancestry of its Atropos.
package c02

import (
	"fmt"
	"os"
	"testing"

	"github.com/Fantom-foundation/lachesis-base/inter/idx"
	"pgregory.net/rapid"

	"verif/harness/internal/cons"
	"verif/harness/internal/dagen"
	"verif/harness/internal/scen"
	"verif/harness/internal/stats"
)

func TestMain(m *testing.M) {
	code := m.Run()
	stats.Flush()
	os.Exit(code)
}

var st = stats.New("delivery")

func prop(t *rapid.T) { propWith(t, "") }

// propShapes: the same property on the rare large shapes (65-70 validators, one block confirming several hundred
// events, 66-70 same-sequence events of one validator).
func propShapes(t *rapid.T) { propWith(t, dagen.DrawShape(t, "late_quorum")) }

func propWith(t *rapid.T, shape string) {
	sc := dagen.GenScenario(t, 2, dagen.Params{MinEvents: 30, MaxEvents: 130, Forks: dagen.MinorityFork, NonMaxFrames: true, LongEpochs: true, Shape: shape})
	cfgs := cons.Configs()
	cfg := cfgs[rapid.IntRange(0, len(cfgs)-1).Draw(t, "cfg")]
	in, err := cons.New(cons.NewEvents(), cfg, idx.Epoch(sc.FirstEpoch), sc.Epochs[0].Ref.Validators(), scen.SealFn(sc))
	if err != nil {
		t.Fatalf("bootstrap: %v", err)
	}
	nontrivialBlocks, totalBlocks, forkPairs := 0, 0, 0
	sameEpochResets := 0
	for k, plan := range sc.Epochs {
		ref := plan.Ref
		forkPairs += plan.Info.ForkPairs
		order := dagen.GenOrder(t, ref, fmt.Sprintf("ep%d", k))
		if rapid.IntRange(0, 3).Draw(t, "restartSameEpoch") == 0 {
			// the instance processes a part of the epoch, is Reset to the very same epoch and starts over with
			// another order: deliveries of the abandoned attempt must not count for the new one
			first := dagen.GenOrder(t, ref, fmt.Sprintf("ep%d.abandoned", k))
			part := rapid.IntRange(1, len(first)).Draw(t, "abandonedPrefix")
			if res := scen.FeedEpoch(in, ref, first[:part], nil); res.Err != nil || len(in.Crits) > 0 {
				t.Fatalf("epoch %d (abandoned attempt): Process(e%d) = %v, crit %v\n%v", ref.Epoch, res.ErrAt, res.Err, in.Crits, scen.DescribeScenario(sc))
			}
			// (if the abandoned attempt already sealed the epoch, this goes back to it explicitly)
			if err := in.L.Reset(idx.Epoch(ref.Epoch), ref.Validators()); err != nil {
				t.Fatalf("Reset to epoch %d: %v", ref.Epoch, err)
			}
			sameEpochResets++
		}
		nb := len(in.Blocks)
		res := scen.FeedEpoch(in, ref, order, nil)
		if res.Err != nil || len(in.Crits) > 0 {
			t.Fatalf("epoch %d: Process(e%d) = %v, crit %v\n%v", ref.Epoch, res.ErrAt, res.Err, in.Crits, scen.DescribeScenario(sc))
		}
		idxOf := scen.IndexOf(ref)
		deliveredIn := map[int]int{} // event index -> block number (0-based within the epoch)
		for bi, b := range in.Blocks[nb:] {
			fail := func(format string, args ...interface{}) {
				t.Fatalf("epoch %d block %d (frame %d, atropos %s): %s\norder %v\n%v", ref.Epoch, bi, b.Frame, b.Atropos.String(),
					fmt.Sprintf(format, args...), order, scen.DescribeScenario(sc))
			}
			if b.Epoch != idx.Epoch(ref.Epoch) {
				fail("block carries epoch %d", b.Epoch)
			}
			if int(b.Frame) != bi+1 {
				fail("frames of an epoch must be 1,2,3,...: block %d has frame %d", bi, b.Frame)
			}
			ai, ok := idxOf[b.Atropos]
			if !ok {
				fail("Atropos is not an event of this epoch")
			}
			at := ref.Evs[ai]
			if !(ref.SPF(at) < uint32(b.Frame) && uint32(b.Frame) <= at.Frame) {
				fail("Atropos e%d (self-parent frame %d, frame %d) is not a root of frame %d", ai, ref.SPF(at), at.Frame, b.Frame)
			}
			seen := map[int]bool{}
			usedEarlier := false
			for _, id := range b.Applied {
				i, ok := idxOf[id]
				if !ok {
					fail("applied an unknown event %s", id.String())
				}
				if seen[i] {
					fail("event e%d applied twice in one block", i)
				}
				seen[i] = true
				if prev, dup := deliveredIn[i]; dup {
					fail("event e%d was already delivered by block %d of this epoch", i, prev)
				}
				if !at.Anc.Has(i) {
					fail("applied event e%d is not an ancestor-or-self of the Atropos e%d", i, ai)
				}
			}
			for i := range ref.Evs {
				if at.Anc.Has(i) {
					if _, earlier := deliveredIn[i]; earlier {
						usedEarlier = true
						continue
					}
					if !seen[i] {
						fail("ancestor e%d of the Atropos e%d was delivered neither by this block nor by an earlier one", i, ai)
					}
				}
			}
			for i := range seen {
				deliveredIn[i] = bi
			}
			// ancestors of every delivered event were delivered no later
			for i := range seen {
				for _, p := range ref.Evs[i].Parents {
					if pb, ok := deliveredIn[p]; !ok || pb > bi {
						fail("parent e%d of delivered e%d was not delivered in this or an earlier block", p, i)
					}
				}
			}
			totalBlocks++
			if len(seen) >= 2 && usedEarlier {
				nontrivialBlocks++
			}
		}
	}
	classes := []string{"cfg_" + cfg.Name, fmt.Sprintf("epochs_%d", len(sc.Epochs))}
	if forkPairs > 0 {
		classes = append(classes, "with_forks")
	}
	if totalBlocks == 0 {
		classes = append(classes, "no_block")
	}
	if sameEpochResets > 0 {
		classes = append(classes, "epoch_restarted_by_reset")
	}
	for _, b := range in.Blocks {
		if b.Frame > 256 {
			classes = append(classes, "epoch_with_more_than_256_blocks")
			break
		}
	}
	if sh := sc.Epochs[0].Info.Shape; sh != "" {
		classes = append(classes, "shape_"+sh)
	}
	st.Case(stats.Hash(scen.DescribeScenario(sc)), nontrivialBlocks > 0, classes...)
	st.Class("blocks", int64(totalBlocks))
	st.Class("nontrivial_blocks", int64(nontrivialBlocks))
	st.Sample(func() interface{} {
		var bl []string
		for _, b := range in.Blocks {
			bl = append(bl, fmt.Sprintf("epoch %d frame %d applied %d events", b.Epoch, b.Frame, len(b.Applied)))
		}
		return map[string]interface{}{"scenario": scen.DescribeScenario(sc), "blocks": bl}
	})
}

func TestC02Delivery(t *testing.T) { rapid.Check(t, prop) }

func TestC02Shapes(t *testing.T) { rapid.Check(t, propShapes) }
