// C03: cheater lists name exactly the visible forkers.
package c03

import (
	"fmt"
	"os"
	"testing"

	"github.com/Fantom-foundation/lachesis-base/inter/idx"
	"github.com/Fantom-foundation/lachesis-base/inter/pos"
	"pgregory.net/rapid"

	"verif/harness/internal/cons"
	"verif/harness/internal/dagen"
	"verif/harness/internal/graphref"
	"verif/harness/internal/scen"
	"verif/harness/internal/stats"
)

func TestMain(m *testing.M) {
	code := m.Run()
	stats.Flush()
	os.Exit(code)
}

var st = stats.New("cheaters")

func prop(t *rapid.T) { propWith(t, "") }

// propShapes: the same property on the rare large shapes (65-70 validators, one block confirming several hundred
// events, 66-70 same-sequence events of one validator).
func propShapes(t *rapid.T) { propWith(t, dagen.DrawShape(t, "mass_fork")) }

func propWith(t *rapid.T, shape string) {
	// any subset of validators may fork; the run is followed until the instance reports that its
	// <1/3-Byzantine assumption is broken (crit / Process error); blocks emitted before are checked
	sc := dagen.GenScenario(t, 2, dagen.Params{MinEvents: 30, MaxEvents: 130, Forks: dagen.AnyFork, NonMaxFrames: false, Shape: shape})
	cfgs := cons.Configs()
	cfg := cfgs[rapid.IntRange(0, len(cfgs)-1).Draw(t, "cfg")]
	// epoch switches either by the sealing block or (the instance never seals, processes the whole epoch and is
	// then moved on) by Reset
	viaReset := rapid.Bool().Draw(t, "switchEpochsByReset")
	seal := scen.SealFn(sc)
	if viaReset {
		seal = nil
	}
	in, err := cons.New(cons.NewEvents(), cfg, idx.Epoch(sc.FirstEpoch), sc.Epochs[0].Ref.Validators(), seal)
	if err != nil {
		t.Fatalf("bootstrap: %v", err)
	}
	nontrivial, totalBlocks, withCheaters, stopped := 0, 0, 0, false
	shrinks := 0 // a block lists fewer cheaters than the block before it: its Atropos does not descend from the previous one's view
	beyondThird := false
	// the runs: every epoch of the scenario and, when epochs are switched by Reset, sometimes a second run of the
	// same epoch after a Reset to the SAME epoch number with other weights for the same validators (corrected
	// stakes: another canonical order of the validators, same events with the same IDs, frames as the frame rule
	// gives them under the new weights)
	type runT struct {
		ref        *graphref.Ref
		forkers    []int
		reset      bool
		reweighted bool
	}
	var runs []runT
	reweightedRuns, reweightDiscarded := 0, 0
	for k, plan := range sc.Epochs {
		runs = append(runs, runT{ref: plan.Ref, forkers: plan.Info.Forkers, reset: viaReset && k > 0})
		if viaReset && len(plan.Ref.IDs) >= 2 && rapid.IntRange(0, 2).Draw(t, "replayReweighted") == 0 {
			ref := plan.Ref
			// the events keep their IDs, so they keep their claimed frames: the new weights must allow them
			ws2 := make([]pos.Weight, len(ref.IDs))
			for i, w := range ref.Weights {
				ws2[i] = pos.Weight(w)
			}
			switch rapid.IntRange(0, 2).Draw(t, "reweightKind") {
			case 0: // two validators swap their weights
				i := rapid.IntRange(0, len(ws2)-1).Draw(t, "swapA")
				j := rapid.IntRange(0, len(ws2)-1).Draw(t, "swapB")
				ws2[i], ws2[j] = ws2[j], ws2[i]
			case 1: // all weights permuted
				perm := rapid.Permutation(ref.Weights).Draw(t, "weightPerm")
				for i, w := range perm {
					ws2[i] = pos.Weight(w)
				}
			default:
				for i := range ws2 {
					ws2[i] = pos.Weight(rapid.Uint32Range(1, 9).Draw(t, "w2"))
				}
			}
			ref2 := graphref.New(ref.Epoch, ref.IDs, ws2, len(ref.Evs)+8)
			framesAllowed := true
			for _, e := range ref.Evs {
				others := e.Parents
				if e.SelfParent >= 0 {
					others = e.Parents[1:]
				}
				e2 := ref2.Prepare(graphref.Proto{Creator: e.Creator, SelfParent: e.SelfParent, Others: others, Salt: e.Salt})
				if lo, hi := ref2.Allowed(e2); e.Frame < lo || e.Frame > hi {
					framesAllowed = false
					break
				}
				ref2.Commit(e2, e.Frame)
				if e2.ID != e.ID {
					t.Fatalf("harness: event IDs must not depend on weights")
				}
			}
			if !framesAllowed {
				reweightDiscarded++
				continue
			}
			runs = append(runs, runT{ref: ref2, forkers: plan.Info.Forkers, reset: true, reweighted: true})
		}
	}
	for k, run := range runs {
		ref := run.ref
		var fw uint64
		for _, v := range run.forkers {
			fw += ref.Weights[v]
		}
		if 3*fw >= ref.Total {
			beyondThird = true
		}
		if run.reset {
			if err := in.L.Reset(idx.Epoch(ref.Epoch), ref.Validators()); err != nil {
				t.Fatalf("Reset: %v", err)
			}
		}
		if run.reweighted {
			reweightedRuns++
		}
		if in.Store.GetEpoch() != idx.Epoch(ref.Epoch) {
			break // the previous epoch did not seal on this instance (it stopped earlier)
		}
		order := dagen.GenOrder(t, ref, fmt.Sprintf("ep%d", k))
		nb := len(in.Blocks)
		res := scen.FeedEpoch(in, ref, order, nil)
		if res.Err != nil || res.CritSeen {
			stopped = true
			if 3*fw < ref.Total {
				t.Fatalf("epoch %d: instance failed (Process(e%d)=%v crit=%v) although forkers hold < 1/3\n%v", ref.Epoch, res.ErrAt, res.Err, in.Crits, scen.DescribeScenario(sc))
			}
		}
		idxOf := scen.IndexOf(ref)
		forkedAnywhere := map[int]bool{}
		seqs := make([]map[uint32]bool, len(ref.IDs))
		for v := range seqs {
			seqs[v] = map[uint32]bool{}
		}
		for _, e := range ref.Evs {
			if seqs[e.Creator][e.Seq] {
				forkedAnywhere[e.Creator] = true
			}
			seqs[e.Creator][e.Seq] = true
		}
		blocks := in.Blocks[nb:]
		if stopped && len(blocks) > 0 && len(in.Crits) > 0 {
			// the block during which crit fired may be incomplete; blocks before it are complete
		}
		for bi, b := range blocks {
			ai, ok := idxOf[b.Atropos]
			if !ok {
				t.Fatalf("epoch %d block %d: unknown Atropos", ref.Epoch, bi)
			}
			var want []idx.ValidatorID
			seenCnt, unseen := 0, 0
			for _, v := range ref.Canon {
				if ref.ForkSeen(ai, v) {
					want = append(want, ref.IDs[v])
					seenCnt++
				} else if forkedAnywhere[v] {
					unseen++
				}
			}
			if fmt.Sprint(want) != fmt.Sprint(b.Cheaters) {
				t.Fatalf("epoch %d block %d (frame %d, atropos e%d): cheaters %v, the Atropos' ancestry shows forks of %v (canonical order)\norder %v\n%v",
					ref.Epoch, bi, b.Frame, ai, b.Cheaters, want, order, scen.DescribeScenario(sc))
			}
			totalBlocks++
			if bi > 0 && len(b.Cheaters) < len(blocks[bi-1].Cheaters) {
				shrinks++
			}
			if seenCnt > 0 {
				withCheaters++
			}
			if seenCnt > 0 && unseen > 0 {
				nontrivial++
			}
		}
		if stopped {
			break
		}
	}
	// an application that keeps the delivered blocks still reads the same cheater lists at the end
	for bi, b := range in.Blocks {
		if fmt.Sprint(b.CheatersRef) != fmt.Sprint(b.Cheaters) {
			t.Fatalf("block %d (epoch %d frame %d) was delivered with cheaters %v; the delivered list reads %v after later blocks\n%v",
				bi, b.Epoch, b.Frame, b.Cheaters, b.CheatersRef, scen.DescribeScenario(sc))
		}
	}
	classes := []string{"cfg_" + cfg.Name}
	if viaReset && len(sc.Epochs) > 1 {
		classes = append(classes, "epoch_switched_by_reset")
	}
	if reweightedRuns > 0 {
		classes = append(classes, "same_epoch_replayed_with_other_weights")
	}
	if reweightDiscarded > 0 {
		classes = append(classes, "reweighting_discarded_frames_not_allowed")
	}
	if beyondThird {
		classes = append(classes, "forkers_ge_third")
	}
	if stopped {
		classes = append(classes, "instance_reported_broken_assumption")
	}
	fp := 0
	for _, p := range sc.Epochs {
		fp += p.Info.ForkPairs
	}
	if fp > 0 {
		classes = append(classes, "dag_has_forks")
	}
	if withCheaters > 0 {
		classes = append(classes, "block_with_cheaters")
	}
	if shrinks > 0 {
		classes = append(classes, "cheater_list_shrinks_between_consecutive_blocks")
	}
	if sh := sc.Epochs[0].Info.Shape; sh != "" {
		classes = append(classes, "shape_"+sh)
	}
	st.Case(stats.Hash(scen.DescribeScenario(sc)), nontrivial > 0, classes...)
	st.Class("blocks", int64(totalBlocks))
	st.Class("blocks_with_cheaters", int64(withCheaters))
	st.Class("nontrivial_blocks", int64(nontrivial))
	st.Sample(func() interface{} {
		var bl []string
		for _, b := range in.Blocks {
			bl = append(bl, fmt.Sprintf("epoch %d frame %d cheaters %v", b.Epoch, b.Frame, b.Cheaters))
		}
		return map[string]interface{}{"scenario": scen.DescribeScenario(sc), "blocks": bl}
	})
}

func TestC03Cheaters(t *testing.T) { rapid.Check(t, prop) }

func TestC03Shapes(t *testing.T) { rapid.Check(t, propShapes) }
