package c03

import (
	"fmt"
	"testing"

	"github.com/Fantom-foundation/lachesis-base/inter/idx"
	"github.com/Fantom-foundation/lachesis-base/inter/pos"
	"pgregory.net/rapid"

	"verif/harness/internal/cons"
	"verif/harness/internal/dagen"
	"verif/harness/internal/graphref"
	"verif/harness/internal/scen"
	"verif/harness/internal/stats"
)

var stSplit = stats.New("split_view")

// TestC03SplitView: a constructed family of DAGs (synchronous rounds) in which consecutive Atropoi have views of a fork
// that are not nested. W, first in canonical order, is the only validator that is shown the second of two fork events;
// its single event observes both and it falls silent. X, second in canonical order, runs one event ahead of the others
// and reaches the next frame without having heard of W's event, while the others hear of it (one event that references
// it and nothing else new) before they reach that frame. Drawn: the number and weight of the others, which of them the
// second fork event references, what else W's event references, which of the others hear of W's event in time, how many
// plain rounds follow, whether W comes back, the delivery order and the cache configuration. The oracle is the property:
// every block lists exactly the validators with two same-sequence events among its Atropos' ancestors.
func TestC03SplitView(t *testing.T) {
	rapid.Check(t, func(t *rapid.T) {
		nO := rapid.IntRange(4, 7).Draw(t, "others")
		w := uint32(rapid.IntRange(2, 5).Draw(t, "weight"))
		total := uint64(nO+2)*uint64(w) + 1
		quorum := total*2/3 + 1
		if uint64(nO)*uint64(w) < quorum {
			// the others alone must hold a quorum (they decide W's root without X): take the smallest valid family
			nO, w = 5, 3
		}
		base := uint32(rapid.IntRange(1, 50).Draw(t, "idBase"))
		// canonical order: W, X, O..., F (equal weights are ordered by ID, F is the lightest)
		ids := []idx.ValidatorID{idx.ValidatorID(base), idx.ValidatorID(base + 1)}
		ws := []pos.Weight{pos.Weight(w), pos.Weight(w)}
		for i := 0; i < nO; i++ {
			ids = append(ids, idx.ValidatorID(base+2+uint32(i)))
			ws = append(ws, pos.Weight(w))
		}
		ids = append(ids, idx.ValidatorID(base+100))
		ws = append(ws, 1)
		const W, X = 0, 1
		F := len(ids) - 1
		O := make([]int, nO)
		for i := range O {
			O[i] = 2 + i
		}
		XO := append([]int{X}, O...)
		rounds := rapid.IntRange(6, 10).Draw(t, "plainRounds")
		ref := graphref.New(1, ids, ws, 16*len(ids)+rounds*len(ids)+16)
		salt := uint32(0)
		emit := func(creator, sp int, others ...int) int {
			salt++
			e := ref.Prepare(graphref.Proto{Creator: creator, SelfParent: sp, Others: others, Salt: salt})
			_, hi := ref.Allowed(e)
			ref.Commit(e, hi)
			return e.I
		}
		last := map[int]int{}
		lastOf := func(except int, vv []int) []int {
			var res []int
			for _, v := range vv {
				if v != except {
					res = append(res, last[v])
				}
			}
			return res
		}
		v1 := emit(F, -1)
		for _, v := range XO {
			last[v] = emit(v, -1)
		}
		// the fork: two events on F's first one; the second also references one of the others
		a2 := emit(F, v1)
		b2 := emit(F, v1, last[O[rapid.IntRange(0, nO-1).Draw(t, "forkEventReferences")]])
		// W's only event (for now) observes both, and a drawn set of first events
		wParents := []int{a2, b2}
		for _, v := range XO {
			if rapid.IntRange(0, 3).Draw(t, "wAlsoReferences") == 0 {
				wParents = append(wParents, last[v])
			}
		}
		w1 := emit(W, -1, wParents...)
		// X and the others exchange their first events
		next := map[int]int{}
		for _, v := range XO {
			next[v] = emit(v, last[v], lastOf(v, XO)...)
		}
		for v, e := range next {
			last[v] = e
		}
		// X runs ahead
		x2 := emit(X, last[X], lastOf(X, O)...)
		// the others hear of W's event (a drawn, quorum-holding part of them all; the rest does not), and only then of
		// each other again
		hearing := 0
		for _, v := range O {
			if uint64(hearing)*uint64(w) < quorum || rapid.Bool().Draw(t, "alsoHears") {
				last[v] = emit(v, last[v], w1)
				hearing++
			}
		}
		next = map[int]int{}
		for _, v := range O {
			next[v] = emit(v, last[v], lastOf(v, O)...)
		}
		for v, e := range next {
			last[v] = e
		}
		last[X] = x2
		wBack := rapid.IntRange(0, rounds).Draw(t, "wReturnsAtRound") // == rounds: never
		lastW := w1
		for r := 0; r < rounds; r++ {
			next = map[int]int{}
			for _, v := range XO {
				next[v] = emit(v, last[v], lastOf(v, XO)...)
			}
			if r >= wBack {
				lastW = emit(W, lastW, lastOf(-1, XO)...)
			}
			for v, e := range next {
				last[v] = e
			}
		}

		cfgs := cons.Configs()
		cfg := cfgs[rapid.IntRange(0, len(cfgs)-1).Draw(t, "cfg")]
		in, err := cons.New(cons.NewEvents(), cfg, 1, ref.Validators(), nil)
		if err != nil {
			t.Fatalf("bootstrap: %v", err)
		}
		order := dagen.GenOrder(t, ref, "order")
		if res := scen.FeedEpoch(in, ref, order, nil); res.Err != nil || len(in.Crits) > 0 {
			t.Fatalf("Process(e%d) = %v, crit %v (the forker holds weight 1 of %d)\n%v", res.ErrAt, res.Err, in.Crits, total, scen.Describe(ref))
		}
		idxOf := scen.IndexOf(ref)
		shrinks, withCheaters := 0, 0
		for bi, b := range in.Blocks {
			ai, ok := idxOf[b.Atropos]
			if !ok {
				t.Fatalf("block %d: unknown Atropos", bi)
			}
			var want []idx.ValidatorID
			for _, v := range ref.Canon {
				if ref.ForkSeen(ai, v) {
					want = append(want, ref.IDs[v])
				}
			}
			if fmt.Sprint(want) != fmt.Sprint(b.Cheaters) {
				t.Fatalf("block %d (frame %d, atropos e%d by validator %d): cheaters %v, the Atropos' ancestry shows forks of %v\norder %v\n%v",
					bi, b.Frame, ai, ref.IDs[ref.Evs[ai].Creator], b.Cheaters, want, order, scen.Describe(ref))
			}
			if len(b.Cheaters) > 0 {
				withCheaters++
			}
			if bi > 0 && len(b.Cheaters) < len(in.Blocks[bi-1].Cheaters) {
				shrinks++
			}
		}
		cl := []string{fmt.Sprintf("others_%d", nO), "cfg_" + cfg.Name}
		if shrinks > 0 {
			cl = append(cl, "cheater_list_shrinks_between_consecutive_blocks")
		}
		if withCheaters > 0 {
			cl = append(cl, "block_with_cheaters")
		}
		stSplit.Case(stats.Hash(scen.Describe(ref), order), shrinks > 0, cl...)
		stSplit.Class("blocks", int64(len(in.Blocks)))
		stSplit.Sample(func() interface{} {
			return map[string]interface{}{"weights": fmt.Sprint(ref.Weights), "dag": scen.Describe(ref), "blocks": len(in.Blocks), "shrinks": shrinks}
		})
	})
}
