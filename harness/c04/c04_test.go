// C04: frame rule — processing and building agree with the specification.
package c04

import (
	"fmt"
	"os"
	"testing"

	"github.com/Fantom-foundation/lachesis-base/abft"
	"github.com/Fantom-foundation/lachesis-base/inter/dag"
	"pgregory.net/rapid"

	"verif/harness/internal/cons"
	"verif/harness/internal/dagen"
	"verif/harness/internal/graphref"
	"verif/harness/internal/scen"
	"verif/harness/internal/stats"
	"verif/harness/internal/tier"
)

func TestMain(m *testing.M) {
	code := m.Run()
	stats.Flush()
	os.Exit(code)
}

var st = stats.New("framerule")

// wrongFrames lists claimed frames outside the allowed range lo..hi.
func wrongFrames(t *rapid.T, lo, hi uint32) []uint32 {
	cands := []uint32{hi + 1, 0, hi + uint32(rapid.IntRange(2, 120).Draw(t, "farAbove"))}
	if lo >= 2 {
		cands = append(cands, lo-1)
	}
	var out []uint32
	for _, c := range cands {
		if c < lo || c > hi {
			out = append(out, c)
		}
	}
	return out
}

func prop(t *rapid.T) {
	ids, ws, wclass := dagen.GenValidators(t)
	ref, info := dagen.GenDAG(t, 1, ids, ws, dagen.Params{MinEvents: 20, MaxEvents: 90, Forks: dagen.MinorityFork, NonMaxFrames: true})
	n := len(ref.Evs)
	// long Build histories need a forkless-cause cache that retains the pairs: prefer the big caches then
	histClass := rapid.SampledFrom([]string{"none", "short", "256", "256", "512", "long"}).Draw(t, "buildHistory")
	cfgs := cons.Configs()
	cfg := cfgs[rapid.IntRange(0, len(cfgs)-1).Draw(t, "cfg")]
	if histClass != "none" && histClass != "short" && rapid.Bool().Draw(t, "bigCache") {
		cfg = cfgs[3] // default sizes
	}
	in, err := cons.New(cons.NewEvents(), cfg, 1, ref.Validators(), nil)
	if err != nil {
		t.Fatalf("bootstrap: %v", err)
	}
	probeAt := rapid.IntRange(n/3, n-1).Draw(t, "probeAt")
	// without earlier Build calls the history starts at the instance's first Build, so that its k-th
	// and (256*k)-th Build are both inside the history (same Lamport time, different parents)
	earlyBuilds := histClass == "none" || histClass == "short" || rapid.IntRange(0, 2).Draw(t, "earlyBuilds") == 0
	rejected, multiAllowed, builds, nonMax := 0, 0, 0, 0
	maxHistory := 0
	fail := func(format string, args ...interface{}) {
		t.Fatalf("%s\nvalidators %v weights %v cfg %s\n%v", fmt.Sprintf(format, args...), ref.IDs, ref.Weights, cfg.Name, scen.Describe(ref))
	}
	for i := 0; i < n; i++ {
		e := ref.Evs[i]
		if e.Hi > e.Lo {
			multiAllowed++
		}
		if rapid.IntRange(0, 3).Draw(t, "twins") == 0 {
			for _, wf := range wrongFrames(t, e.Lo, e.Hi) {
				twin := ref.DagEvent(e, wf)
				if err := in.L.Process(twin); err != abft.ErrWrongFrame {
					fail("Process(e%d claiming frame %d) = %v, want ErrWrongFrame: allowed frames are %d..%d", i, wf, err, e.Lo, e.Hi)
				}
				rejected++
			}
		}
		if (earlyBuilds || i > probeAt) && rapid.IntRange(0, 2).Draw(t, "build") == 0 {
			me := ref.DagEvent(e, 0)
			if err := in.L.Build(me); err != nil {
				fail("Build(e%d) = %v", i, err)
			}
			builds++
			if uint32(me.Frame()) != e.Hi {
				fail("Build(e%d) assigned frame %d after %d earlier Build calls; highest allowed frame is %d (allowed %d..%d)", i, me.Frame(), builds-1, e.Hi, e.Lo, e.Hi)
			}
		}
		if e.Frame != e.Hi {
			nonMax++
		}
		if err := in.Process(ref.DagEvent(e, e.Frame)); err != nil {
			fail("Process(e%d claiming frame %d) = %v; allowed frames are %d..%d", i, e.Frame, err, e.Lo, e.Hi)
		}
		if len(in.Crits) > 0 {
			fail("crit: %v", in.Crits)
		}
		if i == probeAt && histClass != "none" {
			h := buildHistory(t, in, ref, i, histClass, &builds, fail)
			if h > maxHistory {
				maxHistory = h
			}
		}
	}
	classes := []string{"cfg_" + cfg.Name, "weights_" + wclass, "history_" + histClass}
	if !earlyBuilds {
		classes = append(classes, "history_from_first_build")
	}
	if rejected > 0 {
		classes = append(classes, "rejected_claims")
	}
	if info.ForkPairs > 0 {
		classes = append(classes, "with_forks")
	}
	if nonMax > 0 {
		classes = append(classes, "accepted_non_max_frame")
	}
	if builds >= 256 {
		classes = append(classes, "build_after_256_builds")
	}
	st.Case(stats.Hash(scen.Describe(ref), probeAt, histClass), multiAllowed > 0 || rejected > 0 || builds >= 256, classes...)
	st.Class("rejected", int64(rejected))
	st.Class("builds", int64(builds))
	st.Sample(func() interface{} {
		return map[string]interface{}{"weights": fmt.Sprint(ref.Weights), "dag": scen.Describe(ref), "rejected_wrong_frames": rejected, "builds": builds, "history": histClass}
	})
}

// buildHistory runs a history of speculative Build calls over a pool of candidates that share the
// creator (and mostly the Lamport time) but have different parents, and checks every result.
func buildHistory(t *rapid.T, in *cons.Instance, ref *graphref.Ref, upTo int, class string, builds *int, fail func(string, ...interface{})) int {
	nv := len(ref.IDs)
	// tips of every validator among events 0..upTo (latest created event of each)
	tips := make([]int, nv)
	for v := range tips {
		tips[v] = -1
	}
	for i := 0; i <= upTo; i++ {
		tips[ref.Evs[i].Creator] = i
	}
	creator := rapid.IntRange(0, nv-1).Draw(t, "histCreator")
	var others []int
	for v, tp := range tips {
		if v != creator && tp >= 0 {
			others = append(others, tp)
		}
	}
	type cand struct {
		ev *graphref.Ev
		hi uint32
	}
	var pool []cand
	poolSize := rapid.IntRange(2, 6).Draw(t, "poolSize")
	for k := 0; k < poolSize; k++ {
		var sub []int
		for _, o := range others {
			if rapid.Bool().Draw(t, "poolParent") {
				sub = append(sub, o)
			}
		}
		if k == 0 {
			sub = append([]int{}, others...) // the full view
		}
		if k == 1 && len(others) > 0 {
			// only the tip with the highest Lamport time: same Lamport time as the full view, smaller ancestry
			best := others[0]
			for _, o := range others {
				if ref.Evs[o].Lamport > ref.Evs[best].Lamport {
					best = o
				}
			}
			sub = []int{best}
		}
		e := ref.Prepare(graphref.Proto{Creator: creator, SelfParent: tips[creator], Others: sub, Salt: uint32(1000 + k)})
		_, hi := ref.Allowed(e)
		pool = append(pool, cand{e, hi})
	}
	var length int
	switch class {
	case "short":
		length = rapid.IntRange(1, 20).Draw(t, "histLen")
	case "256":
		length = rapid.IntRange(256, 300).Draw(t, "histLen")
	case "512":
		length = rapid.IntRange(512, 560).Draw(t, "histLen")
	default:
		length = rapid.IntRange(tier.Scale(300, 1000), tier.Scale(800, 3100)).Draw(t, "histLen")
	}
	off := rapid.IntRange(0, len(pool)-1).Draw(t, "histOffset")
	stride := rapid.IntRange(1, len(pool)).Draw(t, "histStride")
	// an emitter may keep one mutable event object and rebuild it after changing its parents (the ID field then
	// still holds whatever the previous Build or the caller left there)
	reuse := rapid.IntRange(0, 2).Draw(t, "reuseEventObject") == 0
	var shared *dag.MutableBaseEvent
	for j := 0; j < length; j++ {
		c := pool[(off+j*stride)%len(pool)]
		me := ref.DagEvent(c.ev, 0)
		if reuse {
			if shared == nil {
				shared = me
			} else {
				shared.SetSeq(me.Seq())
				shared.SetLamport(me.Lamport())
				shared.SetParents(me.Parents())
				shared.SetFrame(0)
				me = shared
			}
		}
		if err := in.L.Build(me); err != nil {
			fail("Build(candidate parents %v) = %v", c.ev.Parents, err)
		}
		*builds++
		if uint32(me.Frame()) != c.hi {
			fail("Build #%d of this instance (candidate by v%d, parents %v, lamport %d) assigned frame %d, highest allowed frame is %d; the pool has %d candidates",
				*builds, c.ev.Creator, c.ev.Parents, c.ev.Lamport, me.Frame(), c.hi, len(pool))
		}
		// Only the assigned frame is asserted for pool candidates (processing one would change the DAG);
		// that a frame equal to the highest allowed one is accepted is asserted for every event of the DAG.
	}
	return length
}

func TestC04FrameRule(t *testing.T) { rapid.Check(t, prop) }
