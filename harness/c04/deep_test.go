package c04

import (
	"fmt"
	"testing"

	"github.com/Fantom-foundation/lachesis-base/abft"
	"github.com/Fantom-foundation/lachesis-base/inter/idx"
	"github.com/Fantom-foundation/lachesis-base/inter/pos"
	"pgregory.net/rapid"

	"verif/harness/internal/cons"
	"verif/harness/internal/graphref"
	"verif/harness/internal/stats"
)

var stDeep = stats.New("deep_lag")

// TestC04DeepLag: three validators holding a quorum run for more than 100 frames while a fourth one
// only has its first event; then the lagging validator's next event references the heads. The frame
// rule allows every frame from 1 up to the true maximum (> 101), Build must assign exactly 101 (at most
// 100 above the self-parent's frame), Process must accept every allowed claim (also above 101) and
// reject the frames above the true maximum.
func TestC04DeepLag(t *testing.T) {
	rapid.Check(t, func(t *rapid.T) {
		ids := []idx.ValidatorID{1, 2, 3, 4}
		ws := []pos.Weight{1, 1, 1, 1}
		if rapid.Bool().Draw(t, "weighted") {
			ws = []pos.Weight{pos.Weight(rapid.Uint32Range(2, 4).Draw(t, "wa")), pos.Weight(rapid.Uint32Range(2, 4).Draw(t, "wb")), pos.Weight(rapid.Uint32Range(2, 4).Draw(t, "wc")), 1}
		}
		target := uint32(rapid.IntRange(103, 112).Draw(t, "targetFrame"))
		ref := graphref.New(1, ids, ws, 1200)
		cfgs := cons.Configs()
		cfg := cfgs[rapid.IntRange(0, len(cfgs)-1).Draw(t, "cfg")]
		in, err := cons.New(cons.NewEvents(), cfg, 1, ref.Validators(), nil)
		if err != nil {
			t.Fatalf("bootstrap: %v", err)
		}
		tips := []int{-1, -1, -1, -1}
		add := func(creator int, others []int) *graphref.Ev {
			e := ref.Prepare(graphref.Proto{Creator: creator, SelfParent: tips[creator], Others: others, Salt: uint32(len(ref.Evs))})
			_, hi := ref.Allowed(e)
			ref.Commit(e, hi)
			tips[creator] = e.I
			if err := in.Process(ref.DagEvent(e, e.Frame)); err != nil {
				t.Fatalf("Process(e%d frame %d) = %v", e.I, e.Frame, err)
			}
			return e
		}
		add(3, nil) // d0, the only event of the lagging validator
		maxFrame := uint32(0)
		for round := 0; maxFrame < target && len(ref.Evs) < 1100; round++ {
			perm := rapid.Permutation([]int{0, 1, 2}).Draw(t, "roundOrder")
			for _, c := range perm {
				var others []int
				for _, u := range []int{0, 1, 2} {
					if u != c && tips[u] >= 0 {
						others = append(others, tips[u])
					}
				}
				if round == 0 && rapid.Bool().Draw(t, "seeD0") {
					others = append(others, tips[3])
				}
				e := add(c, others)
				if e.Frame > maxFrame {
					maxFrame = e.Frame
				}
			}
		}
		if maxFrame < target {
			t.Fatalf("harness: the active validators reached only frame %d", maxFrame)
		}
		// the lagging validator's second event
		var others []int
		for _, u := range []int{0, 1, 2} {
			if rapid.IntRange(0, 3).Draw(t, "takeHead") != 0 {
				others = append(others, tips[u])
			}
		}
		cand := ref.Prepare(graphref.Proto{Creator: 3, SelfParent: tips[3], Others: others, Salt: 7777})
		lo, hiBuild := ref.Allowed(cand)
		hiProcess := cand.HiProcess
		me := ref.DagEvent(cand, 0)
		if err := in.L.Build(me); err != nil {
			t.Fatalf("Build: %v", err)
		}
		if uint32(me.Frame()) != hiBuild {
			t.Fatalf("Build assigned frame %d to the lagging validator's event (self-parent frame %d, parents %v); allowed %d..%d, Build must assign %d",
				me.Frame(), lo, cand.Parents, lo, hiProcess, hiBuild)
		}
		for _, wf := range []uint32{hiProcess + 1, hiProcess + uint32(rapid.IntRange(2, 50).Draw(t, "above")), 0} {
			if wf >= lo && wf <= hiProcess {
				continue
			}
			if err := in.L.Process(ref.DagEvent(cand, wf)); err != abft.ErrWrongFrame {
				t.Fatalf("Process(claim %d) = %v, want ErrWrongFrame (allowed %d..%d)", wf, err, lo, hiProcess)
			}
		}
		claim := hiBuild
		switch rapid.IntRange(0, 3).Draw(t, "claimKind") {
		case 0:
			claim = hiProcess
		case 1:
			claim = uint32(rapid.IntRange(int(lo), int(hiProcess)).Draw(t, "claim"))
		case 2:
			if hiProcess > hiBuild {
				claim = hiBuild + 1
			}
		}
		if err := in.Process(ref.DagEvent(cand, claim)); err != nil {
			t.Fatalf("Process(lagging validator's event claiming frame %d) = %v; self-parent frame %d, allowed frames %d..%d (Build assigns %d)",
				claim, err, lo, lo, hiProcess, hiBuild)
		}
		if len(in.Crits) > 0 {
			t.Fatalf("crit: %v", in.Crits)
		}
		cls := []string{"cfg_" + cfg.Name}
		if hiProcess > hiBuild {
			cls = append(cls, "true_maximum_above_build_cap")
		}
		if claim > hiBuild {
			cls = append(cls, "accepted_claim_above_build_cap")
		}
		stDeep.Case(stats.Hash(ws, target, others, claim), hiProcess > hiBuild, cls...)
		stDeep.Sample(func() interface{} {
			return map[string]interface{}{"weights": fmt.Sprint(ws), "events": len(ref.Evs), "max_frame": maxFrame, "allowed": []uint32{lo, hiProcess}, "build": hiBuild, "claim": claim}
		})
	})
}
