// C05: forkless-cause index equals the graph definition.
package c05

import (
	"fmt"
	"os"
	"testing"

	"pgregory.net/rapid"

	"verif/harness/internal/dagen"
	"verif/harness/internal/scen"
	"verif/harness/internal/stats"
	"verif/harness/internal/vidx"
)

func TestMain(m *testing.M) {
	code := m.Run()
	stats.Flush()
	os.Exit(code)
}

var st = stats.New("forklesscause")

func prop(t *rapid.T) {
	ids, ws, wclass := dagen.GenValidators(t)
	mode := dagen.AnyFork
	if rapid.Bool().Draw(t, "minorityForks") {
		mode = dagen.MinorityFork
	}
	ref, info := dagen.GenDAG(t, 1, ids, ws, dagen.Params{MinEvents: 8, MaxEvents: 70, Forks: mode, NonMaxFrames: false})
	n := len(ref.Evs)
	cfgA, nameA := vidx.DrawConfig(t, "cfgA")
	cfgB, _ := vidx.DrawConfig(t, "cfgB")
	a := vidx.New(ref, cfgA)
	b := vidx.New(ref, cfgB)
	orderA := dagen.GenOrder(t, ref, "orderA")
	orderB := dagen.GenOrder(t, ref, "orderB")
	// index B completely in its own order first
	for _, i := range orderB {
		if err := b.Add(i); err != nil {
			t.Fatalf("index B: Add(e%d): %v", i, err)
		}
	}
	trueCnt, falseCnt, pairs := 0, 0, 0
	partialFork := false
	query := func(x, y int, when string) {
		want := ref.FC(x, y)
		for rep := 0; rep < 2; rep++ { // cold, then warm
			got := a.Idx.ForklessCause(ref.Evs[x].ID, ref.Evs[y].ID)
			if got != want {
				t.Fatalf("%s: ForklessCause(e%d, e%d) = %v (query #%d), graph definition says %v\nvalidators %v weights %v quorum %d order %v\n%v",
					when, x, y, got, rep+1, want, ref.IDs, ref.Weights, ref.Quorum, orderA, scen.Describe(ref))
			}
		}
		if want {
			trueCnt++
		} else {
			falseCnt++
		}
		pairs++
	}
	// index A is filled step by step with queries over the events added so far interleaved
	var added []int
	for step, i := range orderA {
		if err := a.Add(i); err != nil {
			t.Fatalf("index A: Add(e%d): %v", i, err)
		}
		added = append(added, i)
		if len(a.Crits) > 0 {
			t.Fatalf("index A crit after Add(e%d): %v\n%v", i, a.Crits, scen.Describe(ref))
		}
		if step%7 == 3 || step == n-1 {
			k := rapid.IntRange(0, 6).Draw(t, "midQueries")
			for q := 0; q < k; q++ {
				x := added[rapid.IntRange(0, len(added)-1).Draw(t, "qa")]
				y := added[rapid.IntRange(0, len(added)-1).Draw(t, "qb")]
				query(x, y, fmt.Sprintf("after %d adds", len(added)))
			}
		}
	}
	// all pairs (small DAGs) or a drawn subset, in a drawn order
	if n <= 40 {
		perm := rapid.Permutation(seqN(n*n)).Draw(t, "pairOrder")
		for _, pq := range perm {
			query(pq/n, pq%n, "full index")
		}
	} else {
		k := rapid.IntRange(200, 500).Draw(t, "nQueries")
		for q := 0; q < k; q++ {
			query(rapid.IntRange(0, n-1).Draw(t, "qa"), rapid.IntRange(0, n-1).Draw(t, "qb"), "full index")
		}
	}
	// same DAG indexed in another order gives the same answers (checked against the definition too)
	for q := 0; q < 60; q++ {
		x, y := rapid.IntRange(0, n-1).Draw(t, "ba"), rapid.IntRange(0, n-1).Draw(t, "bb")
		if got, want := b.Idx.ForklessCause(ref.Evs[x].ID, ref.Evs[y].ID), ref.FC(x, y); got != want {
			t.Fatalf("index B (order %v): ForklessCause(e%d, e%d) = %v, definition %v\n%v", orderB, x, y, got, want, scen.Describe(ref))
		}
	}
	if len(a.Crits)+len(b.Crits) > 0 {
		t.Fatalf("crit: %v %v", a.Crits, b.Crits)
	}
	// a fork visible to some but not all events
	for v := range ref.IDs {
		sees, notSees := false, false
		for i := 0; i < n; i++ {
			if ref.ForkSeen(i, v) {
				sees = true
			} else {
				notSees = true
			}
		}
		if sees && notSees {
			partialFork = true
		}
	}
	classes := []string{"cache_" + nameA, "weights_" + wclass}
	if info.ForkPairs > 0 {
		classes = append(classes, "with_forks")
	}
	if partialFork {
		classes = append(classes, "fork_visible_to_some")
	}
	st.Case(stats.Hash(scen.Describe(ref), ref.Weights), partialFork && trueCnt > 0 && falseCnt > 0, classes...)
	st.Class("pairs", int64(pairs))
	st.Class("pairs_true", int64(trueCnt))
	st.Sample(func() interface{} {
		return map[string]interface{}{"weights": fmt.Sprint(ref.Weights), "forkers": info.Forkers, "dag": scen.Describe(ref), "pairs": pairs, "true": trueCnt}
	})
}

func seqN(n int) []int {
	s := make([]int, n)
	for i := range s {
		s[i] = i
	}
	return s
}

func TestC05ForklessCause(t *testing.T) { rapid.Check(t, prop) }
