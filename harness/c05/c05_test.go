// C05: forkless-cause index equals the graph definition.
package c05

import (
	"fmt"
	"os"
	"testing"

	"github.com/Fantom-foundation/lachesis-base/inter/idx"
	"github.com/Fantom-foundation/lachesis-base/inter/pos"
	"pgregory.net/rapid"

	"verif/harness/internal/dagen"
	"verif/harness/internal/graphref"
	"verif/harness/internal/scen"
	"verif/harness/internal/stats"
	"verif/harness/internal/vidx"
)

func TestMain(m *testing.M) {
	code := m.Run()
	stats.Flush()
	os.Exit(code)
}

var st = stats.New("forklesscause")

func prop(t *rapid.T) { propWith(t, "") }

// propShapes: the same property on the rare large shapes (65-70 validators with forkers at the end of the validators
// order, several hundred events without a quorum, 66-70 same-sequence events of one validator).
func propShapes(t *rapid.T) { propWith(t, dagen.DrawShape(t, "many_validators")) }

func propWith(t *rapid.T, shape string) {
	var ids []idx.ValidatorID
	var ws []pos.Weight
	var wclass string
	switch shape {
	case "":
		ids, ws, wclass = dagen.GenValidators(t)
	case "many_validators":
		ids, ws, wclass = dagen.GenValidatorsMany(t)
	default:
		ids, ws, wclass = dagen.GenValidatorsN(t, rapid.IntRange(5, 9).Draw(t, "nValidatorsShape"))
	}
	mode := dagen.AnyFork
	if rapid.Bool().Draw(t, "minorityForks") {
		mode = dagen.MinorityFork
	}
	ref, info := dagen.GenDAG(t, 1, ids, ws, dagen.Params{MinEvents: 8, MaxEvents: 70, Forks: mode, NonMaxFrames: false, Shape: shape})
	n := len(ref.Evs)
	cfgA, nameA := vidx.DrawConfig(t, "cfgA")
	cfgB, _ := vidx.DrawConfig(t, "cfgB")
	// a third of the index objects have served another epoch (another validator group) before
	servedBefore := rapid.IntRange(0, 2).Draw(t, "indexServedAnotherEpochBefore") == 0
	var a *vidx.Index
	if servedBefore {
		a = vidx.NewAfterOtherEpoch(t, ref, cfgA)
	} else {
		a = vidx.New(ref, cfgA)
	}
	b := vidx.New(ref, cfgB)
	orderA := dagen.GenOrder(t, ref, "orderA")
	orderB := dagen.GenOrder(t, ref, "orderB")
	// index B completely in its own order first; both indexes are driven through drawn sessions (flush periods,
	// reloads from the database after a flush)
	sessA := vidx.DrawSession(t, "sessionA")
	sessB := vidx.DrawSession(t, "sessionB")
	for k, i := range orderB {
		if _, err := b.AddS(t, sessB, i, k == len(orderB)-1); err != nil {
			t.Fatalf("index B: Add(e%d): %v", i, err)
		}
	}
	trueCnt, falseCnt, pairs := 0, 0, 0
	partialFork := false
	query := func(x, y int, when string) {
		want := ref.FC(x, y)
		for rep := 0; rep < 2; rep++ { // cold, then warm
			got := a.Idx.ForklessCause(ref.Evs[x].ID, ref.Evs[y].ID)
			if got != want {
				t.Fatalf("%s: ForklessCause(e%d, e%d) = %v (query #%d), graph definition says %v\nvalidators %v weights %v quorum %d order %v\n%v",
					when, x, y, got, rep+1, want, ref.IDs, ref.Weights, ref.Quorum, orderA, scen.Describe(ref))
			}
		}
		if want {
			trueCnt++
		} else {
			falseCnt++
		}
		pairs++
	}
	// index A is filled step by step with queries over the events added so far interleaved
	var added []int
	for step, i := range orderA {
		if _, err := a.AddS(t, sessA, i, step == n-1); err != nil {
			t.Fatalf("index A: Add(e%d): %v", i, err)
		}
		added = append(added, i)
		if len(a.Crits) > 0 {
			t.Fatalf("index A crit after Add(e%d): %v\n%v", i, a.Crits, scen.Describe(ref))
		}
		if step%7 == 3 || step == n-1 {
			k := rapid.IntRange(0, 6).Draw(t, "midQueries")
			for q := 0; q < k; q++ {
				x := added[rapid.IntRange(0, len(added)-1).Draw(t, "qa")]
				y := added[rapid.IntRange(0, len(added)-1).Draw(t, "qb")]
				query(x, y, fmt.Sprintf("after %d adds", len(added)))
			}
		}
	}
	// all pairs (small DAGs) or a drawn subset, in a drawn order
	if n <= 40 {
		perm := rapid.Permutation(seqN(n*n)).Draw(t, "pairOrder")
		for _, pq := range perm {
			query(pq/n, pq%n, "full index")
		}
	} else {
		k := rapid.IntRange(200, 500).Draw(t, "nQueries")
		if shape != "" {
			k *= 8
		}
		for q := 0; q < k; q++ {
			query(rapid.IntRange(0, n-1).Draw(t, "qa"), rapid.IntRange(0, n-1).Draw(t, "qb"), "full index")
		}
	}
	// same DAG indexed in another order gives the same answers (checked against the definition too)
	for q := 0; q < 60; q++ {
		x, y := rapid.IntRange(0, n-1).Draw(t, "ba"), rapid.IntRange(0, n-1).Draw(t, "bb")
		if got, want := b.Idx.ForklessCause(ref.Evs[x].ID, ref.Evs[y].ID), ref.FC(x, y); got != want {
			t.Fatalf("index B (order %v): ForklessCause(e%d, e%d) = %v, definition %v\n%v", orderB, x, y, got, want, scen.Describe(ref))
		}
	}
	if len(a.Crits)+len(b.Crits) > 0 {
		t.Fatalf("crit: %v %v", a.Crits, b.Crits)
	}
	// the same index object is Reset for other weights of the same validators (same IDs, so the same event IDs)
	// and the same DAG is indexed again: answers must follow the new weights, not anything remembered
	reused := false
	if len(ref.IDs) >= 2 && rapid.Bool().Draw(t, "reuseIndexAfterReset") {
		reused = true
		ws2 := make([]pos.Weight, len(ref.IDs))
		for i, w := range ref.Weights {
			ws2[i] = pos.Weight(w)
		}
		if rapid.Bool().Draw(t, "keepTotalAndOrder") {
			// move weight from a lighter to a heavier validator without changing total or canonical order
			i := rapid.IntRange(0, len(ref.Canon)-2).Draw(t, "heavier")
			j := rapid.IntRange(i+1, len(ref.Canon)-1).Draw(t, "lighter")
			hi, lo := ref.Canon[i], ref.Canon[j]
			room := uint64(ws2[lo]) - 1
			if j+1 < len(ref.Canon) {
				if nxt := ref.Weights[ref.Canon[j+1]]; uint64(ws2[lo]) > nxt {
					room = uint64(ws2[lo]) - nxt - 1
				} else {
					room = 0
				}
			}
			if i > 0 {
				if prev := ref.Weights[ref.Canon[i-1]]; prev-uint64(ws2[hi]) < room+1 {
					if prev > uint64(ws2[hi]) {
						room = prev - uint64(ws2[hi]) - 1
					} else {
						room = 0
					}
				}
			}
			if room > 0 {
				d := rapid.Uint64Range(1, room).Draw(t, "moved")
				ws2[hi] += pos.Weight(d)
				ws2[lo] -= pos.Weight(d)
			}
		} else {
			for i := range ws2 {
				ws2[i] = pos.Weight(rapid.Uint32Range(1, 9).Draw(t, "w2"))
			}
		}
		ref2 := graphref.New(1, ref.IDs, ws2, len(ref.Evs)+8)
		for _, e := range ref.Evs {
			others := e.Parents
			if e.SelfParent >= 0 {
				others = e.Parents[1:]
			}
			e2 := ref2.Prepare(graphref.Proto{Creator: e.Creator, SelfParent: e.SelfParent, Others: others, Salt: e.Salt})
			ref2.Commit(e2, e.Frame)
			if e2.ID != e.ID {
				t.Fatalf("harness: event IDs must not depend on weights")
			}
		}
		a.ResetWith(ref2)
		for _, i := range orderA {
			if err := a.Add(i); err != nil {
				t.Fatalf("after Reset: Add(e%d): %v", i, err)
			}
		}
		for q := 0; q < 150; q++ {
			x, y := rapid.IntRange(0, n-1).Draw(t, "ra"), rapid.IntRange(0, n-1).Draw(t, "rb")
			if got, want := a.Idx.ForklessCause(ref2.Evs[x].ID, ref2.Evs[y].ID), ref2.FC(x, y); got != want {
				t.Fatalf("after Reset of the same index to weights %v (before %v): ForklessCause(e%d, e%d) = %v, definition %v (with the old weights: %v)\n%v",
					ws2, ref.Weights, x, y, got, want, ref.FC(x, y), scen.Describe(ref))
			}
		}
		if len(a.Crits) > 0 {
			t.Fatalf("crit after Reset: %v", a.Crits)
		}
	}
	// a fork visible to some but not all events
	for v := range ref.IDs {
		sees, notSees := false, false
		for i := 0; i < n; i++ {
			if ref.ForkSeen(i, v) {
				sees = true
			} else {
				notSees = true
			}
		}
		if sees && notSees {
			partialFork = true
		}
	}
	classes := []string{"cache_" + nameA, "weights_" + wclass}
	if info.ForkPairs > 0 {
		classes = append(classes, "with_forks")
	}
	if partialFork {
		classes = append(classes, "fork_visible_to_some")
	}
	if reused {
		classes = append(classes, "index_reused_after_reset")
	}
	if info.Shape != "" {
		classes = append(classes, "shape_"+info.Shape)
	}
	if servedBefore {
		classes = append(classes, "index_served_another_epoch_before")
	}
	if sessA.Reloads+sessB.Reloads > 0 {
		classes = append(classes, "index_reloaded_from_db")
	}
	st.Case(stats.Hash(scen.Describe(ref), ref.Weights), partialFork && trueCnt > 0 && falseCnt > 0, classes...)
	st.Class("pairs", int64(pairs))
	st.Class("pairs_true", int64(trueCnt))
	st.Sample(func() interface{} {
		return map[string]interface{}{"weights": fmt.Sprint(ref.Weights), "forkers": info.Forkers, "dag": scen.Describe(ref), "pairs": pairs, "true": trueCnt}
	})
}

func seqN(n int) []int {
	s := make([]int, n)
	for i := range s {
		s[i] = i
	}
	return s
}

func TestC05ForklessCause(t *testing.T) { rapid.Check(t, prop) }

func TestC05Shapes(t *testing.T) { rapid.Check(t, propShapes) }
