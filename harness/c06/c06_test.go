// C06: merged vector clock reports highest observed sequence or a fork.
package c06

import (
	"fmt"
	"os"
	"testing"

	"github.com/Fantom-foundation/lachesis-base/abft/dagidx"
	"github.com/Fantom-foundation/lachesis-base/inter/idx"
	"github.com/Fantom-foundation/lachesis-base/utils/adapters"
	"pgregory.net/rapid"

	"verif/harness/internal/dagen"
	"verif/harness/internal/scen"
	"verif/harness/internal/stats"
	"verif/harness/internal/vidx"
)

func TestMain(m *testing.M) {
	code := m.Run()
	stats.Flush()
	os.Exit(code)
}

var st = stats.New("mergedclock")

func prop(t *rapid.T) {
	ids, ws, wclass := dagen.GenValidators(t)
	ref, info := dagen.GenDAG(t, 1, ids, ws, dagen.Params{MinEvents: 8, MaxEvents: 80, Forks: dagen.AnyFork, NonMaxFrames: false})
	n := len(ref.Evs)
	cfg, cname := vidx.DrawConfig(t, "cfg")
	// a third of the index objects have served another epoch (another validator group) before
	servedBefore := rapid.IntRange(0, 2).Draw(t, "indexServedAnotherEpochBefore") == 0
	var x *vidx.Index
	if servedBefore {
		x = vidx.NewAfterOtherEpoch(t, ref, cfg)
	} else {
		x = vidx.New(ref, cfg)
	}
	order := dagen.GenOrder(t, ref, "order")
	ad := &adapters.VectorToDagIndexer{Index: x.Idx}
	canonPos := make([]int, len(ref.IDs)) // validator -> canonical index
	for pos, v := range ref.Canon {
		canonPos[v] = pos
	}
	entries, forkEntries := 0, 0
	mixed := false
	check := func(i int, when string) {
		e := ref.Evs[i]
		m1 := x.Idx.GetMergedHighestBefore(e.ID)
		m2 := ad.GetMergedHighestBefore(e.ID)
		if m1.Size() != len(ref.IDs) || m2.Size() != len(ref.IDs) {
			t.Fatalf("%s: merged vector of e%d has size %d/%d, want %d validators", when, i, m1.Size(), m2.Size(), len(ref.IDs))
		}
		sawFork, sawCleanForker := false, false
		// the reports of all validators are collected first and read afterwards (a caller may keep them)
		held := make([]dagidx.Seq, len(ref.IDs))
		for v := range ref.IDs {
			held[v] = m2.Get(idx.Validator(canonPos[v]))
		}
		for v := range ref.IDs {
			wantFork, wantSeq := ref.Merged(i, v)
			g1 := m1.Get(idx.Validator(canonPos[v]))
			g2 := held[v]
			if g1.IsForkDetected() != wantFork || g2.IsForkDetected() != wantFork {
				t.Fatalf("%s: merged clock of e%d for validator %d (id %d): fork flag %v/%v, graph says %v\norder %v\n%v",
					when, i, v, ref.IDs[v], g1.IsForkDetected(), g2.IsForkDetected(), wantFork, order, scen.Describe(ref))
			}
			if !wantFork && (uint32(g1.Seq) != wantSeq || uint32(g2.Seq()) != wantSeq) {
				t.Fatalf("%s: merged clock of e%d for validator %d (id %d): seq %d/%d, highest ancestor seq is %d\norder %v\n%v",
					when, i, v, ref.IDs[v], g1.Seq, g2.Seq(), wantSeq, order, scen.Describe(ref))
			}
			entries++
			if wantFork {
				forkEntries++
				sawFork = true
			} else if isForker(info.Forkers, v) && wantSeq > 0 {
				sawCleanForker = true
			}
		}
		if sawFork && sawCleanForker {
			mixed = true
		}
	}
	// how the index session goes: see vidx.Session
	sess := vidx.DrawSession(t, "session")
	for step, i := range order {
		replaced, err := x.AddS(t, sess, i, step == len(order)-1)
		if err != nil {
			t.Fatalf("Add(e%d): %v", i, err)
		}
		if replaced {
			ad = &adapters.VectorToDagIndexer{Index: x.Idx}
		}
		if len(x.Crits) > 0 {
			t.Fatalf("crit after Add(e%d): %v", i, x.Crits)
		}
		// the just-added event, immediately (its vectors were just written)
		if step%3 == 0 {
			check(i, fmt.Sprintf("right after add #%d", step))
		}
	}
	for i := 0; i < n; i++ {
		check(i, "full index")
	}
	classes := []string{"cache_" + cname, "weights_" + wclass}
	if info.ForkPairs > 0 {
		classes = append(classes, "with_forks")
	}
	if forkEntries > 0 {
		classes = append(classes, "fork_observed")
	}
	if servedBefore {
		classes = append(classes, "index_served_another_epoch_before")
	}
	classes = append(classes, fmt.Sprintf("flush_every_%d", sess.FlushEvery))
	if sess.Reloads > 0 {
		classes = append(classes, "reloaded_from_db")
	}
	st.Case(stats.Hash(scen.Describe(ref), ref.Weights), mixed, classes...)
	st.Class("entries", int64(entries))
	st.Class("fork_entries", int64(forkEntries))
	st.Sample(func() interface{} {
		return map[string]interface{}{"weights": fmt.Sprint(ref.Weights), "forkers": info.Forkers, "dag": scen.Describe(ref)}
	})
}

func isForker(fs []int, v int) bool {
	for _, f := range fs {
		if f == v {
			return true
		}
	}
	return false
}

func TestC06MergedClock(t *testing.T) { rapid.Check(t, prop) }
