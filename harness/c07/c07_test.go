// C07: rejected and merely built events leave no trace.
package c07

import (
	"fmt"
	"os"
	"reflect"
	"testing"

	"github.com/Fantom-foundation/lachesis-base/abft"
	"github.com/Fantom-foundation/lachesis-base/inter/idx"
	"pgregory.net/rapid"

	"verif/harness/internal/cons"
	"verif/harness/internal/dagen"
	"verif/harness/internal/graphref"
	"verif/harness/internal/scen"
	"verif/harness/internal/stats"
)

func TestMain(m *testing.M) {
	code := m.Run()
	stats.Flush()
	os.Exit(code)
}

var st = stats.New("notrace")

func wrongFrame(t *rapid.T, lo, hi uint32) uint32 {
	switch rapid.IntRange(0, 3).Draw(t, "wrongKind") {
	case 0:
		return hi + 1
	case 1:
		if lo >= 1 {
			return lo - 1
		}
		return hi + 2
	case 2:
		return hi + uint32(rapid.IntRange(2, 110).Draw(t, "above"))
	}
	if lo > 0 {
		return 0
	}
	return hi + 1
}

func prop(t *rapid.T) {
	sc := dagen.GenScenario(t, 2, dagen.Params{MinEvents: 25, MaxEvents: 100, Forks: dagen.MinorityFork, NonMaxFrames: true})
	// in half of the cases event IDs do not depend on the claimed frame (as with the repository's test events)
	opaqueIDs := rapid.Bool().Draw(t, "idsDoNotDependOnTheFrame")
	sameIDRejections := 0
	cfgs := cons.Configs()
	cfgClean := cfgs[rapid.IntRange(0, len(cfgs)-1).Draw(t, "cfgClean")]
	cfgDirty := cfgs[rapid.IntRange(0, len(cfgs)-1).Draw(t, "cfgDirty")]
	first := sc.Epochs[0].Ref
	clean, err := cons.New(cons.NewEvents(), cfgClean, idx.Epoch(sc.FirstEpoch), first.Validators(), scen.SealFn(sc))
	if err != nil {
		t.Fatalf("bootstrap: %v", err)
	}
	dirty, err := cons.New(cons.NewEvents(), cfgDirty, idx.Epoch(sc.FirstEpoch), first.Validators(), scen.SealFn(sc))
	if err != nil {
		t.Fatalf("bootstrap: %v", err)
	}
	rejected, built, probes, blocksAfterReject, burstBeforeDecision, phantoms := 0, 0, 0, 0, 0, 0
	abandoned := 0
	fail := func(format string, args ...interface{}) {
		t.Fatalf("%s\ncfg clean=%s dirty=%s\n%v", fmt.Sprintf(format, args...), cfgClean.Name, cfgDirty.Name, scen.DescribeScenario(sc))
	}
	for _, plan := range sc.Epochs {
		ref := plan.Ref
		n := len(ref.Evs)
		if clean.Store.GetEpoch() != idx.Epoch(ref.Epoch) || dirty.Store.GetEpoch() != idx.Epoch(ref.Epoch) {
			fail("instances are in epochs %d/%d at the start of epoch %d", clean.Store.GetEpoch(), dirty.Store.GetEpoch(), ref.Epoch)
		}
		// clean run; remember which events made a decision
		deciding := make([]bool, n)
		fedClean := 0
		cb := len(clean.Blocks)
		for i := 0; i < n && clean.Store.GetEpoch() == idx.Epoch(ref.Epoch); i++ {
			before := len(clean.Blocks)
			e := ref.Evs[i]
			if err := clean.Process(ref.DagEvent(e, e.Frame)); err != nil {
				fail("clean instance: Process(e%d) = %v", i, err)
			}
			deciding[i] = len(clean.Blocks) > before
			fedClean++
		}
		// dirty run with injected builds and rejected events
		db := len(dirty.Blocks)
		if rapid.IntRange(0, 3).Draw(t, "abandonedAttempt") == 0 {
			// the dirty instance first built and processed a part of the epoch (every event built before it is
			// processed, as an emitting node does, plus speculative builds), never sealing, and was then Reset to
			// the same epoch: nothing of that attempt - not even what Build left in caches - may matter afterwards
			seal := dirty.Seal
			dirty.Seal = nil
			part := rapid.IntRange(1, fedClean).Draw(t, "abandonedPrefix")
			for i := 0; i < part; i++ {
				e := ref.Evs[i]
				me := ref.DagEvent(e, 0)
				if err := dirty.L.Build(me); err != nil {
					fail("abandoned attempt: Build(e%d) = %v", i, err)
				}
				if uint32(me.Frame()) != e.Hi {
					fail("abandoned attempt: Build(e%d) assigned frame %d, highest allowed is %d", i, me.Frame(), e.Hi)
				}
				built++
				if err := dirty.Process(ref.DagEvent(e, e.Frame)); err != nil {
					fail("abandoned attempt: Process(e%d) = %v", i, err)
				}
			}
			dirty.Seal = seal
			if err := dirty.L.Reset(idx.Epoch(ref.Epoch), ref.Validators()); err != nil {
				fail("Reset to the same epoch: %v", err)
			}
			dirty.Blocks = dirty.Blocks[:db]
			abandoned++
		}
		rejectedThisEpoch := 0
		probeAt := rapid.IntRange(0, fedClean-1).Draw(t, "probeAt")
		for i := 0; i < fedClean; i++ {
			maxBurst := 2
			if deciding[i] {
				maxBurst = 6
			}
			burst := rapid.IntRange(0, maxBurst).Draw(t, "burst")
			if burst > 0 && deciding[i] {
				burstBeforeDecision++
			}
			for b := 0; b < burst; b++ {
				// a target that could be submitted now: an upcoming event whose parents are all processed
				j := i + rapid.IntRange(0, 5).Draw(t, "ahead")
				if j >= n {
					j = i
				}
				ok := true
				for _, p := range ref.Evs[j].Parents {
					if p >= i {
						ok = false
					}
				}
				if !ok {
					j = i
				}
				tgt := ref.Evs[j]
				kind := "upcoming"
				if i > 0 && rapid.Bool().Draw(t, "phantom") {
					// a phantom: an event that will never be part of the DAG (drawn creator, its tip or an older own
					// event as self-parent, a drawn subset of the current tips as other parents)
					tgt = phantom(t, ref, i)
					kind = "phantom"
					phantoms++
				}
				if rapid.Bool().Draw(t, "injectBuild") {
					me := ref.DagEvent(tgt, 0)
					if err := dirty.L.Build(me); err != nil {
						fail("dirty instance: Build(%s e%d) = %v", kind, tgt.I, err)
					}
					built++
					if uint32(me.Frame()) != tgt.Hi {
						fail("dirty instance: Build(%s by v%d parents %v) before Process(e%d) assigned frame %d, highest allowed is %d (after %d rejected events and %d builds)",
							kind, tgt.Creator, tgt.Parents, i, me.Frame(), tgt.Hi, rejected, built)
					}
				} else {
					wf := wrongFrame(t, tgt.Lo, tgt.Hi)
					bad := ref.DagEvent(tgt, wf)
					if opaqueIDs && kind == "upcoming" {
						// IDs are opaque to the library: here the copy with the wrong claim carries the very ID under
						// which the event will be submitted with its right frame later
						var tail [24]byte
						good := ref.DagEvent(tgt, tgt.Frame).ID()
						copy(tail[:], good[8:])
						bad.SetID(tail)
						sameIDRejections++
					}
					if err := dirty.L.Process(bad); err != abft.ErrWrongFrame {
						fail("dirty instance: Process(%s by v%d parents %v claiming frame %d, allowed %d..%d) = %v, want ErrWrongFrame", kind, tgt.Creator, tgt.Parents, wf, tgt.Lo, tgt.Hi, err)
					}
					rejected++
					rejectedThisEpoch++
				}
			}
			e := ref.Evs[i]
			nb := len(dirty.Blocks)
			if err := dirty.Process(ref.DagEvent(e, e.Frame)); err != nil {
				fail("dirty instance: Process(e%d) = %v after %d rejected events and %d builds; the clean instance accepted it", i, err, rejected, built)
			}
			if len(dirty.Crits)+len(clean.Crits) > 0 {
				fail("crit: %v %v", dirty.Crits, clean.Crits)
			}
			if (len(dirty.Blocks) > nb) != deciding[i] {
				fail("event e%d decided a frame on one instance only (dirty=%v clean=%v)", i, len(dirty.Blocks) > nb, deciding[i])
			}
			if len(dirty.Blocks) > nb && rejectedThisEpoch > 0 {
				blocksAfterReject++
			}
			if i == probeAt && i+1 < fedClean {
				// Build of the next event on the dirty instance vs on a freshly replayed instance
				probe := ref.Evs[i+1]
				fresh, err := cons.New(cons.NewEvents(), cfgClean, idx.Epoch(ref.Epoch), ref.Validators(), nil)
				if err != nil {
					fail("fresh bootstrap: %v", err)
				}
				for k := 0; k <= i; k++ {
					ek := ref.Evs[k]
					if err := fresh.Process(ref.DagEvent(ek, ek.Frame)); err != nil {
						fail("fresh instance: Process(e%d) = %v", k, err)
					}
				}
				m1, m2 := ref.DagEvent(probe, 0), ref.DagEvent(probe, 0)
				if err := dirty.L.Build(m1); err != nil {
					fail("dirty Build(probe e%d) = %v", i+1, err)
				}
				if err := fresh.L.Build(m2); err != nil {
					fail("fresh Build(probe e%d) = %v", i+1, err)
				}
				built++
				probes++
				if m1.Frame() != m2.Frame() || uint32(m1.Frame()) != probe.Hi {
					fail("Build(e%d): dirty instance %d, freshly replayed instance %d, reference %d", i+1, m1.Frame(), m2.Frame(), probe.Hi)
				}
			}
		}
		bc, bd := scen.BlocksKey(clean.Blocks[cb:]), scen.BlocksKey(dirty.Blocks[db:])
		if !reflect.DeepEqual(append([]string{}, bc...), append([]string{}, bd...)) {
			fail("epoch %d: blocks differ\n clean %v\n dirty %v", ref.Epoch, bc, bd)
		}
		if clean.StateString() != dirty.StateString() {
			fail("epoch %d: state differs: clean %q dirty %q", ref.Epoch, clean.StateString(), dirty.StateString())
		}
		if clean.Store.GetEpoch() == idx.Epoch(ref.Epoch) {
			break // not sealed: last epoch
		}
	}
	classes := []string{"cfg_dirty_" + cfgDirty.Name}
	if sameIDRejections > 0 {
		classes = append(classes, "rejected_copy_with_the_id_of_the_later_valid_event")
	}
	if abandoned > 0 {
		classes = append(classes, "epoch_first_built_and_processed_then_reset")
	}
	if burstBeforeDecision > 0 {
		classes = append(classes, "burst_right_before_deciding_event")
	}
	if probes > 0 {
		classes = append(classes, "build_probe_vs_fresh_replay")
	}
	st.Case(stats.Hash(scen.DescribeScenario(sc), rejected, built), rejected > 0 && blocksAfterReject > 0, classes...)
	st.Class("rejected_events", int64(rejected))
	st.Class("builds", int64(built))
	st.Class("phantom_events", int64(phantoms))
	st.Class("blocks_after_rejection", int64(blocksAfterReject))
	st.Sample(func() interface{} {
		return map[string]interface{}{"scenario": scen.DescribeScenario(sc), "rejected": rejected, "builds": built, "blocks_after_rejection": blocksAfterReject}
	})
}

// phantom prepares an event over the events 0..upTo-1 that is not part of the generated DAG.
func phantom(t *rapid.T, ref *graphref.Ref, upTo int) *graphref.Ev {
	nv := len(ref.IDs)
	tips := make([]int, nv)
	for v := range tips {
		tips[v] = -1
	}
	var own [][]int = make([][]int, nv)
	for k := 0; k < upTo; k++ {
		c := ref.Evs[k].Creator
		tips[c] = k
		own[c] = append(own[c], k)
	}
	creator := rapid.IntRange(0, nv-1).Draw(t, "phCreator")
	sp := tips[creator]
	if sp >= 0 && rapid.IntRange(0, 3).Draw(t, "phFork") == 0 {
		sp = own[creator][rapid.IntRange(0, len(own[creator])-1).Draw(t, "phForkFrom")]
	}
	var others []int
	for v, tp := range tips {
		if v != creator && tp >= 0 && rapid.IntRange(0, 2).Draw(t, "phParent") != 0 {
			others = append(others, tp)
		}
	}
	e := ref.Prepare(graphref.Proto{Creator: creator, SelfParent: sp, Others: others, Salt: uint32(5000 + upTo)})
	ref.Allowed(e)
	return e
}

func TestC07NoTrace(t *testing.T) { rapid.Check(t, prop) }
