package c07

import (
	"fmt"
	"reflect"
	"testing"

	"github.com/Fantom-foundation/lachesis-base/abft"
	"github.com/Fantom-foundation/lachesis-base/inter/idx"
	"github.com/Fantom-foundation/lachesis-base/inter/pos"
	"pgregory.net/rapid"

	"verif/harness/internal/cons"
	"verif/harness/internal/graphref"
	"verif/harness/internal/scen"
	"verif/harness/internal/stats"
)

var stDeep = stats.New("huge_candidate")

// TestC07HugeCandidate: four of five equal validators run for ~600 events while the fifth has only its
// first event. The dirty instance then builds (and has rejected) a candidate of the lagging validator that
// observes all of that at once - an event whose indexing touches hundreds of ancestors - which is never
// submitted; the validator's real next event has a much smaller view. From then on both instances process
// the same events: results, decisions, blocks and later Build results must be the same.
func TestC07HugeCandidate(t *testing.T) {
	rapid.Check(t, func(t *rapid.T) {
		ids := []idx.ValidatorID{1, 2, 3, 4, 5}
		ws := []pos.Weight{1, 1, 1, 1, 1}
		rounds := rapid.IntRange(150, 165).Draw(t, "rounds")
		ref := graphref.New(1, ids, ws, rounds*4+80)
		cfgs := cons.Configs()
		cfgDirty := cfgs[rapid.IntRange(0, len(cfgs)-1).Draw(t, "cfgDirty")]
		clean, err := cons.New(cons.NewEvents(), cfgs[2], 1, ref.Validators(), nil)
		if err != nil {
			t.Fatalf("bootstrap: %v", err)
		}
		dirty, err := cons.New(cons.NewEvents(), cfgDirty, 1, ref.Validators(), nil)
		if err != nil {
			t.Fatalf("bootstrap: %v", err)
		}
		tips := []int{-1, -1, -1, -1, -1}
		const lag = 4
		both := func(e *graphref.Ev) {
			for name, in := range map[string]*cons.Instance{"clean": clean, "dirty": dirty} {
				if err := in.Process(ref.DagEvent(e, e.Frame)); err != nil {
					t.Fatalf("%s instance: Process(e%d by v%d, frame %d, allowed %d..%d) = %v", name, e.I, e.Creator, e.Frame, e.Lo, e.HiProcess, err)
				}
				if len(in.Crits) > 0 {
					t.Fatalf("%s instance: crit %v", name, in.Crits)
				}
			}
			if len(clean.Blocks) != len(dirty.Blocks) {
				t.Fatalf("after e%d the clean instance has %d blocks, the dirty one %d", e.I, len(clean.Blocks), len(dirty.Blocks))
			}
		}
		add := func(creator int, others []int) *graphref.Ev {
			e := ref.Prepare(graphref.Proto{Creator: creator, SelfParent: tips[creator], Others: others, Salt: uint32(len(ref.Evs))})
			_, hi := ref.Allowed(e)
			ref.Commit(e, hi)
			tips[creator] = e.I
			both(e)
			return e
		}
		add(lag, nil)
		for r := 0; r < rounds; r++ {
			for _, c := range rapid.Permutation([]int{0, 1, 2, 3}).Draw(t, "roundOrder") {
				var others []int
				for _, u := range []int{0, 1, 2, 3} {
					if u != c && tips[u] >= 0 {
						others = append(others, tips[u])
					}
				}
				add(c, others)
			}
		}
		// the never submitted candidate with the full view: built, and rejected with a wrong frame
		full := ref.Prepare(graphref.Proto{Creator: lag, SelfParent: tips[lag], Others: []int{tips[0], tips[1], tips[2], tips[3]}, Salt: 9001})
		_, hiFull := ref.Allowed(full)
		me := ref.DagEvent(full, 0)
		if err := dirty.L.Build(me); err != nil {
			t.Fatalf("Build(huge candidate): %v", err)
		}
		if uint32(me.Frame()) != hiFull {
			t.Fatalf("Build(huge candidate) assigned frame %d, reference %d", me.Frame(), hiFull)
		}
		rejectedToo := rapid.Bool().Draw(t, "alsoRejected")
		if rejectedToo {
			if err := dirty.L.Process(ref.DagEvent(full, full.HiProcess+1)); err != abft.ErrWrongFrame {
				t.Fatalf("Process(huge candidate claiming frame %d) = %v, want ErrWrongFrame", full.HiProcess+1, err)
			}
		}
		// the real next event of the lagging validator sees much less
		oldIdx := rapid.IntRange(0, 3).Draw(t, "realParentOf")
		realParent := ref.ByCreat[oldIdx][rapid.IntRange(0, len(ref.ByCreat[oldIdx])/2).Draw(t, "realParentAge")]
		add(lag, []int{realParent})
		// everybody goes on; frames from the reference
		more := rapid.IntRange(4, 8).Draw(t, "moreRounds")
		for r := 0; r < more; r++ {
			for _, c := range rapid.Permutation([]int{0, 1, 2, 3, 4}).Draw(t, "roundOrder2") {
				var others []int
				for u := 0; u < 5; u++ {
					if u != c && tips[u] >= 0 {
						others = append(others, tips[u])
					}
				}
				// Build on the dirty instance must still agree with the reference: for the event that is created next
				// and for the candidates every other validator could create at this moment
				for pc := 0; pc < 5; pc++ {
					if pc == c {
						continue
					}
					var po []int
					for u := 0; u < 5; u++ {
						if u != pc && tips[u] >= 0 {
							po = append(po, tips[u])
						}
					}
					probe := ref.Prepare(graphref.Proto{Creator: pc, SelfParent: tips[pc], Others: po, Salt: uint32(20000 + len(ref.Evs)*8 + pc)})
					_, ph := ref.Allowed(probe)
					pm := ref.DagEvent(probe, 0)
					if err := dirty.L.Build(pm); err != nil || uint32(pm.Frame()) != ph {
						t.Fatalf("dirty instance: Build(candidate of v%d over all tips, after e%d) = frame %d, %v; reference %d", pc, len(ref.Evs)-1, pm.Frame(), err, ph)
					}
				}
				cand := ref.Prepare(graphref.Proto{Creator: c, SelfParent: tips[c], Others: others, Salt: uint32(len(ref.Evs))})
				_, hi := ref.Allowed(cand)
				mb := ref.DagEvent(cand, 0)
				if err := dirty.L.Build(mb); err != nil || uint32(mb.Frame()) != hi {
					t.Fatalf("dirty instance: Build(next event of v%d) = frame %d, %v; reference %d", c, mb.Frame(), err, hi)
				}
				ref.Commit(cand, hi)
				tips[c] = cand.I
				both(cand)
			}
		}
		a, b := scen.BlocksKey(clean.Blocks), scen.BlocksKey(dirty.Blocks)
		if !reflect.DeepEqual(a, b) {
			t.Fatalf("blocks differ\nclean %v\ndirty %v", a[len(a)-3:], b[len(b)-3:])
		}
		if clean.StateString() != dirty.StateString() {
			t.Fatalf("state differs: %s vs %s", clean.StateString(), dirty.StateString())
		}
		stDeep.Case(stats.Hash(rounds, oldIdx, realParent, more, rejectedToo), true, "cfg_dirty_"+cfgDirty.Name)
		stDeep.Sample(func() interface{} {
			return map[string]interface{}{"events": len(ref.Evs), "candidate_observes": len(ref.Evs) - 1, "real_parent": fmt.Sprintf("e%d", realParent), "blocks": len(clean.Blocks)}
		})
	})
}
