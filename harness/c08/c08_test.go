// C08: restart at any event boundary is invisible.
package c08

import (
	"fmt"
	"os"
	"reflect"
	"testing"

	"github.com/Fantom-foundation/lachesis-base/inter/idx"
	"github.com/Fantom-foundation/lachesis-base/inter/pos"
	"pgregory.net/rapid"

	"verif/harness/internal/cons"
	"verif/harness/internal/dagen"
	"verif/harness/internal/scen"
	"verif/harness/internal/stats"
	"verif/harness/internal/tier"
)

func TestMain(m *testing.M) {
	code := m.Run()
	stats.Flush()
	os.Exit(code)
}

var st = stats.New("restart")

type follower struct {
	in     *cons.Instance
	from   string // boundary description
	budget int
}

func blockKeys(bs []cons.BlockRec) []string {
	out := make([]string, len(bs))
	for i, b := range bs {
		out[i] = fmt.Sprintf("%s applied=%x", scen.BlocksKey(bs[i:i+1])[0], b.Applied)
	}
	return out
}

func prop(t *rapid.T) {
	sc := dagen.GenScenario(t, 3, dagen.Params{MinEvents: 25, MaxEvents: 90, Forks: dagen.MinorityFork, NonMaxFrames: true})
	cfgs := cons.Configs()
	cfgMain := cfgs[rapid.IntRange(0, len(cfgs)-1).Draw(t, "cfgMain")]
	cfgRestart := cfgs[rapid.IntRange(0, len(cfgs)-1).Draw(t, "cfgRestart")]
	window := tier.Scale(12, 1<<30)
	if rapid.IntRange(0, 9).Draw(t, "fullWindow") == 0 {
		window = 1 << 30 // follow to the end
	}
	first := sc.Epochs[0].Ref
	// the application of the running instance keeps the builders it made its validator sets from (a staking state) and
	// goes on editing them while the epochs they were built for are running; restarted copies use scen.SealFn
	var kept []pos.ValidatorsBuilder
	keepBuilders := rapid.Bool().Draw(t, "applicationKeepsEditingItsBuilders")
	buildKept := func(ids []idx.ValidatorID, ws []pos.Weight) *pos.Validators {
		b := pos.NewBuilder()
		for i, id := range ids {
			b.Set(id, ws[i])
		}
		kept = append(kept, b)
		return b.Build()
	}
	sealMain := scen.SealFn(sc)
	genesisValidators := first.Validators()
	if keepBuilders {
		sealMain = func(epoch idx.Epoch, frame idx.Frame) *pos.Validators {
			p := scen.PlanFor(sc, epoch)
			if p == nil || p.SealAt == 0 || int(frame) != p.SealAt {
				return nil
			}
			return buildKept(p.NextIDs, p.NextWs)
		}
		ws := make([]pos.Weight, len(first.Weights))
		for i, w := range first.Weights {
			ws[i] = pos.Weight(w)
		}
		genesisValidators = buildKept(first.IDs, ws)
	}
	editBuilders := func() {
		for _, b := range kept {
			switch rapid.IntRange(0, 5).Draw(t, "builderEdit") {
			case 0:
				b.Set(idx.ValidatorID(0xfffffff0), 1) // a newcomer stakes for a later epoch
			case 1:
				b.Set(idx.ValidatorID(0xfffffff0), 0)
			case 2:
				leaving, found := idx.ValidatorID(0), false
				for id := range b {
					if !found || id < leaving {
						leaving, found = id, true
					}
				}
				if found {
					b.Set(leaving, 0) // somebody leaves
				}
			}
		}
	}
	main, err := cons.New(cons.NewEvents(), cfgMain, idx.Epoch(sc.FirstEpoch), genesisValidators, sealMain)
	if err != nil {
		t.Fatalf("bootstrap: %v", err)
	}
	fail := func(format string, args ...interface{}) {
		t.Fatalf("%s\ncfg main=%s restart=%s\n%v", fmt.Sprintf(format, args...), cfgMain.Name, cfgRestart.Name, scen.DescribeScenario(sc))
	}
	var followers []*follower
	boundaries, afterDecision, afterSeal, multiFrameUndecided, followed := 0, 0, 0, 0, 0
	restartAt := func(desc string, decided, sealed bool) {
		r, err := main.Restart(cfgRestart, scen.SealFn(sc))
		if err != nil {
			fail("restart %s: Bootstrap failed: %v", desc, err)
		}
		if len(r.Crits) > 0 {
			fail("restart %s: crit during Bootstrap: %v", desc, r.Crits)
		}
		if len(r.Blocks) != 0 {
			fail("restart %s: Bootstrap emitted %d blocks that the running instance had not emitted: %v", desc, len(r.Blocks), scen.BlocksKey(r.Blocks))
		}
		if r.StateString() != main.StateString() {
			fail("restart %s: state %q, running instance %q", desc, r.StateString(), main.StateString())
		}
		followers = append(followers, &follower{in: r, from: desc, budget: window})
		boundaries++
		if decided {
			afterDecision++
		}
		if sealed {
			afterSeal++
		}
		// undecided roots in >= 2 frames
		// (asked on the restarted copy, so that the running instance's root cache is not touched by the harness)
		ld := r.Store.GetLastDecidedFrame()
		if len(r.Store.GetFrameRoots(ld+1)) > 0 && len(r.Store.GetFrameRoots(ld+2)) > 0 {
			multiFrameUndecided++
		}
	}
	// sometimes the running instance has first tried the first epoch with outdated weights for the same validators
	// (until an event was rejected, or to the end), and was then Reset to the same epoch with the right ones: whatever
	// it remembers from that attempt must not matter, a restarted copy has never seen it
	staleAttempt := false
	if len(first.IDs) >= 2 && rapid.IntRange(0, 3).Draw(t, "staleWeightsAttempt") == 0 {
		vb := pos.NewBuilder()
		for _, id := range first.IDs {
			vb.Set(id, pos.Weight(rapid.Uint32Range(1, 9).Draw(t, "outdatedWeight")))
		}
		if err := main.L.Reset(idx.Epoch(first.Epoch), vb.Build()); err != nil {
			t.Fatalf("Reset (outdated weights): %v", err)
		}
		seal := main.Seal
		main.Seal = nil
		for _, i := range dagen.GenOrder(t, first, "staleAttemptOrder") {
			e := first.Evs[i]
			if err := main.Process(first.DagEvent(e, e.Frame)); err != nil || len(main.Crits) > 0 {
				break
			}
		}
		main.Seal = seal
		if len(main.Crits) > 0 {
			// the outdated weights made the forkers too heavy: start over with a fresh instance
			main, err = cons.New(cons.NewEvents(), cfgMain, idx.Epoch(sc.FirstEpoch), first.Validators(), scen.SealFn(sc))
			if err != nil {
				t.Fatalf("bootstrap: %v", err)
			}
		} else {
			if err := main.L.Reset(idx.Epoch(first.Epoch), first.Validators()); err != nil {
				t.Fatalf("Reset (right weights): %v", err)
			}
			main.Blocks = nil
			staleAttempt = true
		}
	}
	restartAt("before the first event", false, false)
	for k, plan := range sc.Epochs {
		ref := plan.Ref
		if main.Store.GetEpoch() != idx.Epoch(ref.Epoch) {
			fail("running instance is in epoch %d at the start of epoch %d", main.Store.GetEpoch(), ref.Epoch)
		}
		order := dagen.GenOrder(t, ref, fmt.Sprintf("ep%d", k))
		for pos, i := range order {
			if main.Store.GetEpoch() != idx.Epoch(ref.Epoch) {
				break
			}
			e := ref.Evs[i]
			nb := len(main.Blocks)
			editBuilders()
			errMain := main.Process(ref.DagEvent(e, e.Frame))
			if errMain != nil || len(main.Crits) > 0 {
				fail("running instance: Process(e%d) = %v crit %v", i, errMain, main.Crits)
			}
			newMain := blockKeys(main.Blocks[nb:])
			stateMain := main.StateString()
			alive := followers[:0]
			for _, f := range followers {
				fb := len(f.in.Blocks)
				errF := f.in.Process(ref.DagEvent(e, e.Frame))
				if errF != nil || len(f.in.Crits) > 0 {
					fail("instance restarted %s: Process(epoch %d e%d) = %v crit %v; the running instance accepted it", f.from, ref.Epoch, i, errF, f.in.Crits)
				}
				newF := blockKeys(f.in.Blocks[fb:])
				if !reflect.DeepEqual(append([]string{}, newF...), append([]string{}, newMain...)) {
					fail("instance restarted %s: event e%d of epoch %d produced blocks %v, on the running instance %v (order %v)", f.from, i, ref.Epoch, newF, newMain, order)
				}
				if s := f.in.StateString(); s != stateMain {
					fail("instance restarted %s: state after epoch %d e%d is %q, running instance %q", f.from, ref.Epoch, i, s, stateMain)
				}
				followed++
				f.budget--
				if f.budget > 0 {
					alive = append(alive, f)
				}
			}
			followers = alive
			decided := len(main.Blocks) > nb
			sealed := main.Store.GetEpoch() != idx.Epoch(ref.Epoch)
			restartAt(fmt.Sprintf("after event #%d (e%d) of epoch %d", pos, i, ref.Epoch), decided, sealed)
		}
		if main.Store.GetEpoch() == idx.Epoch(ref.Epoch) {
			break
		}
	}
	classes := []string{"cfg_restart_" + cfgRestart.Name, fmt.Sprintf("epochs_%d", len(sc.Epochs))}
	if keepBuilders {
		classes = append(classes, "application_edits_its_builders")
	}
	if staleAttempt {
		classes = append(classes, "epoch_first_tried_with_outdated_weights")
	}
	if window > 1000 {
		classes = append(classes, "followed_to_the_end")
	}
	st.Case(stats.Hash(scen.DescribeScenario(sc)), afterDecision > 0 && multiFrameUndecided > 0, classes...)
	st.Class("boundaries", int64(boundaries))
	st.Class("boundaries_right_after_decision", int64(afterDecision))
	st.Class("boundaries_right_after_seal", int64(afterSeal))
	st.Class("boundaries_with_undecided_roots_in_2_frames", int64(multiFrameUndecided))
	st.Class("events_replayed_on_restarted_instances", int64(followed))
	st.Sample(func() interface{} {
		return map[string]interface{}{"scenario": scen.DescribeScenario(sc), "boundaries": boundaries, "after_decision": afterDecision, "after_seal": afterSeal}
	})
}

func TestC08Restart(t *testing.T) { rapid.Check(t, prop) }
