// C09: epoch sealing switches cleanly to the new validator set.
package c09

import (
	"fmt"
	"os"
	"reflect"
	"testing"

	"github.com/Fantom-foundation/lachesis-base/inter/idx"
	"github.com/Fantom-foundation/lachesis-base/inter/pos"
	"pgregory.net/rapid"

	"verif/harness/internal/cons"
	"verif/harness/internal/dagen"
	"verif/harness/internal/graphref"
	"verif/harness/internal/scen"
	"verif/harness/internal/stats"
)

func TestMain(m *testing.M) {
	code := m.Run()
	stats.Flush()
	os.Exit(code)
}

var st = stats.New("sealing")

func prop(t *rapid.T) {
	sc := dagen.GenScenario(t, 3, dagen.Params{MinEvents: 30, MaxEvents: 110, Forks: dagen.MinorityFork, NonMaxFrames: true})
	cfgs := cons.Configs()
	cfgS := cfgs[rapid.IntRange(0, len(cfgs)-1).Draw(t, "cfgSealing")]
	cfgR := cfgs[rapid.IntRange(0, len(cfgs)-1).Draw(t, "cfgReset")]
	first := sc.Epochs[0].Ref
	// Sealing policy of the sealing instance: the planned frame, or (opportunistic mode) earlier, at the first
	// decision made while processing an event that is a root of several frames (its remaining root slots
	// would still be voted on if voting did not stop once sealed).
	opportunistic := rapid.Bool().Draw(t, "opportunisticSeal")
	var cur *graphref.Ev
	var curRef *graphref.Ref
	earlySeals := 0
	sealFn := func(epoch idx.Epoch, frame idx.Frame) *pos.Validators {
		p := scen.PlanFor(sc, epoch)
		if p == nil || p.SealAt == 0 {
			return nil
		}
		if int(frame) == p.SealAt {
			return scen.NextValidators(p)
		}
		if opportunistic && cur != nil && curRef == p.Ref && int(frame) < p.SealAt && cur.Frame >= curRef.SPF(cur)+2 {
			p.SealAt = int(frame)
			earlySeals++
			return scen.NextValidators(p)
		}
		return nil
	}
	s, err := cons.New(cons.NewEvents(), cfgS, idx.Epoch(sc.FirstEpoch), first.Validators(), sealFn)
	if err != nil {
		t.Fatalf("bootstrap: %v", err)
	}
	// the reset instance starts from the same genesis and is Reset into each later epoch directly
	// (it never seals by itself: it processes every epoch to the end - so it has decided frames and warm
	// caches when it is Reset - and is then moved to the next epoch with Reset only)
	r, err := cons.New(cons.NewEvents(), cfgR, idx.Epoch(sc.FirstEpoch), first.Validators(), nil)
	if err != nil {
		t.Fatalf("bootstrap: %v", err)
	}
	fail := func(format string, args ...interface{}) {
		t.Fatalf("%s\ncfg sealing=%s reset=%s\n%v", fmt.Sprintf(format, args...), cfgS.Name, cfgR.Name, scen.DescribeScenario(sc))
	}
	seals, votingWouldContinue, setDiffers, changedThenBlocks := 0, 0, 0, 0
	sameEpochResets := 0
	prevChanged := false
	var kinds []string
	for k, plan := range sc.Epochs {
		ref := plan.Ref
		if s.Store.GetEpoch() != idx.Epoch(ref.Epoch) {
			fail("sealing instance is in epoch %d at the start of epoch %d", s.Store.GetEpoch(), ref.Epoch)
		}
		// an unsealed twin of this epoch tells whether the sealing event would have decided further frames
		u, err := cons.New(cons.NewEvents(), cfgS, idx.Epoch(ref.Epoch), ref.Validators(), nil)
		if err != nil {
			fail("bootstrap: %v", err)
		}
		order := dagen.GenOrder(t, ref, fmt.Sprintf("ep%d", k))
		sb := len(s.Blocks)
		sealedAt := -1
		for _, i := range order {
			e := ref.Evs[i]
			ub := len(u.Blocks)
			if err := u.Process(ref.DagEvent(e, e.Frame)); err != nil {
				fail("unsealed twin: Process(e%d) = %v", i, err)
			}
			nb := len(s.Blocks)
			cur, curRef = e, ref
			if err := s.Process(ref.DagEvent(e, e.Frame)); err != nil {
				fail("Process(e%d) = %v", i, err)
			}
			if len(s.Crits) > 0 {
				fail("crit %v", s.Crits)
			}
			newBlocks := s.Blocks[nb:]
			for bi, b := range newBlocks {
				if b.Epoch != idx.Epoch(ref.Epoch) {
					fail("event e%d of epoch %d produced a block of epoch %d", i, ref.Epoch, b.Epoch)
				}
				if b.Sealed && bi != len(newBlocks)-1 {
					fail("a further block of epoch %d (frame %d) was emitted after the sealing block (frame %d)", ref.Epoch, newBlocks[bi+1].Frame, b.Frame)
				}
			}
			if len(newBlocks) > 0 && newBlocks[len(newBlocks)-1].Sealed {
				sealedAt = i
				decidedByTwin := len(u.Blocks) - ub
				if decidedByTwin > len(newBlocks) {
					votingWouldContinue++
				}
				break
			}
		}
		epochBlocks := s.Blocks[sb:]
		if prevChanged && len(epochBlocks) > 0 {
			changedThenBlocks++
		}
		for bi, b := range epochBlocks {
			if int(b.Frame) != bi+1 {
				fail("epoch %d: block %d has frame %d (blocks must be numbered from 1)", ref.Epoch, bi, b.Frame)
			}
		}
		// the reset instance must produce the same blocks for this epoch (it goes on beyond the sealing frame)
		{
			if k > 0 {
				if err := r.L.Reset(idx.Epoch(ref.Epoch), ref.Validators()); err != nil {
					fail("Reset: %v", err)
				}
				if got := r.StateString(); got != fmt.Sprintf("epoch=%d validators=%s lastDecided=0", ref.Epoch, ref.Validators().String()) {
					fail("state after Reset(%d): %s", ref.Epoch, got)
				}
			}
			orderR := dagen.GenOrder(t, ref, fmt.Sprintf("reset.ep%d", k))
			if rapid.IntRange(0, 2).Draw(t, "restartSameEpoch") == 0 {
				// the instance first processes a part of the epoch, is then Reset to the very same epoch (and set)
				// and starts over: nothing of the abandoned attempt may survive
				part := rapid.IntRange(1, len(orderR)).Draw(t, "abandonedPrefix")
				if res := scen.FeedEpoch(r, ref, orderR[:part], nil); res.Err != nil || len(r.Crits) > 0 {
					fail("reset instance (abandoned attempt): Process(e%d) = %v crit %v", res.ErrAt, res.Err, r.Crits)
				}
				if err := r.L.Reset(idx.Epoch(ref.Epoch), ref.Validators()); err != nil {
					fail("Reset to the current epoch: %v", err)
				}
				sameEpochResets++
			}
			rb := len(r.Blocks)
			res := scen.FeedEpoch(r, ref, orderR, nil)
			if res.Err != nil || len(r.Crits) > 0 {
				fail("reset instance: Process(e%d) = %v crit %v", res.ErrAt, res.Err, r.Crits)
			}
			rBlocks := r.Blocks[rb:]
			if len(rBlocks) < len(epochBlocks) {
				fail("epoch %d: the reset instance decided %d frames, the sealing instance %d", ref.Epoch, len(rBlocks), len(epochBlocks))
			}
			for bi := range epochBlocks {
				x, y := epochBlocks[bi], rBlocks[bi]
				if x.Epoch != y.Epoch || x.Frame != y.Frame || x.Atropos != y.Atropos || fmt.Sprint(x.Cheaters) != fmt.Sprint(y.Cheaters) {
					fail("epoch %d block %d: the instance that sealed epoch %d emits %v, the instance reset to epoch %d emits %v",
						ref.Epoch, bi, ref.Epoch-1, scen.BlocksKey(epochBlocks[bi:bi+1]), ref.Epoch, scen.BlocksKey(rBlocks[bi:bi+1]))
				}
			}
		}
		if plan.SealAt == 0 {
			if sealedAt >= 0 {
				fail("epoch %d sealed although the application never returned a validator set", ref.Epoch)
			}
			break
		}
		if sealedAt < 0 {
			fail("epoch %d: frame %d was never decided although the reference decides %d frames", ref.Epoch, plan.SealAt, len(plan.Elect.Blocks))
		}
		seals++
		if len(epochBlocks) != plan.SealAt {
			fail("epoch %d sealed after %d blocks, the application sealed at frame %d", ref.Epoch, len(epochBlocks), plan.SealAt)
		}
		next := scen.NextValidators(plan)
		// right after the sealing EndBlock
		es := s.Store.GetEpochState()
		if es.Epoch != idx.Epoch(ref.Epoch+1) {
			fail("after sealing epoch %d the instance is in epoch %d", ref.Epoch, es.Epoch)
		}
		if es.Validators.String() != next.String() || !reflect.DeepEqual(es.Validators.SortedIDs(), next.SortedIDs()) || !reflect.DeepEqual(es.Validators.SortedWeights(), next.SortedWeights()) {
			fail("after sealing epoch %d the validators are %s, the application returned %s", ref.Epoch, es.Validators.String(), next.String())
		}
		if f := s.Store.GetLastDecidedFrame(); f != 0 {
			fail("after sealing epoch %d the last decided frame is %d, want 0", ref.Epoch, f)
		}
		if s.Store.GetLastDecidedState().LastDecidedFrame != 0 {
			fail("decided state not reset")
		}
		prevChanged = next.String() != ref.Validators().String()
		if prevChanged {
			setDiffers++
		}
		kinds = append(kinds, plan.NextKind)
		if k+1 >= len(sc.Epochs) {
			break
		}
	}
	classes := []string{fmt.Sprintf("seals_%d", seals)}
	for _, kd := range kinds {
		classes = append(classes, "next_"+kd)
	}
	if sameEpochResets > 0 {
		classes = append(classes, "reset_to_the_current_epoch")
	}
	if earlySeals > 0 {
		classes = append(classes, "sealed_by_multi_frame_root")
	}
	if votingWouldContinue > 0 {
		classes = append(classes, "sealing_event_would_decide_further_frames")
	}
	st.Case(stats.Hash(scen.DescribeScenario(sc)), changedThenBlocks > 0, classes...)
	st.Class("seals", int64(seals))
	st.Sample(func() interface{} {
		return map[string]interface{}{"scenario": scen.DescribeScenario(sc), "seals": seals, "next_sets": kinds}
	})
}

func TestC09Sealing(t *testing.T) { rapid.Check(t, prop) }
