// C10: consensus output matches an independent reference implementation.
package c10

import (
	"fmt"
	"os"
	"testing"

	"github.com/Fantom-foundation/lachesis-base/inter/idx"
	"github.com/Fantom-foundation/lachesis-base/inter/pos"
	"pgregory.net/rapid"

	"verif/harness/internal/cons"
	"verif/harness/internal/dagen"
	"verif/harness/internal/graphref"
	"verif/harness/internal/stats"
)

func TestMain(m *testing.M) {
	code := m.Run()
	stats.Flush()
	os.Exit(code)
}

var st = stats.New("reference")

func planFor(sc *dagen.Scenario, epoch idx.Epoch) *dagen.EpochPlan {
	k := int(uint32(epoch) - sc.FirstEpoch)
	if k < 0 || k >= len(sc.Epochs) {
		return nil
	}
	return sc.Epochs[k]
}

func sealFn(sc *dagen.Scenario) cons.SealFn {
	return func(epoch idx.Epoch, frame idx.Frame) *pos.Validators {
		p := planFor(sc, epoch)
		if p == nil || p.SealAt == 0 || int(frame) != p.SealAt {
			return nil
		}
		b := pos.NewBuilder()
		for i, id := range p.NextIDs {
			b.Set(id, p.NextWs[i])
		}
		return b.Build()
	}
}

func describe(ref *graphref.Ref) []string {
	var out []string
	for _, e := range ref.Evs {
		out = append(out, fmt.Sprintf("e%d{v%d seq%d sp%d par%v frame%d}", e.I, e.Creator, e.Seq, e.SelfParent, e.Parents, e.Frame))
	}
	return out
}

func prop(t *rapid.T) { propWith(t, "") }

// propShapes: the same property on the rare large shapes (65-70 validators with marginal quorums and forkers at the
// end of the validators order, one block confirming 700-1200 events, 66-70 same-sequence events of one validator).
func propShapes(t *rapid.T) { propWith(t, dagen.DrawShape(t, "many_validators")) }

func propWith(t *rapid.T, shape string) {
	sc := dagen.GenScenario(t, 2, dagen.Params{MinEvents: 30, MaxEvents: 130, Forks: dagen.MinorityFork, NonMaxFrames: true, Shape: shape})
	cfgs := cons.Configs()
	cfg := cfgs[rapid.IntRange(0, len(cfgs)-1).Draw(t, "cacheConfig")]
	withBuild := rapid.Bool().Draw(t, "buildBeforeProcess")
	first := sc.Epochs[0]
	src := cons.NewEvents()
	in, err := cons.New(src, cfg, idx.Epoch(sc.FirstEpoch), first.Ref.Validators(), sealFn(sc))
	if err != nil {
		t.Fatalf("bootstrap: %v", err)
	}
	broken := false
	maxRound, noBefore, ties, totalBlocks, forkPairs := uint32(0), 0, 0, 0, 0
	for k, plan := range sc.Epochs {
		ref := plan.Ref
		forkPairs += plan.Info.ForkPairs
		if plan.Elect.Broken != "" {
			// only possible with >= 1/3 Byzantine weight; the generator keeps forkers below that
			t.Fatalf("reference met a broken-assumption state with forkers < 1/3: %s\n%v", plan.Elect.Broken, describe(ref))
		}
		order := dagen.GenOrder(t, ref, fmt.Sprintf("ep%d", k))
		if in.Store.GetEpoch() != idx.Epoch(ref.Epoch) {
			t.Fatalf("instance is in epoch %d, expected %d", in.Store.GetEpoch(), ref.Epoch)
		}
		nb := len(in.Blocks)
		for _, i := range order {
			if in.Store.GetEpoch() != idx.Epoch(ref.Epoch) {
				break // sealed: events of the old epoch are no longer fed
			}
			e := ref.Evs[i]
			if withBuild {
				// Build must assign the highest allowed frame (computed by the reference at creation)
				hi := e.Hi
				me := ref.DagEvent(e, 0)
				if err := in.L.Build(me); err != nil {
					t.Fatalf("Build(e%d) failed: %v", i, err)
				}
				if uint32(me.Frame()) != hi {
					t.Fatalf("Build(e%d) assigned frame %d, reference's highest allowed frame is %d\n%v", i, me.Frame(), hi, describe(ref))
				}
			}
			de := ref.DagEvent(e, e.Frame)
			if err := in.Process(de); err != nil {
				t.Fatalf("epoch %d: Process(e%d frame %d) = %v; the reference allows this frame\n%v", ref.Epoch, i, e.Frame, err, describe(ref))
			}
			if len(in.Crits) > 0 {
				t.Fatalf("crit called: %v", in.Crits)
			}
		}
		got := in.Blocks[nb:]
		want := plan.Elect.Blocks
		if plan.SealAt > 0 {
			want = want[:plan.SealAt]
		}
		if len(got) != len(want) {
			t.Fatalf("epoch %d: instance decided %d frames, reference %d (sealAt=%d)\n%v", ref.Epoch, len(got), len(want), plan.SealAt, describe(ref))
		}
		for bi := range want {
			w, g := want[bi], got[bi]
			if g.Epoch != idx.Epoch(ref.Epoch) || uint32(g.Frame) != w.Frame || g.Atropos != ref.Evs[w.Atropos].ID || fmt.Sprint(g.Cheaters) != fmt.Sprint(w.Cheaters) {
				t.Fatalf("epoch %d block %d differs: instance (epoch %d frame %d atropos %s cheaters %v), reference (frame %d atropos e%d=%s cheaters %v)\n%v",
					ref.Epoch, bi, g.Epoch, g.Frame, g.Atropos.String(), g.Cheaters, w.Frame, w.Atropos, ref.Evs[w.Atropos].ID.String(), w.Cheaters, describe(ref))
			}
			if w.Round > maxRound {
				maxRound = w.Round
			}
			noBefore += w.NoBefore
			ties += w.Ties
		}
		totalBlocks += len(want)
	}
	_ = broken
	nontrivial := maxRound >= 3 || noBefore > 0
	classes := []string{"cfg_" + cfg.Name, fmt.Sprintf("epochs_%d", len(sc.Epochs))}
	if maxRound >= 3 {
		classes = append(classes, "decided_in_round_ge3")
	}
	if noBefore > 0 {
		classes = append(classes, "no_decision_before_atropos")
	}
	if ties > 0 {
		classes = append(classes, "exact_tie_vote")
	}
	if forkPairs > 0 {
		classes = append(classes, "with_forks")
	}
	if totalBlocks == 0 {
		classes = append(classes, "no_block")
	}
	if withBuild {
		classes = append(classes, "build_checked")
	}
	if sh := sc.Epochs[0].Info.Shape; sh != "" {
		classes = append(classes, "shape_"+sh)
	}
	st.Case(stats.Hash(describe(sc.Epochs[0].Ref), len(sc.Epochs)), nontrivial, classes...)
	st.Class("blocks", int64(totalBlocks))
	st.Sample(func() interface{} {
		return map[string]interface{}{"validators": fmt.Sprint(first.Ref.IDs), "weights": fmt.Sprint(first.Ref.Weights), "epochs": len(sc.Epochs),
			"events_epoch0": describe(first.Ref), "blocks": totalBlocks, "sealAt": first.SealAt}
	})
}

func TestC10Reference(t *testing.T) { rapid.Check(t, prop) }

func TestC10Shapes(t *testing.T) { rapid.Check(t, propShapes) }
