// C11: quorum arithmetic is safe for every validator set.
//
// Oracle: uint64 arithmetic (totals are < 2^32, so 3*T and 2*T cannot overflow 64 bits) and the
// defining inequality of the quorum taken from the property text: the quorum Q is the weight such
// that a subset holding at most two thirds of the total (3*w <= 2*T) does not reach it, i.e.
// 3*(Q-1) <= 2*T < 3*Q, which is floor(2T/3)+1.
package c11

import (
	"fmt"
	"os"
	"sort"
	"testing"

	"github.com/ethereum/go-ethereum/rlp"

	"github.com/Fantom-foundation/lachesis-base/inter/idx"
	"github.com/Fantom-foundation/lachesis-base/inter/pos"
	"pgregory.net/rapid"

	"verif/harness/internal/stats"
	"verif/harness/internal/tier"
)

const maxTotal = uint64(1)<<31 - 1

func TestMain(m *testing.M) {
	code := m.Run()
	stats.Flush()
	os.Exit(code)
}

// refQuorum is floor(2T/3)+1 in arithmetic that cannot overflow.
func refQuorum(T uint64) uint64 { return 2*T/3 + 1 }

// ---------------------------------------------------------------------------------------------
// (a) every total

var (
	enumIDs1 = []idx.ValidatorID{7}
	enumIDs3 = []idx.ValidatorID{11, 5, 9}
)

// checkTotal checks one total T through a one-validator set and through the boundary set
// {q-1, 1, T-q} (zero parts absent), whose prefixes weigh exactly quorum-1 and quorum.
// It returns whether the boundary set was usable (T >= 2).
func checkTotal(t *testing.T, T uint64) bool {
	v := pos.ArrayToValidators(enumIDs1, []pos.Weight{pos.Weight(T)})
	q := uint64(v.Quorum())
	if uint64(v.TotalWeight()) != T {
		t.Fatalf("total %d: one-validator set reports TotalWeight %d", T, v.TotalWeight())
	}
	if q == 0 || !(3*(q-1) <= 2*T && 2*T < 3*q) || q != refQuorum(T) {
		t.Fatalf("total %d: Quorum() = %d, want floor(2T/3)+1 = %d", T, q, refQuorum(T))
	}
	if q > T {
		t.Fatalf("total %d: the whole set (weight %d) does not reach the quorum %d", T, T, q)
	}
	c := v.NewCounter()
	if c.HasQuorum() || c.Sum() != 0 {
		t.Fatalf("total %d: fresh counter has sum %d, HasQuorum %v", T, c.Sum(), c.HasQuorum())
	}
	if !c.Count(enumIDs1[0]) || uint64(c.Sum()) != T || !c.HasQuorum() {
		t.Fatalf("total %d: after counting the only validator: sum %d HasQuorum %v", T, c.Sum(), c.HasQuorum())
	}
	if c.Count(enumIDs1[0]) || uint64(c.Sum()) != T || !c.HasQuorum() {
		t.Fatalf("total %d: second count of the only validator changed the counter: sum %d", T, c.Sum())
	}
	if T < 2 {
		return false
	}
	// boundary set
	want := refQuorum(T)
	w := [3]uint64{want - 1, 1, T - want}
	b := pos.ArrayToValidators(enumIDs3, []pos.Weight{pos.Weight(w[0]), pos.Weight(w[1]), pos.Weight(w[2])})
	if uint64(b.TotalWeight()) != T || uint64(b.Quorum()) != want {
		t.Fatalf("total %d: set %v reports total %d quorum %d, want quorum %d", T, w, b.TotalWeight(), b.Quorum(), want)
	}
	bc := b.NewCounter()
	sum := uint64(0)
	for i, id := range enumIDs3 {
		if w[i] == 0 {
			continue
		}
		var first bool
		if i == 1 {
			first = bc.CountByIdx(b.GetIdx(id))
		} else {
			first = bc.Count(id)
		}
		sum += w[i]
		if !first || uint64(bc.Sum()) != sum {
			t.Fatalf("total %d: set %v: counting validator %d: first=%v sum=%d want sum %d", T, w, id, first, bc.Sum(), sum)
		}
		if bc.HasQuorum() != (sum >= want) || (3*sum <= 2*T && bc.HasQuorum()) {
			t.Fatalf("total %d: set %v: counted weight %d, quorum %d, HasQuorum() = %v", T, w, sum, want, bc.HasQuorum())
		}
	}
	return true
}

var stTotals = stats.New("totals")

// TestC11Totals enumerates totals: all of 1..2^31-1 in the thorough tier (16 shards), boundary
// windows in the quick tier. Total 2^31 must be rejected.
func TestC11Totals(t *testing.T) {
	st := stTotals
	shard, nshards := tier.Shard()
	run := func(lo, hi uint64) { // [lo, hi)
		nb := int64(0)
		for T := lo; T < hi; T++ {
			if checkTotal(t, T) {
				nb++
				if T&0xfff == 0 || T == maxTotal {
					st.Nontrivial(T)
				}
			}
		}
		st.Evals(int64(hi - lo))
		st.Class("boundary_set_checked", nb)
		for r := uint64(0); r < 3; r++ {
			// number of T in [lo,hi) with T%3 == r
			cnt := (hi+2-r)/3 - (lo+2-r)/3
			st.Class(fmt.Sprintf("total_mod3_%d", r), int64(cnt))
		}
	}
	if shard == 0 {
		// the limit itself
		if p := panics(func() { pos.ArrayToValidators(enumIDs1, []pos.Weight{pos.Weight(maxTotal + 1)}) }); !p {
			t.Fatalf("a validator set with total 2^31 was accepted")
		}
		if p := panics(func() { pos.ArrayToValidators(enumIDs1, []pos.Weight{pos.Weight(maxTotal)}) }); p {
			t.Fatalf("a validator set with total 2^31-1 was rejected")
		}
	}
	if tier.Thorough() {
		total := maxTotal // totals 1..maxTotal
		per := total / uint64(nshards)
		lo := 1 + per*uint64(shard)
		hi := lo + per
		if shard == nshards-1 {
			hi = maxTotal + 1
		}
		run(lo, hi)
		st.Exhaustive(true)
		st.Sample(func() interface{} {
			return map[string]interface{}{"enumerated": "every total in the shard range [lo,hi); all shards together cover 1..2^31-1",
				"shard_range": []uint64{lo, hi}, "per_total": "one-validator set + boundary set {q-1,1,T-q}"}
		})
	} else {
		run(1, 1<<22)
		run(maxTotal+1-(1<<22), maxTotal+1)
		for p := uint(23); p <= 30; p++ {
			run((1<<p)-(1<<12), (1<<p)+(1<<12))
		}
		// around 2^32/3 and 2^31/3, 2^32/6 (where a 32-bit 2*T, 3*T or 4*T would wrap)
		for _, c := range []uint64{(1 << 32) / 3, (1 << 31) / 3, (1 << 32) / 6} {
			if c+(1<<12) <= maxTotal {
				run(c-(1<<12), c+(1<<12))
			}
		}
		st.Sample(func() interface{} {
			return map[string]interface{}{"enumerated": "1..2^22-1, 2^31-2^22..2^31-1, 2^p±2^12 for p=23..30, ±2^12 around 2^32/3, 2^31/3, 2^32/6",
				"per_total": "one-validator set + boundary set {q-1,1,T-q}"}
		})
	}
}

func panics(f func()) (p bool) {
	defer func() {
		if r := recover(); r != nil {
			p = true
		}
	}()
	f()
	return false
}

// ---------------------------------------------------------------------------------------------
// (b) drawn multi-validator sets

type vset struct {
	IDs   []uint32 `json:"ids"`
	W     []uint64 `json:"weights"`
	Total uint64   `json:"total"`
	Mode  string   `json:"mode"`
}

func clampTotal(x int64) uint64 {
	if x < 1 {
		return 1
	}
	if uint64(x) > maxTotal {
		return maxTotal
	}
	return uint64(x)
}

func genTotal() *rapid.Generator[uint64] {
	return rapid.OneOf(
		rapid.Uint64Range(1, 40),
		rapid.Custom(func(t *rapid.T) uint64 {
			k := rapid.Uint64Range(0, maxTotal/3).Draw(t, "k")
			r := rapid.Uint64Range(0, 2).Draw(t, "r")
			return clampTotal(int64(3*k + r))
		}),
		rapid.Custom(func(t *rapid.T) uint64 {
			return maxTotal - rapid.Uint64Range(0, 6).Draw(t, "belowMax")
		}),
		rapid.Custom(func(t *rapid.T) uint64 {
			p := rapid.IntRange(1, 31).Draw(t, "pow")
			d := rapid.Int64Range(-3, 3).Draw(t, "delta")
			return clampTotal(int64(1)<<uint(p) + d)
		}),
		rapid.Uint64Range(1, maxTotal),
	)
}

func genID() *rapid.Generator[uint32] {
	return rapid.OneOf(rapid.Uint32Range(0, 12), rapid.Uint32(), rapid.Uint32Range(0xfffffff0, 0xffffffff))
}

// refine splits parts until there are n of them (or no part can be split any further).
func refine(t *rapid.T, parts []uint64, n int) []uint64 {
	for len(parts) < n {
		var elig []int
		for i, p := range parts {
			if p >= 2 {
				elig = append(elig, i)
			}
		}
		if len(elig) == 0 {
			break
		}
		i := elig[rapid.IntRange(0, len(elig)-1).Draw(t, "splitPart")]
		v := parts[i]
		var cut uint64
		switch rapid.IntRange(0, 3).Draw(t, "cutKind") {
		case 0:
			cut = 1
		case 1:
			cut = v - 1
		case 2:
			cut = v / 2
		default:
			cut = rapid.Uint64Range(1, v-1).Draw(t, "cut")
		}
		parts[i] = cut
		parts = append(parts, v-cut)
	}
	return parts
}

func nonzero(parts []uint64) []uint64 {
	var out []uint64
	for _, p := range parts {
		if p != 0 {
			out = append(out, p)
		}
	}
	return out
}

// genSet draws a set of 1..maxN validators whose total is exactly the drawn total.
func genSet(t *rapid.T, maxN int) vset {
	T := genTotal().Draw(t, "total")
	n := rapid.IntRange(1, maxN).Draw(t, "n")
	q := refQuorum(T)
	var parts []uint64
	mode := rapid.SampledFrom([]string{"random", "boundary", "third", "equal", "twothirds"}).Draw(t, "mode")
	switch mode {
	case "random":
		parts = []uint64{T}
	case "boundary":
		// some subset weighs exactly q-1, and with one more unit exactly q
		parts = nonzero([]uint64{q - 1, 1, T - q})
	case "third":
		d := rapid.Int64Range(-1, 1).Draw(t, "d")
		a := clampTotal(int64(T/3) + d)
		if a >= T {
			a = T
		}
		parts = nonzero([]uint64{a, T - a})
	case "twothirds":
		d := rapid.Int64Range(-1, 1).Draw(t, "d")
		a := clampTotal(int64(2*T/3) + d)
		if a >= T {
			a = T
		}
		parts = nonzero([]uint64{a, T - a})
	case "equal":
		if uint64(n) > T {
			n = int(T)
		}
		base, rem := T/uint64(n), T%uint64(n)
		for i := 0; i < n; i++ {
			w := base
			if uint64(i) < rem {
				w++
			}
			parts = append(parts, w)
		}
	}
	parts = refine(t, parts, n)
	// drawn insertion order
	perm := rapid.Permutation(parts).Draw(t, "order")
	ids := rapid.SliceOfNDistinct(genID(), len(perm), len(perm), func(x uint32) uint32 { return x }).Draw(t, "ids")
	return vset{IDs: ids, W: perm, Total: T, Mode: mode}
}

func (s vset) build(viaBuilder bool) *pos.Validators {
	if viaBuilder {
		b := pos.NewBuilder()
		for i, id := range s.IDs {
			b.Set(idx.ValidatorID(id), pos.Weight(s.W[i]))
		}
		return b.Build()
	}
	// the arrays are handed over in canonical order when the number of members is even (a caller that sorted them), in
	// the drawn order otherwise; afterwards the caller reuses its arrays for something else
	order := make([]int, len(s.IDs))
	for i := range order {
		order[i] = i
	}
	if len(order)%2 == 0 {
		sort.SliceStable(order, func(a, b int) bool {
			if s.W[order[a]] != s.W[order[b]] {
				return s.W[order[a]] > s.W[order[b]]
			}
			return s.IDs[order[a]] < s.IDs[order[b]]
		})
	}
	ids := make([]idx.ValidatorID, len(s.IDs))
	ws := make([]pos.Weight, len(s.IDs))
	for k, i := range order {
		ids[k], ws[k] = idx.ValidatorID(s.IDs[i]), pos.Weight(s.W[i])
	}
	v := pos.ArrayToValidators(ids, ws)
	for k := range ids {
		ids[k], ws[k] = idx.ValidatorID(0xdead0000+uint32(k)), 1
	}
	return v
}

// buildDrawn builds the set through the builder, the array constructor, or by decoding an RLP list of
// (ID, weight) pairs in canonical order in which some pairs are repeated (a decoder must not count a
// repeated validator twice: the decoded object is a set).
func (s vset) buildDrawn(t *rapid.T) *pos.Validators {
	switch rapid.IntRange(0, 3).Draw(t, "buildPath") {
	case 0:
		return s.build(true)
	case 1:
		return s.build(false)
	}
	type pair struct {
		ID     idx.ValidatorID
		Weight pos.Weight
	}
	ps := make([]pair, len(s.IDs))
	for i := range s.IDs {
		ps[i] = pair{idx.ValidatorID(s.IDs[i]), pos.Weight(s.W[i])}
	}
	sort.SliceStable(ps, func(a, b int) bool {
		if ps[a].Weight != ps[b].Weight {
			return ps[a].Weight > ps[b].Weight
		}
		return ps[a].ID < ps[b].ID
	})
	var list []pair
	for _, p := range ps {
		list = append(list, p)
		if rapid.IntRange(0, 2).Draw(t, "repeatPair") == 0 {
			list = append(list, p)
		}
	}
	enc, err := rlp.EncodeToBytes(list)
	if err != nil {
		t.Fatalf("rlp encode: %v", err)
	}
	v := &pos.Validators{}
	if err := rlp.DecodeBytes(enc, v); err != nil {
		t.Fatalf("decoding the pair list %v failed: %v", list, err)
	}
	return v
}

// indexMap returns the code's index of every member (position in s.IDs -> idx) after checking
// that it is a bijection onto 0..n-1 that agrees with the member weights.
func indexMap(t *rapid.T, s vset, v *pos.Validators) []idx.Validator {
	n := len(s.IDs)
	if int(v.Len()) != n {
		t.Fatalf("set %+v: Len() = %d", s, v.Len())
	}
	res := make([]idx.Validator, n)
	seen := make([]bool, n)
	for i, id := range s.IDs {
		k := v.GetIdx(idx.ValidatorID(id))
		if int(k) >= n || seen[k] {
			t.Fatalf("set %+v: GetIdx(%d) = %d is out of range or used twice", s, id, k)
		}
		seen[k] = true
		if uint64(v.GetWeightByIdx(k)) != s.W[i] || uint64(v.Get(idx.ValidatorID(id))) != s.W[i] {
			t.Fatalf("set %+v: validator %d has weight %d by index, %d by ID", s, id, v.GetWeightByIdx(k), v.Get(idx.ValidatorID(id)))
		}
		res[i] = k
	}
	return res
}

var stSets = stats.New("sets")

// TestC11Sets: quorum value, and the subset / quorum-intersection clauses over all subsets
// (all pairs of subsets for <= 6 validators, drawn pairs above).
func TestC11Sets(t *testing.T) {
	rapid.Check(t, func(t *rapid.T) {
		s := genSet(t, 8)
		v := s.buildDrawn(t)
		T := s.Total
		n := len(s.IDs)
		q := refQuorum(T)
		if uint64(v.TotalWeight()) != T {
			t.Fatalf("set %+v: TotalWeight() = %d", s, v.TotalWeight())
		}
		if got := uint64(v.Quorum()); got != q || !(3*(got-1) <= 2*T && 2*T < 3*got) {
			t.Fatalf("set %+v: Quorum() = %d, want %d", s, got, q)
		}
		im := indexMap(t, s, v)
		// every subset through a fresh counter
		nsub := 1 << uint(n)
		wsub := make([]uint64, nsub)
		reach := make([]bool, nsub)
		nBoundary := 0
		for m := 0; m < nsub; m++ {
			c := v.NewCounter()
			w := uint64(0)
			for i := 0; i < n; i++ {
				if m&(1<<uint(i)) == 0 {
					continue
				}
				w += s.W[i]
				var first bool
				if (m+i)%2 == 0 {
					first = c.Count(idx.ValidatorID(s.IDs[i]))
				} else {
					first = c.CountByIdx(im[i])
				}
				if !first {
					t.Fatalf("set %+v subset %b: first count of validator %d returned false", s, m, s.IDs[i])
				}
			}
			if uint64(c.Sum()) != w {
				t.Fatalf("set %+v subset %b: Sum() = %d, want %d", s, m, c.Sum(), w)
			}
			h := c.HasQuorum()
			if 3*w <= 2*T && h {
				t.Fatalf("set %+v subset %b: weight %d is at most two thirds of %d but HasQuorum() is true", s, m, w, T)
			}
			if h != (w >= q) {
				t.Fatalf("set %+v subset %b: weight %d, quorum %d, HasQuorum() = %v", s, m, w, q, h)
			}
			if m == nsub-1 && !h {
				t.Fatalf("set %+v: the whole set does not reach the quorum", s)
			}
			wsub[m], reach[m] = w, h
			if w == q || w+1 == q {
				nBoundary++
			}
		}
		// quorum intersection
		var reaching []int
		for m := 0; m < nsub; m++ {
			if reach[m] {
				reaching = append(reaching, m)
			}
		}
		pairs := 0
		checkPair := func(a, b int) {
			pairs++
			if 3*wsub[a&b] <= T {
				t.Fatalf("set %+v: subsets %b (weight %d) and %b (weight %d) both reach the quorum %d but share only %d of %d",
					s, a, wsub[a], b, wsub[b], q, wsub[a&b], T)
			}
		}
		cls := "pairs_exhaustive"
		if n <= 6 {
			for _, a := range reaching {
				for _, b := range reaching {
					checkPair(a, b)
				}
			}
		} else {
			cls = "pairs_drawn"
			k := rapid.IntRange(1, 64).Draw(t, "npairs")
			for i := 0; i < k; i++ {
				a := reaching[rapid.IntRange(0, len(reaching)-1).Draw(t, "a")]
				b := reaching[rapid.IntRange(0, len(reaching)-1).Draw(t, "b")]
				checkPair(a, b)
			}
		}
		classes := []string{cls, "mode_" + s.Mode, fmt.Sprintf("total_mod3_%d", T%3), fmt.Sprintf("n_%d", n)}
		if T >= maxTotal-6 {
			classes = append(classes, "total_near_max")
		}
		if T == maxTotal {
			classes = append(classes, "total_max")
		}
		if nBoundary > 0 {
			classes = append(classes, "has_boundary_subset")
		}
		stSets.Case(stats.Hash(s.IDs, s.W), nBoundary > 0, classes...)
		stSets.Class("subsets_checked", int64(nsub))
		stSets.Class("subset_pairs_checked", int64(pairs))
		stSets.Sample(func() interface{} { return s })
	})
}

// ---------------------------------------------------------------------------------------------
// weight counter call sequences

var stCounter = stats.New("counter")

func TestC11Counter(t *testing.T) {
	rapid.Check(t, func(t *rapid.T) {
		// mostly small sets; some with more members than one machine word of "already counted" flags
		s := genSet(t, rapid.SampledFrom([]int{8, 8, 8, 8, 40, 70, 130}).Draw(t, "maxMembers"))
		v := s.buildDrawn(t)
		T, n, q := s.Total, len(s.IDs), refQuorum(s.Total)
		im := indexMap(t, s, v)
		byIdx := make([]int, n) // idx -> position in s
		for i, k := range im {
			byIdx[k] = i
		}
		// the next epoch's set is derived from this one (a mutable copy, edited and built): the set itself is read-only
		if rapid.IntRange(0, 2).Draw(t, "nextSetDerived") == 0 {
			nb := v.Builder()
			nb.Set(idx.ValidatorID(s.IDs[0]), 0)
			nb.Set(idx.ValidatorID(s.IDs[n-1]), pos.Weight(1))
			_ = nb.Build()
		}
		c := v.NewCounter()
		counted := make([]bool, n)
		sum := uint64(0)
		var hist []string
		repeats, boundary, flips := 0, false, 0
		check := func() {
			if uint64(c.Sum()) != sum {
				t.Fatalf("set %+v after %v: Sum() = %d, want %d (weight of the distinct counted validators)", s, hist, c.Sum(), sum)
			}
			if h := c.HasQuorum(); h != (sum >= q) || (h && 3*sum <= 2*T) {
				t.Fatalf("set %+v after %v: counted %d of %d, quorum %d, HasQuorum() = %v", s, hist, sum, T, q, h)
			}
			if sum == q || sum+1 == q {
				boundary = true
			}
		}
		check()
		nops := rapid.IntRange(0, 3*n+4).Draw(t, "nops")
		// at a drawn point the Validators OBJECT the counter was made from may be refilled in place with another
		// set (RLP-decoding into an existing object does that, e.g. re-reading a state struct): the counter
		// belongs to the set it was created from
		refillAt := -1
		if rapid.IntRange(0, 3).Draw(t, "refillObject") == 0 {
			refillAt = rapid.IntRange(0, nops).Draw(t, "refillAt")
		}
		refilled := false
		refill := func() {
			s2 := genSet(t, 8)
			enc, err := rlp.EncodeToBytes(s2.build(true))
			if err != nil {
				t.Fatalf("rlp encode: %v", err)
			}
			if err := rlp.DecodeBytes(enc, v); err != nil {
				t.Fatalf("decoding into the existing object: %v", err)
			}
			hist = append(hist, fmt.Sprintf("object refilled with %+v", s2))
			refilled = true
		}
		for o := 0; o < nops; o++ {
			if o == refillAt {
				refill()
			}
			var i int
			if o > 0 && rapid.IntRange(0, 3).Draw(t, "repeat") == 0 {
				// repeat an already counted validator if any
				var cs []int
				for j, b := range counted {
					if b {
						cs = append(cs, j)
					}
				}
				if len(cs) > 0 {
					i = cs[rapid.IntRange(0, len(cs)-1).Draw(t, "which")]
				} else {
					i = rapid.IntRange(0, n-1).Draw(t, "member")
				}
			} else {
				i = rapid.IntRange(0, n-1).Draw(t, "member")
			}
			var got bool
			before := sum >= q
			if rapid.Bool().Draw(t, "byIdx") {
				hist = append(hist, fmt.Sprintf("CountByIdx(%d)", im[i]))
				got = c.CountByIdx(im[i])
			} else {
				hist = append(hist, fmt.Sprintf("Count(%d)", s.IDs[i]))
				got = c.Count(idx.ValidatorID(s.IDs[i]))
			}
			want := !counted[i]
			if counted[i] {
				repeats++
			} else {
				counted[i] = true
				sum += s.W[i]
			}
			if got != want {
				t.Fatalf("set %+v: calls %v: last call returned %v, want %v (true exactly on the first count of a validator)", s, hist, got, want)
			}
			check()
			if before != (sum >= q) {
				flips++
			}
		}
		if refillAt == nops {
			refill()
			check()
		}
		if refilled {
			// (the object now holds another set; the clauses about a second counter need the original one)
			v = s.build(true)
			im2 := indexMap(t, s, v)
			for i := range im2 {
				if im2[i] != im[i] {
					t.Fatalf("set %+v: two builds of the same set number the validators differently", s)
				}
			}
		}
		// a second counter of the same set is independent of the first
		c2 := v.NewCounter()
		if c2.Sum() != 0 || c2.HasQuorum() {
			t.Fatalf("set %+v: fresh counter after %v has sum %d", s, hist, c2.Sum())
		}
		{
			if !c2.CountByIdx(0) || uint64(c2.Sum()) != s.W[byIdx[0]] {
				t.Fatalf("set %+v: second counter: CountByIdx(0) gave sum %d, want %d", s, c2.Sum(), s.W[byIdx[0]])
			}
			check() // the first counter is unaffected
		}
		classes := []string{"mode_" + s.Mode, fmt.Sprintf("n_%d", n)}
		if repeats > 0 {
			classes = append(classes, "with_repeats")
		}
		if boundary {
			classes = append(classes, "sum_at_quorum_or_one_below")
		}
		if flips > 0 {
			classes = append(classes, "reached_quorum_during_sequence")
		}
		if T >= maxTotal-6 {
			classes = append(classes, "total_near_max")
		}
		if n > 32 {
			classes = append(classes, "more_than_32_members")
		}
		if refilled {
			classes = append(classes, "validators_object_refilled_while_counting")
		}
		stCounter.Case(stats.Hash(s.IDs, s.W, hist), boundary, classes...)
		stCounter.Class("count_calls", int64(nops))
		stCounter.Class("repeat_calls", int64(repeats))
		stCounter.Sample(func() interface{} {
			return map[string]interface{}{"set": s, "calls": hist}
		})
	})
}

// ---------------------------------------------------------------------------------------------
// the weight limit: totals up to 2^31-1 are accepted, larger ones rejected

var stLimit = stats.New("limit")

func TestC11Limit(t *testing.T) {
	rapid.Check(t, func(t *rapid.T) {
		// the true total is computed in 64 bits; weights are any 32-bit values
		kind := rapid.SampledFrom([]string{"max", "max_plus_1", "around_limit", "around_2^32", "free"}).Draw(t, "kind")
		n := rapid.IntRange(1, 8).Draw(t, "n")
		var T uint64
		switch kind {
		case "max":
			T = maxTotal
		case "max_plus_1":
			T = maxTotal + 1
		case "around_limit":
			T = uint64(int64(maxTotal) + rapid.Int64Range(-4, 4).Draw(t, "d"))
		case "around_2^32":
			T = uint64(int64(1)<<32 + rapid.Int64Range(-4, int64(maxTotal)+4).Draw(t, "d"))
		}
		var parts []uint64
		if kind == "free" {
			for i := 0; i < n; i++ {
				parts = append(parts, uint64(rapid.OneOf(rapid.Uint32Range(1, 0xffffffff), rapid.Uint32Range(0xfffffff0, 0xffffffff), rapid.Uint32Range(1<<30, 1<<31)).Draw(t, "w")))
			}
		} else {
			parts = refine(t, []uint64{T}, n)
			// every weight must fit 32 bits: split oversized parts further
			for {
				again := false
				for i, p := range parts {
					if p > 0xffffffff {
						cut := rapid.Uint64Range(p-0xffffffff, 0xffffffff).Draw(t, "fit")
						parts[i] = cut
						parts = append(parts, p-cut)
						again = true
						break
					}
				}
				if !again {
					break
				}
			}
		}
		parts = rapid.Permutation(parts).Draw(t, "order")
		T = 0
		for _, p := range parts {
			T += p
		}
		ids := rapid.SliceOfNDistinct(genID(), len(parts), len(parts), func(x uint32) uint32 { return x }).Draw(t, "ids")
		s := vset{IDs: ids, W: parts, Total: T, Mode: kind}
		via := rapid.Bool().Draw(t, "viaBuilder")
		var v *pos.Validators
		p := panics(func() { v = s.build(via) })
		if T > maxTotal && !p {
			t.Fatalf("set %+v with total %d > 2^31-1 was accepted (reported total %d)", s, T, v.TotalWeight())
		}
		if T <= maxTotal {
			if p {
				t.Fatalf("set %+v with total %d <= 2^31-1 was rejected", s, T)
			}
			if uint64(v.TotalWeight()) != T || uint64(v.Quorum()) != refQuorum(T) {
				t.Fatalf("set %+v: total %d quorum %d, want %d and %d", s, v.TotalWeight(), v.Quorum(), T, refQuorum(T))
			}
			c := v.NewCounter()
			for _, id := range s.IDs {
				c.Count(idx.ValidatorID(id))
			}
			if uint64(c.Sum()) != T || !c.HasQuorum() {
				t.Fatalf("set %+v: counting everybody gives sum %d HasQuorum %v", s, c.Sum(), c.HasQuorum())
			}
		}
		cls := "accepted"
		if T > maxTotal {
			cls = "rejected"
			if T > 0xffffffff {
				cls = "rejected_wraps_32_bits"
			}
		}
		classes := []string{cls, "kind_" + kind}
		if T == maxTotal {
			classes = append(classes, "total_exactly_max")
		}
		if T == maxTotal+1 {
			classes = append(classes, "total_exactly_2^31")
		}
		stLimit.Case(stats.Hash(s.IDs, s.W), T == maxTotal || T == maxTotal+1, classes...)
		stLimit.Sample(func() interface{} { return s })
	})
}
