// C12: validator sets have a canonical, serialisable form.
//
// Oracle: a plain map model of the non-zero (ID, weight) pairs (last write wins, zero = absent),
// sorted by (weight descending, ID ascending) with sort.Slice; math/big for the big-stake builder.
package c12

import (
	"bytes"
	"fmt"
	"math/big"
	"os"
	"sort"
	"testing"

	"github.com/Fantom-foundation/lachesis-base/inter/idx"
	"github.com/Fantom-foundation/lachesis-base/inter/pos"
	"github.com/ethereum/go-ethereum/rlp"
	"pgregory.net/rapid"

	"verif/harness/internal/stats"
)

const maxTotal = uint64(1)<<31 - 1

func TestMain(m *testing.M) {
	code := m.Run()
	stats.Flush()
	os.Exit(code)
}

// pair is one (ID, weight) entry; it RLP-encodes as the two-element list [ID, weight].
type pair struct {
	ID uint32
	W  uint32
}

// model applies Set semantics to a list of entries: the last entry of an ID wins, zero = absent.
func model(entries []pair) map[uint32]uint32 {
	m := map[uint32]uint32{}
	for _, e := range entries {
		if e.W == 0 {
			delete(m, e.ID)
		} else {
			m[e.ID] = e.W
		}
	}
	return m
}

// canon is the canonical order stated by the property: weight descending, ties by ascending ID.
func canon(m map[uint32]uint32) []pair {
	res := make([]pair, 0, len(m))
	for id, w := range m {
		res = append(res, pair{id, w})
	}
	sort.Slice(res, func(i, j int) bool {
		if res[i].W != res[j].W {
			return res[i].W > res[j].W
		}
		return res[i].ID < res[j].ID
	})
	return res
}

func total(c []pair) uint64 {
	s := uint64(0)
	for _, p := range c {
		s += uint64(p.W)
	}
	return s
}

// L defers formatting of a label until a check fails.
func L(format string, args ...interface{}) func() string {
	return func() string { return fmt.Sprintf(format, args...) }
}

type lazyStr func() string

func (l lazyStr) String() string { return l() }

type fataler interface {
	Fatalf(format string, args ...interface{})
}

// checkSet compares every observable of v with the canonical pair list want; absent are IDs
// that must not be members.
func checkSet(t fataler, lbl func() string, v *pos.Validators, want []pair, absent []uint32) {
	label := lazyStr(lbl) // formatted only when a check fails
	n := len(want)
	if int(v.Len()) != n {
		t.Fatalf("%s: Len() = %d, want %d; set %v, want %v", label, v.Len(), n, v, want)
	}
	if uint64(v.TotalWeight()) != total(want) {
		t.Fatalf("%s: TotalWeight() = %d, want %d; set %v", label, v.TotalWeight(), total(want), v)
	}
	ids, ws, unsorted, idxs := v.SortedIDs(), v.SortedWeights(), v.IDs(), v.Idxs()
	if len(ids) != n || len(ws) != n || len(unsorted) != n || len(idxs) != n {
		t.Fatalf("%s: SortedIDs/SortedWeights/IDs/Idxs have lengths %d/%d/%d/%d, want %d", label, len(ids), len(ws), len(unsorted), len(idxs), n)
	}
	inIDs := map[idx.ValidatorID]int{}
	for _, id := range unsorted {
		inIDs[id]++
	}
	for i, p := range want {
		id := idx.ValidatorID(p.ID)
		if ids[i] != id || uint32(ws[i]) != p.W {
			t.Fatalf("%s: position %d is [%d:%d], want [%d:%d]; order %v, want %v", label, i, ids[i], ws[i], p.ID, p.W, v, want)
		}
		if k, ok := idxs[id]; !ok || int(k) != i || int(v.GetIdx(id)) != i {
			t.Fatalf("%s: Idxs()[%d] = %d (present %v), GetIdx = %d, want %d; %v", label, p.ID, k, ok, v.GetIdx(id), i, v)
		}
		if v.GetID(idx.Validator(i)) != id || uint32(v.GetWeightByIdx(idx.Validator(i))) != p.W {
			t.Fatalf("%s: GetID(%d) = %d, GetWeightByIdx = %d, want [%d:%d]", label, i, v.GetID(idx.Validator(i)), v.GetWeightByIdx(idx.Validator(i)), p.ID, p.W)
		}
		if uint32(v.Get(id)) != p.W || !v.Exists(id) {
			t.Fatalf("%s: Get(%d) = %d, Exists = %v, want weight %d", label, p.ID, v.Get(id), v.Exists(id), p.W)
		}
		if inIDs[id] != 1 {
			t.Fatalf("%s: IDs() lists validator %d %d times", label, p.ID, inIDs[id])
		}
	}
	for _, a := range absent {
		id := idx.ValidatorID(a)
		if _, ok := idxs[id]; ok || v.Exists(id) || v.Get(id) != 0 {
			t.Fatalf("%s: validator %d with zero weight is a member (Exists %v, Get %d, in Idxs %v); %v", label, a, v.Exists(id), v.Get(id), ok, v)
		}
	}
}

func genID() *rapid.Generator[uint32] {
	return rapid.OneOf(rapid.Uint32Range(0, 12), rapid.Uint32(), rapid.Uint32Range(0xfffffff0, 0xffffffff))
}

func buildSet(entries []pair) *pos.Validators {
	b := pos.NewBuilder()
	for _, e := range entries {
		b.Set(idx.ValidatorID(e.ID), pos.Weight(e.W))
	}
	return b.Build()
}

func buildArray(entries []pair) *pos.Validators {
	ids := make([]idx.ValidatorID, len(entries))
	ws := make([]pos.Weight, len(entries))
	for i, e := range entries {
		ids[i], ws[i] = idx.ValidatorID(e.ID), pos.Weight(e.W)
	}
	return pos.ArrayToValidators(ids, ws)
}

// reorder returns a second entry list with the same final non-zero pairs as m: the pairs in a
// drawn order, with stale (overwritten) entries before the final entry of an ID and zero-weight
// entries for absent IDs mixed in.
func reorder(t *rapid.T, m map[uint32]uint32, absent []uint32, maxW uint32) []pair {
	l := rapid.Permutation(canon(m)).Draw(t, "order")
	insert := func(p int, e pair) {
		l = append(l, pair{})
		copy(l[p+1:], l[p:])
		l[p] = e
	}
	noise := rapid.IntRange(0, 5).Draw(t, "noise")
	for k := 0; k < noise; k++ {
		p := rapid.IntRange(0, len(l)).Draw(t, "noisePos")
		kind := rapid.IntRange(0, 2).Draw(t, "noiseKind")
		switch {
		case kind == 0 && p < len(l):
			// stale value of an ID whose later entry is at or after p
			j := rapid.IntRange(p, len(l)-1).Draw(t, "staleOf")
			insert(p, pair{l[j].ID, rapid.OneOf(rapid.Just(uint32(0)), rapid.Uint32Range(1, maxW)).Draw(t, "staleW")})
		case kind == 1 && len(absent) > 0:
			insert(p, pair{rapid.SampledFrom(absent).Draw(t, "absentID"), 0})
		case kind == 2 && len(absent) > 0:
			// a validator that is set and removed again later
			id := rapid.SampledFrom(absent).Draw(t, "removedID")
			insert(p, pair{id, rapid.Uint32Range(1, maxW).Draw(t, "removedW")})
			insert(rapid.IntRange(p+1, len(l)).Draw(t, "removePos"), pair{id, 0})
		}
	}
	return l
}

var stCanon = stats.New("canonical")

var hugeSets int

// TestC12Canonical: every construction path and insertion order of the same non-zero pairs
// gives the same canonical set, and RLP encode/decode preserves it.
func TestC12Canonical(t *testing.T) {
	rapid.Check(t, func(t *rapid.T) {
		// mostly small sets; one case in five has up to 40 members (sorting networks and insertion sort stop at
		// about a dozen elements: larger sets take other code paths of the sort)
		poolN, maxW := 11, uint32(1<<27)
		if rapid.IntRange(0, 4).Draw(t, "largeSet") == 0 {
			poolN, maxW = 43, uint32(1<<25)
		}
		all := rapid.SliceOfNDistinct(genID(), poolN, poolN, func(x uint32) uint32 { return x }).Draw(t, "ids")
		k := rapid.IntRange(0, poolN-3).Draw(t, "members")
		members, others, spare := all[:k], all[k:poolN-1], all[poolN-1]
		tie := rapid.Uint32Range(1, maxW).Draw(t, "tie")
		genW := rapid.OneOf(rapid.Uint32Range(1, 3), rapid.Just(tie), rapid.Just(tie), rapid.Just(tie+1), rapid.Uint32Range(1, maxW))
		m := map[uint32]uint32{}
		for _, id := range members {
			m[id] = genW.Draw(t, "w")
		}
		atMax := false
		if rapid.IntRange(0, 7).Draw(t, "fillToMax") == 0 {
			m[spare] = uint32(maxTotal - total(canon(m)))
			atMax = true
		}
		want := canon(m)
		var absent []uint32
		for _, id := range append(append([]uint32{}, others...), spare) {
			if _, ok := m[id]; !ok {
				absent = append(absent, id)
			}
		}
		// first insertion order, with overwritten values, zero weights and removed validators
		ops := reorder(t, m, absent, maxW)
		overwrites, zeroSets := 0, 0
		seenID := map[uint32]bool{}
		for _, e := range ops {
			if seenID[e.ID] {
				overwrites++
			}
			seenID[e.ID] = true
			if e.W == 0 {
				zeroSets++
			}
		}
		if len(model(ops)) != len(m) {
			t.Fatalf("generator error: %v does not end in %v", ops, m)
		}

		// path 1: Builder.Set in the drawn order
		b1 := pos.NewBuilder()
		for _, e := range ops {
			b1.Set(idx.ValidatorID(e.ID), pos.Weight(e.W))
		}
		v1 := b1.Build()
		checkSet(t, L("Builder.Set%v", ops), v1, want, absent)

		// path 2: the same final pairs in another order with other overwritten/zero entries
		l2 := reorder(t, m, absent, maxW)
		var v2 *pos.Validators
		path2 := rapid.SampledFrom([]string{"set", "array", "rawmap"}).Draw(t, "path2")
		switch path2 {
		case "set":
			v2 = buildSet(l2)
		case "array":
			v2 = buildArray(l2)
		case "rawmap":
			// the builder type is a map: entries written directly, zero weights included
			raw := pos.ValidatorsBuilder{}
			for _, e := range l2 {
				raw[idx.ValidatorID(e.ID)] = pos.Weight(e.W)
			}
			for _, a := range absent {
				if rapid.Bool().Draw(t, "rawZero") {
					raw[idx.ValidatorID(a)] = 0
				}
			}
			v2 = raw.Build()
		}
		checkSet(t, L("second order (%s) %v", path2, l2), v2, want, absent)
		if v1.String() != v2.String() {
			t.Fatalf("two insertion orders print differently: %v vs %v", v1, v2)
		}

		// Copy and Builder() give equal, independent sets
		cp := v1.Copy()
		checkSet(t, L("Copy()"), cp, want, absent)
		mb := v1.Builder()
		checkSet(t, L("Builder().Build()"), mb.Build(), want, absent)
		// mutate the mutable copy and the original builder: v1 and its copy must not change
		mutID := spare
		if len(want) > 0 && rapid.Bool().Draw(t, "mutMember") {
			mutID = want[rapid.IntRange(0, len(want)-1).Draw(t, "mutWhich")].ID
		}
		mutW := rapid.OneOf(rapid.Just(uint32(0)), rapid.Uint32Range(1, 5), rapid.Just(tie)).Draw(t, "mutW")
		if uint64(mutW)+total(want) <= maxTotal {
			mb.Set(idx.ValidatorID(mutID), pos.Weight(mutW))
			b1.Set(idx.ValidatorID(mutID), pos.Weight(mutW))
			m2 := model(append(append([]pair{}, want...), pair{mutID, mutW}))
			var absent2 []uint32
			for _, id := range all {
				if _, ok := m2[id]; !ok {
					absent2 = append(absent2, id)
				}
			}
			checkSet(t, L("Builder() then Set(%d,%d)", mutID, mutW), mb.Build(), canon(m2), absent2)
			checkSet(t, L("original builder then Set(%d,%d)", mutID, mutW), b1.Build(), canon(m2), absent2)
			checkSet(t, L("set after its Builder() copy was changed by Set(%d,%d)", mutID, mutW), v1, want, absent)
			checkSet(t, L("Copy() after the original's builder was changed"), cp, want, absent)
		}

		// the equal-weight constructor with a list of IDs in which some are repeated: the result is the set of the
		// distinct IDs
		if len(want) > 0 {
			ew := uint32(rapid.IntRange(1, 9).Draw(t, "equalWeight"))
			var eids []idx.ValidatorID
			var ewant []pair
			em := map[uint32]uint32{}
			for _, e := range l2 {
				if e.W == 0 {
					continue
				}
				eids = append(eids, idx.ValidatorID(e.ID))
				if rapid.IntRange(0, 3).Draw(t, "repeatID") == 0 {
					eids = append(eids, idx.ValidatorID(e.ID))
				}
				em[e.ID] = ew
			}
			if uint64(len(em))*uint64(ew) <= maxTotal && len(em) > 0 {
				ewant = canon(em)
				var eabsent []uint32
				for _, id := range all {
					if _, ok := em[id]; !ok {
						eabsent = append(eabsent, id)
					}
				}
				checkSet(t, L("EqualWeightValidators(%v, %d)", eids, ew), pos.EqualWeightValidators(eids, pos.Weight(ew)), ewant, eabsent)
			}
		}
		// very large sets (an encoding of 64 KiB and more) still round-trip
		if rapid.IntRange(0, 3999).Draw(t, "hugeSet") == 7 {
			hn := rapid.IntRange(6000, 14000).Draw(t, "hugeMembers")
			hids := make([]idx.ValidatorID, hn)
			for i := range hids {
				hids[i] = idx.ValidatorID(1000 + 3*i)
			}
			hv := pos.EqualWeightValidators(hids, 1)
			henc, err := rlp.EncodeToBytes(hv)
			if err != nil {
				t.Fatalf("encoding a set of %d validators: %v", hn, err)
			}
			var hdec pos.Validators
			if err := rlp.DecodeBytes(henc, &hdec); err != nil {
				t.Fatalf("decoding the %d-byte encoding of a set of %d validators: %v", len(henc), hn, err)
			}
			if int(hdec.Len()) != hn || uint64(hdec.TotalWeight()) != uint64(hn) || hdec.GetIdx(hids[hn-1]) != hv.GetIdx(hids[hn-1]) {
				t.Fatalf("a set of %d validators does not survive encoding and decoding (%d bytes): got %d members, total %d", hn, len(henc), hdec.Len(), hdec.TotalWeight())
			}
			hugeSets++
		}
		// RLP: both orders encode identically; decoding gives the same set in the same order
		enc1, err := rlp.EncodeToBytes(v1)
		if err != nil {
			t.Fatalf("EncodeRLP(%v): %v", v1, err)
		}
		enc2, err := rlp.EncodeToBytes(v2)
		if err != nil {
			t.Fatalf("EncodeRLP(%v): %v", v2, err)
		}
		if !bytes.Equal(enc1, enc2) {
			t.Fatalf("the same set built in two orders encodes differently: %x vs %x (%v)", enc1, enc2, v1)
		}
		var dec pos.Validators
		if err := rlp.DecodeBytes(enc1, &dec); err != nil {
			t.Fatalf("DecodeRLP(%x) of %v: %v", enc1, v1, err)
		}
		checkSet(t, L("decode(encode(%v))", v1), &dec, want, absent)
		if enc3, err := rlp.EncodeToBytes(&dec); err != nil || !bytes.Equal(enc3, enc1) {
			t.Fatalf("re-encoding the decoded set gives %x (%v), want %x", enc3, err, enc1)
		}
		// decoding into an object that already holds another set (a reused variable, a struct field that is
		// decoded again) replaces that set
		reused := pos.NewBuilder()
		for _, id := range absent {
			if rapid.IntRange(0, 2).Draw(t, "reusedMember") == 0 {
				reused.Set(idx.ValidatorID(id), pos.Weight(rapid.Uint32Range(1, 3).Draw(t, "reusedW")))
			}
		}
		for _, e := range want {
			if rapid.IntRange(0, 3).Draw(t, "reusedCommon") == 0 {
				reused.Set(idx.ValidatorID(e.ID), pos.Weight(rapid.Uint32Range(1, 3).Draw(t, "reusedW")))
			}
		}
		dst := reused.Build()
		if err := rlp.DecodeBytes(enc1, dst); err != nil {
			t.Fatalf("DecodeRLP(%x) into an object holding %v: %v", enc1, dst, err)
		}
		checkSet(t, L("decode(encode(%v)) into an object that held another set", v1), dst, want, absent)
		if enc4, err := rlp.EncodeToBytes(dst); err != nil || !bytes.Equal(enc4, enc1) {
			t.Fatalf("re-encoding the set decoded into a reused object gives %x (%v), want %x", enc4, err, enc1)
		}
		// decoding a serialised pair list in any order yields the canonical set of those pairs
		encF, err := rlp.EncodeToBytes(l2)
		if err != nil {
			t.Fatalf("encoding the pair list: %v", err)
		}
		var decF pos.Validators
		if err := rlp.DecodeBytes(encF, &decF); err != nil {
			t.Fatalf("DecodeRLP of the pair list %v: %v", l2, err)
		}
		checkSet(t, L("decode of the pair list %v", l2), &decF, want, absent)
		// nested inside another value
		type wrap struct {
			A uint64
			V *pos.Validators
			B []byte
		}
		encW, err := rlp.EncodeToBytes(&wrap{7, v2, []byte{1, 2}})
		if err != nil {
			t.Fatalf("encoding a struct holding the set: %v", err)
		}
		var decW wrap
		if rapid.Bool().Draw(t, "wrapHoldsOldSet") {
			decW.V = reused.Build()
		}
		if err := rlp.DecodeBytes(encW, &decW); err != nil || decW.A != 7 || !bytes.Equal(decW.B, []byte{1, 2}) || decW.V == nil {
			t.Fatalf("decoding a struct holding the set %v: %v", v2, err)
		}
		checkSet(t, L("decode of a struct holding the set"), decW.V, want, absent)

		ties := false
		for i := 1; i < len(want); i++ {
			if want[i].W == want[i-1].W {
				ties = true
			}
		}
		l2sorted := true
		for i := range l2 {
			if i >= len(want) || l2[i] != want[i] {
				l2sorted = false
			}
		}
		classes := []string{"path2_" + path2, fmt.Sprintf("n_%d", len(want))}
		if ties {
			classes = append(classes, "weight_ties")
		}
		if overwrites > 0 {
			classes = append(classes, "with_overwrites")
		}
		if zeroSets > 0 {
			classes = append(classes, "with_zero_weight_sets")
		}
		if len(absent) > 0 {
			classes = append(classes, "with_absent_ids")
		}
		if atMax {
			classes = append(classes, "total_exactly_max")
		}
		if len(want) == 0 {
			classes = append(classes, "empty_set")
		}
		if !l2sorted {
			classes = append(classes, "second_order_not_canonical")
		}
		if hugeSets > 0 {
			stCanon.Class("huge_set_round_trips", int64(hugeSets))
			hugeSets = 0
		}
		stCanon.Case(stats.Hash(ops, l2, path2), ties, classes...)
		stCanon.Sample(func() interface{} {
			return map[string]interface{}{"ops": ops, "second_order": l2, "path2": path2, "canonical": want}
		})
	})
}

// ---------------------------------------------------------------------------------------------
// big stakes

var (
	big1     = big.NewInt(1)
	big2     = big.NewInt(2)
	bigLimit = new(big.Int).SetUint64(maxTotal)
	big2p256 = new(big.Int).Lsh(big1, 256)
)

func pow2(n int) *big.Int { return new(big.Int).Lsh(big1, uint(n)) }

// genBelow draws a value in [0, bound) (bound >= 1) biased to the ends.
func genBelow(t *rapid.T, bound *big.Int, label string) *big.Int {
	switch rapid.IntRange(0, 3).Draw(t, label+"Kind") {
	case 0:
		return new(big.Int)
	case 1:
		return new(big.Int).Sub(bound, big1)
	case 2:
		return new(big.Int).Rsh(bound, 1)
	}
	nbytes := (bound.BitLen() + 7) / 8
	raw := rapid.SliceOfN(rapid.Byte(), nbytes, nbytes).Draw(t, label)
	x := new(big.Int).SetBytes(raw)
	return x.Mod(x, bound)
}

// splitBig splits S >= 1 into at most n positive parts.
func splitBig(t *rapid.T, S *big.Int, n int) []*big.Int {
	parts := []*big.Int{new(big.Int).Set(S)}
	for len(parts) < n {
		var elig []int
		for i, p := range parts {
			if p.Cmp(big2) >= 0 {
				elig = append(elig, i)
			}
		}
		if len(elig) == 0 {
			break
		}
		i := elig[rapid.IntRange(0, len(elig)-1).Draw(t, "splitPart")]
		v := parts[i]
		// cut in [1, v-1]
		cut := genBelow(t, new(big.Int).Sub(v, big1), "cut")
		cut.Add(cut, big1)
		parts[i] = cut
		parts = append(parts, new(big.Int).Sub(v, cut))
	}
	return parts
}

type bigOp struct {
	ID    uint32
	Stake *big.Int // nil = Set(id, nil)
}

func (o bigOp) String() string {
	if o.Stake == nil {
		return fmt.Sprintf("Set(%d,nil)", o.ID)
	}
	return fmt.Sprintf("Set(%d,0x%x)", o.ID, o.Stake)
}

// genStakes draws the final positive stakes of a case.
func genStakes(t *rapid.T) ([]*big.Int, string) {
	n := rapid.IntRange(1, 8).Draw(t, "n")
	mode := rapid.SampledFrom([]string{"scaled", "pow2total", "free", "small", "floor_slack"}).Draw(t, "mode")
	switch mode {
	case "scaled":
		// weight*2^s + noise with the weights' total around a power of two between 2^30 and 2^33
		var B *big.Int
		if rapid.Bool().Draw(t, "nearPow") {
			p := rapid.IntRange(30, 33).Draw(t, "basePow")
			B = new(big.Int).Add(pow2(p), big.NewInt(rapid.Int64Range(-4, 4).Draw(t, "baseDelta")))
		} else {
			B = new(big.Int).SetUint64(rapid.Uint64Range(1, 1<<34).Draw(t, "base"))
		}
		s := rapid.IntRange(0, 221).Draw(t, "scale")
		parts := splitBig(t, B, n)
		for i := range parts {
			parts[i].Lsh(parts[i], uint(s))
			parts[i].Add(parts[i], genBelow(t, pow2(s), "noise"))
		}
		return parts, mode
	case "pow2total":
		p := rapid.IntRange(1, 256).Draw(t, "totalPow")
		S := new(big.Int).Add(pow2(p), big.NewInt(rapid.Int64Range(-3, 3).Draw(t, "totalDelta")))
		if S.Sign() <= 0 {
			S = big.NewInt(1)
		}
		return splitBig(t, S, n), mode
	case "free":
		var parts []*big.Int
		for i := 0; i < n; i++ {
			bits := rapid.IntRange(1, 257).Draw(t, "bits")
			if bits == 257 {
				parts = append(parts, new(big.Int).Set(big2p256)) // exactly 2^256
				continue
			}
			x := genBelow(t, pow2(bits-1), "low")
			parts = append(parts, x.Add(x, pow2(bits-1)))
		}
		return parts, mode
	case "small":
		S := new(big.Int).SetUint64(rapid.OneOf(rapid.Uint64Range(1, 50), rapid.Uint64Range(maxTotal-3, maxTotal+3), rapid.Uint64Range(1, 1<<32)).Draw(t, "smallTotal"))
		return splitBig(t, S, n), mode
	default: // floor_slack
		// total is exactly 2^31*u (u = 2^k, k >= 1) but the stakes divided by u and rounded down sum to 2^31-1
		if n < 2 {
			n = 2
		}
		k := rapid.IntRange(1, 224).Draw(t, "k")
		u := pow2(k)
		parts := splitBig(t, new(big.Int).SetUint64(maxTotal), n)
		for i := range parts {
			parts[i].Mul(parts[i], u)
		}
		if len(parts) < 2 {
			parts = append(parts, new(big.Int))
		}
		parts[0].Add(parts[0], new(big.Int).Sub(u, big1))
		parts[1].Add(parts[1], big1)
		return parts, mode
	}
}

var stBig = stats.New("big")

// TestC12Big: ValidatorsBigBuilder never panics, uses the smallest common power-of-two scale
// with which the total stake fits 2^31-1, and keeps the order of stakes.
func TestC12Big(t *testing.T) {
	rapid.Check(t, func(t *rapid.T) {
		stakes, mode := genStakes(t)
		ids := rapid.SliceOfNDistinct(genID(), len(stakes)+2, len(stakes)+2, func(x uint32) uint32 { return x }).Draw(t, "ids")
		extra := ids[len(stakes):]
		ids = ids[:len(stakes)]
		order := rapid.Permutation(seq(len(stakes))).Draw(t, "order")
		// operations: final stakes in a drawn order, stale values before them, zero/nil for others
		var ops []bigOp
		for _, i := range order {
			if rapid.IntRange(0, 3).Draw(t, "stale") == 0 {
				ops = append(ops, bigOp{ids[i], genBelow(t, big2p256, "staleStake")})
			}
			ops = append(ops, bigOp{ids[i], stakes[i]})
		}
		removed := 0
		for _, x := range extra {
			switch rapid.IntRange(0, 3).Draw(t, "extra") {
			case 0:
				ops = append(ops, bigOp{x, nil})
			case 1:
				ops = append(ops, bigOp{x, new(big.Int)})
			case 2:
				// set, then removed again
				p := rapid.IntRange(0, len(ops)).Draw(t, "extraPos")
				es := genBelow(t, big2p256, "extraStake")
				es.Add(es, big1)
				ops = append(ops[:p:p], append([]bigOp{{x, es}}, ops[p:]...)...)
				if rapid.Bool().Draw(t, "removeByNil") {
					ops = append(ops, bigOp{x, nil})
				} else {
					ops = append(ops, bigOp{x, new(big.Int)})
				}
				removed++
			}
		}
		// model
		final := map[uint32]*big.Int{}
		for _, o := range ops {
			if o.Stake == nil || o.Stake.Sign() == 0 {
				delete(final, o.ID)
			} else {
				final[o.ID] = o.Stake
			}
		}
		S := new(big.Int)
		for _, s := range final {
			S.Add(S, s)
		}
		// the smallest power of two 2^shift with floor(S / 2^shift) <= 2^31-1
		shift := 0
		for q := new(big.Int).Set(S); q.Cmp(bigLimit) > 0; q.Quo(q, big2) {
			shift++
		}
		div := pow2(shift)
		wm := map[uint32]uint32{}
		dropped := 0
		for id, s := range final {
			w := new(big.Int).Quo(s, div)
			if !w.IsUint64() || w.Uint64() > maxTotal {
				t.Fatalf("oracle error: weight %v", w)
			}
			if w.Sign() == 0 {
				dropped++
				continue
			}
			wm[id] = uint32(w.Uint64())
		}
		want := canon(wm)
		var absent []uint32
		for _, id := range append(append([]uint32{}, ids...), extra...) {
			if _, ok := wm[id]; !ok {
				absent = append(absent, id)
			}
		}
		snapshot := map[uint32]string{}
		for id, s := range final {
			snapshot[id] = s.Text(16)
		}

		bb := pos.NewBigBuilder()
		for _, o := range ops {
			bb.Set(idx.ValidatorID(o.ID), o.Stake)
		}
		if tw := bb.TotalWeight(); tw.Cmp(S) != 0 {
			t.Fatalf("ops %v: BigBuilder.TotalWeight() = 0x%x, want 0x%x", ops, tw, S)
		}
		var v *pos.Validators
		func() {
			defer func() {
				if r := recover(); r != nil {
					t.Fatalf("ops %v (total stake 0x%x, %d bits): Build panicked: %v", ops, S, S.BitLen(), r)
				}
			}()
			v = bb.Build()
		}()
		if uint64(v.TotalWeight()) > maxTotal {
			t.Fatalf("ops %v: total weight %d exceeds 2^31-1", ops, v.TotalWeight())
		}
		// order of stakes is kept (validators scaled to zero count as weight 0)
		for a, sa := range final {
			for b, sb := range final {
				wa, wb := v.Get(idx.ValidatorID(a)), v.Get(idx.ValidatorID(b))
				if sa.Cmp(sb) >= 0 && wa < wb {
					t.Fatalf("ops %v: stake of %d (0x%x) >= stake of %d (0x%x) but weights are %d < %d", ops, a, sa, b, sb, wa, wb)
				}
			}
		}
		checkSet(t, L("big build %v: total stake 0x%x (%d bits), expected common shift %d", ops, S, S.BitLen(), shift), v, want, absent)
		// the stakes handed to the builder are not changed, and building again gives the same set
		for id, s := range final {
			if s.Text(16) != snapshot[id] {
				t.Fatalf("ops %v: Build changed the stake of %d from 0x%s to 0x%x", ops, id, snapshot[id], s)
			}
		}
		var v2 *pos.Validators
		if panics(func() { v2 = bb.Build() }) {
			t.Fatalf("ops %v: second Build panicked", ops)
		}
		checkSet(t, L("second big build %v", ops), v2, want, absent)

		// statistics
		classes := []string{"mode_" + mode, fmt.Sprintf("n_%d", len(final))}
		if shift > 0 {
			classes = append(classes, "shift_positive")
			// would the rounded-down weights also fit with one bit less of scaling?
			sum := new(big.Int)
			half := pow2(shift - 1)
			for _, s := range final {
				sum.Add(sum, new(big.Int).Quo(s, half))
			}
			if sum.Cmp(bigLimit) <= 0 {
				classes = append(classes, "rounded_weights_would_fit_with_shift_minus_1")
			}
		} else {
			classes = append(classes, "shift_zero")
		}
		switch {
		case shift >= 128:
			classes = append(classes, "shift_128_up")
		case shift >= 32:
			classes = append(classes, "shift_32_127")
		case shift >= 1:
			classes = append(classes, "shift_1_31")
		}
		if dropped > 0 {
			classes = append(classes, "validator_scaled_to_zero")
		}
		if removed > 0 {
			classes = append(classes, "stake_removed_by_zero_or_nil")
		}
		if total(want) == maxTotal {
			classes = append(classes, "total_weight_exactly_max")
		}
		if total(want) >= 1<<30 {
			classes = append(classes, "total_weight_top_bit_set")
		}
		if S.BitLen() > 256 {
			classes = append(classes, "total_stake_above_2^256")
		}
		if len(final) == 0 {
			classes = append(classes, "empty")
		}
		stBig.Case(stats.Hash(ops), shift > 0, classes...)
		stBig.Sample(func() interface{} {
			var so []string
			for _, o := range ops {
				so = append(so, o.String())
			}
			return map[string]interface{}{"ops": so, "mode": mode, "shift": shift, "weights": want}
		})
	})
}

func seq(n int) []int {
	s := make([]int, n)
	for i := range s {
		s[i] = i
	}
	return s
}

func panics(f func()) (p bool) {
	defer func() {
		if r := recover(); r != nil {
			p = true
		}
	}()
	f()
	return false
}
