// C13: the combined basic, epoch and parents checkers accept exactly the well-formed events.
//
// Generator: an event and its parent events are drawn field by field from boundary classes
// (0, 1, 2, 2^31-3, 2^31-2, 2^31-1, 2^32-1, small, mid); parents are first made coherent with
// the child (so that a boundary value can be the *only* problem) and then perturbed.
// Oracle: wellFormed(), a predicate transcribed clause by clause from the property text over the
// drawn plain values (never over the dag.Event methods).
package c13

import (
	"fmt"
	"github.com/ethereum/go-ethereum/rlp"
	"os"
	"sort"
	"strings"
	"testing"

	"github.com/Fantom-foundation/lachesis-base/eventcheck"
	"github.com/Fantom-foundation/lachesis-base/eventcheck/basiccheck"
	"github.com/Fantom-foundation/lachesis-base/eventcheck/epochcheck"
	"github.com/Fantom-foundation/lachesis-base/eventcheck/parentscheck"
	"github.com/Fantom-foundation/lachesis-base/hash"
	"github.com/Fantom-foundation/lachesis-base/inter/dag"
	"github.com/Fantom-foundation/lachesis-base/inter/dag/tdag"
	"github.com/Fantom-foundation/lachesis-base/inter/idx"
	"github.com/Fantom-foundation/lachesis-base/inter/pos"
	"pgregory.net/rapid"

	"verif/harness/internal/stats"
	"verif/harness/internal/uni"
)

var (
	st = stats.New("checkers")
	// onlyCount[c] = number of cases in which clause c is the only failing clause
	onlyCount = map[string]int64{}
	nCases    int64
	guard     bool // set by TestC13Checkers: the class guard applies to the rapid run only
)

func TestMain(m *testing.M) {
	code := m.Run()
	stats.Flush()
	if code == 0 && guard && nCases >= 20000 {
		// every clause must have been exercised in isolation; an empty class is a generator
		// problem (infrastructure), not a violation
		var missing []string
		for _, c := range clauseNames {
			if onlyCount[c] == 0 {
				missing = append(missing, c)
			}
		}
		if len(missing) > 0 {
			fmt.Printf("INFRA: clause classes never hit in isolation: %s\n", strings.Join(missing, ","))
			os.Exit(3)
		}
	}
	os.Exit(code)
}

// ---------------------------------------------------------------------------------------------
// case description (plain values)

type parSpec struct {
	Tag     int // identity of the parent event: equal tags = the same event (same ID)
	Creator uint32
	Seq     uint32
	Lamport uint32
}

type evSpec struct {
	Epoch, Seq, Frame, Lamport uint32
	Creator                    uint32
	Parents                    []parSpec
	CurEpoch                   uint32
	Validators                 []uint32
	WarmUp                     bool // the checkers validated another event under another node state before
	ParentsBeforeSeq           bool // the event's parents are assigned before its sequence number (an emitter picks parents first)
	StateDecodedInPlace        bool // the node's validators object was RLP-decoded into twice (an earlier group first), as a re-read state struct is
	NextEpochPrepared          bool // before the check somebody derived the next epoch's set from the current one (Builder(), Set, Build)
}

// ---------------------------------------------------------------------------------------------
// oracle: the property text, clause by clause

const limit = int64(1)<<31 - 2 // "below 2^31-2"

var clauseNames = []string{
	"seq_zero", "epoch_zero", "frame_zero", "lamport_zero",
	"seq_huge", "epoch_huge", "frame_huge", "lamport_huge",
	"parents_distinct", "parents_present",
	"epoch_current", "creator_validator",
	"lamport_rule",
	"selfparent_only_first", "selfparent_presence", "selfparent_seq",
}

// a clause that cannot fail without another one failing too (the companion is implied by it)
var implied = map[string]string{
	"lamport_zero":    "lamport_rule",        // 0 is never "one more than" anything
	"parents_present": "selfparent_presence", // seq > 1 without parents has no self-parent either
}

// failing returns the set of clauses of the property statement that the event violates.
func failing(e evSpec) map[string]bool {
	f := map[string]bool{}
	// "its sequence, epoch, frame and Lamport values are all non-zero and below 2^31-2"
	for _, fld := range []struct {
		name string
		v    uint32
	}{{"seq", e.Seq}, {"epoch", e.Epoch}, {"frame", e.Frame}, {"lamport", e.Lamport}} {
		if fld.v == 0 {
			f[fld.name+"_zero"] = true
		}
		if int64(fld.v) >= limit {
			f[fld.name+"_huge"] = true
		}
	}
	// "its parents are distinct and present whenever its sequence exceeds 1"
	for i := range e.Parents {
		for j := i + 1; j < len(e.Parents); j++ {
			if e.Parents[i].Tag == e.Parents[j].Tag {
				f["parents_distinct"] = true
			}
		}
	}
	if e.Seq > 1 && len(e.Parents) == 0 {
		f["parents_present"] = true
	}
	// "its epoch is the current one and its creator a current validator"
	if e.Epoch != e.CurEpoch {
		f["epoch_current"] = true
	}
	isVal := false
	for _, v := range e.Validators {
		if v == e.Creator {
			isVal = true
		}
	}
	if !isVal {
		f["creator_validator"] = true
	}
	// "its Lamport time is one more than the largest parent Lamport time"
	maxL := int64(0)
	for _, p := range e.Parents {
		if int64(p.Lamport) > maxL {
			maxL = int64(p.Lamport)
		}
	}
	if int64(e.Lamport) != maxL+1 {
		f["lamport_rule"] = true
	}
	// "the event's only parent by its own creator must be its first parent, present exactly when
	//  its sequence exceeds 1 and carrying a sequence one lower"
	for i, p := range e.Parents {
		if i > 0 && p.Creator == e.Creator {
			f["selfparent_only_first"] = true
		}
	}
	firstOwn := len(e.Parents) > 0 && e.Parents[0].Creator == e.Creator
	if (e.Seq > 1) != firstOwn {
		f["selfparent_presence"] = true
	}
	if e.Seq > 1 && firstOwn && int64(e.Parents[0].Seq) != int64(e.Seq)-1 {
		f["selfparent_seq"] = true
	}
	return f
}

// ---------------------------------------------------------------------------------------------
// generator

const (
	b31m3 = uint32(1)<<31 - 3
	b31m2 = uint32(1)<<31 - 2
	b31m1 = uint32(1)<<31 - 1
	b32m1 = ^uint32(0)
)

// genField draws a numeric field: ~9% invalid boundary values, the rest valid with weight on the
// valid boundary values. (uni.* selectors are uniform; rapid's own ranges are edge-biased.)
func genField(t *rapid.T, label string) uint32 {
	k := uni.Pct(t, label)
	switch {
	case k < 15:
		return 1
	case k < 25:
		return 2
	case k < 51:
		return uint32(rapid.IntRange(3, 12).Draw(t, label+".small"))
	case k < 73:
		return rapid.Uint32Range(13, b31m3-2).Draw(t, label+".mid")
	case k < 77:
		return b31m3 - 1
	case k < 91:
		return b31m3
	case k < 94:
		return 0
	case k < 96:
		return b31m2
	case k < 98:
		return b31m1
	default:
		return b32m1
	}
}

var idPool = []uint32{0, 1, 2, 3, 4, 5, 6, 7, 1 << 31, b32m1}

func genCase(t *rapid.T) evSpec {
	var e evSpec
	// current epoch and validator set
	e.CurEpoch = genField(t, "curEpoch")
	perm := rapid.Permutation(idPool).Draw(t, "idperm")
	nv := uni.Range(t, "nValidators", 1, 5)
	e.Validators = append([]uint32{}, perm[:nv]...)
	outsiders := perm[nv:]
	pickVal := func(label string) uint32 { return e.Validators[uni.Int(t, label, len(e.Validators))] }
	pickOut := func(label string) uint32 { return outsiders[uni.Int(t, label, len(outsiders))] }

	e.Epoch = e.CurEpoch
	if uni.Chance(t, "epochOff", 10) {
		e.Epoch = genField(t, "epoch")
	}
	e.Creator = pickVal("creator")
	if uni.Chance(t, "creatorOut", 6) {
		e.Creator = pickOut("creatorOutID")
	}
	e.Seq = genField(t, "seq")
	e.Frame = genField(t, "frame")
	e.Lamport = genField(t, "lamport")

	// a creator different from the event's creator (validator or not)
	otherCreator := func(label string) uint32 {
		var cands []uint32
		src := idPool
		if uni.Chance(t, label+".out", 25) {
			src = outsiders
		}
		for _, c := range src {
			if c != e.Creator {
				cands = append(cands, c)
			}
		}
		return cands[uni.Int(t, label, len(cands))]
	}

	n := uni.Range(t, "nParents", 0, 3)
	nextTag := 0
	newPar := func() parSpec { nextTag++; return parSpec{Tag: nextTag} }
	if uni.Chance(t, "coherent", 85) {
		if e.Seq > 1 && n == 0 && uni.Chance(t, "forceSelfParent", 90) {
			n = 1
		}
		for i := 0; i < n; i++ {
			p := newPar()
			if i == 0 && e.Seq > 1 {
				p.Creator = e.Creator
				p.Seq = e.Seq - 1
			} else {
				p.Creator = otherCreator(fmt.Sprintf("p%d.creator", i))
				p.Seq = genField(t, fmt.Sprintf("p%d.seq", i))
			}
			e.Parents = append(e.Parents, p)
		}
		if n == 0 {
			if uni.Chance(t, "lamportOne", 90) {
				e.Lamport = 1
			}
		} else if e.Lamport >= 1 {
			top := e.Lamport - 1
			holder := uni.Int(t, "maxLamportHolder", n)
			for i := range e.Parents {
				if i == holder {
					e.Parents[i].Lamport = top
					continue
				}
				switch uni.Int(t, fmt.Sprintf("p%d.lamportCls", i), 4) {
				case 0:
					e.Parents[i].Lamport = top
				case 1:
					if top > 0 {
						e.Parents[i].Lamport = top - 1
					}
				case 2:
					e.Parents[i].Lamport = 0
				default:
					e.Parents[i].Lamport = rapid.Uint32Range(0, top).Draw(t, fmt.Sprintf("p%d.lamport", i))
				}
			}
		} else {
			for i := range e.Parents {
				e.Parents[i].Lamport = genField(t, fmt.Sprintf("p%d.lamport", i))
			}
		}
	} else {
		// free parents: creators own/other, seqs and Lamports around the child's values
		for i := 0; i < n; i++ {
			p := newPar()
			if uni.Chance(t, fmt.Sprintf("p%d.own", i), 30) {
				p.Creator = e.Creator
			} else {
				p.Creator = otherCreator(fmt.Sprintf("p%d.creator", i))
			}
			switch d := uni.Int(t, fmt.Sprintf("p%d.seqCls", i), 5); d {
			case 4:
				p.Seq = genField(t, fmt.Sprintf("p%d.seq", i))
			default:
				p.Seq = e.Seq - 2 + uint32(d) // seq-2 .. seq+1 (wrapping)
			}
			switch d := uni.Int(t, fmt.Sprintf("p%d.lamCls", i), 5); d {
			case 4:
				p.Lamport = genField(t, fmt.Sprintf("p%d.lamport", i))
			default:
				p.Lamport = e.Lamport - 2 + uint32(d)
			}
			e.Parents = append(e.Parents, p)
		}
	}

	// perturbations
	np := 0
	switch k := uni.Pct(t, "nPerturb"); {
	case k < 45:
		np = 0
	case k < 88:
		np = 1
	default:
		np = 2
	}
	for q := 0; q < np; q++ {
		lbl := fmt.Sprintf("pert%d", q)
		kind := uni.Int(t, lbl, 14)
		pick := func() int { return uni.Int(t, lbl+".i", len(e.Parents)) }
		switch kind {
		case 0: // duplicate a parent (append the same event again, or overwrite another slot)
			if len(e.Parents) >= 1 {
				i := pick()
				if len(e.Parents) >= 2 && rapid.Bool().Draw(t, lbl+".overwrite") {
					j := (i + 1 + uni.Int(t, lbl+".j", len(e.Parents)-1)) % len(e.Parents)
					e.Parents[j] = e.Parents[i]
				} else {
					e.Parents = append(e.Parents, e.Parents[i])
				}
			}
		case 1: // own-creator parent not first
			if len(e.Parents) >= 2 {
				j := 1 + uni.Int(t, lbl+".j", len(e.Parents)-1)
				e.Parents[0], e.Parents[j] = e.Parents[j], e.Parents[0]
			}
		case 2: // some parent becomes an own-creator parent
			if len(e.Parents) >= 1 {
				e.Parents[pick()].Creator = e.Creator
			}
		case 3: // first parent is by somebody else
			if len(e.Parents) >= 1 {
				e.Parents[0].Creator = otherCreator(lbl + ".creator")
			}
		case 4: // self-parent sequence off by one
			if len(e.Parents) >= 1 {
				if rapid.Bool().Draw(t, lbl+".up") {
					e.Parents[0].Seq++
				} else {
					e.Parents[0].Seq--
				}
			}
		case 5: // a parent Lamport grows
			if len(e.Parents) >= 1 {
				i := pick()
				if rapid.Bool().Draw(t, lbl+".toChild") {
					e.Parents[i].Lamport = e.Lamport
				} else {
					e.Parents[i].Lamport++
				}
			}
		case 6: // every parent Lamport shrinks by one (largest parent Lamport = lamport-2)
			for i := range e.Parents {
				if e.Parents[i].Lamport > 0 {
					e.Parents[i].Lamport--
				}
			}
		case 7: // drop the first / all parents
			if len(e.Parents) >= 1 {
				if rapid.Bool().Draw(t, lbl+".all") {
					e.Parents = nil
				} else {
					e.Parents = e.Parents[1:]
				}
			}
		case 8:
			if rapid.Bool().Draw(t, lbl+".up") {
				e.Lamport++
			} else {
				e.Lamport--
			}
		case 9:
			if rapid.Bool().Draw(t, lbl+".up") {
				e.Seq++
			} else {
				e.Seq--
			}
		case 10:
			e.Creator = pickOut(lbl + ".creator")
		case 11:
			if rapid.Bool().Draw(t, lbl+".up") {
				e.Epoch++
			} else {
				e.Epoch--
			}
		case 12: // a second, different own-creator parent at the end
			if len(e.Parents) >= 1 {
				p := newPar()
				p.Creator = e.Creator
				p.Seq = e.Seq - 1
				p.Lamport = e.Parents[0].Lamport
				if rapid.Bool().Draw(t, lbl+".low") && p.Lamport > 0 {
					p.Lamport--
				}
				e.Parents = append(e.Parents, p)
			}
		case 13:
			e.Frame = genField(t, lbl+".frame")
		}
	}
	return e
}

// ---------------------------------------------------------------------------------------------
// building the real objects

type reader struct {
	v *pos.Validators
	e idx.Epoch
}

func (r *reader) GetEpochValidators() (*pos.Validators, idx.Epoch) { return r.v, r.e }

func build(e evSpec, weights []uint32) (dag.Event, dag.Events, *eventcheck.Checkers) {
	byTag := map[int]*tdag.TestEvent{}
	var parents dag.Events
	var ids hash.Events
	for _, p := range e.Parents {
		pe, ok := byTag[p.Tag]
		if !ok {
			pe = &tdag.TestEvent{}
			pe.SetEpoch(idx.Epoch(e.Epoch))
			pe.SetSeq(idx.Event(p.Seq))
			pe.SetFrame(1)
			pe.SetCreator(idx.ValidatorID(p.Creator))
			pe.SetLamport(idx.Lamport(p.Lamport))
			var raw [24]byte
			raw[0] = byte(p.Tag)
			raw[23] = 0xa5
			pe.SetID(raw)
			byTag[p.Tag] = pe
		}
		parents = append(parents, pe)
		ids = append(ids, pe.ID())
	}
	ev := &tdag.TestEvent{}
	ev.SetEpoch(idx.Epoch(e.Epoch))
	if e.ParentsBeforeSeq {
		if ids != nil {
			ev.SetParents(ids)
		}
		ev.SetLamport(idx.Lamport(e.Lamport))
		ev.SetCreator(idx.ValidatorID(e.Creator))
		ev.SetFrame(idx.Frame(e.Frame))
		ev.SetSeq(idx.Event(e.Seq))
	} else {
		ev.SetSeq(idx.Event(e.Seq))
		ev.SetFrame(idx.Frame(e.Frame))
		ev.SetCreator(idx.ValidatorID(e.Creator))
		ev.SetLamport(idx.Lamport(e.Lamport))
		if ids != nil {
			ev.SetParents(ids)
		}
	}
	ev.SetID([24]byte{0xee})

	b := pos.NewBuilder()
	for i, v := range e.Validators {
		b.Set(idx.ValidatorID(v), pos.Weight(weights[i]))
	}
	rd := &reader{b.Build(), idx.Epoch(e.CurEpoch)}
	if e.StateDecodedInPlace {
		// the object first held another group (with this event's creator and two strangers in it)
		ob := pos.NewBuilder()
		ob.Set(idx.ValidatorID(e.Creator), 3)
		ob.Set(idx.ValidatorID(e.Creator)+11, 2)
		ob.Set(idx.ValidatorID(e.Creator)+12, 1)
		obj := ob.Build()
		if enc, err := rlp.EncodeToBytes(rd.v); err == nil {
			if err := rlp.DecodeBytes(enc, obj); err == nil {
				rd.v = obj
			}
		}
	}
	ch := &eventcheck.Checkers{
		Basiccheck:   basiccheck.New(),
		Epochcheck:   epochcheck.New(rd),
		Parentscheck: parentscheck.New(),
	}
	if e.WarmUp {
		// the checkers are long-lived objects: before this case's event they validated an event of the same
		// epoch while the node was in that epoch with another validator set; then the node moved on to the
		// state of this case. Nothing of the earlier call may influence the verdict.
		cur := *rd
		wb := pos.NewBuilder()
		wb.Set(idx.ValidatorID(e.Creator), 1)
		wb.Set(idx.ValidatorID(e.Creator)+1, 2)
		rd.v, rd.e = wb.Build(), idx.Epoch(e.Epoch)
		w := &tdag.TestEvent{}
		w.SetEpoch(idx.Epoch(e.Epoch))
		w.SetSeq(1)
		w.SetFrame(1)
		w.SetCreator(idx.ValidatorID(e.Creator))
		w.SetLamport(1)
		w.SetID([24]byte{0xdd})
		_ = ch.Validate(w, nil)
		*rd = cur
	}
	if e.NextEpochPrepared {
		// the usual way to prepare the next epoch's set: a mutable copy of the current one, edited and built. The
		// current set (still returned by the reader) is read-only and must not notice.
		nb := rd.v.Builder()
		nb.Set(idx.ValidatorID(e.Creator), 0)
		if len(e.Validators) > 0 {
			nb.Set(idx.ValidatorID(e.Validators[0]), 0)
		}
		nb.Set(idx.ValidatorID(e.Creator)+7, 3)
		_ = nb.Build()
	}
	return ev, parents, ch
}

// ---------------------------------------------------------------------------------------------
// the property

func propC13(t *rapid.T) {
	e := genCase(t)
	e.WarmUp = rapid.Bool().Draw(t, "longLivedCheckers")
	e.ParentsBeforeSeq = rapid.Bool().Draw(t, "parentsAssignedBeforeSeq")
	e.NextEpochPrepared = rapid.IntRange(0, 2).Draw(t, "nextEpochPrepared") == 0
	e.StateDecodedInPlace = rapid.IntRange(0, 2).Draw(t, "stateDecodedInPlace") == 0
	weights := make([]uint32, len(e.Validators))
	for i := range weights {
		weights[i] = rapid.Uint32Range(1, 5).Draw(t, fmt.Sprintf("w%d", i))
	}
	// two parents with one tag are one event; make their plain values agree (the later
	// perturbations may have touched only one copy)
	seen := map[int]parSpec{}
	for i, p := range e.Parents {
		if q, ok := seen[p.Tag]; ok {
			e.Parents[i] = q
		} else {
			seen[p.Tag] = p
		}
	}

	f := failing(e)
	want := len(f) == 0

	ev, parents, checkers := build(e, weights)
	err := checkers.Validate(ev, parents)
	got := err == nil

	if got != want {
		names := make([]string, 0, len(f))
		for c := range f {
			names = append(names, c)
		}
		sort.Strings(names)
		t.Fatalf("Validate returned %v but the well-formedness predicate says accept=%v (failing clauses %v)\nevent: %+v",
			err, want, names, e)
	}

	// statistics -------------------------------------------------------------------------
	nCases++
	classes := []string{}
	nontrivial := false
	if want {
		classes = append(classes, "accepted")
	} else {
		classes = append(classes, "rejected")
		for _, c := range clauseNames {
			if !f[c] {
				continue
			}
			alone := len(f) == 1
			if imp, ok := implied[c]; ok && len(f) == 2 && f[imp] {
				alone = true
			}
			if alone {
				onlyCount[c]++
				classes = append(classes, "only_"+c)
				nontrivial = true
			}
		}
		if !nontrivial {
			classes = append(classes, "several_clauses_fail")
		}
	}
	classes = append(classes, fmt.Sprintf("parents_%d", len(e.Parents)))
	st.Case(stats.Hash(fmt.Sprintf("%+v", e)), nontrivial, classes...)
	st.Sample(func() interface{} {
		return map[string]interface{}{"event": e, "accepted": want, "failing": fmt.Sprint(f)}
	})
}

func TestC13Checkers(t *testing.T) {
	guard = true
	rapid.Check(t, propC13)
}

// FuzzC13 drives the same property from coverage-guided byte strings.
func FuzzC13(f *testing.F) {
	f.Fuzz(rapid.MakeFuzz(propC13))
}
