// C14: the ordering buffer delivers parents first, once, and releases every push.
//
// Oracle (history invariant, written from the property text, see runner_test.go):
//   - Process(e) only while every parent of e is connected (the harness owns Exists/Get: an event is
//     connected once Process returned nil for it, or once it was connected outside the buffer);
//   - per pushed copy (own wrapper object, own peer string): at most one Process call and at most one
//     Check call (Check is the first step of handing a copy to processing), none after its Released;
//   - the same with a buffer built WITHOUT a Released callback (Callback.Released == nil, a drawn
//     dimension): the release-accounting clauses cannot be observed then, everything else is judged;
//   - every pushed copy is reported released exactly once by every Clear (interleaved and final);
//   - after every PushEvent the buffer holds (Total() and: copies pushed and not yet released) no
//     more events and no more bytes than its limits;
//   - when the limits suffice (>= what the independent reference model has to keep waiting) and no
//     callback fails, exactly the pushed events whose whole ancestry was pushed are processed,
//     each exactly once, after every operation and for every order.
package c14

import (
	"fmt"
	"os"
	"runtime/debug"
	"sort"
	"testing"

	"pgregory.net/rapid"

	"verif/harness/internal/stats"
	"verif/harness/internal/tier"
)

func TestMain(m *testing.M) {
	debug.SetGCPercent(800) // millions of tiny short-lived histories; the live heap is a few MB
	code := m.Run()
	stats.Flush()
	os.Exit(code)
}

type fataler interface {
	Fatalf(format string, args ...interface{})
}

// orderStats accumulates what the orders of one (DAG, configuration) case exercised
type orderStats struct {
	orders, nontrivial, waits2, failDesc, spilled, live, dupWaiting, dupConnected int64
	noReleased, failNested, failNestedNoReleased                                  int64
}

func (o *orderStats) add(r *runner) {
	o.orders++
	if r.nontrivial() {
		o.nontrivial++
	}
	if r.waits2 {
		o.waits2++
	}
	if r.failWaitingDesc {
		o.failDesc++
	}
	if r.spilled {
		o.spilled++
	}
	if r.liveChecked {
		o.live++
	}
	if r.dupWaiting {
		o.dupWaiting++
	}
	if r.dupConnected {
		o.dupConnected++
	}
	if r.noReleased {
		o.noReleased++
	}
	if r.failNested {
		o.failNested++
		if r.noReleased {
			o.failNestedNoReleased++
		}
	}
}

func (o *orderStats) flush(st *stats.Collector) {
	st.Class("orders_run", o.orders)
	st.Class("orders_nontrivial", o.nontrivial)
	st.Class("orders_event_waits_for_2plus_parents", o.waits2)
	st.Class("orders_failure_of_waiting_event_or_with_waiting_descendant", o.failDesc)
	st.Class("orders_with_spill", o.spilled)
	st.Class("orders_liveness_clause_checked", o.live)
	st.Class("orders_duplicate_of_waiting_event", o.dupWaiting)
	st.Class("orders_duplicate_of_connected_event", o.dupConnected)
	st.Class("orders_without_released_callback", o.noReleased)
	st.Class("orders_failure_of_waiting_event_in_nested_cascade", o.failNested)
	st.Class("orders_failure_of_waiting_event_in_nested_cascade_without_released_callback", o.failNestedNoReleased)
}

// allOrders runs every permutation of ops (Heap's algorithm) under the given limit classes.
func allOrders(t fataler, w *world, ops []op, numClass, sizeClass int, noReleased bool, acc *orderStats) {
	perm := append([]op(nil), ops...)
	fails := anyFail(w.specs)
	connects := hasConnect(ops)
	var prev *runner
	runOne := func() {
		m := runModel(w, perm)
		limit := limitFor(numClass, sizeClass, &m, w, perm)
		var live *modelOut
		if !fails && !connects && int(limit.Num) >= m.peakNum && limit.Size >= m.peakSize {
			live = &m
		}
		prev = runWith(prev, w, perm, limit, live, noReleased)
		if prev.viol != "" {
			t.Fatalf("C14 violated: %s\n%s", prev.viol, prev.describe())
		}
		acc.add(prev)
	}
	n := len(perm)
	c := make([]int, n)
	runOne()
	for i := 0; i < n; {
		if c[i] < i {
			if i%2 == 0 {
				perm[0], perm[i] = perm[i], perm[0]
			} else {
				perm[c[i]], perm[i] = perm[i], perm[c[i]]
			}
			runOne()
			c[i]++
			i = 0
		} else {
			c[i] = 0
			i++
		}
	}
}

func pushAll(n int) []op {
	ops := make([]op, n)
	for i := range ops {
		ops[i] = op{opPush, i}
	}
	return ops
}

// shapeSpecs decodes DAG shape number s over n events: bit (i*(i-1)/2 + j) set <=> j is a parent of i.
func shapeSpecs(n int, s uint64, sizeMode int) []evSpec {
	specs := make([]evSpec, n)
	bit := uint(0)
	for i := 0; i < n; i++ {
		for j := 0; j < i; j++ {
			if s&(1<<bit) != 0 {
				specs[i].Parents = append(specs[i].Parents, j)
			}
			bit++
		}
		switch sizeMode {
		case 0:
			specs[i].Size = 56 + 32*len(specs[i].Parents) // dag.BaseEvent's own Size()
		default:
			specs[i].Size = 1 + (i*7+3)%5
		}
	}
	return specs
}

var stEnum = stats.New("enum")

// TestC14Enum: every DAG shape over n labelled events (parents among earlier events), every push
// order, under a list of configurations (limit classes, one failing event, one event with a
// missing parent, one duplicate push). Quick: n = 3,4 with the full configuration list, n = 5 with
// exact limits and nothing failing. Thorough: n = 3..5 full, n = 6 reduced (ample/exact limits
// without failure; each single event with >= 2 parents failing Process, ample limits).
func TestC14Enum(t *testing.T) {
	shard, nshards := tier.Shard()
	type limPair struct{ num, size int }
	fullLimits := []limPair{{limAmple, limAmple}, {limExact, limExact}, {limExact, limAmple}, {limAmple, limExact},
		{limBelow, limAmple}, {limAmple, limBelow}, {lim0, limAmple}, {lim1, limAmple}, {limAmple, lim0}, {limAmple, lim1}}
	caseNo := 0
	doCaseCb := func(label string, n int, s uint64, specs []evSpec, ops []op, lp limPair, noReleased bool) {
		w := buildWorld(specs)
		var acc orderStats
		allOrders(t, w, ops, lp.num, lp.size, noReleased, &acc)
		acc.flush(stEnum)
		stEnum.Case(stats.Hash("enum", n, s, label, lp.num, lp.size), acc.nontrivial > 0, "cases_"+label)
		stEnum.Sample(func() interface{} {
			return map[string]interface{}{"events": specs, "pushes": "all orders of " + fmt.Sprint(ops), "limit_num": limNames[lp.num], "limit_size": limNames[lp.size], "orders": acc.orders,
				"released_callback": !noReleased}
		})
	}
	doCase := func(label string, n int, s uint64, specs []evSpec, ops []op, lp limPair) {
		doCaseCb(label, n, s, specs, ops, lp, false)
	}
	run := func(n int, full bool) {
		shapes := uint64(1) << uint(n*(n-1)/2)
		for s := uint64(0); s < shapes; s++ {
			caseNo++
			if caseNo%nshards != shard {
				continue
			}
			sizeMode := int(s % 2)
			// A: nothing fails
			lims := fullLimits
			if !full {
				lims = fullLimits[:2]
				if !tier.Thorough() {
					lims = fullLimits[1:2]
				}
			}
			for _, lp := range lims {
				doCase("no_failure", n, s, shapeSpecs(n, s, sizeMode), pushAll(n), lp)
			}
			// B: one failing event
			for i := 0; i < n && (full || tier.Thorough()); i++ {
				if !full && len(shapeSpecs(n, s, sizeMode)[i].Parents) < 2 {
					continue // reduced list: only a failing event that can wait for two parents
				}
				modes := []int{failProcess, failCheck}
				blims := []limPair{{limAmple, limAmple}, {limExact, limExact}, {lim1, limAmple}}
				if !full {
					modes = modes[:1]
					blims = blims[:1]
				}
				for _, mode := range modes {
					for _, lp := range blims {
						specs := shapeSpecs(n, s, sizeMode)
						specs[i].Fail = mode
						doCase("one_failing_event", n, s*100+uint64(i*10+mode), specs, pushAll(n), lp)
					}
				}
			}
			if !full {
				continue
			}
			// E: the buffer is built without a Released callback (Callback.Released == nil): nothing fails
			// (ample and exact limits), each single event failing Process / Check (ample limits), and for
			// n <= 4 one event pushed twice
			for _, lp := range fullLimits[:2] {
				doCaseCb("no_released_callback_no_failure", n, s, shapeSpecs(n, s, sizeMode), pushAll(n), lp, true)
			}
			for i := 0; i < n; i++ {
				for _, mode := range []int{failProcess, failCheck} {
					specs := shapeSpecs(n, s, sizeMode)
					specs[i].Fail = mode
					doCaseCb("no_released_callback_one_failing_event", n, s*100+uint64(i*10+mode), specs, pushAll(n), fullLimits[0], true)
				}
			}
			for d := 0; d < n && n <= 4; d++ {
				doCaseCb("no_released_callback_duplicate_push", n, s*100+uint64(d), shapeSpecs(n, s, sizeMode), append(pushAll(n), op{opPush, d}), fullLimits[1], true)
			}
			// C: one event names a parent that never exists
			for i := 0; i < n; i++ {
				for _, lp := range fullLimits[:2] {
					specs := shapeSpecs(n, s, sizeMode)
					specs[i].Missing = true
					doCase("missing_parent", n, s*100+uint64(i), specs, pushAll(n), lp)
				}
			}
			// D: one event is pushed twice (n+1 pushes, all orders); also with a callback that fails once
			if n <= 4 || tier.Thorough() && n <= 5 {
				for d := 0; d < n; d++ {
					ops := append(pushAll(n), op{opPush, d})
					for _, lp := range fullLimits[:2] {
						doCase("duplicate_push", n, s*100+uint64(d), shapeSpecs(n, s, sizeMode), ops, lp)
					}
					fl := []int{d}
					if n <= 4 {
						fl = fl[:0]
						for i := 0; i < n; i++ {
							fl = append(fl, i)
						}
					}
					for _, i := range fl {
						for _, mode := range []int{failProcessOnce, failCheckOnce} {
							specs := shapeSpecs(n, s, sizeMode)
							specs[i].Fail = mode
							doCase("duplicate_push_fail_once", n, s*1000+uint64(d*100+i*10+mode), specs, ops, limPair{limAmple, limAmple})
						}
					}
				}
			}
		}
	}
	run(3, true)
	run(4, true)
	if tier.Thorough() {
		run(5, true)
		run(6, false)
	} else {
		run(5, false)
	}
	stEnum.Exhaustive(true)
}

// TestC14Regression: the design-time witness F2 (repaired in /repo by acfb10c).
// P1<-X, C<-{X,P1}; push P1, C, X with Process(C) failing.
func TestC14Regression(t *testing.T) {
	specs := []evSpec{{Size: 56}, {Parents: []int{0}, Size: 88}, {Parents: []int{0, 1}, Size: 120, Fail: failProcess}}
	w := buildWorld(specs)
	ops := []op{{opPush, 1}, {opPush, 2}, {opPush, 0}}
	m := runModel(w, ops)
	r := run(w, ops, limitFor(limAmple, limAmple, &m, w, ops), nil)
	if r.viol != "" {
		t.Fatalf("C14 violated: %s\n%s", r.viol, r.describe())
	}
	if !r.nontrivial() {
		t.Fatalf("harness: the regression history is not classified as non-trivial\n%s", r.describe())
	}
	if !r.failNested {
		t.Fatalf("harness: the regression history is not classified as a failure inside a nested cascade\n%s", r.describe())
	}
	// the same history, failing in Check and in Process, with and without a Released callback
	for _, mode := range []int{failProcess, failCheck} {
		specs[2].Fail = mode
		w := buildWorld(specs)
		for _, r := range []*runner{run(w, ops, limitFor(limAmple, limAmple, &m, w, ops), nil), runNoReleased(w, ops, limitFor(limAmple, limAmple, &m, w, ops), nil)} {
			if r.viol != "" {
				t.Fatalf("C14 violated: %s\n%s", r.viol, r.describe())
			}
			if !r.nontrivial() || !r.failNested {
				t.Fatalf("harness: the regression history is not classified as non-trivial / nested\n%s", r.describe())
			}
		}
	}
}

// ---------------------------------------------------------------------------------------------
// generators

func genSpecs(t *rapid.T, n int, failing bool, missingOK bool) []evSpec {
	specs := make([]evSpec, n)
	missingOK = missingOK && rapid.IntRange(0, 2).Draw(t, "allowMissing") == 0
	sizeMode := rapid.IntRange(0, 2).Draw(t, "sizeMode")
	// in a quarter of the cases some events claim Lamport times that have nothing to do with their parents'
	arbitraryLamports := rapid.IntRange(0, 3).Draw(t, "arbitraryLamports") == 0
	// failure placement: every event fails with probability 1/3, or (a third of the failing cases) exactly one
	// event fails, one with >= 2 parents if there is any (everything around it is processed, so its own
	// waiting / re-check path is what the case exercises)
	singleFail := failing && rapid.IntRange(0, 2).Draw(t, "singleFailingEvent") == 0
	defer func() {
		if !singleFail {
			return
		}
		var multi []int
		for i := range specs {
			if len(specs[i].Parents) >= 2 {
				multi = append(multi, i)
			}
		}
		if len(multi) == 0 {
			multi = seqInts(n)
		}
		f := rapid.SampledFrom(multi).Draw(t, "failingEvent")
		specs[f].Fail = rapid.SampledFrom([]int{failProcess, failProcess, failCheck, failProcessOnce, failCheckOnce}).Draw(t, "failMode")
	}()
	for i := 0; i < n; i++ {
		k := 0
		if i > 0 {
			k = rapid.SampledFrom([]int{0, 1, 1, 1, 2, 2, 2, 2, 3, 3}).Draw(t, "nparents")
			if k > i {
				k = i
			}
		}
		seen := map[int]bool{}
		for len(specs[i].Parents) < k {
			var p int
			// triangle: a further parent that is itself a parent of an already chosen parent (self-parent plus
			// another parent that descends from it): the child then completes inside the nested cascade of the
			// younger parent while the cascade of the older one is still running
			var grand []int
			for _, q := range specs[i].Parents {
				for _, g := range specs[q].Parents {
					if !seen[g] {
						grand = append(grand, g)
					}
				}
			}
			if len(grand) > 0 && rapid.IntRange(0, 2).Draw(t, "triangle") == 0 {
				p = rapid.SampledFrom(grand).Draw(t, "parent")
			} else if i > 3 && rapid.Bool().Draw(t, "recent") {
				p = rapid.IntRange(i-3, i-1).Draw(t, "parent")
			} else {
				p = rapid.IntRange(0, i-1).Draw(t, "parent")
			}
			if seen[p] {
				k-- // fewer parents rather than a retry loop
				continue
			}
			seen[p] = true
			specs[i].Parents = append(specs[i].Parents, p)
		}
		sort.Ints(specs[i].Parents)
		switch sizeMode {
		case 0:
			specs[i].Size = 56 + 32*len(specs[i].Parents)
		case 1:
			specs[i].Size = rapid.IntRange(1, 9).Draw(t, "size")
		default:
			specs[i].Size = rapid.SampledFrom([]int{1, 2, 100, 1000}).Draw(t, "size")
		}
		if arbitraryLamports && rapid.IntRange(0, 2).Draw(t, "claimsLamport") == 0 {
			specs[i].Lamport = uint32(rapid.IntRange(1, 12).Draw(t, "claimedLamport"))
		}
		if failing && !singleFail && rapid.IntRange(0, 2).Draw(t, "fails") == 0 {
			specs[i].Fail = rapid.SampledFrom([]int{failProcess, failProcess, failCheck, failProcessOnce, failCheckOnce}).Draw(t, "failMode")
		}
		if missingOK && i > 0 && rapid.IntRange(0, 5).Draw(t, "missing") == 0 {
			specs[i].Missing = true
		}
	}
	return specs
}

var limClassGen = rapid.SampledFrom([]int{limAmple, limAmple, limAmple, limAmple, limExact, limExact, limBelow, lim1, lim0})

var stPerms = stats.New("perms")

// TestC14Perms: rapid-drawn DAG (with duplicate pushes, missing parents, failing callbacks, limit
// classes), then ALL arrival orders of its pushes: <= 6 pushes in quick, <= 7 in thorough.
func TestC14Perms(t *testing.T) {
	maxOps := tier.Scale(6, 7)
	rapid.Check(t, func(t *rapid.T) {
		nops := rapid.IntRange(5, maxOps).Draw(t, "pushes")
		dups := rapid.SampledFrom([]int{0, 0, 1, 1, 2}).Draw(t, "dups")
		n := nops - dups
		failing := rapid.IntRange(0, 2).Draw(t, "failing") > 0
		specs := genSpecs(t, n, failing, true)
		ops := pushAll(n)
		for d := 0; d < dups; d++ {
			ops = append(ops, op{opPush, rapid.IntRange(0, n-1).Draw(t, "dupOf")})
		}
		numClass := limClassGen.Draw(t, "numLimit")
		sizeClass := limClassGen.Draw(t, "sizeLimit")
		noReleased := rapid.IntRange(0, 3).Draw(t, "noReleasedCallback") == 0
		w := buildWorld(specs)
		var acc orderStats
		allOrders(t, w, ops, numClass, sizeClass, noReleased, &acc)
		acc.flush(stPerms)
		classes := []string{fmt.Sprintf("pushes_%d", nops), "num_limit_" + limNames[numClass], "size_limit_" + limNames[sizeClass]}
		if noReleased {
			classes = append(classes, "without_released_callback")
		}
		if acc.failNested > 0 {
			classes = append(classes, "failure_of_waiting_event_in_nested_cascade")
			if noReleased {
				classes = append(classes, "failure_of_waiting_event_in_nested_cascade_without_released_callback")
			}
		}
		if dups > 0 {
			classes = append(classes, "with_duplicate_push")
		}
		if anyFail(specs) {
			classes = append(classes, "with_failing_callback")
		}
		for _, s := range specs {
			if s.Missing {
				classes = append(classes, "with_missing_parent")
				break
			}
		}
		if acc.live > 0 {
			classes = append(classes, "liveness_clause_checked")
		}
		stPerms.Case(stats.Hash("perms", specs, ops, numClass, sizeClass, noReleased), acc.nontrivial > 0, classes...)
		stPerms.Sample(func() interface{} {
			return map[string]interface{}{"events": specs, "pushes": "all orders of " + fmt.Sprint(ops), "limit_num": limNames[numClass], "limit_size": limNames[sizeClass], "orders": acc.orders,
				"released_callback": !noReleased}
		})
	})
}

var stRandom = stats.New("random")

type keyedOp struct {
	key int
	o   op
}

// TestC14Random: DAGs of 3..12 events, rapid-drawn arrival order with duplicates, omitted events,
// interleaved Clear, events connected outside the buffer, limit classes, failing callbacks.
func TestC14Random(t *testing.T) {
	rapid.Check(t, func(t *rapid.T) {
		n := rapid.IntRange(3, 12).Draw(t, "events")
		failing := rapid.IntRange(0, 2).Draw(t, "failing") > 0
		specs := genSpecs(t, n, failing, true)
		// arrival order: drawn priority per event; children-first orders are made likely
		orderMode := rapid.SampledFrom([]int{0, 1, 1, 2}).Draw(t, "orderMode")
		var kops []keyedOp
		span := 10 * n
		for i := 0; i < n; i++ {
			if n > 3 && rapid.IntRange(0, 14).Draw(t, "omit") == 0 {
				continue
			}
			var key int
			switch orderMode {
			case 0:
				key = rapid.IntRange(0, span).Draw(t, "prio")
			case 1: // mostly reversed
				key = (n-i)*10 + rapid.IntRange(0, 25).Draw(t, "noise")
			default: // mostly creation order
				key = i*10 + rapid.IntRange(0, 25).Draw(t, "noise")
			}
			kops = append(kops, keyedOp{key, op{opPush, i}})
		}
		dups := rapid.SampledFrom([]int{0, 0, 1, 2, 3, 5}).Draw(t, "dups")
		for d := 0; d < dups; d++ {
			kops = append(kops, keyedOp{rapid.IntRange(0, span+30).Draw(t, "dupAt"), op{opPush, rapid.IntRange(0, n-1).Draw(t, "dupOf")}})
		}
		clears := rapid.SampledFrom([]int{0, 0, 0, 1, 2}).Draw(t, "clears")
		for c := 0; c < clears; c++ {
			kops = append(kops, keyedOp{rapid.IntRange(0, span+30).Draw(t, "clearAt"), op{opClear, 0}})
		}
		connects := rapid.SampledFrom([]int{0, 0, 0, 0, 1, 2}).Draw(t, "connects")
		for c := 0; c < connects; c++ {
			kops = append(kops, keyedOp{rapid.IntRange(0, span+30).Draw(t, "connectAt"), op{opConnect, rapid.IntRange(0, n-1).Draw(t, "connectEv")}})
		}
		sort.SliceStable(kops, func(a, b int) bool { return kops[a].key < kops[b].key })
		ops := make([]op, len(kops))
		for i := range kops {
			ops[i] = kops[i].o
		}
		numClass := limClassGen.Draw(t, "numLimit")
		sizeClass := limClassGen.Draw(t, "sizeLimit")
		// a quarter of the histories run against a buffer built without a Released callback
		noReleased := rapid.IntRange(0, 3).Draw(t, "noReleasedCallback") == 0

		w := buildWorld(specs)
		m := runModel(w, ops)
		limit := limitFor(numClass, sizeClass, &m, w, ops)
		var live *modelOut
		if !anyFail(specs) && !m.connects && int(limit.Num) >= m.peakNum && limit.Size >= m.peakSize {
			live = &m
		}
		r := runWith(nil, w, ops, limit, live, noReleased)
		if r.viol != "" {
			t.Fatalf("C14 violated: %s\n%s", r.viol, r.describe())
		}
		classes := []string{"num_limit_" + limNames[numClass], "size_limit_" + limNames[sizeClass]}
		add := func(b bool, name string) {
			if b {
				classes = append(classes, name)
			}
		}
		add(r.waits2, "event_waits_for_2plus_parents")
		add(r.failWaitingDesc, "failure_of_waiting_event_or_with_waiting_descendant")
		add(r.failed, "callback_failed")
		add(r.spilled, "spill")
		add(r.liveChecked, "liveness_clause_checked")
		add(r.dupWaiting, "duplicate_of_waiting_event")
		add(r.dupConnected, "duplicate_of_connected_event")
		add(r.extConnected, "connected_outside_buffer")
		add(clears > 0, "interleaved_clear")
		add(noReleased, "without_released_callback")
		add(r.failNested, "failure_of_waiting_event_in_nested_cascade")
		add(r.failNested && noReleased, "failure_of_waiting_event_in_nested_cascade_without_released_callback")
		add(r.failed && noReleased, "callback_failed_without_released_callback")
		for _, s := range specs {
			if s.Missing {
				add(true, "with_missing_parent")
				break
			}
		}
		stRandom.Case(stats.Hash("random", specs, ops, limit.Num, limit.Size, noReleased), r.nontrivial(), classes...)
		stRandom.Sample(func() interface{} {
			return map[string]interface{}{"events": specs, "ops": ops, "limit": limit.String(), "released_callback": !noReleased}
		})
	})
}
