package c14

import (
	"fmt"
	"math"
	"sync"
	"sync/atomic"
	"testing"
	"time"

	"github.com/Fantom-foundation/lachesis-base/gossip/dagordering"
	"github.com/Fantom-foundation/lachesis-base/hash"
	"github.com/Fantom-foundation/lachesis-base/inter/dag"
	"pgregory.net/rapid"

	"verif/harness/internal/stats"
)

var stClear = stats.New("clear_during_cascade")

// TestC14ClearDuringCascade: the harness owns the schedule. A small DAG is buffered completely except for its first
// event; pushing that event starts the cascade. The Check callback of a drawn buffered event is held at a gate, and
// meanwhile another goroutine calls Clear(); the first release report that Clear makes (if it gets that far) is held at
// a second gate until the cascade has finished. Whatever Clear can do at that moment, every pushed copy must be handed
// to processing at most once and never after it was reported released, and must have been reported released exactly
// once when everything is over.
func TestC14ClearDuringCascade(t *testing.T) {
	rapid.Check(t, func(t *rapid.T) {
		n := rapid.IntRange(3, 7).Draw(t, "events")
		specs := make([]evSpec, n)
		for i := range specs {
			specs[i].Size = 1
			if i == 0 {
				continue
			}
			// every event descends from e0: the first parent continues a chain, further parents are drawn
			specs[i].Parents = []int{rapid.IntRange(maxInt(0, i-2), i-1).Draw(t, "chainParent")}
			if i >= 2 && rapid.Bool().Draw(t, "secondParent") {
				if p := rapid.IntRange(0, i-1).Draw(t, "parent"); p != specs[i].Parents[0] {
					specs[i].Parents = append(specs[i].Parents, p)
				}
			}
		}
		w := buildWorld(specs)
		gated := rapid.IntRange(1, n-1).Draw(t, "eventHeldInCheck")
		order := rapid.Permutation(seqInts(n)[1:]).Draw(t, "bufferingOrder")

		var mu sync.Mutex
		connected := map[hash.Event]dag.Event{}
		processed := make([]int, n)
		released := make([]int, n)
		var violations []string
		gate1, entered1 := make(chan struct{}), make(chan struct{}, 1)
		gate2, entered2 := make(chan struct{}), make(chan struct{}, 1)
		var taken1, taken2 atomic.Bool // only the first caller is held at each gate, later ones pass
		armed := false
		buf := dagordering.New(dag.Metric{Num: math.MaxInt32, Size: math.MaxUint32}, dagordering.Callback{
			Process: func(e dag.Event) error {
				mu.Lock()
				defer mu.Unlock()
				i := w.byID[e.ID()]
				if released[i] > 0 {
					violations = append(violations, fmt.Sprintf("e%d was handed to processing after it had been reported released", i))
				}
				processed[i]++
				connected[e.ID()] = e
				return nil
			},
			Released: func(e dag.Event, peer string, err error) {
				mu.Lock()
				i := w.byID[e.ID()]
				released[i]++
				hold := armed && err != nil
				mu.Unlock()
				if hold && taken2.CompareAndSwap(false, true) {
					entered2 <- struct{}{}
					<-gate2
				}
			},
			Get: func(id hash.Event) dag.Event {
				mu.Lock()
				defer mu.Unlock()
				return connected[id]
			},
			Exists: func(id hash.Event) bool {
				mu.Lock()
				defer mu.Unlock()
				return connected[id] != nil
			},
			Check: func(e dag.Event, parents dag.Events) error {
				mu.Lock()
				hold := armed && w.byID[e.ID()] == gated
				mu.Unlock()
				if hold && taken1.CompareAndSwap(false, true) {
					entered1 <- struct{}{}
					<-gate1
				}
				return nil
			},
		})
		for _, e := range order {
			buf.PushEvent(w.base[e], "peer")
		}
		mu.Lock()
		armed = true
		mu.Unlock()
		pushDone, clearDone := make(chan struct{}), make(chan struct{})
		go func() { buf.PushEvent(w.base[0], "peer"); close(pushDone) }()
		reachedGate := false
		select {
		case <-entered1:
			reachedGate = true
		case <-pushDone:
		}
		clearRanDuringCascade := false
		if reachedGate {
			go func() { buf.Clear(); close(clearDone) }()
			// give Clear the chance to do whatever it can do now (on a buffer that serialises Clear with the cascade:
			// nothing); this wait only decides how much is explored, never the verdict
			select {
			case <-entered2:
				clearRanDuringCascade = true
			case <-clearDone:
				clearRanDuringCascade = true
			case <-time.After(3 * time.Millisecond):
			}
			close(gate1)
			<-pushDone
			close(gate2)
			<-clearDone
		} else {
			close(gate1)
			close(gate2)
			buf.Clear()
		}
		mu.Lock()
		defer mu.Unlock()
		for i := range processed {
			if processed[i] > 1 {
				violations = append(violations, fmt.Sprintf("e%d was handed to processing %d times", i, processed[i]))
			}
			if released[i] != 1 {
				violations = append(violations, fmt.Sprintf("e%d (pushed once) was reported released %d times after the push and Clear() had returned", i, released[i]))
			}
		}
		if len(violations) > 0 {
			t.Fatalf("Clear() called while the cascade of PushEvent(e0) was inside Check(e%d): %v\nDAG:\n%sbuffering order %v", gated, violations, w.describe(), order)
		}
		cl := "clear_waited_for_the_cascade"
		if clearRanDuringCascade {
			cl = "clear_ran_during_the_cascade"
		}
		stClear.Case(stats.Hash(w.describe(), order, gated), reachedGate, cl)
		stClear.Sample(func() interface{} {
			return map[string]interface{}{"dag": w.describe(), "buffering_order": order, "held_in_check": gated}
		})
	})
}

func maxInt(a, b int) int {
	if a > b {
		return a
	}
	return b
}
