package c14

import (
	"fmt"
	"math"
	"sync"
	"testing"

	"github.com/Fantom-foundation/lachesis-base/gossip/dagordering"
	"github.com/Fantom-foundation/lachesis-base/hash"
	"github.com/Fantom-foundation/lachesis-base/inter/dag"
	"pgregory.net/rapid"

	"verif/harness/internal/stats"
)

var stConc = stats.New("concurrent_pushes")

// TestC14Concurrent: the events of a parents-closed DAG are pushed from 2-4 goroutines at once (ample
// limits, nothing fails). Whatever the interleaving, once every PushEvent has returned each event must
// have been processed exactly once, after its parents, and nothing may be left in the buffer. Each drawn
// case is run 25 times on fresh buffers so that many schedules are met.
func TestC14Concurrent(t *testing.T) {
	rapid.Check(t, func(t *rapid.T) {
		n := rapid.IntRange(3, 9).Draw(t, "events")
		specs := make([]evSpec, n)
		for i := range specs {
			specs[i].Size = 1
			k := rapid.IntRange(0, 3).Draw(t, "nparents")
			seen := map[int]bool{}
			for j := 0; j < k && i > 0; j++ {
				p := rapid.IntRange(0, i-1).Draw(t, "parent")
				if !seen[p] {
					seen[p] = true
					specs[i].Parents = append(specs[i].Parents, p)
				}
			}
		}
		w := buildWorld(specs)
		g := rapid.IntRange(2, 4).Draw(t, "goroutines")
		assign := make([][]int, g)
		// children tend to be pushed by another goroutine than their parents, and early
		perm := rapid.Permutation(seqInts(n)).Draw(t, "pushOrder")
		for _, e := range perm {
			k := rapid.IntRange(0, g-1).Draw(t, "pusher")
			assign[k] = append(assign[k], e)
		}
		for rep := 0; rep < 25; rep++ {
			var mu sync.RWMutex
			connected := map[hash.Event]dag.Event{}
			processed := make([]int, n)
			var violations []string
			buf := dagordering.New(dag.Metric{Num: math.MaxInt32, Size: math.MaxUint32}, dagordering.Callback{
				Process: func(e dag.Event) error {
					mu.Lock()
					defer mu.Unlock()
					i := w.byID[e.ID()]
					for _, p := range e.Parents() {
						if connected[p] == nil {
							violations = append(violations, fmt.Sprintf("e%d processed before its parent was connected", i))
						}
					}
					processed[i]++
					connected[e.ID()] = e
					return nil
				},
				Released: func(e dag.Event, peer string, err error) {},
				Get: func(id hash.Event) dag.Event {
					mu.RLock()
					defer mu.RUnlock()
					return connected[id]
				},
				Exists: func(id hash.Event) bool {
					mu.RLock()
					defer mu.RUnlock()
					return connected[id] != nil
				},
			})
			var wg sync.WaitGroup
			start := make(chan struct{})
			for k := 0; k < g; k++ {
				wg.Add(1)
				go func(k int) {
					defer wg.Done()
					<-start
					for _, e := range assign[k] {
						buf.PushEvent(w.base[e], fmt.Sprintf("g%d", k))
					}
				}(k)
			}
			close(start)
			wg.Wait()
			for i := range processed {
				if processed[i] != 1 {
					violations = append(violations, fmt.Sprintf("e%d was processed %d times after all pushes returned (buffered: %v)", i, processed[i], buf.IsBuffered(w.base[i].ID())))
				}
			}
			if tot := buf.Total(); tot.Num != 0 {
				violations = append(violations, fmt.Sprintf("the buffer still holds %d events", tot.Num))
			}
			if len(violations) > 0 {
				t.Fatalf("concurrent pushes of a parents-closed set (run %d of 25): %v\nDAG:\n%spushers: %v", rep+1, violations, w.describe(), assign)
			}
		}
		stConc.Case(stats.Hash(w.describe(), assign), n >= 4 && g >= 2, fmt.Sprintf("goroutines_%d", g))
		stConc.Sample(func() interface{} { return map[string]interface{}{"dag": w.describe(), "pushers": assign} })
	})
}

func seqInts(n int) []int {
	s := make([]int, n)
	for i := range s {
		s[i] = i
	}
	return s
}
