package c14

import (
	"encoding/binary"
	"errors"
	"fmt"
	"math"
	"strings"

	"github.com/Fantom-foundation/lachesis-base/eventcheck"
	"github.com/Fantom-foundation/lachesis-base/gossip/dagordering"
	"github.com/Fantom-foundation/lachesis-base/hash"
	"github.com/Fantom-foundation/lachesis-base/inter/dag"
	"github.com/Fantom-foundation/lachesis-base/inter/dag/tdag"
	"github.com/Fantom-foundation/lachesis-base/inter/idx"
)

// ---------------------------------------------------------------------------------------------
// case description

// failure modes of the harness-owned Check / Process callbacks, per event
const (
	failNone        = iota
	failCheck       // Check fails on every attempt
	failProcess     // Process fails on every attempt
	failProcessOnce // the first Process attempt fails, later ones succeed
	failCheckOnce   // the first Check attempt fails, later ones succeed
)

var failNames = []string{"", "check-fails", "process-fails", "process-fails-once", "check-fails-once"}

// evSpec describes one event of the generated DAG. Parents are indices of earlier events.
type evSpec struct {
	Parents []int `json:"parents"`
	Missing bool  `json:"missing_parent,omitempty"` // additionally names a parent that never exists
	Size    int   `json:"size"`
	Fail    int   `json:"fail,omitempty"`
	// Lamport, when non-zero, is the Lamport time the event CLAIMS (the buffer sees events before anything about their
	// parents could be verified, so the field is whatever the peer wrote); zero = one more than the parents' maximum
	Lamport uint32 `json:"claimed_lamport,omitempty"`
}

const (
	opPush    = iota // push a fresh copy of event Ev (its own wrapper object and peer string)
	opClear          // EventsBuffer.Clear()
	opConnect        // the event gets connected outside the buffer (only if all parents are connected)
)

type op struct {
	Kind int `json:"k"`
	Ev   int `json:"e"`
}

// limit classes
const (
	lim0 = iota
	lim1
	limBelow // one less than what the reference model needs
	limExact // exactly what the reference model needs
	limAmple
)

var limNames = []string{"0", "1", "exact-1", "exact", "ample"}

// world = the built events of a case (shared by all orders of the case)
type world struct {
	specs []evSpec
	base  []*tdag.TestEvent
	byID  map[hash.Event]int
	desc  []uint32 // desc[i] = bitmask of strict descendants of i
	// rooted[i]: neither i nor any ancestor names a missing parent
	rooted []bool
}

func eventID(i int) (id [24]byte) {
	id[0], id[1] = 0xC1, 0x14
	binary.BigEndian.PutUint32(id[20:], uint32(i+1))
	return
}

func buildWorld(specs []evSpec) *world {
	n := len(specs)
	w := &world{specs: specs, byID: make(map[hash.Event]int, n), desc: make([]uint32, n), rooted: make([]bool, n)}
	lam := make([]idx.Lamport, n)
	for i, s := range specs {
		e := &tdag.TestEvent{}
		e.Name = fmt.Sprintf("e%d", i)
		e.SetEpoch(1)
		e.SetCreator(idx.ValidatorID(i%5 + 1))
		e.SetSeq(idx.Event(i/5 + 1))
		var ps hash.Events
		l := idx.Lamport(0)
		rooted := !s.Missing
		for _, p := range s.Parents {
			ps = append(ps, w.base[p].ID())
			if lam[p] > l {
				l = lam[p]
			}
			rooted = rooted && w.rooted[p]
		}
		if s.Missing {
			// an ID no event of the case has
			var me dag.MutableBaseEvent
			me.SetEpoch(1)
			me.SetLamport(l)
			tail := eventID(1000 + i)
			tail[0] = 0xEE
			me.SetID(tail)
			ps = append(ps, me.ID())
		}
		lam[i] = l + 1
		if s.Lamport != 0 {
			lam[i] = idx.Lamport(s.Lamport)
		}
		e.SetParents(ps)
		e.SetLamport(lam[i])
		e.SetID(eventID(i))
		w.base = append(w.base, e)
		w.byID[e.ID()] = i
		w.rooted[i] = rooted
	}
	// descendants
	for i := n - 1; i >= 0; i-- {
		for _, p := range specs[i].Parents {
			w.desc[p] |= w.desc[i] | 1<<uint(i)
		}
	}
	return w
}

func (w *world) describe() string {
	var b strings.Builder
	for i, s := range w.specs {
		fmt.Fprintf(&b, "  e%d <- %v", i, s.Parents)
		if s.Missing {
			b.WriteString(" + a parent that never exists")
		}
		fmt.Fprintf(&b, "  size=%d", s.Size)
		if s.Lamport != 0 {
			fmt.Fprintf(&b, "  claims lamport %d", s.Lamport)
		}
		if s.Fail != failNone {
			fmt.Fprintf(&b, "  [%s]", failNames[s.Fail])
		}
		b.WriteString("\n")
	}
	return b.String()
}

// ---------------------------------------------------------------------------------------------
// reference model (no failing callbacks, no spilling): which events are connected after each
// operation and how much has to wait. Written from the property text: an event is processed as
// soon as it was pushed and all its parents are connected.

type modelOut struct {
	peakNum   int
	peakSize  uint64
	connected []uint32 // after each op
	connects  bool     // an opConnect had an effect (then the model is only used for limit values)
}

func runModel(w *world, ops []op) modelOut {
	n := len(w.specs)
	var out modelOut
	out.connected = make([]uint32, len(ops))
	connected := uint32(0)
	waiting := uint32(0)
	complete := func(i int) bool {
		if w.specs[i].Missing {
			return false
		}
		for _, p := range w.specs[i].Parents {
			if connected&(1<<uint(p)) == 0 {
				return false
			}
		}
		return true
	}
	for k, o := range ops {
		bit := uint32(1) << uint(o.Ev)
		switch o.Kind {
		case opClear:
			waiting = 0
		case opConnect:
			if connected&bit == 0 && complete(o.Ev) {
				connected |= bit
				out.connects = true
			}
		case opPush:
			if waiting&bit != 0 || connected&bit != 0 {
				break
			}
			if !complete(o.Ev) {
				waiting |= bit
				break
			}
			connected |= bit
			for changed := true; changed; {
				changed = false
				for i := 0; i < n; i++ {
					if waiting&(1<<uint(i)) != 0 && complete(i) {
						waiting &^= 1 << uint(i)
						connected |= 1 << uint(i)
						changed = true
					}
				}
			}
		}
		num, size := 0, uint64(0)
		for i := 0; i < n; i++ {
			if waiting&(1<<uint(i)) != 0 {
				num++
				size += uint64(w.specs[i].Size)
			}
		}
		if num > out.peakNum {
			out.peakNum = num
		}
		if size > out.peakSize {
			out.peakSize = size
		}
		out.connected[k] = connected
	}
	return out
}

func limitFor(numClass, sizeClass int, m *modelOut, w *world, ops []op) dag.Metric {
	var l dag.Metric
	pushes, bytes := 0, uint64(0)
	for _, o := range ops {
		if o.Kind == opPush {
			pushes++
			bytes += uint64(w.specs[o.Ev].Size)
		}
	}
	switch numClass {
	case lim0:
		l.Num = 0
	case lim1:
		l.Num = 1
	case limBelow:
		if m.peakNum > 0 {
			l.Num = idx.Event(m.peakNum - 1)
		}
	case limExact:
		l.Num = idx.Event(m.peakNum)
	default:
		// "ample" also means the values callers use for "no limit" (a deterministic function of the case)
		l.Num = idx.Event(pushes + 3)
		if pushes%3 == 1 {
			l.Num = idx.Event(math.MaxUint32)
		}
	}
	switch sizeClass {
	case lim0:
		l.Size = 0
	case lim1:
		l.Size = 1
	case limBelow:
		if m.peakSize > 0 {
			l.Size = m.peakSize - 1
		}
	case limExact:
		l.Size = m.peakSize
	default:
		switch (pushes + len(ops)) % 4 {
		case 0:
			l.Size = bytes + 10
		case 1:
			l.Size = math.MaxUint64
		case 2:
			l.Size = 1 << 63
		default:
			l.Size = math.MaxInt64
		}
	}
	return l
}

// ---------------------------------------------------------------------------------------------
// one run of a history against the real buffer, with the history invariant of the property

// copyEv is one pushed copy: its own object, so Process/Released calls can be attributed to it.
type copyEv struct {
	*tdag.TestEvent
	cp   int
	size int
}

func (c *copyEv) Size() int { return c.size }

type copyState struct {
	ev       int
	peer     string
	process  int
	checks   int
	released int
}

type logEntry struct {
	kind string
	cp   int
	ev   int
	err  error
}

var (
	errCheck   = errors.New("harness: check failed")
	errProcess = errors.New("harness: process failed")
)

type runner struct {
	w     *world
	ops   []op
	limit dag.Metric
	buf   *dagordering.EventsBuffer

	connected   uint32
	connectedAs []dag.Event
	copies      []copyState
	checkTries  []int
	procTries   []int
	procCalls   []int // Process calls per event
	log         []logEntry
	viol        string

	// noReleased: the buffer is built WITHOUT a Released callback (Callback.Released == nil, which the
	// buffer supports). The release-accounting clauses cannot be observed then; what a copy "held in the
	// buffer" means for the classification is taken from IsBuffered() around the PushEvent calls.
	noReleased bool
	waitingCp  []int  // noReleased: per event the copy that IsBuffered() showed waiting after its push (-1: none)
	pushConn   uint32 // events connected (Process returned nil) during the PushEvent in progress, incl. the pushed one
	connAt     []int  // per event: log position at which it was connected

	// classification
	waits2          bool // a pushed copy stayed in the buffer with >= 2 parents not connected
	failWaitingDesc bool // a callback failed for an event that was itself waiting in the buffer (re-checked after a parent) or had a descendant waiting there
	curPush         int  // copy index of the PushEvent in progress
	inClear         bool
	spilled         bool // a copy was spilled by a push (not by Clear)
	failed          bool
	dupWaiting      bool // pushed a copy of an event that was waiting in the buffer
	dupConnected    bool // pushed a copy of a connected event
	// a callback failed for a copy that was WAITING in the buffer and completed inside a nested cascade: at least two of
	// its parents were connected during the PushEvent in progress and the one connected last descends from another one
	// (so the cascade of the earlier parent is still walking its snapshot of waiting events when the copy fails)
	failNested   bool
	extConnected bool
	liveChecked  bool
}

func (r *runner) violate(format string, a ...interface{}) {
	if r.viol == "" {
		r.viol = fmt.Sprintf(format, a...)
	}
}

func (r *runner) held(cp int) bool {
	if r.noReleased {
		// without a Released callback: the copy IsBuffered() showed waiting after its push, until the buffer
		// no longer lists its event (checked lazily, callbacks and the driver call this between buffer steps)
		ev := r.copies[cp].ev
		return r.waitingCp[ev] == cp && r.buf.IsBuffered(r.w.base[ev].ID())
	}
	return r.copies[cp].released == 0
}

// noteFailure classifies a failed Check/Process of copy cp (event ev)
func (r *runner) noteFailure(cp, ev int) {
	r.failed = true
	if cp != r.curPush || r.heldDescendant(ev) {
		r.failWaitingDesc = true
	}
	if cp == r.curPush {
		return
	}
	// parents connected during this PushEvent, in connection order
	var last, lastAt = -1, -1
	for _, p := range r.w.specs[ev].Parents {
		if r.pushConn&(1<<uint(p)) != 0 && r.connAt[p] > lastAt {
			last, lastAt = p, r.connAt[p]
		}
	}
	if last < 0 {
		return
	}
	for _, p := range r.w.specs[ev].Parents {
		if p != last && r.pushConn&(1<<uint(p)) != 0 && r.w.desc[p]&(1<<uint(last)) != 0 {
			r.failNested = true
		}
	}
}

// heldDescendant reports whether a copy of a strict descendant of ev waits in the buffer
func (r *runner) heldDescendant(ev int) bool {
	for cp := range r.copies {
		if r.held(cp) && r.w.desc[ev]&(1<<uint(r.copies[cp].ev)) != 0 {
			return true
		}
	}
	return false
}

func (r *runner) callbacks() dagordering.Callback {
	cb := r.callbacksWithReleased()
	if r.noReleased {
		cb.Released = nil
	}
	return cb
}

func (r *runner) callbacksWithReleased() dagordering.Callback {
	w := r.w
	return dagordering.Callback{
		Exists: func(id hash.Event) bool {
			i, ok := w.byID[id]
			return ok && r.connected&(1<<uint(i)) != 0
		},
		Get: func(id hash.Event) dag.Event {
			i, ok := w.byID[id]
			if !ok || r.connected&(1<<uint(i)) == 0 {
				return nil
			}
			return r.connectedAs[i]
		},
		Check: func(e dag.Event, parents dag.Events) error {
			c := e.(*copyEv)
			ev := r.copies[c.cp].ev
			r.checkTries[ev]++
			var err error
			switch w.specs[ev].Fail {
			case failCheck:
				err = errCheck
			case failCheckOnce:
				if r.checkTries[ev] == 1 {
					err = errCheck
				}
			}
			r.log = append(r.log, logEntry{"Check", c.cp, ev, err})
			cs := &r.copies[c.cp]
			cs.checks++
			// Check is the first step of handing a copy to processing (processCompleteEvent: validate, then process)
			if cs.checks > 1 {
				r.violate("copy %s of e%d was handed to processing (Check) %d times", cs.peer, ev, cs.checks)
			}
			if cs.released > 0 {
				r.violate("copy %s of e%d was handed to processing (Check) after it was reported released", cs.peer, ev)
			}
			if err != nil {
				r.noteFailure(c.cp, ev)
			}
			return err
		},
		Process: func(e dag.Event) error {
			c := e.(*copyEv)
			cs := &r.copies[c.cp]
			ev := cs.ev
			cs.process++
			r.procCalls[ev]++
			r.procTries[ev]++
			var err error
			switch w.specs[ev].Fail {
			case failProcess:
				err = errProcess
			case failProcessOnce:
				if r.procTries[ev] == 1 {
					err = errProcess
				}
			}
			r.log = append(r.log, logEntry{"Process", c.cp, ev, err})
			if cs.process > 1 {
				r.violate("copy %s of e%d was handed to Process %d times", cs.peer, ev, cs.process)
			}
			if cs.released > 0 {
				r.violate("copy %s of e%d was handed to Process after it was reported released", cs.peer, ev)
			}
			if w.specs[ev].Missing {
				r.violate("e%d was handed to Process although one of its parents does not exist", ev)
			}
			for _, p := range w.specs[ev].Parents {
				if r.connected&(1<<uint(p)) == 0 {
					r.violate("e%d (copy %s) was handed to Process before its parent e%d was connected", ev, cs.peer, p)
				}
			}
			if err != nil {
				r.noteFailure(c.cp, ev)
				return err
			}
			r.connected |= 1 << uint(ev)
			r.connectedAs[ev] = e
			r.pushConn |= 1 << uint(ev)
			r.connAt[ev] = len(r.log)
			return nil
		},
		Released: func(e dag.Event, peer string, err error) {
			c, ok := e.(*copyEv)
			if !ok {
				r.violate("Released called with an object that was never pushed: %v", e)
				return
			}
			cs := &r.copies[c.cp]
			cs.released++
			r.log = append(r.log, logEntry{"Released", c.cp, cs.ev, err})
			if peer != cs.peer {
				r.violate("copy %s of e%d was reported released with peer %q", cs.peer, cs.ev, peer)
			}
			if cs.released > 1 {
				r.violate("copy %s of e%d was reported released %d times", cs.peer, cs.ev, cs.released)
			}
			if errors.Is(err, eventcheck.ErrSpilledEvent) && !r.inClear {
				r.spilled = true
			}
		},
	}
}

// run executes the history. live != nil requests the liveness clause (limits suffice, nothing
// fails, nothing connected from outside): after every operation exactly the events the model
// connects are processed, each exactly once.
func run(w *world, ops []op, limit dag.Metric, live *modelOut) *runner {
	return runWith(nil, w, ops, limit, live, false)
}

// runNoReleased is run() against a buffer built without a Released callback
func runNoReleased(w *world, ops []op, limit dag.Metric, live *modelOut) *runner {
	return runWith(nil, w, ops, limit, live, true)
}

var peerNames = func() []string {
	s := make([]string, 64)
	for i := range s {
		s[i] = fmt.Sprintf("p%d", i)
	}
	return s
}()

// runWith is run() re-using the memory of a previous runner (the all-orders loops run millions of histories)
func runWith(prev *runner, w *world, ops []op, limit dag.Metric, live *modelOut, noReleased bool) *runner {
	n := len(w.specs)
	var r *runner
	if prev != nil && prev.w == w && cap(prev.copies) >= len(ops) {
		r = prev
		cas, ct, pt, pc, cps, lg, wc, ca := r.connectedAs, r.checkTries, r.procTries, r.procCalls, r.copies[:0], r.log[:0], r.waitingCp, r.connAt
		for i := 0; i < n; i++ {
			cas[i], ct[i], pt[i], pc[i], wc[i], ca[i] = nil, 0, 0, 0, -1, -1
		}
		*r = runner{w: w, ops: ops, limit: limit, connectedAs: cas, checkTries: ct, procTries: pt, procCalls: pc, copies: cps, log: lg, waitingCp: wc, connAt: ca}
	} else {
		r = &runner{w: w, ops: ops, limit: limit,
			connectedAs: make([]dag.Event, n), checkTries: make([]int, n), procTries: make([]int, n), procCalls: make([]int, n),
			copies: make([]copyState, 0, len(ops)), log: make([]logEntry, 0, 6*len(ops)+4), waitingCp: make([]int, n), connAt: make([]int, n)}
		for i := 0; i < n; i++ {
			r.waitingCp[i], r.connAt[i] = -1, -1
		}
	}
	r.noReleased = noReleased
	r.buf = dagordering.New(limit, r.callbacks())
	r.liveChecked = live != nil
	for k, o := range ops {
		switch o.Kind {
		case opPush:
			cp := len(r.copies)
			bit := uint32(1) << uint(o.Ev)
			if r.connected&bit != 0 {
				r.dupConnected = true
			} else {
				for c2 := range r.copies {
					if r.copies[c2].ev == o.Ev && r.held(c2) {
						r.dupWaiting = true
					}
				}
			}
			peer := peerNames[cp%len(peerNames)]
			r.copies = append(r.copies, copyState{ev: o.Ev, peer: peer})
			r.log = append(r.log, logEntry{"PUSH", cp, o.Ev, nil})
			r.curPush = cp
			r.pushConn = 0
			wasBuffered := noReleased && r.buf.IsBuffered(w.base[o.Ev].ID())
			var before uint32 // noReleased: events waiting before the push
			if noReleased {
				for i := range w.specs {
					if r.waitingCp[i] >= 0 && r.held(r.waitingCp[i]) {
						before |= 1 << uint(i)
					}
				}
			}
			logAt := len(r.log)
			r.buf.PushEvent(&copyEv{TestEvent: w.base[o.Ev], cp: cp, size: w.specs[o.Ev].Size}, peer)
			if noReleased {
				if !wasBuffered && r.buf.IsBuffered(w.base[o.Ev].ID()) {
					r.waitingCp[o.Ev] = cp // this copy waits (a copy pushed while its event waits is dropped as a duplicate)
				}
				// classification only: a waiting copy that left the buffer without any callback was spilled
				for _, l := range r.log[logAt:] {
					if l.ev >= 0 {
						before &^= 1 << uint(l.ev)
					}
				}
				for i := range w.specs {
					if before&(1<<uint(i)) != 0 && !r.buf.IsBuffered(w.base[i].ID()) {
						r.spilled = true
					}
				}
				if !wasBuffered && r.connected&bit == 0 && len(r.log) == logAt && !r.buf.IsBuffered(w.base[o.Ev].ID()) {
					r.spilled = true // the pushed copy itself
				}
			}
			// limits after every push: what the buffer reports and what it really still holds
			// (pushed copies not yet reported released)
			tot := r.buf.Total()
			if tot.Num > limit.Num || tot.Size > limit.Size {
				r.violate("after push #%d Total() = %s exceeds the limit %s", k, tot.String(), limit.String())
			}
			var hn idx.Event
			var hs uint64
			for c2 := range r.copies {
				if !noReleased && r.held(c2) {
					hn++
					hs += uint64(w.specs[r.copies[c2].ev].Size)
				}
			}
			if !noReleased {
				// (without a Released callback the copies still held cannot be counted independently)
				if hn > limit.Num || hs > limit.Size {
					r.violate("after push #%d the buffer holds %d unreleased copies / %d bytes, limit %s", k, hn, hs, limit.String())
				}
				if tot.Num != hn || tot.Size != hs {
					r.violate("after push #%d Total() = %s but %d copies / %d bytes are pushed and not released", k, tot.String(), hn, hs)
				}
			}
			if r.held(cp) {
				miss := 0
				if w.specs[o.Ev].Missing {
					miss++
				}
				for _, p := range w.specs[o.Ev].Parents {
					if r.connected&(1<<uint(p)) == 0 {
						miss++
					}
				}
				if miss >= 2 {
					r.waits2 = true
				}
			}
		case opClear:
			r.log = append(r.log, logEntry{"CLEAR", -1, -1, nil})
			r.inClear = true
			r.buf.Clear()
			r.inClear = false
			r.checkAllReleased(fmt.Sprintf("after Clear (op #%d)", k))
		case opConnect:
			bit := uint32(1) << uint(o.Ev)
			ok := r.connected&bit == 0 && !w.specs[o.Ev].Missing
			for _, p := range w.specs[o.Ev].Parents {
				ok = ok && r.connected&(1<<uint(p)) != 0
			}
			if ok {
				r.connected |= bit
				r.connectedAs[o.Ev] = w.base[o.Ev]
				r.extConnected = true
				r.log = append(r.log, logEntry{"CONNECT-OUTSIDE", -1, o.Ev, nil})
			}
		}
		if live != nil {
			if r.connected != live.connected[k] {
				r.violate("limits suffice and nothing fails, but after op #%d the connected events are %s, expected %s",
					k, maskString(r.connected), maskString(live.connected[k]))
			}
			for i := 0; i < n; i++ {
				want := 0
				if live.connected[k]&(1<<uint(i)) != 0 {
					want = 1
				}
				if r.procCalls[i] != want {
					r.violate("limits suffice and nothing fails, but after op #%d e%d was handed to Process %d times, expected %d", k, i, r.procCalls[i], want)
				}
			}
		}
		if r.viol != "" {
			return r
		}
	}
	r.log = append(r.log, logEntry{"CLEAR", -1, -1, nil})
	r.inClear = true
	r.buf.Clear()
	r.checkAllReleased("after the final Clear")
	return r
}

func (r *runner) checkAllReleased(when string) {
	for cp := range r.copies {
		if r.noReleased {
			break // no Released callback installed: release accounting is not observable
		}
		if r.copies[cp].released != 1 {
			r.violate("%s copy %s of e%d was reported released %d times", when, r.copies[cp].peer, r.copies[cp].ev, r.copies[cp].released)
		}
	}
	if tot := r.buf.Total(); tot.Num != 0 || tot.Size != 0 {
		r.violate("%s Total() = %s", when, tot.String())
	}
}

func maskString(m uint32) string {
	var s []string
	for i := 0; i < 32; i++ {
		if m&(1<<uint(i)) != 0 {
			s = append(s, fmt.Sprintf("e%d", i))
		}
	}
	return "{" + strings.Join(s, ",") + "}"
}

func (r *runner) describe() string {
	var b strings.Builder
	b.WriteString("events:\n")
	b.WriteString(r.w.describe())
	fmt.Fprintf(&b, "limit: %s\n", r.limit.String())
	if r.noReleased {
		b.WriteString("buffer built WITHOUT a Released callback (Callback.Released == nil)\n")
	}
	b.WriteString("history:")
	for _, o := range r.ops {
		switch o.Kind {
		case opPush:
			fmt.Fprintf(&b, " push(e%d)", o.Ev)
		case opClear:
			b.WriteString(" Clear")
		case opConnect:
			fmt.Fprintf(&b, " connect-outside(e%d)", o.Ev)
		}
	}
	b.WriteString("\nobserved:\n")
	for _, l := range r.log {
		switch l.kind {
		case "PUSH":
			fmt.Fprintf(&b, "  PushEvent(e%d, peer=p%d)\n", l.ev, l.cp)
		case "CLEAR":
			b.WriteString("  Clear()\n")
		case "CONNECT-OUTSIDE":
			fmt.Fprintf(&b, "  (e%d connected outside the buffer)\n", l.ev)
		default:
			fmt.Fprintf(&b, "      %s(e%d copy p%d) err=%v\n", l.kind, l.ev, l.cp, l.err)
		}
	}
	return b.String()
}

// nontrivial: the order makes an event wait for >= 2 parents, and a callback fails for an event that
// was waiting in the buffer or has a waiting descendant (the design-time witness F2 is of this kind)
func (r *runner) nontrivial() bool { return r.waits2 && r.failWaitingDesc }

func anyFail(specs []evSpec) bool {
	for _, s := range specs {
		if s.Fail != failNone {
			return true
		}
	}
	return false
}

func hasConnect(ops []op) bool {
	for _, o := range ops {
		if o.Kind == opConnect {
			return true
		}
	}
	return false
}
