// C15, unit "burst": many batches are enqueued at once (from 1-3 goroutines) while the processor is
// slow, with small Config.MaxTasks values, so that the processor's task queues are full when Enqueue
// is called.
//
// The harness owns what makes the processor slow: a gate inside the n-th CheckParentless call
// (the checker worker is parked: the checker queue fills up) or inside the n-th HighestLamport call
// (the inserter worker is parked: the inserter queue fills up while the checks go on), or drawn
// small delays inside these callbacks. The gate is opened by the driver goroutine, which never calls
// Enqueue itself: it waits (scheduling aid only, no verdict depends on it) until the enqueuing
// goroutines made no progress for a while or all returned. After that everything drains.
//
// Oracle (from the property text):
//   - every copy of a batch whose Enqueue returned nil is reported released exactly once by the time
//     the processor is stopped (never twice at any time, with its batch's peer);
//   - a batch whose Enqueue returned an error was not accepted: none of its copies is ever handed to
//     Process or reported released, and it does not stay accounted in the events semaphore;
//   - the amount held in the semaphore never exceeds the capacity (inside every callback); when every
//     Enqueue call has returned and every accepted batch is done it equals the weight of the accepted
//     copies that are not released yet; it is zero once all of them are released (after Clear(), after
//     Stop()), and then the full capacity can be acquired again (checked before Stop(): Stop()
//     terminates the semaphore); the semaphore's inconsistency warning never fires;
//   - per copy at most one Process, none after its Released, only with all parents connected.
package c15

import (
	"errors"
	"fmt"
	"runtime"
	"strings"
	"sync"
	"testing"
	"time"

	"github.com/Fantom-foundation/lachesis-base/gossip/dagprocessor"
	"github.com/Fantom-foundation/lachesis-base/hash"
	"github.com/Fantom-foundation/lachesis-base/inter/dag"
	"github.com/Fantom-foundation/lachesis-base/inter/dag/tdag"
	"github.com/Fantom-foundation/lachesis-base/inter/idx"
	"github.com/Fantom-foundation/lachesis-base/utils/datasemaphore"
	"pgregory.net/rapid"

	"verif/harness/internal/stats"
)

// ---------------------------------------------------------------------------------------------
// case description

type buEvent struct {
	Parents  []int  `json:"parents"`                         // indices of earlier events
	Orphan   bool   `json:"parent_never_supplied,omitempty"` // additionally a parent that is in no batch
	Lamport  uint32 `json:"lamport"`
	Size     int    `json:"size"`
	FailCP   bool   `json:"check_parents_fails,omitempty"`
	FailProc bool   `json:"process_fails,omitempty"`
}

type buBatch struct {
	Ordered  bool   `json:"ordered"`
	Enqueuer int    `json:"enqueuing_goroutine"`
	Events   []int  `json:"events"`
	CheckErr []bool `json:"parentless_check_fails"`
}

const (
	buGateNone     = 0
	buGateCheck    = 1 // the n-th CheckParentless call waits for the gate
	buGateInserter = 2 // the n-th HighestLamport call waits for the gate
)

var buGateNames = []string{"slow_by_delays_only", "gate_in_parentless_check", "gate_in_inserter"}

type buCase struct {
	Events    []buEvent `json:"events"`
	Batches   []buBatch `json:"batches"`
	MaxTasks  int       `json:"max_tasks"`
	Enqueuers int       `json:"enqueuing_goroutines"`
	GateMode  int       `json:"gate_mode"`
	GateNth   int       `json:"gate_at_call,omitempty"`
	// drawn delays (microseconds) inside the first buSlowCalls CheckParentless / HighestLamport calls
	CheckDelayUs  int    `json:"check_delay_us,omitempty"`
	InsertDelayUs int    `json:"inserter_delay_us,omitempty"`
	CheckedAsync  bool   `json:"check_result_from_own_goroutine,omitempty"`
	SemNum        uint32 `json:"sem_num"`
	SemSize       uint64 `json:"sem_size"`
	SemTight      bool   `json:"sem_smaller_than_burst,omitempty"`
	TimeoutMs     int    `json:"semaphore_timeout_ms"`
	BufNum        uint32 `json:"buffer_num"`
	BufSize       uint64 `json:"buffer_size"`
	Highest       uint32 `json:"highest_lamport"`
	ClearFirst    bool   `json:"clear_before_stop,omitempty"`
	NotifyNil     bool   `json:"notify_nil,omitempty"`
}

// ---------------------------------------------------------------------------------------------
// harness

type buCopy struct {
	*tdag.TestEvent
	cp   int
	size int
}

func (c *buCopy) Size() int { return c.size }

type buCopyState struct {
	batch, pos, ev int
	peer           string
	process        int
	released       int
}

type buEntry struct {
	kind string
	cp   int
	err  error
	note string
}

var (
	errBuParentless = errors.New("harness: parentless check failed")
	errBuCP         = errors.New("harness: parents check failed")
	errBuProc       = errors.New("harness: process failed")
)

type buRun struct {
	cs   *buCase
	base []*tdag.TestEvent
	byID map[hash.Event]int
	sem  *datasemaphore.DataSemaphore
	cap  dag.Metric

	warnMu  sync.Mutex
	warning string

	gate        chan struct{}
	gateOnce    sync.Once
	gateEntered bool

	mu          sync.Mutex
	log         []buEntry
	copies      []buCopyState
	batchCopies [][]int
	connected   []bool
	connectedAs []dag.Event
	checkCalls  int
	highCalls   int
	entered     int   // Enqueue calls begun
	returned    int   // Enqueue calls returned
	accepted    []int // -1 unknown, 0 refused, 1 accepted
	enqErr      []error
	doneCalls   []int
	doneCh      []chan struct{}
	viol        string
}

func (r *buRun) violate(format string, a ...interface{}) {
	if r.viol == "" {
		r.viol = fmt.Sprintf(format, a...)
	}
}

// noteLocked: r.mu held
func (r *buRun) noteLocked(kind string, cp int, err error, note string) {
	if len(r.log) < 600 {
		r.log = append(r.log, buEntry{kind: kind, cp: cp, err: err, note: note})
	}
}

// semCheck: r.mu held
func (r *buRun) semCheck(where string) {
	p := r.sem.Processing()
	if p.Num > r.cap.Num || p.Size > r.cap.Size {
		r.violate("at %s the events semaphore holds %s, capacity %s", where, p.String(), r.cap.String())
	}
}

func (r *buRun) openGate() {
	r.gateOnce.Do(func() { close(r.gate) })
}

func buEventID(i int) (id [24]byte) {
	id[0], id[1], id[2] = 0xC1, 0x15, 0xB0
	id[20], id[21], id[22], id[23] = byte(i>>24), byte(i>>16), byte(i>>8), byte(i+1)
	return
}

func newBuRun(cs *buCase) *buRun {
	n := len(cs.Events)
	r := &buRun{cs: cs, byID: make(map[hash.Event]int, n), connected: make([]bool, n), connectedAs: make([]dag.Event, n),
		gate: make(chan struct{})}
	ghost := hash.Event{}
	gid := buEventID(1 << 20)
	copy(ghost[8:], gid[:])
	for i, s := range cs.Events {
		e := &tdag.TestEvent{}
		e.Name = fmt.Sprintf("e%d", i)
		e.SetEpoch(1)
		e.SetCreator(idx.ValidatorID(i%4 + 1))
		e.SetSeq(idx.Event(i/4 + 1))
		var ps hash.Events
		for _, p := range s.Parents {
			ps = append(ps, r.base[p].ID())
		}
		if s.Orphan {
			ps = append(ps, ghost)
		}
		e.SetParents(ps)
		e.SetLamport(idx.Lamport(s.Lamport))
		e.SetID(buEventID(i))
		r.base = append(r.base, e)
		r.byID[e.ID()] = i
	}
	for b, bs := range cs.Batches {
		var cps []int
		for pos, ev := range bs.Events {
			cps = append(cps, len(r.copies))
			r.copies = append(r.copies, buCopyState{batch: b, pos: pos, ev: ev, peer: fmt.Sprintf("batch%d", b)})
		}
		r.batchCopies = append(r.batchCopies, cps)
		r.accepted = append(r.accepted, -1)
		r.enqErr = append(r.enqErr, nil)
		r.doneCalls = append(r.doneCalls, 0)
		r.doneCh = append(r.doneCh, make(chan struct{}))
	}
	r.cap = dag.Metric{Num: idx.Event(cs.SemNum), Size: cs.SemSize}
	r.sem = datasemaphore.New(r.cap, func(received, processing, releasing dag.Metric) {
		// called with the semaphore's lock held: only record
		r.warnMu.Lock()
		if r.warning == "" {
			r.warning = fmt.Sprintf("events semaphore inconsistency warning: holding %s, releasing %s", processing.String(), releasing.String())
		}
		r.warnMu.Unlock()
	})
	return r
}

// only the first calls are slow (a slow start): a short sleep takes about a millisecond on a loaded machine
const buSlowCalls = 4

func buSleep(us int) {
	if us > 0 {
		time.Sleep(time.Duration(us) * time.Microsecond)
	}
}

func (r *buRun) callbacks() dagprocessor.Callback {
	cs := r.cs
	return dagprocessor.Callback{
		HighestLamport: func() idx.Lamport {
			r.mu.Lock()
			r.highCalls++
			n := r.highCalls
			block := cs.GateMode == buGateInserter && r.highCalls == cs.GateNth
			if block {
				r.gateEntered = true
				r.noteLocked("the inserter waits for the gate inside HighestLamport", -1, nil, "")
			}
			r.mu.Unlock()
			if block {
				<-r.gate
			}
			if n <= buSlowCalls {
				buSleep(cs.InsertDelayUs)
			}
			return idx.Lamport(cs.Highest)
		},
		Event: dagprocessor.EventCallback{
			CheckParentless: func(e dag.Event, checked func(error)) {
				c := e.(*buCopy)
				r.mu.Lock()
				r.semCheck("CheckParentless")
				r.checkCalls++
				n := r.checkCalls
				block := cs.GateMode == buGateCheck && r.checkCalls == cs.GateNth
				if block {
					r.gateEntered = true
					r.noteLocked("the checker waits for the gate inside CheckParentless", c.cp, nil, "")
				}
				st := r.copies[c.cp]
				r.mu.Unlock()
				if block {
					<-r.gate
				}
				if n <= buSlowCalls {
					buSleep(cs.CheckDelayUs)
				}
				var err error
				if cs.Batches[st.batch].CheckErr[st.pos] {
					err = errBuParentless
				}
				if cs.CheckedAsync {
					go checked(err)
				} else {
					checked(err)
				}
			},
			Exists: func(id hash.Event) bool {
				r.mu.Lock()
				defer r.mu.Unlock()
				r.semCheck("Exists")
				i, ok := r.byID[id]
				return ok && r.connected[i]
			},
			Get: func(id hash.Event) dag.Event {
				r.mu.Lock()
				defer r.mu.Unlock()
				i, ok := r.byID[id]
				if !ok || !r.connected[i] {
					return nil
				}
				return r.connectedAs[i]
			},
			CheckParents: func(e dag.Event, parents dag.Events) error {
				c := e.(*buCopy)
				r.mu.Lock()
				defer r.mu.Unlock()
				r.semCheck("CheckParents")
				if cs.Events[r.copies[c.cp].ev].FailCP {
					return errBuCP
				}
				return nil
			},
			Process: func(e dag.Event) error {
				c := e.(*buCopy)
				r.mu.Lock()
				defer r.mu.Unlock()
				r.semCheck("Process")
				st := &r.copies[c.cp]
				st.process++
				var err error
				if cs.Events[st.ev].FailProc {
					err = errBuProc
				}
				r.noteLocked("Process", c.cp, err, "")
				if r.accepted[st.batch] == 0 {
					r.violate("copy %d (e%d) of batch %d was handed to Process although the Enqueue call of its batch returned %q",
						c.cp, st.ev, st.batch, r.enqErr[st.batch])
				}
				if st.process > 1 {
					r.violate("copy %d (e%d of batch %d) was handed to Process %d times", c.cp, st.ev, st.batch, st.process)
				}
				if st.released > 0 {
					r.violate("copy %d (e%d of batch %d) was handed to Process after it was reported released", c.cp, st.ev, st.batch)
				}
				if cs.Batches[st.batch].CheckErr[st.pos] {
					r.violate("copy %d (e%d of batch %d) was rejected by its parentless check but handed to Process", c.cp, st.ev, st.batch)
				}
				if cs.Events[st.ev].Orphan {
					r.violate("e%d was handed to Process although one of its parents was never supplied", st.ev)
				}
				for _, p := range cs.Events[st.ev].Parents {
					if !r.connected[p] {
						r.violate("e%d was handed to Process before its parent e%d was connected", st.ev, p)
					}
				}
				if uint64(cs.Events[st.ev].Lamport) > uint64(cs.Highest)+uint64(cs.BufNum)+1 {
					r.violate("e%d with Lamport %d was handed to Process although the highest known Lamport is %d and the buffer limit is %d events",
						st.ev, cs.Events[st.ev].Lamport, cs.Highest, cs.BufNum)
				}
				if err != nil {
					return err
				}
				r.connected[st.ev] = true
				r.connectedAs[st.ev] = e
				return nil
			},
			Released: func(e dag.Event, peer string, err error) {
				c, ok := e.(*buCopy)
				r.mu.Lock()
				defer r.mu.Unlock()
				if !ok {
					r.violate("Released called with an object that was never enqueued")
					return
				}
				r.semCheck("Released")
				st := &r.copies[c.cp]
				st.released++
				r.noteLocked("Released", c.cp, err, "")
				if r.accepted[st.batch] == 0 {
					r.violate("copy %d (e%d) of batch %d was reported released although the Enqueue call of its batch returned %q",
						c.cp, st.ev, st.batch, r.enqErr[st.batch])
				}
				if peer != st.peer {
					r.violate("copy %d (e%d of batch %d) was reported released with peer %q", c.cp, st.ev, st.batch, peer)
				}
				if st.released > 1 {
					r.violate("copy %d (e%d of batch %d) was reported released %d times", c.cp, st.ev, st.batch, st.released)
				}
			},
		},
	}
}

type buOutcome struct {
	inconclusive string
	accepted     int
	refused      int
	parked       bool // an Enqueue call that had passed the semaphore was seen waiting for room in a task queue
	queueFull    bool // TasksCount() >= MaxTasks was seen
	bothFull     bool // TasksCount() == 2*MaxTasks was seen: both task queues full
	gateEntered  bool
	heldAtEnd    bool // accepted copies were still held by the ordering buffer when every batch was done
	maxParked    int  // most Enqueue calls seen in flight at one poll
}

// heldWeight: weight of the copies of batches whose Enqueue returned nil that are not released yet. r.mu held.
func (r *buRun) heldWeight() (m dag.Metric) {
	for cp := range r.copies {
		st := &r.copies[cp]
		if r.accepted[st.batch] == 1 && st.released == 0 {
			m.Num++
			m.Size += uint64(r.cs.Events[st.ev].Size)
		}
	}
	return
}

type buSnap struct {
	entered, returned, tasks int
	gate                     bool
	proc                     dag.Metric
	parked                   bool
}

func runBurst(cs *buCase) (*buRun, *buOutcome) {
	r := newBuRun(cs)
	out := &buOutcome{}
	cfg := dagprocessor.Config{
		EventsBufferLimit:      dag.Metric{Num: idx.Event(cs.BufNum), Size: cs.BufSize},
		EventsSemaphoreTimeout: time.Duration(cs.TimeoutMs) * time.Millisecond,
		MaxTasks:               cs.MaxTasks,
	}
	proc := dagprocessor.New(r.sem, cfg, r.callbacks())
	proc.Start()
	stopped := false
	stop := func() {
		if !stopped {
			stopped = true
			proc.Stop()
		}
	}
	defer stop()
	defer r.openGate() // runs before the deferred stop

	deadline := time.NewTimer(caseDeadline)
	defer deadline.Stop()

	// the enqueuing goroutines: each one hands over its batches one after the other
	var wg sync.WaitGroup
	for g := 0; g < cs.Enqueuers; g++ {
		var mine []int
		for b, bs := range cs.Batches {
			if bs.Enqueuer == g {
				mine = append(mine, b)
			}
		}
		if len(mine) == 0 {
			continue
		}
		wg.Add(1)
		go func(mine []int) {
			defer wg.Done()
			for _, b := range mine {
				b := b
				bs := cs.Batches[b]
				events := make(dag.Events, len(bs.Events))
				for pos, ev := range bs.Events {
					events[pos] = &buCopy{TestEvent: r.base[ev], cp: r.batchCopies[b][pos], size: cs.Events[ev].Size}
				}
				var notify func(hash.Events)
				if !cs.NotifyNil {
					notify = func(hash.Events) {}
				}
				r.mu.Lock()
				r.entered++
				r.noteLocked("Enqueue", -1, nil, fmt.Sprintf("batch %d ordered=%v events=%v (goroutine %d)", b, bs.Ordered, bs.Events, bs.Enqueuer))
				r.mu.Unlock()
				err := proc.Enqueue(fmt.Sprintf("batch%d", b), events, bs.Ordered, notify, func() {
					r.mu.Lock()
					r.doneCalls[b]++
					n := r.doneCalls[b]
					r.noteLocked("done", -1, nil, fmt.Sprintf("batch %d", b))
					r.mu.Unlock()
					if n == 1 {
						close(r.doneCh[b])
					}
				})
				r.mu.Lock()
				r.returned++
				r.enqErr[b] = err
				if err == nil {
					r.accepted[b] = 1
				} else {
					r.accepted[b] = 0
					// the processor refused the batch: nothing of it may have been handled
					for _, cp := range r.batchCopies[b] {
						if r.copies[cp].process > 0 || r.copies[cp].released > 0 {
							r.violate("the Enqueue call of batch %d returned %q, but its copy %d (e%d) was handed to Process %d times and reported released %d times",
								b, err, cp, r.copies[cp].ev, r.copies[cp].process, r.copies[cp].released)
						}
					}
				}
				r.noteLocked("Enqueue-returned", -1, err, fmt.Sprintf("batch %d", b))
				r.mu.Unlock()
			}
		}(mine)
	}
	allReturned := make(chan struct{})
	go func() { wg.Wait(); close(allReturned) }()

	// The driver (this goroutine never calls Enqueue): watch the burst until the enqueuing goroutines all
	// returned or - with a gate - made no progress for a while, then open the gate. Scheduling aid and
	// classification only; whatever is seen here, everything drains once the gate is open.
	snap := func() buSnap {
		tasks := proc.TasksCount()
		r.mu.Lock()
		defer r.mu.Unlock()
		s := buSnap{entered: r.entered, returned: r.returned, tasks: tasks, gate: r.gateEntered, proc: r.sem.Processing()}
		held := r.heldWeight()
		// more is held than the accepted, unreleased copies weigh: an Enqueue call in flight has acquired
		// its weight and is not back yet
		s.parked = s.entered > s.returned && (s.proc.Num > held.Num || s.proc.Size > held.Size)
		return s
	}
	var last buSnap
	stable := 0
	opened := false
	total := len(cs.Batches)
watch:
	for polls := 0; ; polls++ {
		select {
		case <-allReturned:
			break watch
		case <-deadline.C:
			out.inconclusive = "the Enqueue calls did not return before the deadline"
			return r, out
		default:
		}
		s := snap()
		if s.tasks >= cs.MaxTasks {
			out.queueFull = true
		}
		if s.tasks >= 2*cs.MaxTasks {
			out.bothFull = true
		}
		if s == last {
			stable++
		} else {
			stable = 0
			last = s
		}
		if s.parked && stable >= 2 {
			out.parked = true
			if s.entered-s.returned > out.maxParked {
				out.maxParked = s.entered - s.returned
			}
		}
		if cs.GateMode != buGateNone && !opened && s.entered > 0 && (stable >= 30 || s.returned == total) {
			opened = true
			r.mu.Lock()
			r.noteLocked("gate opened", -1, nil, fmt.Sprintf("(Enqueue calls begun %d, returned %d; tasks waiting %d; semaphore holds %s)", s.entered, s.returned, s.tasks, s.proc.String()))
			r.mu.Unlock()
			r.openGate()
		}
		// mostly yield, sometimes sleep (a short sleep takes about a millisecond on a loaded machine)
		if polls%10 == 9 {
			time.Sleep(10 * time.Microsecond)
		} else {
			runtime.Gosched()
		}
	}
	r.openGate()
	// every done of an accepted batch is awaited
	for b := range cs.Batches {
		if r.accepted[b] != 1 {
			out.refused++
			continue
		}
		out.accepted++
		select {
		case <-r.doneCh[b]:
		case <-deadline.C:
			out.inconclusive = fmt.Sprintf("done of batch %d was not called before the deadline", b)
			return r, out
		}
	}
	r.mu.Lock()
	out.gateEntered = r.gateEntered
	// every Enqueue call is back and every accepted batch is finished: what the semaphore holds are the
	// accepted copies that wait in the ordering buffer - nothing of a refused batch
	held := r.heldWeight()
	out.heldAtEnd = held.Num > 0
	if p := r.sem.Processing(); p != held {
		var ref []string
		for b := range cs.Batches {
			if r.accepted[b] == 0 {
				ref = append(ref, fmt.Sprintf("batch %d (%d events): %v", b, len(cs.Batches[b].Events), r.enqErr[b]))
			}
		}
		r.violate("every Enqueue call returned and every accepted batch is done: the events semaphore holds %s, but the accepted copies that are not released yet weigh %s (refused batches: %s)",
			p.String(), held.String(), strings.Join(ref, "; "))
	}
	for b := range cs.Batches {
		if r.accepted[b] == 1 && r.doneCalls[b] != 1 {
			r.violate("done of accepted batch %d was called %d times", b, r.doneCalls[b])
		}
	}
	r.mu.Unlock()

	if cs.ClearFirst {
		proc.Clear()
		r.mu.Lock()
		r.noteLocked("Clear-returned", -1, nil, "")
		r.checkAllReleased("after Clear()")
		r.mu.Unlock()
		// nothing is in flight or buffered any more: the whole capacity is usable again
		if r.viol == "" {
			if !r.sem.TryAcquire(r.cap) {
				r.mu.Lock()
				r.violate("after Clear() every accepted copy is released, but the full capacity %s of the events semaphore cannot be acquired (it holds %s)",
					r.cap.String(), r.sem.Processing().String())
				r.mu.Unlock()
			} else {
				r.sem.Release(r.cap)
			}
		}
	}
	r.mu.Lock()
	r.noteLocked("Stop", -1, nil, "")
	r.mu.Unlock()
	stop()
	r.mu.Lock()
	r.noteLocked("Stop-returned", -1, nil, "")
	r.checkAllReleased("after Stop()")
	r.warnMu.Lock()
	if r.warning != "" {
		r.violate("%s", r.warning)
	}
	r.warnMu.Unlock()
	r.mu.Unlock()
	return r, out
}

// checkAllReleased: r.mu held
func (r *buRun) checkAllReleased(when string) {
	for cp := range r.copies {
		st := &r.copies[cp]
		switch r.accepted[st.batch] {
		case 1:
			if st.released != 1 {
				r.violate("%s copy %d (e%d of accepted batch %d) was reported released %d times", when, cp, st.ev, st.batch, st.released)
			}
		default:
			if st.released != 0 || st.process != 0 {
				r.violate("%s copy %d (e%d) of batch %d, whose Enqueue call returned %q, was handed to Process %d times and reported released %d times",
					when, cp, st.ev, st.batch, r.enqErr[st.batch], st.process, st.released)
			}
		}
	}
	if p := r.sem.Processing(); p.Num != 0 || p.Size != 0 {
		var ref []string
		for b := range r.cs.Batches {
			if r.accepted[b] == 0 {
				ref = append(ref, fmt.Sprintf("batch %d (%d events): %v", b, len(r.cs.Batches[b].Events), r.enqErr[b]))
			}
		}
		r.violate("%s every copy of every accepted batch is released, but the events semaphore still holds %s (refused batches: %s)",
			when, p.String(), strings.Join(ref, "; "))
	}
}

func (r *buRun) describe() string {
	cs := r.cs
	var b strings.Builder
	b.WriteString("events:\n")
	for i, e := range cs.Events {
		fmt.Fprintf(&b, "  e%d <- %v lamport=%d size=%d", i, e.Parents, e.Lamport, e.Size)
		if e.Orphan {
			b.WriteString(" [one more parent that is never supplied]")
		}
		if e.FailCP {
			b.WriteString(" [CheckParents fails]")
		}
		if e.FailProc {
			b.WriteString(" [Process fails]")
		}
		b.WriteString("\n")
	}
	fmt.Fprintf(&b, "MaxTasks %d, %d enqueuing goroutines, %s (call %d), check delay %dus, inserter delay %dus, check results from own goroutines: %v\n",
		cs.MaxTasks, cs.Enqueuers, buGateNames[cs.GateMode], cs.GateNth, cs.CheckDelayUs, cs.InsertDelayUs, cs.CheckedAsync)
	fmt.Fprintf(&b, "semaphore capacity {Num=%d,Size=%d} (timeout %dms), EventsBufferLimit {Num=%d,Size=%d}, highest Lamport %d, Clear() before Stop(): %v\n",
		cs.SemNum, cs.SemSize, cs.TimeoutMs, cs.BufNum, cs.BufSize, cs.Highest, cs.ClearFirst)
	for i, bs := range cs.Batches {
		fmt.Fprintf(&b, "batch %d: goroutine %d ordered=%v events=%v parentless-check-fails=%v copies=%v -> Enqueue returned %v\n",
			i, bs.Enqueuer, bs.Ordered, bs.Events, bs.CheckErr, r.batchCopies[i], r.enqErr[i])
	}
	b.WriteString("observed:\n")
	for _, l := range r.log {
		if l.cp >= 0 {
			st := r.copies[l.cp]
			fmt.Fprintf(&b, "  %s copy %d (e%d, batch %d pos %d)", l.kind, l.cp, st.ev, st.batch, st.pos)
		} else {
			fmt.Fprintf(&b, "  %s", l.kind)
		}
		if l.note != "" {
			fmt.Fprintf(&b, " %s", l.note)
		}
		if l.err != nil {
			fmt.Fprintf(&b, " err=%v", l.err)
		}
		b.WriteString("\n")
	}
	return b.String()
}

// ---------------------------------------------------------------------------------------------
// generator

func genBurst(t *rapid.T) *buCase {
	cs := &buCase{}
	cs.MaxTasks = rapid.SampledFrom([]int{1, 1, 2, 2, 4, 4, 128}).Draw(t, "maxTasks")
	cs.Enqueuers = rapid.IntRange(1, 3).Draw(t, "enqueuers")
	nb := rapid.IntRange(2, 16).Draw(t, "batches")
	clean := rapid.IntRange(0, 2).Draw(t, "clean") == 0
	cs.Highest = uint32(rapid.IntRange(0, 50).Draw(t, "highest"))
	bufClass := rapid.SampledFrom([]int{0, 1, 2, 2, 2, 2}).Draw(t, "bufClass")
	if clean {
		bufClass = 2
	}
	sizeMode := rapid.IntRange(0, 1).Draw(t, "sizeMode")
	var total, maxBatch dag.Metric
	for b := 0; b < nb; b++ {
		bs := buBatch{Ordered: rapid.Bool().Draw(t, "ordered"), Enqueuer: rapid.IntRange(0, cs.Enqueuers-1).Draw(t, "enqueuer")}
		sz := rapid.SampledFrom([]int{1, 1, 2, 2, 3, 4}).Draw(t, "batchSize")
		var m dag.Metric
		for k := 0; k < sz; k++ {
			ev := -1
			if n := len(cs.Events); n > 0 && rapid.IntRange(0, 5).Draw(t, "duplicate") == 0 {
				ev = rapid.IntRange(0, n-1).Draw(t, "copyOf")
			}
			if ev < 0 {
				var e buEvent
				n := len(cs.Events)
				if n > 0 {
					for j, k := 0, rapid.SampledFrom([]int{0, 0, 0, 1, 1, 2}).Draw(t, "nparents"); j < k; j++ {
						p := rapid.IntRange(0, n-1).Draw(t, "parent")
						dup := false
						for _, q := range e.Parents {
							dup = dup || q == p
						}
						if !dup {
							e.Parents = append(e.Parents, p)
						}
					}
				}
				e.Orphan = rapid.IntRange(0, 7).Draw(t, "orphan") == 0
				if sizeMode == 0 {
					e.Size = 56 + 32*len(e.Parents)
				} else {
					e.Size = rapid.IntRange(1, 20).Draw(t, "size")
				}
				if !clean {
					switch rapid.IntRange(0, 15).Draw(t, "eventFails") {
					case 0:
						e.FailCP = true
					case 1:
						e.FailProc = true
					}
				}
				ev = n
				cs.Events = append(cs.Events, e)
			}
			bs.Events = append(bs.Events, ev)
			bs.CheckErr = append(bs.CheckErr, !clean && rapid.IntRange(0, 7).Draw(t, "checkErr") == 0)
			m.Num++
			m.Size += uint64(cs.Events[ev].Size)
		}
		if m.Num > maxBatch.Num {
			maxBatch.Num = m.Num
		}
		if m.Size > maxBatch.Size {
			maxBatch.Size = m.Size
		}
		total.Num += m.Num
		total.Size += m.Size
		cs.Batches = append(cs.Batches, bs)
	}
	n := len(cs.Events)
	switch bufClass {
	case 0:
		cs.BufNum, cs.BufSize = uint32(rapid.IntRange(0, 2).Draw(t, "bufNum")), total.Size
	case 1:
		cs.BufNum, cs.BufSize = uint32(n), uint64(rapid.IntRange(0, int(total.Size)).Draw(t, "bufBytes"))
	default:
		cs.BufNum, cs.BufSize = uint32(n)+uint32(rapid.IntRange(0, 3).Draw(t, "bufExtra")), 2*total.Size
	}
	// Lamport times: mostly not too far ahead (allowed up to highest + BufNum + 1)
	T := int(cs.Highest) + int(cs.BufNum) + 1
	for i := range cs.Events {
		l := rapid.IntRange(1, T).Draw(t, "lamport")
		if !clean {
			switch rapid.IntRange(0, 11).Draw(t, "lamportMode") {
			case 0:
				l = T + rapid.SampledFrom([]int{1, 2, 1000}).Draw(t, "ahead")
			case 1:
				l = T
			}
		}
		cs.Events[i].Lamport = uint32(l)
	}
	// semaphore: mostly ample (no Enqueue call waits for it), sometimes smaller than the burst
	if rapid.IntRange(0, 3).Draw(t, "semTight") == 0 {
		cs.SemTight = true
		cs.SemNum = uint32(rapid.IntRange(int(maxBatch.Num), int(total.Num)).Draw(t, "semNum"))
		cs.SemSize = total.Size
		if rapid.Bool().Draw(t, "semTightBytes") {
			cs.SemNum = uint32(total.Num)
			cs.SemSize = uint64(rapid.IntRange(int(maxBatch.Size), int(total.Size)).Draw(t, "semSize"))
		}
		cs.TimeoutMs = rapid.SampledFrom([]int{0, 0, 1, 3}).Draw(t, "timeoutMs")
	} else {
		cs.SemNum = uint32(total.Num) + uint32(rapid.IntRange(0, 3).Draw(t, "semExtra"))
		cs.SemSize = total.Size + uint64(rapid.IntRange(0, 100).Draw(t, "semExtraBytes"))
		cs.TimeoutMs = rapid.SampledFrom([]int{0, 1, 1000}).Draw(t, "timeoutMs")
	}
	// what makes the processor slow
	cs.GateMode = rapid.SampledFrom([]int{buGateNone, buGateCheck, buGateCheck, buGateInserter, buGateInserter}).Draw(t, "gateMode")
	delays := []int{0, 0, 0, 20, 100}
	if cs.GateMode == buGateNone {
		delays = []int{0, 20, 50, 100, 200}
	} else {
		cs.GateNth = rapid.SampledFrom([]int{1, 1, 1, 2, 3, 4, 6}).Draw(t, "gateNth")
	}
	cs.CheckDelayUs = rapid.SampledFrom(delays).Draw(t, "checkDelayUs")
	cs.InsertDelayUs = rapid.SampledFrom(delays).Draw(t, "inserterDelayUs")
	cs.CheckedAsync = rapid.IntRange(0, 3).Draw(t, "checkedAsync") == 0
	cs.ClearFirst = rapid.Bool().Draw(t, "clearFirst")
	cs.NotifyNil = rapid.IntRange(0, 3).Draw(t, "notifyNil") == 0
	return cs
}

var stBurst = stats.New("burst")

func TestC15Burst(t *testing.T) {
	rapid.Check(t, func(t *rapid.T) {
		cs := genBurst(t)
		r, out := runBurst(cs)
		if out.inconclusive != "" {
			// timing policy: an overloaded machine is not a violation
			stBurst.Inconclusive()
			t.Logf("inconclusive: %s", out.inconclusive)
			return
		}
		if r.viol != "" {
			t.Fatalf("C15 violated: %s\n%s", r.viol, r.describe())
		}
		classes := []string{fmt.Sprintf("max_tasks_%d", cs.MaxTasks), fmt.Sprintf("enqueuing_goroutines_%d", cs.Enqueuers), buGateNames[cs.GateMode]}
		switch nb := len(cs.Batches); {
		case nb <= 4:
			classes = append(classes, "batches_2_4")
		case nb <= 8:
			classes = append(classes, "batches_5_8")
		default:
			classes = append(classes, "batches_9_16")
		}
		add := func(b bool, name string) {
			if b {
				classes = append(classes, name)
			}
		}
		add(len(cs.Batches) > cs.MaxTasks, "more_batches_than_max_tasks")
		add(len(cs.Batches) > 2*cs.MaxTasks+2, "more_batches_than_both_queues_hold")
		add(out.gateEntered, "gate_entered")
		add(out.parked, "enqueue_waited_for_room_in_task_queue")
		add(out.maxParked > 1, "several_enqueues_waited_for_room_at_once")
		add(out.parked && cs.MaxTasks <= 4, "enqueue_waited_for_room_small_max_tasks")
		add(out.parked && cs.GateMode == buGateNone, "enqueue_waited_for_room_slow_by_delays_only")
		add(out.parked && cs.GateMode == buGateCheck, "enqueue_waited_for_room_gate_in_parentless_check")
		add(out.parked && cs.GateMode == buGateInserter, "enqueue_waited_for_room_gate_in_inserter")
		add(out.queueFull, "tasks_count_reached_max_tasks")
		add(out.bothFull, "both_task_queues_full")
		add(cs.SemTight, "semaphore_smaller_than_burst")
		add(out.refused > 0, "enqueue_refused")
		add(out.accepted == 0, "nothing_accepted")
		add(out.heldAtEnd, "copies_held_by_buffer_when_all_done")
		add(cs.ClearFirst, "clear_then_full_capacity_acquired_before_stop")
		add(cs.CheckedAsync, "check_results_from_own_goroutines")
		add(cs.CheckDelayUs > 0, "slow_parentless_check")
		add(cs.InsertDelayUs > 0, "slow_inserter")
		stBurst.Case(stats.Hash(*cs), out.parked, classes...)
		stBurst.Sample(func() interface{} { return cs })
	})
}
