// C15: the event processor releases every event and balances its semaphore.
//
// The harness owns the parentless-check schedule: CheckParentless only stores the `checked`
// closure; the driver fires the closures later, in a drawn order, first sequentially (interleaved
// with further Enqueue calls) and then from 1-3 goroutines, with drawn errors. Every `done` is
// awaited before Stop() returns; in the "stop overlaps the last batch" class Stop() is started while
// the inserter is inside the HighestLamport call for the last event of the last batch (every other
// event of that batch was handled already), so that the batch still finishes (its done fires) while
// Stop() is running.
//
// Highest known Lamport: constant, following the processed events upwards, or following a drawn
// schedule that also goes DOWN (the application switched epoch). The far-future clauses are stated
// on the window of values HighestLamport() had between the Enqueue call of a copy's batch and the
// observation: Process requires Lamport <= max(window till Process) + limit + 1; "reaches the
// buffer" is required for Lamport <= min(window till done) + limit + 1.
//
// Oracle (on the logged callback order, written from the property text):
//   - every copy of an accepted batch (Enqueue returned nil) is reported released exactly once by
//     the end of Stop (never twice at any time), with its own peer string;
//   - DataSemaphore.Processing() <= capacity at every callback, == 0 after Stop; the semaphore's
//     inconsistency warning never fires;
//   - the copies of an ordered batch reach the ordering buffer in batch order (first touch of the
//     copy's ID by the buffer; and, for events with a single copy, the first Exists query per event);
//   - Process is never called for an event whose Lamport time is > highest known + EventsBufferLimit.Num + 1,
//     and a copy that passed its check and is not that far ahead does reach the buffer;
//   - Process only when all parents are connected; per copy at most one Process, none after its
//     Released, none for a copy whose parentless check was rejected;
//   - clean runs (no failing check/process, ample limits, constant highest Lamport): exactly the
//     events that are not too far ahead and whose ancestry is supplied and not too far ahead are
//     processed, each exactly once, by the time every `done` was called.
package c15

import (
	"errors"
	"fmt"
	"os"
	"sort"
	"strings"
	"sync"
	"testing"
	"time"

	"github.com/Fantom-foundation/lachesis-base/gossip/dagprocessor"
	"github.com/Fantom-foundation/lachesis-base/hash"
	"github.com/Fantom-foundation/lachesis-base/inter/dag"
	"github.com/Fantom-foundation/lachesis-base/inter/dag/tdag"
	"github.com/Fantom-foundation/lachesis-base/inter/idx"
	"github.com/Fantom-foundation/lachesis-base/utils/datasemaphore"
	"pgregory.net/rapid"

	"verif/harness/internal/stats"
)

func TestMain(m *testing.M) {
	code := m.Run()
	stats.Flush()
	os.Exit(code)
}

// ---------------------------------------------------------------------------------------------
// case description (everything is drawn before the processor is started)

type evSpec struct {
	Parents  []int  `json:"parents"`
	Lamport  uint32 `json:"lamport"`
	Size     int    `json:"size"`
	FailCP   bool   `json:"check_parents_fails,omitempty"`
	FailProc bool   `json:"process_fails,omitempty"`
}

type batchSpec struct {
	Ordered  bool   `json:"ordered"`
	Async    bool   `json:"enqueue_from_own_goroutine,omitempty"`
	Events   []int  `json:"events"`
	CheckErr []bool `json:"parentless_check_fails"`
	HasSet   bool   `json:"highest_changes_before_enqueue,omitempty"`
	SetTo    uint32 `json:"highest_becomes,omitempty"`
}

type step struct {
	Fire bool `json:"fire"` // false: enqueue the next batch
	Pick int  `json:"pick"`
	// Set: the application's highest Lamport becomes SetTo (neither fire nor enqueue)
	Set   bool   `json:"set_highest,omitempty"`
	SetTo uint32 `json:"highest_becomes,omitempty"`
}

type caseSpec struct {
	Events    []evSpec    `json:"events"`
	Batches   []batchSpec `json:"batches"`
	SemNum    uint32      `json:"sem_num"`
	SemSize   uint64      `json:"sem_size"`
	BufNum    uint32      `json:"buffer_num"`
	BufSize   uint64      `json:"buffer_size"`
	Highest   uint32      `json:"highest_lamport"`
	Dynamic   bool        `json:"highest_follows_processed,omitempty"`
	Scheduled bool        `json:"highest_follows_schedule_may_decrease,omitempty"`
	// StopOverlap: the last batch is enqueued after every other done; Stop() starts while the inserter
	// is inside the HighestLamport call of the copy of that batch that is handled last
	StopOverlap bool   `json:"stop_overlaps_last_batch,omitempty"`
	LastOrder   []int  `json:"last_batch_firing_order,omitempty"`
	MaxTasks    int    `json:"max_tasks"`
	TimeoutMs   int    `json:"semaphore_timeout_ms"`
	Steps       []step `json:"steps"`
	Goroutines  int    `json:"goroutines"`
	Prio        []int  `json:"prio"`   // per copy: order inside its firing goroutine
	Worker      []int  `json:"worker"` // per copy: which firing goroutine
	NotifyNil   bool   `json:"notify_nil,omitempty"`
}

// ---------------------------------------------------------------------------------------------
// harness

type copyEv struct {
	*tdag.TestEvent
	h    *harness
	cp   int
	size int
}

func (c *copyEv) Size() int { return c.size }

// ID is what the ordering buffer asks first when a copy reaches it; the first call is logged.
func (c *copyEv) ID() hash.Event {
	c.h.touch(c.cp)
	return c.TestEvent.ID()
}

type copyState struct {
	batch, pos, ev int
	peer           string
	closure        func(error)
	arrived        chan struct{}
	fired          bool
	process        int
	released       int
	touchedAt      int // log index of the first touch, -1
	firedSeq       int // global sequence number of the firing
}

type entry struct {
	kind string
	cp   int
	ev   int
	err  error
	note string
}

var (
	errParentless = errors.New("harness: parentless check failed")
	errCP         = errors.New("harness: parents check failed")
	errProc       = errors.New("harness: process failed")
)

type harness struct {
	cs   *caseSpec
	base []*tdag.TestEvent
	byID map[hash.Event]int
	sem  *datasemaphore.DataSemaphore
	cap  dag.Metric

	warnMu  sync.Mutex
	warning string

	mu            sync.Mutex
	log           []entry
	copies        []copyState
	batchCopies   [][]int
	connected     []bool
	connectedAs   []dag.Event
	procOK        []int // successful Process calls per event
	procCalls     []int
	firstExistsAt []int
	highest       idx.Lamport
	hist          []idx.Lamport // every value the highest known Lamport had, in order (hist[len-1] == highest)
	enqHist       []int         // per batch: index into hist of the value current when its Enqueue call began
	doneHist      []int         // per batch: index into hist of the value current when its done was called
	fireSeq       int
	// stop-overlap gate: the gateLeft-th HighestLamport call from now blocks until gateProceed is closed
	gateLeft    int
	gateEntered chan struct{}
	gateProceed chan struct{}
	gateOnce    sync.Once
	stopBegun   bool
	relSignal   chan struct{} // a Released callback came after Stop() was started
	viol        string
	doneCh      []chan struct{}
	doneCalls   []int
	accepted    []int // -1 unknown, 0 refused, 1 accepted
}

func (h *harness) violate(format string, a ...interface{}) {
	if h.viol == "" {
		h.viol = fmt.Sprintf(format, a...)
	}
}

// semCheck must be called with h.mu held (the semaphore has its own lock)
func (h *harness) semCheck(where string) {
	p := h.sem.Processing()
	if p.Num > h.cap.Num || p.Size > h.cap.Size {
		h.violate("at %s the events semaphore holds %s, capacity %s", where, p.String(), h.cap.String())
	}
}

func (h *harness) touch(cp int) {
	h.mu.Lock()
	if h.copies[cp].touchedAt < 0 {
		h.copies[cp].touchedAt = len(h.log)
		h.log = append(h.log, entry{kind: "reaches-buffer", cp: cp, ev: h.copies[cp].ev})
	}
	h.mu.Unlock()
}

// setHighest must be called with h.mu held
func (h *harness) setHighest(v idx.Lamport) {
	h.highest = v
	h.hist = append(h.hist, v)
}

// window returns the minimum and maximum of hist[from..to]. h.mu held.
func (h *harness) window(from, to int) (lo, hi idx.Lamport) {
	lo, hi = h.hist[from], h.hist[from]
	for _, v := range h.hist[from : to+1] {
		if v < lo {
			lo = v
		}
		if v > hi {
			hi = v
		}
	}
	return
}

func (h *harness) releaseGate() {
	h.gateOnce.Do(func() { close(h.gateProceed) })
}

func (h *harness) threshold(highest idx.Lamport) uint64 {
	return uint64(highest) + uint64(h.cs.BufNum) + 1
}

func eventID(i int) (id [24]byte) {
	id[0], id[1] = 0xC1, 0x15
	id[20], id[21], id[22], id[23] = byte(i>>24), byte(i>>16), byte(i>>8), byte(i+1)
	return
}

func newHarness(cs *caseSpec) *harness {
	n := len(cs.Events)
	h := &harness{cs: cs, byID: make(map[hash.Event]int, n), connected: make([]bool, n), connectedAs: make([]dag.Event, n),
		procOK: make([]int, n), procCalls: make([]int, n), firstExistsAt: make([]int, n), highest: idx.Lamport(cs.Highest),
		hist: []idx.Lamport{idx.Lamport(cs.Highest)}, gateEntered: make(chan struct{}), gateProceed: make(chan struct{}),
		relSignal: make(chan struct{}, 1)}
	for i, s := range cs.Events {
		e := &tdag.TestEvent{}
		e.Name = fmt.Sprintf("e%d", i)
		e.SetEpoch(1)
		e.SetCreator(idx.ValidatorID(i%4 + 1))
		e.SetSeq(idx.Event(i/4 + 1))
		var ps hash.Events
		for _, p := range s.Parents {
			ps = append(ps, h.base[p].ID())
		}
		e.SetParents(ps)
		e.SetLamport(idx.Lamport(s.Lamport))
		e.SetID(eventID(i))
		h.base = append(h.base, e)
		h.byID[e.ID()] = i
		h.firstExistsAt[i] = -1
	}
	for b, bs := range cs.Batches {
		var cps []int
		for pos, ev := range bs.Events {
			cp := len(h.copies)
			h.copies = append(h.copies, copyState{batch: b, pos: pos, ev: ev, peer: fmt.Sprintf("batch%d", b),
				arrived: make(chan struct{}), touchedAt: -1, firedSeq: -1})
			cps = append(cps, cp)
		}
		h.batchCopies = append(h.batchCopies, cps)
		h.doneCh = append(h.doneCh, make(chan struct{}))
		h.doneCalls = append(h.doneCalls, 0)
		h.accepted = append(h.accepted, -1)
		h.enqHist = append(h.enqHist, -1)
		h.doneHist = append(h.doneHist, -1)
	}
	h.cap = dag.Metric{Num: idx.Event(cs.SemNum), Size: cs.SemSize}
	h.sem = datasemaphore.New(h.cap, func(received, processing, releasing dag.Metric) {
		// called with the semaphore's lock held: only record
		h.warnMu.Lock()
		if h.warning == "" {
			h.warning = fmt.Sprintf("events semaphore inconsistency warning: holding %s, releasing %s", processing.String(), releasing.String())
		}
		h.warnMu.Unlock()
	})
	return h
}

func (h *harness) callbacks() dagprocessor.Callback {
	cs := h.cs
	return dagprocessor.Callback{
		HighestLamport: func() idx.Lamport {
			h.mu.Lock()
			v := h.highest
			block := false
			if h.gateLeft > 0 {
				h.gateLeft--
				block = h.gateLeft == 0
			}
			h.mu.Unlock()
			if block {
				// the inserter holds the last check result of the last batch and is about to push it
				close(h.gateEntered)
				<-h.gateProceed
			}
			return v
		},
		Event: dagprocessor.EventCallback{
			CheckParentless: func(e dag.Event, checked func(error)) {
				c := e.(*copyEv)
				h.mu.Lock()
				defer h.mu.Unlock()
				h.semCheck("CheckParentless")
				st := &h.copies[c.cp]
				if st.closure != nil {
					return // a second call for the same copy: keep the first closure
				}
				st.closure = checked
				close(st.arrived)
			},
			Exists: func(id hash.Event) bool {
				h.mu.Lock()
				defer h.mu.Unlock()
				h.semCheck("Exists")
				i, ok := h.byID[id]
				if !ok {
					return false
				}
				if h.firstExistsAt[i] < 0 {
					h.firstExistsAt[i] = len(h.log)
					h.log = append(h.log, entry{kind: "first-Exists", cp: -1, ev: i})
				}
				return h.connected[i]
			},
			Get: func(id hash.Event) dag.Event {
				h.mu.Lock()
				defer h.mu.Unlock()
				i, ok := h.byID[id]
				if !ok || !h.connected[i] {
					return nil
				}
				return h.connectedAs[i]
			},
			CheckParents: func(e dag.Event, parents dag.Events) error {
				c := e.(*copyEv)
				h.mu.Lock()
				defer h.mu.Unlock()
				h.semCheck("CheckParents")
				ev := h.copies[c.cp].ev
				var err error
				if cs.Events[ev].FailCP {
					err = errCP
				}
				h.log = append(h.log, entry{kind: "CheckParents", cp: c.cp, ev: ev, err: err})
				return err
			},
			Process: func(e dag.Event) error {
				c := e.(*copyEv)
				h.mu.Lock()
				defer h.mu.Unlock()
				h.semCheck("Process")
				st := &h.copies[c.cp]
				ev := st.ev
				st.process++
				h.procCalls[ev]++
				var err error
				if cs.Events[ev].FailProc {
					err = errProc
				}
				h.log = append(h.log, entry{kind: "Process", cp: c.cp, ev: ev, err: err, note: fmt.Sprintf("highest=%d", h.highest)})
				if st.process > 1 {
					h.violate("copy %d (e%d of batch %d) was handed to Process %d times", c.cp, ev, st.batch, st.process)
				}
				if st.released > 0 {
					h.violate("copy %d (e%d of batch %d) was handed to Process after it was reported released", c.cp, ev, st.batch)
				}
				if cs.Batches[st.batch].CheckErr[st.pos] {
					h.violate("copy %d (e%d of batch %d) was rejected by its parentless check but handed to Process", c.cp, ev, st.batch)
				}
				for _, p := range cs.Events[ev].Parents {
					if !h.connected[p] {
						h.violate("e%d was handed to Process before its parent e%d was connected", ev, p)
					}
				}
				// the highest known Lamport the processor can have seen for this copy: any value between the
				// Enqueue call of its batch and now (without decreases that is the current value)
				_, hi := h.window(h.enqHist[st.batch], len(h.hist)-1)
				if uint64(cs.Events[ev].Lamport) > h.threshold(hi) {
					h.violate("e%d with Lamport %d was handed to Process although the highest known Lamport is %d (values since the Enqueue call of its batch %d: %v) and the buffer limit is %d events (allowed up to %d)",
						ev, cs.Events[ev].Lamport, h.highest, st.batch, h.hist[h.enqHist[st.batch]:], cs.BufNum, h.threshold(hi))
				}
				if err != nil {
					return err
				}
				h.procOK[ev]++
				h.connected[ev] = true
				h.connectedAs[ev] = e
				if cs.Dynamic && idx.Lamport(cs.Events[ev].Lamport) > h.highest {
					h.setHighest(idx.Lamport(cs.Events[ev].Lamport))
				}
				return nil
			},
			Released: func(e dag.Event, peer string, err error) {
				c, ok := e.(*copyEv)
				h.mu.Lock()
				defer h.mu.Unlock()
				if !ok {
					h.violate("Released called with an object that was never enqueued")
					return
				}
				h.semCheck("Released")
				if h.stopBegun {
					select {
					case h.relSignal <- struct{}{}:
					default:
					}
				}
				st := &h.copies[c.cp]
				st.released++
				h.log = append(h.log, entry{kind: "Released", cp: c.cp, ev: st.ev, err: err})
				if peer != st.peer {
					h.violate("copy %d (e%d of batch %d) was reported released with peer %q", c.cp, st.ev, st.batch, peer)
				}
				if st.released > 1 {
					h.violate("copy %d (e%d of batch %d) was reported released %d times", c.cp, st.ev, st.batch, st.released)
				}
			},
		},
	}
}

const caseDeadline = 60 * time.Second

type outcome struct {
	inconclusive string
	// classification
	acceptedBatches, refusedBatches int
	orderedOutOfOrder               bool // an accepted ordered batch whose checks completed out of batch order
	farFutureInBatch                bool // an accepted batch contains an event too far ahead of the initial highest Lamport
	boundaryEvent                   bool // an accepted event exactly at the allowed maximum
	cleanLiveness                   bool
	waited                          bool // some copy was still held by the buffer when Stop was called
	checkRejected                   bool
	staleSensitive                  bool // an accepted batch has a check-passing event that is too far ahead of every value in its window but not of an earlier, higher value
	windowMoved                     bool // the highest known Lamport changed between the Enqueue call and the done of an accepted batch
	overlapped                      bool // Stop() was started while the inserter was inside the last HighestLamport call of the last batch
	overlapLastRefused              bool
	overlapGateMissed               bool
	overlapOthersHeld               bool // other copies were held by the buffer when the overlapping Stop() started
	overlapGatedReleasedByStop      bool // the gated copy was released after the done of its batch (by the final clear of Stop)
	overlapSawTerminate             bool
}

func (h *harness) fire(cp int) {
	st := &h.copies[cp]
	var err error
	if h.cs.Batches[st.batch].CheckErr[st.pos] {
		err = errParentless
	}
	h.mu.Lock()
	st.fired = true
	st.firedSeq = h.fireSeq
	h.fireSeq++
	h.log = append(h.log, entry{kind: "fire-checked", cp: cp, ev: st.ev, err: err})
	closure := st.closure
	h.mu.Unlock()
	closure(err)
}

func runCase(cs *caseSpec) (*harness, *outcome) {
	h := newHarness(cs)
	out := &outcome{}
	cfg := dagprocessor.Config{
		EventsBufferLimit:      dag.Metric{Num: idx.Event(cs.BufNum), Size: cs.BufSize},
		EventsSemaphoreTimeout: time.Duration(cs.TimeoutMs) * time.Millisecond,
		MaxTasks:               cs.MaxTasks,
	}
	proc := dagprocessor.New(h.sem, cfg, h.callbacks())
	proc.Start()
	stopped := false
	stop := func() {
		if !stopped {
			stopped = true
			proc.Stop()
		}
	}
	defer stop()

	deadline := time.NewTimer(caseDeadline)
	defer deadline.Stop()
	expired := false
	wait := func(ch <-chan struct{}) bool {
		if expired {
			return false
		}
		select {
		case <-ch:
			return true
		case <-deadline.C:
			expired = true
			return false
		}
	}

	// settle is a scheduling aid, never a correctness signal: before the highest known Lamport is
	// changed, give the inserter a bounded chance to consume the check results fired so far
	settle := func() {
		for i := 0; i < 100; i++ {
			h.mu.Lock()
			ok := h.firedHandled()
			h.mu.Unlock()
			if ok {
				return
			}
			time.Sleep(50 * time.Microsecond)
		}
	}
	mainN := len(cs.Batches)
	if cs.StopOverlap {
		mainN-- // the last batch is enqueued after every other done
	}

	var asyncWG sync.WaitGroup
	enqueue := func(b int) {
		bs := cs.Batches[b]
		events := make(dag.Events, len(bs.Events))
		for pos := range bs.Events {
			cp := h.batchCopies[b][pos]
			events[pos] = &copyEv{TestEvent: h.base[bs.Events[pos]], h: h, cp: cp, size: cs.Events[bs.Events[pos]].Size}
		}
		var notify func(hash.Events)
		if !cs.NotifyNil {
			notify = func(hash.Events) {}
		}
		do := func() {
			err := proc.Enqueue(h.copies[h.batchCopies[b][0]].peer, events, bs.Ordered, notify, func() {
				h.mu.Lock()
				h.doneCalls[b]++
				n := h.doneCalls[b]
				if n == 1 {
					h.doneHist[b] = len(h.hist) - 1
				}
				h.log = append(h.log, entry{kind: "done", cp: -1, ev: -1, note: fmt.Sprintf("batch %d", b)})
				h.mu.Unlock()
				if n == 1 {
					close(h.doneCh[b])
				}
			})
			h.mu.Lock()
			if err == nil {
				h.accepted[b] = 1
			} else {
				h.accepted[b] = 0
			}
			h.log = append(h.log, entry{kind: "Enqueue-returned", cp: -1, ev: -1, err: err, note: fmt.Sprintf("batch %d", b)})
			h.mu.Unlock()
		}
		if bs.HasSet {
			settle()
		}
		h.mu.Lock()
		if bs.HasSet {
			h.setHighest(idx.Lamport(bs.SetTo))
			h.log = append(h.log, entry{kind: "highest-Lamport-becomes", cp: -1, ev: -1, note: fmt.Sprint(bs.SetTo)})
		}
		h.enqHist[b] = len(h.hist) - 1
		h.log = append(h.log, entry{kind: "Enqueue", cp: -1, ev: -1, note: fmt.Sprintf("batch %d ordered=%v async=%v events=%v", b, bs.Ordered, bs.Async, bs.Events)})
		h.mu.Unlock()
		if bs.Async {
			asyncWG.Add(1)
			go func() {
				defer asyncWG.Done()
				do()
			}()
		} else {
			do()
		}
	}
	fireable := func() []int {
		h.mu.Lock()
		defer h.mu.Unlock()
		var res []int
		for cp := range h.copies {
			if h.accepted[h.copies[cp].batch] == 1 && !h.copies[cp].fired {
				res = append(res, cp)
			}
		}
		return res
	}

	// phase A: sequential interleaving of Enqueue calls and single firings
	next := 0
	for _, s := range cs.Steps {
		if s.Set {
			settle()
			h.mu.Lock()
			h.setHighest(idx.Lamport(s.SetTo))
			h.log = append(h.log, entry{kind: "highest-Lamport-becomes", cp: -1, ev: -1, note: fmt.Sprint(s.SetTo)})
			h.mu.Unlock()
			continue
		}
		if !s.Fire {
			if next < mainN {
				enqueue(next)
				next++
			}
			continue
		}
		f := fireable()
		if len(f) == 0 {
			continue
		}
		cp := f[s.Pick%len(f)]
		if !wait(h.copies[cp].arrived) {
			out.inconclusive = "a stored check closure did not arrive before the deadline"
			return h, out
		}
		h.fire(cp)
	}
	for ; next < mainN; next++ {
		enqueue(next)
	}
	// the remaining closures are fired from 1-3 goroutines while asynchronous Enqueue calls may
	// still wait for the semaphore; repeat until every Enqueue returned and nothing is left to fire
	asyncDone := make(chan struct{})
	go func() { asyncWG.Wait(); close(asyncDone) }()
firing:
	for {
		f := fireable()
		if len(f) == 0 {
			select {
			case <-asyncDone:
				if len(fireable()) == 0 {
					break firing
				}
				continue
			default:
			}
			// an asynchronous Enqueue is still waiting for the semaphore (bounded by its timeout)
			select {
			case <-asyncDone:
			case <-time.After(time.Millisecond):
			case <-deadline.C:
				expired = true
				out.inconclusive = "an Enqueue call did not return before the deadline"
				return h, out
			}
			continue
		}
		sort.SliceStable(f, func(a, b int) bool { return cs.Prio[f[a]] < cs.Prio[f[b]] })
		lists := make([][]int, cs.Goroutines)
		for _, cp := range f {
			w := cs.Worker[cp] % cs.Goroutines
			lists[w] = append(lists[w], cp)
		}
		var wg sync.WaitGroup
		var failMu sync.Mutex
		failed := false
		for _, l := range lists {
			if len(l) == 0 {
				continue
			}
			wg.Add(1)
			go func(l []int) {
				defer wg.Done()
				for _, cp := range l {
					select {
					case <-h.copies[cp].arrived:
						h.fire(cp)
					case <-time.After(caseDeadline):
						failMu.Lock()
						failed = true
						failMu.Unlock()
						return
					}
				}
			}(l)
		}
		wg.Wait()
		if failed {
			out.inconclusive = "a stored check closure did not arrive before the deadline"
			return h, out
		}
	}
	// every done of an accepted batch is awaited
	for b := 0; b < mainN; b++ {
		if h.accepted[b] == 1 {
			out.acceptedBatches++
			if !wait(h.doneCh[b]) {
				out.inconclusive = fmt.Sprintf("done of batch %d was not called before the deadline", b)
				return h, out
			}
		} else {
			out.refusedBatches++
		}
	}
	defer h.releaseGate() // runs before the deferred stop
	if cs.StopOverlap {
		// the last batch: all its check closures are fired (position len-1 is handled last and passes
		// its check); the inserter is held inside the HighestLamport call for that last copy
		b := mainN
		pass := 0
		for _, ce := range cs.Batches[b].CheckErr {
			if !ce {
				pass++
			}
		}
		h.mu.Lock()
		h.gateLeft = pass
		h.mu.Unlock()
		enqueue(b)
		if h.accepted[b] == 1 {
			out.acceptedBatches++
			for _, pos := range cs.LastOrder {
				cp := h.batchCopies[b][pos]
				if !wait(h.copies[cp].arrived) {
					out.inconclusive = "a stored check closure did not arrive before the deadline"
					return h, out
				}
				h.fire(cp)
			}
			select {
			case <-h.gateEntered:
				out.overlapped = true
			case <-h.doneCh[b]:
				out.overlapGateMissed = true
			case <-deadline.C:
				expired = true
				out.inconclusive = "the last batch was neither finished nor at its last HighestLamport call before the deadline"
				return h, out
			}
		} else {
			out.refusedBatches++
			out.overlapLastRefused = true
			h.mu.Lock()
			h.gateLeft = 0
			h.mu.Unlock()
		}
	}
	if !out.overlapped {
		h.mu.Lock()
		out.waited = h.anyHeld(-1)
		h.checkBeforeStop(out)
		h.log = append(h.log, entry{kind: "Stop", cp: -1, ev: -1})
		h.mu.Unlock()
		stop()
		h.mu.Lock()
		h.checkAfterStop(out)
		h.mu.Unlock()
		return h, out
	}
	// Stop() overlaps the handling of the last check result
	last := mainN
	gated := h.batchCopies[last][len(h.batchCopies[last])-1]
	h.mu.Lock()
	out.waited = h.anyHeld(-1)
	out.overlapOthersHeld = h.anyHeld(last)
	h.log = append(h.log, entry{kind: "Stop (from its own goroutine; the inserter is inside HighestLamport for the last copy)", cp: -1, ev: -1})
	h.stopBegun = true
	h.mu.Unlock()
	stopped = true
	stoppedCh := make(chan struct{})
	go func() {
		proc.Stop()
		close(stoppedCh)
	}()
	// scheduling aid only (no verdict depends on it): let Stop() get as far as it can while the inserter
	// is held. Terminate() zeroes the semaphore's capacity, so Available() wraps around.
	for i := 0; i < 100000; i++ {
		if h.sem.Available().Num > h.cap.Num {
			out.overlapSawTerminate = true
			break
		}
		time.Sleep(20 * time.Microsecond)
	}
	select {
	case <-h.relSignal: // something was released although the workers have not finished
	case <-time.After(300 * time.Microsecond):
	}
	h.mu.Lock()
	h.log = append(h.log, entry{kind: "HighestLamport returns to the inserter", cp: -1, ev: -1})
	h.mu.Unlock()
	h.releaseGate()
	if !wait(h.doneCh[last]) {
		out.inconclusive = "done of the last batch was not called before the deadline"
		return h, out
	}
	if !wait(stoppedCh) {
		out.inconclusive = "Stop did not return before the deadline"
		return h, out
	}
	h.mu.Lock()
	h.log = append(h.log, entry{kind: "Stop-returned", cp: -1, ev: -1})
	doneAt := -1
	for i, l := range h.log {
		if l.kind == "done" && l.note == fmt.Sprintf("batch %d", last) {
			doneAt = i
		}
		if l.kind == "Released" && l.cp == gated && doneAt >= 0 {
			out.overlapGatedReleasedByStop = true
		}
	}
	h.checkBeforeStop(out)
	h.checkAfterStop(out)
	h.mu.Unlock()
	return h, out
}

// anyHeld: some copy of an accepted batch other than `except` is not released yet. h.mu held.
func (h *harness) anyHeld(except int) bool {
	for cp := range h.copies {
		st := &h.copies[cp]
		if h.accepted[st.batch] == 1 && st.batch != except && st.released == 0 {
			return true
		}
	}
	return false
}

// firedHandled: the check results the inserter can have consumed by now were consumed (the copy was
// released or reached the buffer). The inserter handles the accepted batches one after the other.
// h.mu held.
func (h *harness) firedHandled() bool {
	for b := range h.batchCopies {
		if h.accepted[b] != 1 {
			continue
		}
		complete := true
		for _, cp := range h.batchCopies[b] {
			st := &h.copies[cp]
			if !st.fired {
				complete = false
				if h.cs.Batches[b].Ordered {
					break
				}
				continue
			}
			if st.released == 0 && st.touchedAt < 0 {
				return false
			}
		}
		if !complete {
			return true // the inserter waits for the remaining results of this batch
		}
	}
	return true
}

// checkBeforeStop: all accepted batches are handled (their done was called). h.mu held.
func (h *harness) checkBeforeStop(out *outcome) {
	cs := h.cs
	t0 := h.threshold(idx.Lamport(cs.Highest))
	clean := !cs.Dynamic && !cs.Scheduled
	anyRefused := false
	for b, bs := range cs.Batches {
		if h.accepted[b] != 1 {
			anyRefused = true
			continue
		}
		// classification + "not rejected and not too far ahead => reaches the buffer".
		// The HighestLamport call for a copy of this batch came between the Enqueue call and the done of
		// the batch: it returned at least lo and at most hi (lo == hi == the constant in the constant mode;
		// lo == the value at the Enqueue call when the value only follows processed events upwards).
		to := h.doneHist[b]
		if to < 0 {
			to = len(h.hist) - 1
		}
		lo, hi := h.window(h.enqHist[b], to)
		tlo, thi := h.threshold(lo), h.threshold(hi)
		if lo != hi {
			out.windowMoved = true
		}
		_, before := h.window(0, h.enqHist[b])
		inversion := false
		for pos, cp := range h.batchCopies[b] {
			st := &h.copies[cp]
			l := uint64(cs.Events[st.ev].Lamport)
			if l > thi {
				out.farFutureInBatch = true
				if !bs.CheckErr[pos] && l <= h.threshold(before) {
					out.staleSensitive = true
				}
			}
			if l == tlo {
				out.boundaryEvent = true
			}
			if bs.CheckErr[pos] {
				out.checkRejected = true
				clean = false
			}
			if !bs.CheckErr[pos] && l <= tlo && st.touchedAt < 0 {
				h.violate("copy %d (e%d, Lamport %d, batch %d) passed its check and is not too far ahead (the highest known Lamport was never below %d between the Enqueue call and the done of its batch: allowed up to %d) but never reached the ordering buffer",
					cp, st.ev, l, b, lo, tlo)
			}
			if st.released == 0 {
				out.waited = true
			}
			if pos > 0 && st.firedSeq < h.copies[h.batchCopies[b][pos-1]].firedSeq {
				inversion = true
			}
		}
		if bs.Ordered && inversion {
			out.orderedOutOfOrder = true
		}
		if !bs.Ordered {
			continue
		}
		// ordered batch: copies reach the buffer in batch order
		last, lastPos := -1, -1
		for pos, cp := range h.batchCopies[b] {
			at := h.copies[cp].touchedAt
			if at < 0 {
				continue
			}
			if at < last {
				h.violate("ordered batch %d: the event at position %d (e%d) reached the ordering buffer before the event at position %d (e%d)",
					b, pos, h.copies[cp].ev, lastPos, h.copies[h.batchCopies[b][lastPos]].ev)
			}
			last, lastPos = at, pos
		}
		// same observation through the first Exists query per event, for events with a single accepted copy
		last, lastPos = -1, -1
		for pos, cp := range h.batchCopies[b] {
			ev := h.copies[cp].ev
			if h.acceptedCopiesOf(ev) != 1 || h.firstExistsAt[ev] < 0 {
				continue
			}
			at := h.firstExistsAt[ev]
			if at < last {
				h.violate("ordered batch %d: the first Exists query for position %d (e%d) came before the one for position %d (e%d)",
					b, pos, ev, lastPos, h.copies[h.batchCopies[b][lastPos]].ev)
			}
			last, lastPos = at, pos
		}
	}
	// clean runs: exactly the expected events are processed, each exactly once
	n := len(cs.Events)
	total := uint64(0)
	copies := 0
	for b := range cs.Batches {
		for _, cp := range h.batchCopies[b] {
			total += uint64(cs.Events[h.copies[cp].ev].Size)
			copies++
		}
	}
	for _, e := range cs.Events {
		if e.FailCP || e.FailProc {
			clean = false
		}
	}
	if anyRefused || uint64(cs.BufNum) < uint64(n) || cs.BufSize < total || uint64(cs.SemNum) < uint64(copies) || cs.SemSize < total {
		clean = false
	}
	if !clean {
		return
	}
	out.cleanLiveness = true
	supplied := make([]bool, n)
	for cp := range h.copies {
		supplied[h.copies[cp].ev] = true
	}
	expect := make([]bool, n)
	for i := 0; i < n; i++ { // parents have smaller indices
		ok := supplied[i] && uint64(cs.Events[i].Lamport) <= t0
		for _, p := range cs.Events[i].Parents {
			ok = ok && expect[p]
		}
		expect[i] = ok
	}
	for i := 0; i < n; i++ {
		want := 0
		if expect[i] {
			want = 1
		}
		if h.procCalls[i] != want {
			h.violate("clean run (nothing fails, ample limits, highest Lamport constant %d, allowed up to %d): e%d (Lamport %d) was handed to Process %d times, expected %d",
				cs.Highest, t0, i, cs.Events[i].Lamport, h.procCalls[i], want)
		}
	}
}

func (h *harness) acceptedCopiesOf(ev int) int {
	n := 0
	for cp := range h.copies {
		if h.copies[cp].ev == ev && h.accepted[h.copies[cp].batch] == 1 {
			n++
		}
	}
	return n
}

// checkAfterStop: h.mu held
func (h *harness) checkAfterStop(out *outcome) {
	for cp := range h.copies {
		st := &h.copies[cp]
		if h.accepted[st.batch] == 1 && st.released != 1 {
			h.violate("after Stop copy %d (e%d of accepted batch %d) was reported released %d times", cp, st.ev, st.batch, st.released)
		}
	}
	if p := h.sem.Processing(); p.Num != 0 || p.Size != 0 {
		h.violate("after Stop the events semaphore still holds %s", p.String())
	}
	h.warnMu.Lock()
	if h.warning != "" {
		h.violate("%s", h.warning)
	}
	h.warnMu.Unlock()
}

func (h *harness) describe() string {
	cs := h.cs
	var b strings.Builder
	b.WriteString("events:\n")
	for i, e := range cs.Events {
		fmt.Fprintf(&b, "  e%d <- %v lamport=%d size=%d", i, e.Parents, e.Lamport, e.Size)
		if e.FailCP {
			b.WriteString(" [CheckParents fails]")
		}
		if e.FailProc {
			b.WriteString(" [Process fails]")
		}
		b.WriteString("\n")
	}
	fmt.Fprintf(&b, "semaphore capacity {Num=%d,Size=%d}, EventsBufferLimit {Num=%d,Size=%d}, initial highest Lamport %d (follows processed: %v, follows a schedule that may decrease: %v), too far ahead of the initial value above %d, MaxTasks %d, semaphore timeout %dms, firing goroutines %d\n",
		cs.SemNum, cs.SemSize, cs.BufNum, cs.BufSize, cs.Highest, cs.Dynamic, cs.Scheduled, h.threshold(idx.Lamport(cs.Highest)), cs.MaxTasks, cs.TimeoutMs, cs.Goroutines)
	for i, bs := range cs.Batches {
		fmt.Fprintf(&b, "batch %d: ordered=%v async=%v events=%v parentless-check-fails=%v copies=%v", i, bs.Ordered, bs.Async, bs.Events, bs.CheckErr, h.batchCopies[i])
		if bs.HasSet {
			fmt.Fprintf(&b, " [highest Lamport becomes %d before its Enqueue call]", bs.SetTo)
		}
		if cs.StopOverlap && i == len(cs.Batches)-1 {
			fmt.Fprintf(&b, " [enqueued after every other done, closures fired in position order %v, Stop() starts inside the last HighestLamport call]", cs.LastOrder)
		}
		b.WriteString("\n")
	}
	b.WriteString("observed:\n")
	for _, l := range h.log {
		switch {
		case l.cp >= 0:
			fmt.Fprintf(&b, "  %s copy %d (e%d, batch %d pos %d)", l.kind, l.cp, l.ev, h.copies[l.cp].batch, h.copies[l.cp].pos)
		case l.ev >= 0:
			fmt.Fprintf(&b, "  %s e%d", l.kind, l.ev)
		default:
			fmt.Fprintf(&b, "  %s", l.kind)
		}
		if l.note != "" {
			fmt.Fprintf(&b, " %s", l.note)
		}
		if l.err != nil {
			fmt.Fprintf(&b, " err=%v", l.err)
		}
		b.WriteString("\n")
	}
	return b.String()
}

// ---------------------------------------------------------------------------------------------
// generator

func genCase(t *rapid.T) *caseSpec {
	cs := &caseSpec{}
	n := rapid.IntRange(2, 10).Draw(t, "events")
	depth := make([]int, n)
	maxd := 0
	sizeMode := rapid.IntRange(0, 1).Draw(t, "sizeMode")
	for i := 0; i < n; i++ {
		var e evSpec
		k := 0
		if i > 0 {
			k = rapid.SampledFrom([]int{0, 0, 1, 1, 1, 2, 2, 3}).Draw(t, "nparents")
		}
		seen := map[int]bool{}
		for j := 0; j < k; j++ {
			p := rapid.IntRange(0, i-1).Draw(t, "parent")
			if !seen[p] {
				seen[p] = true
				e.Parents = append(e.Parents, p)
				if depth[p]+1 > depth[i] {
					depth[i] = depth[p] + 1
				}
			}
		}
		sort.Ints(e.Parents)
		if depth[i] > maxd {
			maxd = depth[i]
		}
		if sizeMode == 0 {
			e.Size = 56 + 32*len(e.Parents)
		} else {
			e.Size = rapid.IntRange(1, 20).Draw(t, "size")
		}
		cs.Events = append(cs.Events, e)
	}
	// how the highest known Lamport behaves, and whether Stop() overlaps the last batch
	switch rapid.SampledFrom([]int{0, 0, 0, 0, 1, 1, 2, 2, 2, 2}).Draw(t, "highestMode") {
	case 1:
		cs.Dynamic = true
	case 2:
		cs.Scheduled = true
	}
	cs.StopOverlap = rapid.SampledFrom([]int{0, 0, 1}).Draw(t, "stopOverlap") == 1
	idxs := make([]int, n)
	for i := range idxs {
		idxs[i] = i
	}
	orphan2 := -1
	if cs.StopOverlap {
		// a ghost that is never supplied and two children of it: they stay in the ordering buffer.
		// The first child may appear in any batch, the second one is reserved for the last batch.
		for k := 0; k < 3; k++ {
			var e evSpec
			d := 0
			if k > 0 {
				e.Parents = []int{n}
				d = 1
			}
			if sizeMode == 0 {
				e.Size = 56 + 32*len(e.Parents)
			} else {
				e.Size = rapid.IntRange(1, 20).Draw(t, "size")
			}
			cs.Events = append(cs.Events, e)
			depth = append(depth, d)
		}
		if maxd < 1 {
			maxd = 1
		}
		idxs = append(idxs, n+1)
		orphan2 = n + 2
		n += 3
	}
	// batches
	nb := rapid.IntRange(1, 4).Draw(t, "batches")
	if cs.Scheduled && nb < 2 {
		nb = 2
	}
	clean := rapid.IntRange(0, 4).Draw(t, "clean") < 2
	copies := 0
	var maxBatch dag.Metric
	var total dag.Metric
	for b := 0; b < nb; b++ {
		var bs batchSpec
		bs.Ordered = rapid.IntRange(0, 2).Draw(t, "ordered") > 0
		bs.Async = rapid.IntRange(0, 3).Draw(t, "async") == 0
		sz := rapid.IntRange(1, 8).Draw(t, "batchSize")
		if sz > len(idxs) {
			sz = len(idxs)
		}
		perm := rapid.Permutation(idxs).Draw(t, "batchEvents")
		bs.Events = append([]int(nil), perm[:sz]...)
		if rapid.IntRange(0, 2).Draw(t, "sorted") == 0 {
			sort.Ints(bs.Events) // parents before children inside the batch
		}
		var m dag.Metric
		for range bs.Events {
			bs.CheckErr = append(bs.CheckErr, !clean && rapid.IntRange(0, 6).Draw(t, "checkErr") == 0)
		}
		for _, ev := range bs.Events {
			m.Num++
			m.Size += uint64(cs.Events[ev].Size)
		}
		if m.Num > maxBatch.Num {
			maxBatch.Num = m.Num
		}
		if m.Size > maxBatch.Size {
			maxBatch.Size = m.Size
		}
		total.Num += m.Num
		total.Size += m.Size
		copies += sz
		cs.Batches = append(cs.Batches, bs)
	}
	mainCopies := copies
	if cs.StopOverlap {
		// the last batch: 1-3 events, the copy at the last position passes its check and is handled last
		var bs batchSpec
		bs.Ordered = rapid.Bool().Draw(t, "lastOrdered")
		sz := rapid.IntRange(1, 3).Draw(t, "lastBatchSize")
		perm := rapid.Permutation(idxs).Draw(t, "lastBatchEvents")
		bs.Events = append([]int(nil), perm[:sz-1]...)
		lastEv := orphan2
		if rapid.IntRange(0, 3).Draw(t, "lastIsRegular") == 0 {
			lastEv = perm[sz-1]
		}
		bs.Events = append(bs.Events, lastEv)
		var m dag.Metric
		for pos, ev := range bs.Events {
			bs.CheckErr = append(bs.CheckErr, pos < sz-1 && !clean && rapid.IntRange(0, 6).Draw(t, "checkErr") == 0)
			m.Num++
			m.Size += uint64(cs.Events[ev].Size)
		}
		if m.Num > maxBatch.Num {
			maxBatch.Num = m.Num
		}
		if m.Size > maxBatch.Size {
			maxBatch.Size = m.Size
		}
		total.Num += m.Num
		total.Size += m.Size
		copies += sz
		cs.Batches = append(cs.Batches, bs)
		front := make([]int, sz-1)
		for i := range front {
			front[i] = i
		}
		if bs.Ordered {
			front = append(front, sz-1)
		}
		if len(front) > 1 {
			front = rapid.Permutation(front).Draw(t, "lastOrder")
		}
		cs.LastOrder = front
		if !bs.Ordered {
			cs.LastOrder = append(cs.LastOrder, sz-1)
		}
	}
	if !clean {
		for i := range cs.Events {
			switch rapid.IntRange(0, 11).Draw(t, "eventFails") {
			case 0:
				cs.Events[i].FailCP = true
			case 1:
				cs.Events[i].FailProc = true
			}
		}
	}
	// semaphore capacity classes
	semClasses := []int{0, 1, 1, 2, 2, 2, 2}
	bufClasses := []int{0, 1, 2, 3, 3, 3, 3}
	if clean {
		semClasses = []int{0, 1, 2, 2, 2, 2, 2, 2, 2, 2}
		bufClasses = []int{0, 1, 2, 3, 3, 3, 3, 3, 3, 3, 3, 3}
	}
	switch rapid.SampledFrom(semClasses).Draw(t, "semClass") {
	case 0: // smaller than the biggest batch: that batch is refused at once
		cs.SemNum = uint32(maxBatch.Num) - uint32(rapid.IntRange(0, 1).Draw(t, "semShort"))
		cs.SemSize = total.Size
		if rapid.Bool().Draw(t, "semShortBytes") && maxBatch.Size > 1 {
			cs.SemNum = uint32(total.Num)
			cs.SemSize = maxBatch.Size - 1
		}
	case 1: // the biggest batch fits, all together do not necessarily
		cs.SemNum = uint32(maxBatch.Num) + uint32(rapid.IntRange(0, 2).Draw(t, "semExtra"))
		cs.SemSize = total.Size
		if rapid.Bool().Draw(t, "semTightBytes") {
			cs.SemNum = uint32(total.Num)
			cs.SemSize = maxBatch.Size + uint64(rapid.IntRange(0, 40).Draw(t, "semExtraBytes"))
		}
	default: // ample
		cs.SemNum = uint32(total.Num) + uint32(rapid.IntRange(0, 3).Draw(t, "semExtra"))
		cs.SemSize = total.Size + uint64(rapid.IntRange(0, 100).Draw(t, "semExtraBytes"))
	}
	// buffer limit classes
	var allSize uint64
	for _, e := range cs.Events {
		allSize += uint64(e.Size)
	}
	switch rapid.SampledFrom(bufClasses).Draw(t, "bufClass") {
	case 0:
		cs.BufNum, cs.BufSize = 0, total.Size
	case 1:
		cs.BufNum, cs.BufSize = 1, total.Size
	case 2:
		cs.BufNum, cs.BufSize = uint32(n), uint64(rapid.IntRange(0, int(allSize)).Draw(t, "bufBytes"))
	default:
		cs.BufNum, cs.BufSize = uint32(n)+uint32(rapid.IntRange(0, 3).Draw(t, "bufExtra")), total.Size+allSize
	}
	// Lamport times around the "too far ahead" boundary T = highest + BufNum + 1
	lowest := maxd + 5
	if cs.Scheduled {
		lowest += 40 // room for a drop by more than the buffer limit
	}
	cs.Highest = uint32(rapid.IntRange(lowest, lowest+400).Draw(t, "highest"))
	// the levels the highest known Lamport takes (only the first one unless it follows a schedule)
	levels := []uint32{cs.Highest}
	if cs.Scheduled {
		nl := rapid.IntRange(1, 3).Draw(t, "levelChanges")
		for k := 0; k < nl; k++ {
			prev := int64(levels[len(levels)-1])
			var v int64
			switch rapid.SampledFrom([]int{0, 0, 0, 1, 2}).Draw(t, "levelChange") {
			case 0: // drops by more than the buffer limit (an epoch switch)
				v = prev - int64(cs.BufNum) - 1 - int64(rapid.IntRange(0, maxd+3).Draw(t, "dropExtra"))
			case 1: // drops by less
				v = prev - int64(rapid.IntRange(1, int(cs.BufNum)+1).Draw(t, "dropSmall"))
			default: // rises
				v = prev + int64(rapid.IntRange(1, int(cs.BufNum)+maxd+5).Draw(t, "rise"))
			}
			if v < 0 {
				v = 0
			}
			levels = append(levels, uint32(v))
		}
		// changes right before the Enqueue call of a batch, in level order
		k := 1
		for b := 1; b < len(cs.Batches) && k < len(levels); b++ {
			if rapid.Bool().Draw(t, "changeBeforeBatch") || (b == len(cs.Batches)-1 && k == 1) {
				cs.Batches[b].HasSet, cs.Batches[b].SetTo = true, levels[k]
				k++
			}
		}
	}
	o := maxd + 1 // no event is too far ahead because of its depth
	if rapid.IntRange(0, 2).Draw(t, "boundaryInside") > 0 {
		o = rapid.IntRange(-1, maxd).Draw(t, "boundaryDepth")
	}
	for i := range cs.Events {
		level := levels[0]
		if len(levels) > 1 {
			level = rapid.SampledFrom(levels).Draw(t, "lamportLevel")
		}
		T := uint64(level) + uint64(cs.BufNum) + 1
		l := int64(T) - int64(o) + int64(depth[i])
		switch rapid.IntRange(0, 23).Draw(t, "lamportMode") {
		case 0:
			l = int64(T) + int64(rapid.SampledFrom([]int{1, 2, 1000}).Draw(t, "ahead"))
		case 1:
			l = int64(T)
		case 2:
			l = int64(^uint32(0))
		}
		if i == orphan2 && rapid.IntRange(0, 7).Draw(t, "orphanFar") > 0 {
			// mostly not too far ahead of any level: it is pushed into the buffer and stays there
			lowestLevel := levels[0]
			for _, v := range levels {
				if v < lowestLevel {
					lowestLevel = v
				}
			}
			l = int64(lowestLevel) + int64(rapid.IntRange(0, int(cs.BufNum)+1).Draw(t, "orphanAhead"))
		}
		if l < 1 {
			l = 1
		}
		cs.Events[i].Lamport = uint32(l)
	}
	cs.MaxTasks = rapid.SampledFrom([]int{len(cs.Batches) + 1, 16, 128}).Draw(t, "maxTasks")
	cs.TimeoutMs = rapid.SampledFrom([]int{0, 0, 1, 1, 30}).Draw(t, "timeoutMs")
	cs.NotifyNil = rapid.IntRange(0, 3).Draw(t, "notifyNil") == 0
	// schedule
	minSteps := 0
	if cs.Scheduled {
		minSteps = nb + 1
	}
	nsteps := rapid.IntRange(minSteps, nb+mainCopies).Draw(t, "steps")
	for i := 0; i < nsteps; i++ {
		sp := step{Fire: rapid.IntRange(0, 2).Draw(t, "fire") > 0, Pick: rapid.IntRange(0, 31).Draw(t, "pick")}
		if cs.Scheduled && rapid.IntRange(0, 7).Draw(t, "setStep") == 0 {
			sp = step{Set: true, SetTo: rapid.SampledFrom(levels).Draw(t, "setTo")}
		}
		cs.Steps = append(cs.Steps, sp)
	}
	cs.Goroutines = rapid.IntRange(1, 3).Draw(t, "goroutines")
	prioMode := rapid.IntRange(0, 2).Draw(t, "prioMode")
	for cp := 0; cp < copies; cp++ {
		p := rapid.IntRange(0, 63).Draw(t, "prio")
		if prioMode == 1 {
			p = copies - cp // reversed: later positions complete their checks first
		}
		cs.Prio = append(cs.Prio, p)
		cs.Worker = append(cs.Worker, rapid.IntRange(0, 2).Draw(t, "worker"))
	}
	return cs
}

var st = stats.New("processor")

func TestC15Processor(t *testing.T) {
	rapid.Check(t, func(t *rapid.T) {
		cs := genCase(t)
		h, out := runCase(cs)
		if out.inconclusive != "" {
			// timing policy: an overloaded machine is not a violation
			st.Inconclusive()
			t.Logf("inconclusive: %s", out.inconclusive)
			return
		}
		if h.viol != "" {
			t.Fatalf("C15 violated: %s\n%s", h.viol, h.describe())
		}
		classes := []string{fmt.Sprintf("batches_%d", len(cs.Batches)), fmt.Sprintf("goroutines_%d", cs.Goroutines)}
		add := func(b bool, name string) {
			if b {
				classes = append(classes, name)
			}
		}
		ordered, async := 0, 0
		for b, bs := range cs.Batches {
			if bs.Ordered && h.accepted[b] == 1 {
				ordered++
			}
			if bs.Async {
				async++
			}
		}
		dup := false
		for i := range cs.Events {
			if h.acceptedCopiesOf(i) > 1 {
				dup = true
			}
		}
		add(ordered > 0, "ordered_batch_accepted")
		add(async > 0, "concurrent_enqueue")
		add(out.orderedOutOfOrder, "ordered_batch_checks_completed_out_of_order")
		add(out.farFutureInBatch, "batch_with_far_future_event")
		add(out.boundaryEvent, "event_exactly_at_allowed_maximum")
		add(out.cleanLiveness, "clean_run_liveness_checked")
		add(out.refusedBatches > 0, "enqueue_refused")
		add(out.acceptedBatches == 0, "nothing_accepted")
		add(out.waited, "copy_held_by_buffer_until_stop")
		add(out.checkRejected, "parentless_check_rejected")
		add(dup, "duplicate_across_batches")
		add(cs.Dynamic, "highest_follows_processed")
		add(cs.Scheduled, "highest_follows_schedule_may_decrease")
		add(out.windowMoved, "highest_changed_while_batch_in_flight")
		add(out.staleSensitive, "event_too_far_ahead_only_of_lowered_highest")
		add(cs.StopOverlap, "stop_overlap_requested")
		add(out.overlapped, "stop_overlaps_last_batch")
		add(out.overlapped && out.overlapSawTerminate, "stop_overlap_terminate_seen_before_release")
		add(out.overlapped && out.overlapOthersHeld, "stop_overlap_other_copies_buffered")
		add(out.overlapGatedReleasedByStop, "stop_overlap_last_copy_released_by_final_clear")
		add(out.overlapLastRefused, "stop_overlap_last_batch_refused")
		add(out.overlapGateMissed, "stop_overlap_gate_missed")
		add(len(cs.Steps) > 0, "enqueue_and_fire_interleaved")
		st.Case(stats.Hash(*cs), out.orderedOutOfOrder || out.farFutureInBatch, classes...)
		st.Sample(func() interface{} { return cs })
	})
}
