// C15: the event processor releases every event and balances its semaphore.
//
// The harness owns the parentless-check schedule: CheckParentless only stores the `checked`
// closure; the driver fires the closures later, in a drawn order, first sequentially (interleaved
// with further Enqueue calls) and then from 1-3 goroutines, with drawn errors. Every `done` is
// awaited before Stop().
//
// Oracle (on the logged callback order, written from the property text):
//   - every copy of an accepted batch (Enqueue returned nil) is reported released exactly once by
//     the end of Stop (never twice at any time), with its own peer string;
//   - DataSemaphore.Processing() <= capacity at every callback, == 0 after Stop; the semaphore's
//     inconsistency warning never fires;
//   - the copies of an ordered batch reach the ordering buffer in batch order (first touch of the
//     copy's ID by the buffer; and, for events with a single copy, the first Exists query per event);
//   - Process is never called for an event whose Lamport time is > highest known + EventsBufferLimit.Num + 1,
//     and a copy that passed its check and is not that far ahead does reach the buffer;
//   - Process only when all parents are connected; per copy at most one Process, none after its
//     Released, none for a copy whose parentless check was rejected;
//   - clean runs (no failing check/process, ample limits, constant highest Lamport): exactly the
//     events that are not too far ahead and whose ancestry is supplied and not too far ahead are
//     processed, each exactly once, by the time every `done` was called.
package c15

import (
	"errors"
	"fmt"
	"os"
	"sort"
	"strings"
	"sync"
	"testing"
	"time"

	"github.com/Fantom-foundation/lachesis-base/gossip/dagprocessor"
	"github.com/Fantom-foundation/lachesis-base/hash"
	"github.com/Fantom-foundation/lachesis-base/inter/dag"
	"github.com/Fantom-foundation/lachesis-base/inter/dag/tdag"
	"github.com/Fantom-foundation/lachesis-base/inter/idx"
	"github.com/Fantom-foundation/lachesis-base/utils/datasemaphore"
	"pgregory.net/rapid"

	"verif/harness/internal/stats"
)

func TestMain(m *testing.M) {
	code := m.Run()
	stats.Flush()
	os.Exit(code)
}

// ---------------------------------------------------------------------------------------------
// case description (everything is drawn before the processor is started)

type evSpec struct {
	Parents  []int  `json:"parents"`
	Lamport  uint32 `json:"lamport"`
	Size     int    `json:"size"`
	FailCP   bool   `json:"check_parents_fails,omitempty"`
	FailProc bool   `json:"process_fails,omitempty"`
}

type batchSpec struct {
	Ordered  bool   `json:"ordered"`
	Async    bool   `json:"enqueue_from_own_goroutine,omitempty"`
	Events   []int  `json:"events"`
	CheckErr []bool `json:"parentless_check_fails"`
}

type step struct {
	Fire bool `json:"fire"` // false: enqueue the next batch
	Pick int  `json:"pick"`
}

type caseSpec struct {
	Events     []evSpec    `json:"events"`
	Batches    []batchSpec `json:"batches"`
	SemNum     uint32      `json:"sem_num"`
	SemSize    uint64      `json:"sem_size"`
	BufNum     uint32      `json:"buffer_num"`
	BufSize    uint64      `json:"buffer_size"`
	Highest    uint32      `json:"highest_lamport"`
	Dynamic    bool        `json:"highest_follows_processed,omitempty"`
	MaxTasks   int         `json:"max_tasks"`
	TimeoutMs  int         `json:"semaphore_timeout_ms"`
	Steps      []step      `json:"steps"`
	Goroutines int         `json:"goroutines"`
	Prio       []int       `json:"prio"`   // per copy: order inside its firing goroutine
	Worker     []int       `json:"worker"` // per copy: which firing goroutine
	NotifyNil  bool        `json:"notify_nil,omitempty"`
}

// ---------------------------------------------------------------------------------------------
// harness

type copyEv struct {
	*tdag.TestEvent
	h    *harness
	cp   int
	size int
}

func (c *copyEv) Size() int { return c.size }

// ID is what the ordering buffer asks first when a copy reaches it; the first call is logged.
func (c *copyEv) ID() hash.Event {
	c.h.touch(c.cp)
	return c.TestEvent.ID()
}

type copyState struct {
	batch, pos, ev int
	peer           string
	closure        func(error)
	arrived        chan struct{}
	fired          bool
	process        int
	released       int
	touchedAt      int // log index of the first touch, -1
	firedSeq       int // global sequence number of the firing
}

type entry struct {
	kind string
	cp   int
	ev   int
	err  error
	note string
}

var (
	errParentless = errors.New("harness: parentless check failed")
	errCP         = errors.New("harness: parents check failed")
	errProc       = errors.New("harness: process failed")
)

type harness struct {
	cs   *caseSpec
	base []*tdag.TestEvent
	byID map[hash.Event]int
	sem  *datasemaphore.DataSemaphore
	cap  dag.Metric

	warnMu  sync.Mutex
	warning string

	mu            sync.Mutex
	log           []entry
	copies        []copyState
	batchCopies   [][]int
	connected     []bool
	connectedAs   []dag.Event
	procOK        []int // successful Process calls per event
	procCalls     []int
	firstExistsAt []int
	highest       idx.Lamport
	fireSeq       int
	viol          string
	doneCh        []chan struct{}
	doneCalls     []int
	accepted      []int // -1 unknown, 0 refused, 1 accepted
}

func (h *harness) violate(format string, a ...interface{}) {
	if h.viol == "" {
		h.viol = fmt.Sprintf(format, a...)
	}
}

// semCheck must be called with h.mu held (the semaphore has its own lock)
func (h *harness) semCheck(where string) {
	p := h.sem.Processing()
	if p.Num > h.cap.Num || p.Size > h.cap.Size {
		h.violate("at %s the events semaphore holds %s, capacity %s", where, p.String(), h.cap.String())
	}
}

func (h *harness) touch(cp int) {
	h.mu.Lock()
	if h.copies[cp].touchedAt < 0 {
		h.copies[cp].touchedAt = len(h.log)
		h.log = append(h.log, entry{kind: "reaches-buffer", cp: cp, ev: h.copies[cp].ev})
	}
	h.mu.Unlock()
}

func (h *harness) threshold(highest idx.Lamport) uint64 {
	return uint64(highest) + uint64(h.cs.BufNum) + 1
}

func eventID(i int) (id [24]byte) {
	id[0], id[1] = 0xC1, 0x15
	id[20], id[21], id[22], id[23] = byte(i>>24), byte(i>>16), byte(i>>8), byte(i+1)
	return
}

func newHarness(cs *caseSpec) *harness {
	n := len(cs.Events)
	h := &harness{cs: cs, byID: make(map[hash.Event]int, n), connected: make([]bool, n), connectedAs: make([]dag.Event, n),
		procOK: make([]int, n), procCalls: make([]int, n), firstExistsAt: make([]int, n), highest: idx.Lamport(cs.Highest)}
	for i, s := range cs.Events {
		e := &tdag.TestEvent{}
		e.Name = fmt.Sprintf("e%d", i)
		e.SetEpoch(1)
		e.SetCreator(idx.ValidatorID(i%4 + 1))
		e.SetSeq(idx.Event(i/4 + 1))
		var ps hash.Events
		for _, p := range s.Parents {
			ps = append(ps, h.base[p].ID())
		}
		e.SetParents(ps)
		e.SetLamport(idx.Lamport(s.Lamport))
		e.SetID(eventID(i))
		h.base = append(h.base, e)
		h.byID[e.ID()] = i
		h.firstExistsAt[i] = -1
	}
	for b, bs := range cs.Batches {
		var cps []int
		for pos, ev := range bs.Events {
			cp := len(h.copies)
			h.copies = append(h.copies, copyState{batch: b, pos: pos, ev: ev, peer: fmt.Sprintf("batch%d", b),
				arrived: make(chan struct{}), touchedAt: -1, firedSeq: -1})
			cps = append(cps, cp)
		}
		h.batchCopies = append(h.batchCopies, cps)
		h.doneCh = append(h.doneCh, make(chan struct{}))
		h.doneCalls = append(h.doneCalls, 0)
		h.accepted = append(h.accepted, -1)
	}
	h.cap = dag.Metric{Num: idx.Event(cs.SemNum), Size: cs.SemSize}
	h.sem = datasemaphore.New(h.cap, func(received, processing, releasing dag.Metric) {
		// called with the semaphore's lock held: only record
		h.warnMu.Lock()
		if h.warning == "" {
			h.warning = fmt.Sprintf("events semaphore inconsistency warning: holding %s, releasing %s", processing.String(), releasing.String())
		}
		h.warnMu.Unlock()
	})
	return h
}

func (h *harness) callbacks() dagprocessor.Callback {
	cs := h.cs
	return dagprocessor.Callback{
		HighestLamport: func() idx.Lamport {
			h.mu.Lock()
			defer h.mu.Unlock()
			return h.highest
		},
		Event: dagprocessor.EventCallback{
			CheckParentless: func(e dag.Event, checked func(error)) {
				c := e.(*copyEv)
				h.mu.Lock()
				defer h.mu.Unlock()
				h.semCheck("CheckParentless")
				st := &h.copies[c.cp]
				if st.closure != nil {
					return // a second call for the same copy: keep the first closure
				}
				st.closure = checked
				close(st.arrived)
			},
			Exists: func(id hash.Event) bool {
				h.mu.Lock()
				defer h.mu.Unlock()
				h.semCheck("Exists")
				i, ok := h.byID[id]
				if !ok {
					return false
				}
				if h.firstExistsAt[i] < 0 {
					h.firstExistsAt[i] = len(h.log)
					h.log = append(h.log, entry{kind: "first-Exists", cp: -1, ev: i})
				}
				return h.connected[i]
			},
			Get: func(id hash.Event) dag.Event {
				h.mu.Lock()
				defer h.mu.Unlock()
				i, ok := h.byID[id]
				if !ok || !h.connected[i] {
					return nil
				}
				return h.connectedAs[i]
			},
			CheckParents: func(e dag.Event, parents dag.Events) error {
				c := e.(*copyEv)
				h.mu.Lock()
				defer h.mu.Unlock()
				h.semCheck("CheckParents")
				ev := h.copies[c.cp].ev
				var err error
				if cs.Events[ev].FailCP {
					err = errCP
				}
				h.log = append(h.log, entry{kind: "CheckParents", cp: c.cp, ev: ev, err: err})
				return err
			},
			Process: func(e dag.Event) error {
				c := e.(*copyEv)
				h.mu.Lock()
				defer h.mu.Unlock()
				h.semCheck("Process")
				st := &h.copies[c.cp]
				ev := st.ev
				st.process++
				h.procCalls[ev]++
				var err error
				if cs.Events[ev].FailProc {
					err = errProc
				}
				h.log = append(h.log, entry{kind: "Process", cp: c.cp, ev: ev, err: err, note: fmt.Sprintf("highest=%d", h.highest)})
				if st.process > 1 {
					h.violate("copy %d (e%d of batch %d) was handed to Process %d times", c.cp, ev, st.batch, st.process)
				}
				if st.released > 0 {
					h.violate("copy %d (e%d of batch %d) was handed to Process after it was reported released", c.cp, ev, st.batch)
				}
				if cs.Batches[st.batch].CheckErr[st.pos] {
					h.violate("copy %d (e%d of batch %d) was rejected by its parentless check but handed to Process", c.cp, ev, st.batch)
				}
				for _, p := range cs.Events[ev].Parents {
					if !h.connected[p] {
						h.violate("e%d was handed to Process before its parent e%d was connected", ev, p)
					}
				}
				if uint64(cs.Events[ev].Lamport) > h.threshold(h.highest) {
					h.violate("e%d with Lamport %d was handed to Process although the highest known Lamport is %d and the buffer limit is %d events (allowed up to %d)",
						ev, cs.Events[ev].Lamport, h.highest, cs.BufNum, h.threshold(h.highest))
				}
				if err != nil {
					return err
				}
				h.procOK[ev]++
				h.connected[ev] = true
				h.connectedAs[ev] = e
				if cs.Dynamic && idx.Lamport(cs.Events[ev].Lamport) > h.highest {
					h.highest = idx.Lamport(cs.Events[ev].Lamport)
				}
				return nil
			},
			Released: func(e dag.Event, peer string, err error) {
				c, ok := e.(*copyEv)
				h.mu.Lock()
				defer h.mu.Unlock()
				if !ok {
					h.violate("Released called with an object that was never enqueued")
					return
				}
				h.semCheck("Released")
				st := &h.copies[c.cp]
				st.released++
				h.log = append(h.log, entry{kind: "Released", cp: c.cp, ev: st.ev, err: err})
				if peer != st.peer {
					h.violate("copy %d (e%d of batch %d) was reported released with peer %q", c.cp, st.ev, st.batch, peer)
				}
				if st.released > 1 {
					h.violate("copy %d (e%d of batch %d) was reported released %d times", c.cp, st.ev, st.batch, st.released)
				}
			},
		},
	}
}

const caseDeadline = 60 * time.Second

type outcome struct {
	inconclusive string
	// classification
	acceptedBatches, refusedBatches int
	orderedOutOfOrder               bool // an accepted ordered batch whose checks completed out of batch order
	farFutureInBatch                bool // an accepted batch contains an event too far ahead of the initial highest Lamport
	boundaryEvent                   bool // an accepted event exactly at the allowed maximum
	cleanLiveness                   bool
	waited                          bool // some copy was still held by the buffer when Stop was called
	checkRejected                   bool
}

func (h *harness) fire(cp int) {
	st := &h.copies[cp]
	var err error
	if h.cs.Batches[st.batch].CheckErr[st.pos] {
		err = errParentless
	}
	h.mu.Lock()
	st.fired = true
	st.firedSeq = h.fireSeq
	h.fireSeq++
	h.log = append(h.log, entry{kind: "fire-checked", cp: cp, ev: st.ev, err: err})
	closure := st.closure
	h.mu.Unlock()
	closure(err)
}

func runCase(cs *caseSpec) (*harness, *outcome) {
	h := newHarness(cs)
	out := &outcome{}
	cfg := dagprocessor.Config{
		EventsBufferLimit:      dag.Metric{Num: idx.Event(cs.BufNum), Size: cs.BufSize},
		EventsSemaphoreTimeout: time.Duration(cs.TimeoutMs) * time.Millisecond,
		MaxTasks:               cs.MaxTasks,
	}
	proc := dagprocessor.New(h.sem, cfg, h.callbacks())
	proc.Start()
	stopped := false
	stop := func() {
		if !stopped {
			stopped = true
			proc.Stop()
		}
	}
	defer stop()

	deadline := time.NewTimer(caseDeadline)
	defer deadline.Stop()
	expired := false
	wait := func(ch <-chan struct{}) bool {
		if expired {
			return false
		}
		select {
		case <-ch:
			return true
		case <-deadline.C:
			expired = true
			return false
		}
	}

	var asyncWG sync.WaitGroup
	enqueue := func(b int) {
		bs := cs.Batches[b]
		events := make(dag.Events, len(bs.Events))
		for pos := range bs.Events {
			cp := h.batchCopies[b][pos]
			events[pos] = &copyEv{TestEvent: h.base[bs.Events[pos]], h: h, cp: cp, size: cs.Events[bs.Events[pos]].Size}
		}
		var notify func(hash.Events)
		if !cs.NotifyNil {
			notify = func(hash.Events) {}
		}
		do := func() {
			err := proc.Enqueue(h.copies[h.batchCopies[b][0]].peer, events, bs.Ordered, notify, func() {
				h.mu.Lock()
				h.doneCalls[b]++
				n := h.doneCalls[b]
				h.log = append(h.log, entry{kind: "done", cp: -1, ev: -1, note: fmt.Sprintf("batch %d", b)})
				h.mu.Unlock()
				if n == 1 {
					close(h.doneCh[b])
				}
			})
			h.mu.Lock()
			if err == nil {
				h.accepted[b] = 1
			} else {
				h.accepted[b] = 0
			}
			h.log = append(h.log, entry{kind: "Enqueue-returned", cp: -1, ev: -1, err: err, note: fmt.Sprintf("batch %d", b)})
			h.mu.Unlock()
		}
		h.mu.Lock()
		h.log = append(h.log, entry{kind: "Enqueue", cp: -1, ev: -1, note: fmt.Sprintf("batch %d ordered=%v async=%v events=%v", b, bs.Ordered, bs.Async, bs.Events)})
		h.mu.Unlock()
		if bs.Async {
			asyncWG.Add(1)
			go func() {
				defer asyncWG.Done()
				do()
			}()
		} else {
			do()
		}
	}
	fireable := func() []int {
		h.mu.Lock()
		defer h.mu.Unlock()
		var res []int
		for cp := range h.copies {
			if h.accepted[h.copies[cp].batch] == 1 && !h.copies[cp].fired {
				res = append(res, cp)
			}
		}
		return res
	}

	// phase A: sequential interleaving of Enqueue calls and single firings
	next := 0
	for _, s := range cs.Steps {
		if !s.Fire {
			if next < len(cs.Batches) {
				enqueue(next)
				next++
			}
			continue
		}
		f := fireable()
		if len(f) == 0 {
			continue
		}
		cp := f[s.Pick%len(f)]
		if !wait(h.copies[cp].arrived) {
			out.inconclusive = "a stored check closure did not arrive before the deadline"
			return h, out
		}
		h.fire(cp)
	}
	for ; next < len(cs.Batches); next++ {
		enqueue(next)
	}
	// the remaining closures are fired from 1-3 goroutines while asynchronous Enqueue calls may
	// still wait for the semaphore; repeat until every Enqueue returned and nothing is left to fire
	asyncDone := make(chan struct{})
	go func() { asyncWG.Wait(); close(asyncDone) }()
firing:
	for {
		f := fireable()
		if len(f) == 0 {
			select {
			case <-asyncDone:
				if len(fireable()) == 0 {
					break firing
				}
				continue
			default:
			}
			// an asynchronous Enqueue is still waiting for the semaphore (bounded by its timeout)
			select {
			case <-asyncDone:
			case <-time.After(time.Millisecond):
			case <-deadline.C:
				expired = true
				out.inconclusive = "an Enqueue call did not return before the deadline"
				return h, out
			}
			continue
		}
		sort.SliceStable(f, func(a, b int) bool { return cs.Prio[f[a]] < cs.Prio[f[b]] })
		lists := make([][]int, cs.Goroutines)
		for _, cp := range f {
			w := cs.Worker[cp] % cs.Goroutines
			lists[w] = append(lists[w], cp)
		}
		var wg sync.WaitGroup
		var failMu sync.Mutex
		failed := false
		for _, l := range lists {
			if len(l) == 0 {
				continue
			}
			wg.Add(1)
			go func(l []int) {
				defer wg.Done()
				for _, cp := range l {
					select {
					case <-h.copies[cp].arrived:
						h.fire(cp)
					case <-time.After(caseDeadline):
						failMu.Lock()
						failed = true
						failMu.Unlock()
						return
					}
				}
			}(l)
		}
		wg.Wait()
		if failed {
			out.inconclusive = "a stored check closure did not arrive before the deadline"
			return h, out
		}
	}
	// every done of an accepted batch is awaited
	for b := range cs.Batches {
		if h.accepted[b] == 1 {
			out.acceptedBatches++
			if !wait(h.doneCh[b]) {
				out.inconclusive = fmt.Sprintf("done of batch %d was not called before the deadline", b)
				return h, out
			}
		} else {
			out.refusedBatches++
		}
	}
	h.mu.Lock()
	h.checkBeforeStop(out)
	h.log = append(h.log, entry{kind: "Stop", cp: -1, ev: -1})
	h.mu.Unlock()
	stop()
	h.mu.Lock()
	h.checkAfterStop(out)
	h.mu.Unlock()
	return h, out
}

// checkBeforeStop: all accepted batches are handled (their done was called). h.mu held.
func (h *harness) checkBeforeStop(out *outcome) {
	cs := h.cs
	t0 := h.threshold(idx.Lamport(cs.Highest))
	clean := !cs.Dynamic
	anyRefused := false
	for b, bs := range cs.Batches {
		if h.accepted[b] != 1 {
			anyRefused = true
			continue
		}
		// classification + "not rejected and not too far ahead => reaches the buffer"
		inversion := false
		for pos, cp := range h.batchCopies[b] {
			st := &h.copies[cp]
			l := uint64(cs.Events[st.ev].Lamport)
			if l > t0 {
				out.farFutureInBatch = true
			}
			if l == t0 {
				out.boundaryEvent = true
			}
			if bs.CheckErr[pos] {
				out.checkRejected = true
				clean = false
			}
			if !bs.CheckErr[pos] && l <= t0 && st.touchedAt < 0 {
				h.violate("copy %d (e%d, Lamport %d, batch %d) passed its check and is not too far ahead (allowed up to %d) but never reached the ordering buffer",
					cp, st.ev, l, b, t0)
			}
			if st.released == 0 {
				out.waited = true
			}
			if pos > 0 && st.firedSeq < h.copies[h.batchCopies[b][pos-1]].firedSeq {
				inversion = true
			}
		}
		if bs.Ordered && inversion {
			out.orderedOutOfOrder = true
		}
		if !bs.Ordered {
			continue
		}
		// ordered batch: copies reach the buffer in batch order
		last, lastPos := -1, -1
		for pos, cp := range h.batchCopies[b] {
			at := h.copies[cp].touchedAt
			if at < 0 {
				continue
			}
			if at < last {
				h.violate("ordered batch %d: the event at position %d (e%d) reached the ordering buffer before the event at position %d (e%d)",
					b, pos, h.copies[cp].ev, lastPos, h.copies[h.batchCopies[b][lastPos]].ev)
			}
			last, lastPos = at, pos
		}
		// same observation through the first Exists query per event, for events with a single accepted copy
		last, lastPos = -1, -1
		for pos, cp := range h.batchCopies[b] {
			ev := h.copies[cp].ev
			if h.acceptedCopiesOf(ev) != 1 || h.firstExistsAt[ev] < 0 {
				continue
			}
			at := h.firstExistsAt[ev]
			if at < last {
				h.violate("ordered batch %d: the first Exists query for position %d (e%d) came before the one for position %d (e%d)",
					b, pos, ev, lastPos, h.copies[h.batchCopies[b][lastPos]].ev)
			}
			last, lastPos = at, pos
		}
	}
	// clean runs: exactly the expected events are processed, each exactly once
	n := len(cs.Events)
	total := uint64(0)
	copies := 0
	for b := range cs.Batches {
		for _, cp := range h.batchCopies[b] {
			total += uint64(cs.Events[h.copies[cp].ev].Size)
			copies++
		}
	}
	for _, e := range cs.Events {
		if e.FailCP || e.FailProc {
			clean = false
		}
	}
	if anyRefused || uint64(cs.BufNum) < uint64(n) || cs.BufSize < total || uint64(cs.SemNum) < uint64(copies) || cs.SemSize < total {
		clean = false
	}
	if !clean {
		return
	}
	out.cleanLiveness = true
	supplied := make([]bool, n)
	for cp := range h.copies {
		supplied[h.copies[cp].ev] = true
	}
	expect := make([]bool, n)
	for i := 0; i < n; i++ { // parents have smaller indices
		ok := supplied[i] && uint64(cs.Events[i].Lamport) <= t0
		for _, p := range cs.Events[i].Parents {
			ok = ok && expect[p]
		}
		expect[i] = ok
	}
	for i := 0; i < n; i++ {
		want := 0
		if expect[i] {
			want = 1
		}
		if h.procCalls[i] != want {
			h.violate("clean run (nothing fails, ample limits, highest Lamport constant %d, allowed up to %d): e%d (Lamport %d) was handed to Process %d times, expected %d",
				cs.Highest, t0, i, cs.Events[i].Lamport, h.procCalls[i], want)
		}
	}
}

func (h *harness) acceptedCopiesOf(ev int) int {
	n := 0
	for cp := range h.copies {
		if h.copies[cp].ev == ev && h.accepted[h.copies[cp].batch] == 1 {
			n++
		}
	}
	return n
}

// checkAfterStop: h.mu held
func (h *harness) checkAfterStop(out *outcome) {
	for cp := range h.copies {
		st := &h.copies[cp]
		if h.accepted[st.batch] == 1 && st.released != 1 {
			h.violate("after Stop copy %d (e%d of accepted batch %d) was reported released %d times", cp, st.ev, st.batch, st.released)
		}
	}
	if p := h.sem.Processing(); p.Num != 0 || p.Size != 0 {
		h.violate("after Stop the events semaphore still holds %s", p.String())
	}
	h.warnMu.Lock()
	if h.warning != "" {
		h.violate("%s", h.warning)
	}
	h.warnMu.Unlock()
}

func (h *harness) describe() string {
	cs := h.cs
	var b strings.Builder
	b.WriteString("events:\n")
	for i, e := range cs.Events {
		fmt.Fprintf(&b, "  e%d <- %v lamport=%d size=%d", i, e.Parents, e.Lamport, e.Size)
		if e.FailCP {
			b.WriteString(" [CheckParents fails]")
		}
		if e.FailProc {
			b.WriteString(" [Process fails]")
		}
		b.WriteString("\n")
	}
	fmt.Fprintf(&b, "semaphore capacity {Num=%d,Size=%d}, EventsBufferLimit {Num=%d,Size=%d}, highest Lamport %d (follows processed: %v), too far ahead above %d, MaxTasks %d, semaphore timeout %dms, firing goroutines %d\n",
		cs.SemNum, cs.SemSize, cs.BufNum, cs.BufSize, cs.Highest, cs.Dynamic, h.threshold(idx.Lamport(cs.Highest)), cs.MaxTasks, cs.TimeoutMs, cs.Goroutines)
	for i, bs := range cs.Batches {
		fmt.Fprintf(&b, "batch %d: ordered=%v async=%v events=%v parentless-check-fails=%v copies=%v\n", i, bs.Ordered, bs.Async, bs.Events, bs.CheckErr, h.batchCopies[i])
	}
	b.WriteString("observed:\n")
	for _, l := range h.log {
		switch {
		case l.cp >= 0:
			fmt.Fprintf(&b, "  %s copy %d (e%d, batch %d pos %d)", l.kind, l.cp, l.ev, h.copies[l.cp].batch, h.copies[l.cp].pos)
		case l.ev >= 0:
			fmt.Fprintf(&b, "  %s e%d", l.kind, l.ev)
		default:
			fmt.Fprintf(&b, "  %s", l.kind)
		}
		if l.note != "" {
			fmt.Fprintf(&b, " %s", l.note)
		}
		if l.err != nil {
			fmt.Fprintf(&b, " err=%v", l.err)
		}
		b.WriteString("\n")
	}
	return b.String()
}

// ---------------------------------------------------------------------------------------------
// generator

func genCase(t *rapid.T) *caseSpec {
	cs := &caseSpec{}
	n := rapid.IntRange(2, 10).Draw(t, "events")
	depth := make([]int, n)
	maxd := 0
	sizeMode := rapid.IntRange(0, 1).Draw(t, "sizeMode")
	for i := 0; i < n; i++ {
		var e evSpec
		k := 0
		if i > 0 {
			k = rapid.SampledFrom([]int{0, 0, 1, 1, 1, 2, 2, 3}).Draw(t, "nparents")
		}
		seen := map[int]bool{}
		for j := 0; j < k; j++ {
			p := rapid.IntRange(0, i-1).Draw(t, "parent")
			if !seen[p] {
				seen[p] = true
				e.Parents = append(e.Parents, p)
				if depth[p]+1 > depth[i] {
					depth[i] = depth[p] + 1
				}
			}
		}
		sort.Ints(e.Parents)
		if depth[i] > maxd {
			maxd = depth[i]
		}
		if sizeMode == 0 {
			e.Size = 56 + 32*len(e.Parents)
		} else {
			e.Size = rapid.IntRange(1, 20).Draw(t, "size")
		}
		cs.Events = append(cs.Events, e)
	}
	// batches
	nb := rapid.IntRange(1, 4).Draw(t, "batches")
	clean := rapid.IntRange(0, 4).Draw(t, "clean") < 2
	idxs := make([]int, n)
	for i := range idxs {
		idxs[i] = i
	}
	copies := 0
	var maxBatch dag.Metric
	var total dag.Metric
	for b := 0; b < nb; b++ {
		var bs batchSpec
		bs.Ordered = rapid.IntRange(0, 2).Draw(t, "ordered") > 0
		bs.Async = rapid.IntRange(0, 3).Draw(t, "async") == 0
		sz := rapid.IntRange(1, 8).Draw(t, "batchSize")
		if sz > n {
			sz = n
		}
		perm := rapid.Permutation(idxs).Draw(t, "batchEvents")
		bs.Events = append([]int(nil), perm[:sz]...)
		if rapid.IntRange(0, 2).Draw(t, "sorted") == 0 {
			sort.Ints(bs.Events) // parents before children inside the batch
		}
		var m dag.Metric
		for range bs.Events {
			bs.CheckErr = append(bs.CheckErr, !clean && rapid.IntRange(0, 6).Draw(t, "checkErr") == 0)
		}
		for _, ev := range bs.Events {
			m.Num++
			m.Size += uint64(cs.Events[ev].Size)
		}
		if m.Num > maxBatch.Num {
			maxBatch.Num = m.Num
		}
		if m.Size > maxBatch.Size {
			maxBatch.Size = m.Size
		}
		total.Num += m.Num
		total.Size += m.Size
		copies += sz
		cs.Batches = append(cs.Batches, bs)
	}
	if !clean {
		for i := range cs.Events {
			switch rapid.IntRange(0, 11).Draw(t, "eventFails") {
			case 0:
				cs.Events[i].FailCP = true
			case 1:
				cs.Events[i].FailProc = true
			}
		}
	}
	// semaphore capacity classes
	semClasses := []int{0, 1, 1, 2, 2, 2, 2}
	bufClasses := []int{0, 1, 2, 3, 3, 3, 3}
	if clean {
		semClasses = []int{0, 1, 2, 2, 2, 2, 2, 2, 2, 2}
		bufClasses = []int{0, 1, 2, 3, 3, 3, 3, 3, 3, 3, 3, 3}
	}
	switch rapid.SampledFrom(semClasses).Draw(t, "semClass") {
	case 0: // smaller than the biggest batch: that batch is refused at once
		cs.SemNum = uint32(maxBatch.Num) - uint32(rapid.IntRange(0, 1).Draw(t, "semShort"))
		cs.SemSize = total.Size
		if rapid.Bool().Draw(t, "semShortBytes") && maxBatch.Size > 1 {
			cs.SemNum = uint32(total.Num)
			cs.SemSize = maxBatch.Size - 1
		}
	case 1: // the biggest batch fits, all together do not necessarily
		cs.SemNum = uint32(maxBatch.Num) + uint32(rapid.IntRange(0, 2).Draw(t, "semExtra"))
		cs.SemSize = total.Size
		if rapid.Bool().Draw(t, "semTightBytes") {
			cs.SemNum = uint32(total.Num)
			cs.SemSize = maxBatch.Size + uint64(rapid.IntRange(0, 40).Draw(t, "semExtraBytes"))
		}
	default: // ample
		cs.SemNum = uint32(total.Num) + uint32(rapid.IntRange(0, 3).Draw(t, "semExtra"))
		cs.SemSize = total.Size + uint64(rapid.IntRange(0, 100).Draw(t, "semExtraBytes"))
	}
	// buffer limit classes
	var allSize uint64
	for _, e := range cs.Events {
		allSize += uint64(e.Size)
	}
	switch rapid.SampledFrom(bufClasses).Draw(t, "bufClass") {
	case 0:
		cs.BufNum, cs.BufSize = 0, total.Size
	case 1:
		cs.BufNum, cs.BufSize = 1, total.Size
	case 2:
		cs.BufNum, cs.BufSize = uint32(n), uint64(rapid.IntRange(0, int(allSize)).Draw(t, "bufBytes"))
	default:
		cs.BufNum, cs.BufSize = uint32(n)+uint32(rapid.IntRange(0, 3).Draw(t, "bufExtra")), total.Size+allSize
	}
	// Lamport times around the "too far ahead" boundary T = highest + BufNum + 1
	cs.Highest = uint32(rapid.IntRange(maxd+5, 400).Draw(t, "highest"))
	cs.Dynamic = rapid.IntRange(0, 3).Draw(t, "dynamic") == 0
	T := uint64(cs.Highest) + uint64(cs.BufNum) + 1
	o := maxd + 1 // no event is too far ahead because of its depth
	if rapid.IntRange(0, 2).Draw(t, "boundaryInside") > 0 {
		o = rapid.IntRange(-1, maxd).Draw(t, "boundaryDepth")
	}
	base := int64(T) - int64(o)
	for i := range cs.Events {
		l := base + int64(depth[i])
		switch rapid.IntRange(0, 23).Draw(t, "lamportMode") {
		case 0:
			l = int64(T) + int64(rapid.SampledFrom([]int{1, 2, 1000}).Draw(t, "ahead"))
		case 1:
			l = int64(T)
		case 2:
			l = int64(^uint32(0))
		}
		if l < 1 {
			l = 1
		}
		cs.Events[i].Lamport = uint32(l)
	}
	cs.MaxTasks = rapid.SampledFrom([]int{nb + 1, 16, 128}).Draw(t, "maxTasks")
	cs.TimeoutMs = rapid.SampledFrom([]int{0, 0, 1, 1, 30}).Draw(t, "timeoutMs")
	cs.NotifyNil = rapid.IntRange(0, 3).Draw(t, "notifyNil") == 0
	// schedule
	nsteps := rapid.IntRange(0, nb+copies).Draw(t, "steps")
	for i := 0; i < nsteps; i++ {
		cs.Steps = append(cs.Steps, step{Fire: rapid.IntRange(0, 2).Draw(t, "fire") > 0, Pick: rapid.IntRange(0, 31).Draw(t, "pick")})
	}
	cs.Goroutines = rapid.IntRange(1, 3).Draw(t, "goroutines")
	prioMode := rapid.IntRange(0, 2).Draw(t, "prioMode")
	for cp := 0; cp < copies; cp++ {
		p := rapid.IntRange(0, 63).Draw(t, "prio")
		if prioMode == 1 {
			p = copies - cp // reversed: later positions complete their checks first
		}
		cs.Prio = append(cs.Prio, p)
		cs.Worker = append(cs.Worker, rapid.IntRange(0, 2).Draw(t, "worker"))
	}
	return cs
}

var st = stats.New("processor")

func TestC15Processor(t *testing.T) {
	rapid.Check(t, func(t *rapid.T) {
		cs := genCase(t)
		h, out := runCase(cs)
		if out.inconclusive != "" {
			// timing policy: an overloaded machine is not a violation
			st.Inconclusive()
			t.Logf("inconclusive: %s", out.inconclusive)
			return
		}
		if h.viol != "" {
			t.Fatalf("C15 violated: %s\n%s", h.viol, h.describe())
		}
		classes := []string{fmt.Sprintf("batches_%d", len(cs.Batches)), fmt.Sprintf("goroutines_%d", cs.Goroutines)}
		add := func(b bool, name string) {
			if b {
				classes = append(classes, name)
			}
		}
		ordered, async := 0, 0
		for b, bs := range cs.Batches {
			if bs.Ordered && h.accepted[b] == 1 {
				ordered++
			}
			if bs.Async {
				async++
			}
		}
		dup := false
		for i := range cs.Events {
			if h.acceptedCopiesOf(i) > 1 {
				dup = true
			}
		}
		add(ordered > 0, "ordered_batch_accepted")
		add(async > 0, "concurrent_enqueue")
		add(out.orderedOutOfOrder, "ordered_batch_checks_completed_out_of_order")
		add(out.farFutureInBatch, "batch_with_far_future_event")
		add(out.boundaryEvent, "event_exactly_at_allowed_maximum")
		add(out.cleanLiveness, "clean_run_liveness_checked")
		add(out.refusedBatches > 0, "enqueue_refused")
		add(out.acceptedBatches == 0, "nothing_accepted")
		add(out.waited, "copy_held_by_buffer_until_stop")
		add(out.checkRejected, "parentless_check_rejected")
		add(dup, "duplicate_across_batches")
		add(cs.Dynamic, "highest_follows_processed")
		add(len(cs.Steps) > 0, "enqueue_and_fire_interleaved")
		st.Case(stats.Hash(*cs), out.orderedOutOfOrder || out.farFutureInBatch, classes...)
		st.Sample(func() interface{} { return cs })
	})
}
