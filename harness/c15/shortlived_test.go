// C15, short-lived processors: Start, Enqueue one or a few batches, Stop right away.
//
// The long-running unit (TestC15Processor) always stops a processor whose worker goroutines have
// been running for a while. Here many processors live only for a few microseconds: Stop() is called
// immediately after the last Enqueue (or after one runtime.Gosched / a short sleep), typically before
// the worker goroutines spawned by Start() were scheduled at all (the unit runs with GOMAXPROCS=1),
// so the whole handling of the batches happens INSIDE Stop() - or is cancelled by it.
//
// What the unchanged processor guarantees here (read from Stop/Enqueue and the property text):
//   - Stop "waits until all the internal goroutines have finished" and then clears the ordering
//     buffer: every callback of the processor (CheckParentless, HighestLamport, Exists, Get,
//     CheckParents, Process, Released, done, notifyAnnounces) is invoked before Stop() returns;
//   - a batch enqueued right before Stop() is either handled (its check results are taken by the
//     inserter, the events are released at once / pushed into the ordering buffer and released at
//     the latest by the final Clear of Stop) or cancelled (the inserter sees the closed quit channel
//     first; the events it did not take are never handled and never released - such a batch is not
//     a "finished" batch and nothing is claimed for its unhandled events);
//   - hence: every copy the processor handled (released at once, or handed to the ordering buffer -
//     observed as the buffer's first ID() call on the copy's wrapper) is reported released exactly
//     once by the time Stop() has returned, never twice; and when every copy of every accepted batch
//     was released the events semaphore is back at zero.
//
// The observation continues for a short settle time after Stop() returned (stray goroutines of the
// processor, there must be none, get the processor to run): timing only decides how much is
// observed, never whether a correct run is judged a violation.
package c15

import (
	"errors"
	"fmt"
	"runtime"
	"strings"
	"sync"
	"testing"
	"time"

	"github.com/Fantom-foundation/lachesis-base/gossip/dagprocessor"
	"github.com/Fantom-foundation/lachesis-base/hash"
	"github.com/Fantom-foundation/lachesis-base/inter/dag"
	"github.com/Fantom-foundation/lachesis-base/inter/dag/tdag"
	"github.com/Fantom-foundation/lachesis-base/inter/idx"
	"github.com/Fantom-foundation/lachesis-base/utils/datasemaphore"
	"pgregory.net/rapid"

	"verif/harness/internal/stats"
)

// ---------------------------------------------------------------------------------------------
// case description

type slEvent struct {
	Parents  []int  `json:"parents"`
	Dangling bool   `json:"parent_never_supplied,omitempty"` // additionally names a parent no batch ever contains
	Lamport  uint32 `json:"lamport"`
	Size     int    `json:"size"`
	FailProc bool   `json:"process_fails,omitempty"`
}

type slBatch struct {
	Ordered  bool   `json:"ordered"`
	Events   []int  `json:"events"`
	CheckErr []bool `json:"parentless_check_fails"`
	// YieldBefore: runtime.Gosched() before the Enqueue call of this batch (the workers get to run)
	YieldBefore bool `json:"yield_before_enqueue,omitempty"`
}

const (
	slStopNow     = iota // Stop() immediately after the last Enqueue returned
	slStopGosched        // one runtime.Gosched() in between
	slStopSleep          // a short sleep in between
	slStopYieldAfterStart
	slStopModes
)

var slStopNames = []string{"stop_immediately", "stop_after_gosched", "stop_after_short_sleep", "gosched_after_start_then_stop_immediately"}

type slLife struct {
	Stop    int `json:"stop_mode"`
	SleepUs int `json:"sleep_us,omitempty"`
}

type slCase struct {
	Events     []slEvent `json:"events"`
	Batches    []slBatch `json:"batches"`
	BufNum     uint32    `json:"buffer_num"`
	Highest    uint32    `json:"highest_lamport"`
	AsyncCheck bool      `json:"check_result_from_own_goroutine,omitempty"`
	Lives      []slLife  `json:"processor_lives"` // the same batches are given to one fresh processor per entry
}

// ---------------------------------------------------------------------------------------------
// one processor life

type slCopy struct {
	*tdag.TestEvent
	r    *slRun
	cp   int
	size int
}

func (c *slCopy) Size() int { return c.size }

// ID is what the ordering buffer asks first when the processor hands it a copy
func (c *slCopy) ID() hash.Event {
	c.r.mu.Lock()
	if st := &c.r.copies[c.cp]; !st.reachedBuffer || c.r.phase == 2 {
		st.reachedBuffer = true
		c.r.noteLocked("buffer.ID", c.cp, nil)
	}
	c.r.mu.Unlock()
	return c.TestEvent.ID()
}

type slCopyState struct {
	batch, pos, ev int
	peer           string
	reachedBuffer  bool
	process        int
	released       int
	releasedInStop bool
}

type slEntry struct {
	kind  string
	cp    int
	err   error
	phase int // 0 before Stop() was called, 1 while Stop() runs, 2 after Stop() returned
}

type slRun struct {
	cs   *slCase
	base []*tdag.TestEvent
	byID map[hash.Event]int
	sem  *datasemaphore.DataSemaphore
	cap  dag.Metric

	mu          sync.Mutex
	phase       int
	log         []slEntry
	copies      []slCopyState
	batchCopies [][]int
	connected   []bool
	connectedAs []dag.Event
	accepted    []bool
	enqErr      []error
	doneCalls   []int
	warning     string
	viol        string
	late        []string
	own         sync.WaitGroup // goroutines of the harness (asynchronous check results)
}

func (r *slRun) violate(format string, a ...interface{}) {
	if r.viol == "" {
		r.viol = fmt.Sprintf(format, a...)
	}
}

// note logs a callback; one that arrives after Stop() has returned is recorded as late.
func (r *slRun) note(kind string, cp int, err error) {
	r.mu.Lock()
	r.noteLocked(kind, cp, err)
	r.mu.Unlock()
}

func (r *slRun) noteLocked(kind string, cp int, err error) {
	r.log = append(r.log, slEntry{kind, cp, err, r.phase})
	if r.phase == 2 {
		r.late = append(r.late, kind)
	}
	if p := r.sem.Processing(); p.Num > r.cap.Num || p.Size > r.cap.Size {
		r.violate("at %s the events semaphore holds %s, capacity %s", kind, p.String(), r.cap.String())
	}
}

func slEventID(i int) (id [24]byte) {
	id[0], id[1], id[2] = 0xC1, 0x15, 0x51
	id[23] = byte(i + 1)
	return
}

func newSlRun(cs *slCase) *slRun {
	n := len(cs.Events)
	r := &slRun{cs: cs, byID: make(map[hash.Event]int, n), connected: make([]bool, n), connectedAs: make([]dag.Event, n)}
	for i, s := range cs.Events {
		e := &tdag.TestEvent{}
		e.Name = fmt.Sprintf("e%d", i)
		e.SetEpoch(1)
		e.SetCreator(idx.ValidatorID(i%4 + 1))
		e.SetSeq(idx.Event(i/4 + 1))
		var ps hash.Events
		for _, p := range s.Parents {
			ps = append(ps, r.base[p].ID())
		}
		if s.Dangling {
			missing := slEventID(200 + i)
			missing[0] = 0xEE
			var me dag.MutableBaseEvent
			me.SetEpoch(1)
			me.SetLamport(idx.Lamport(s.Lamport) - 1)
			me.SetID(missing)
			ps = append(ps, me.ID())
		}
		e.SetParents(ps)
		e.SetLamport(idx.Lamport(s.Lamport))
		e.SetID(slEventID(i))
		r.base = append(r.base, e)
		r.byID[e.ID()] = i
	}
	var total dag.Metric
	for b, bs := range cs.Batches {
		var cps []int
		for pos, ev := range bs.Events {
			cps = append(cps, len(r.copies))
			r.copies = append(r.copies, slCopyState{batch: b, pos: pos, ev: ev, peer: fmt.Sprintf("batch%d", b)})
			total.Num++
			total.Size += uint64(cs.Events[ev].Size)
		}
		r.batchCopies = append(r.batchCopies, cps)
	}
	r.accepted = make([]bool, len(cs.Batches))
	r.enqErr = make([]error, len(cs.Batches))
	r.doneCalls = make([]int, len(cs.Batches))
	// ample: every batch fits at once
	r.cap = dag.Metric{Num: total.Num + 2, Size: total.Size + 100}
	r.sem = datasemaphore.New(r.cap, func(received, processing, releasing dag.Metric) {
		// called with the semaphore's lock held: only record (never takes r.mu)
		if r.warning == "" {
			r.warning = fmt.Sprintf("events semaphore inconsistency warning: holding %s, releasing %s", processing.String(), releasing.String())
		}
	})
	return r
}

var errSlProc = errors.New("harness: process failed")

func (r *slRun) callbacks() dagprocessor.Callback {
	cs := r.cs
	return dagprocessor.Callback{
		HighestLamport: func() idx.Lamport {
			r.note("HighestLamport", -1, nil)
			return idx.Lamport(cs.Highest)
		},
		Event: dagprocessor.EventCallback{
			CheckParentless: func(e dag.Event, checked func(error)) {
				c := e.(*slCopy)
				r.note("CheckParentless", c.cp, nil)
				st := r.copies[c.cp]
				var err error
				if cs.Batches[st.batch].CheckErr[st.pos] {
					err = errParentless
				}
				if cs.AsyncCheck {
					r.own.Add(1)
					go func() {
						defer r.own.Done()
						checked(err)
					}()
					return
				}
				checked(err)
			},
			Exists: func(id hash.Event) bool {
				r.mu.Lock()
				defer r.mu.Unlock()
				r.noteLocked("Exists", -1, nil)
				i, ok := r.byID[id]
				return ok && r.connected[i]
			},
			Get: func(id hash.Event) dag.Event {
				r.mu.Lock()
				defer r.mu.Unlock()
				r.noteLocked("Get", -1, nil)
				i, ok := r.byID[id]
				if !ok || !r.connected[i] {
					return nil
				}
				return r.connectedAs[i]
			},
			CheckParents: func(e dag.Event, parents dag.Events) error {
				r.note("CheckParents", e.(*slCopy).cp, nil)
				return nil
			},
			Process: func(e dag.Event) error {
				c := e.(*slCopy)
				r.mu.Lock()
				defer r.mu.Unlock()
				st := &r.copies[c.cp]
				var err error
				if cs.Events[st.ev].FailProc {
					err = errSlProc
				}
				r.noteLocked("Process", c.cp, err)
				st.process++
				if st.process > 1 {
					r.violate("copy %d (e%d of batch %d) was handed to Process %d times", c.cp, st.ev, st.batch, st.process)
				}
				if st.released > 0 {
					r.violate("copy %d (e%d of batch %d) was handed to Process after it was reported released", c.cp, st.ev, st.batch)
				}
				if cs.Batches[st.batch].CheckErr[st.pos] {
					r.violate("copy %d (e%d of batch %d) was rejected by its parentless check but handed to Process", c.cp, st.ev, st.batch)
				}
				if cs.Events[st.ev].Dangling {
					r.violate("e%d was handed to Process although one of its parents was never supplied", st.ev)
				}
				for _, p := range cs.Events[st.ev].Parents {
					if !r.connected[p] {
						r.violate("e%d was handed to Process before its parent e%d was connected", st.ev, p)
					}
				}
				if err != nil {
					return err
				}
				r.connected[st.ev] = true
				r.connectedAs[st.ev] = e
				return nil
			},
			Released: func(e dag.Event, peer string, err error) {
				c, ok := e.(*slCopy)
				r.mu.Lock()
				defer r.mu.Unlock()
				if !ok {
					r.violate("Released called with an object that was never enqueued")
					return
				}
				r.noteLocked("Released", c.cp, err)
				st := &r.copies[c.cp]
				st.released++
				st.releasedInStop = r.phase == 1
				if peer != st.peer {
					r.violate("copy %d (e%d of batch %d) was reported released with peer %q", c.cp, st.ev, st.batch, peer)
				}
				if st.released > 1 {
					r.violate("copy %d (e%d of batch %d) was reported released %d times", c.cp, st.ev, st.batch, st.released)
				}
			},
		},
	}
}

// slOutcome: classification of one processor life
type slOutcome struct {
	stopBeforeWorkersRan bool // no callback at all had been observed when Stop() was called
	handledInsideStop    bool // a copy was handled (released / handed to the buffer) while Stop() was running
	releasedByFinalClear bool // a copy that had reached the buffer was released while Stop() was running
	cancelled            bool // an accepted batch has a copy that was never handled (Stop cancelled the batch)
	allReleased          bool // every copy of every accepted batch was released
	nothingHandled       bool
	settleSpins          int
}

// live runs the batches of the case through one fresh processor with the given stop mode.
func (r *slRun) live(life slLife) slOutcome {
	cs := r.cs
	cfg := dagprocessor.Config{
		EventsBufferLimit:      dag.Metric{Num: idx.Event(cs.BufNum), Size: 1 << 40},
		EventsSemaphoreTimeout: 10 * time.Second, // never waited for: the semaphore is ample
		MaxTasks:               len(cs.Batches) + 2,
	}
	baseline := runtime.NumGoroutine()
	p := dagprocessor.New(r.sem, cfg, r.callbacks())
	p.Start()
	if life.Stop == slStopYieldAfterStart {
		runtime.Gosched()
	}
	for b, bs := range cs.Batches {
		if bs.YieldBefore {
			runtime.Gosched()
		}
		events := make(dag.Events, len(bs.Events))
		for pos, ev := range bs.Events {
			events[pos] = &slCopy{TestEvent: r.base[ev], r: r, cp: r.batchCopies[b][pos], size: cs.Events[ev].Size}
		}
		b := b
		err := p.Enqueue(fmt.Sprintf("batch%d", b), events, bs.Ordered,
			func(hash.Events) { r.note("notifyAnnounces", -1, nil) },
			func() {
				r.mu.Lock()
				r.doneCalls[b]++
				r.noteLocked(fmt.Sprintf("done(batch%d)", b), -1, nil)
				r.mu.Unlock()
			})
		r.enqErr[b] = err
		r.accepted[b] = err == nil
	}
	switch life.Stop {
	case slStopGosched:
		runtime.Gosched()
	case slStopSleep:
		time.Sleep(time.Duration(life.SleepUs) * time.Microsecond)
	}
	var out slOutcome
	r.mu.Lock()
	out.stopBeforeWorkersRan = len(r.log) == 0
	r.phase = 1
	r.mu.Unlock()

	p.Stop()

	r.mu.Lock()
	r.phase = 2
	r.mu.Unlock()
	semAtStop := r.sem.Processing()

	// settle: goroutines of the harness first, then whatever the processor may have left behind (nothing,
	// if Stop really waited for its goroutines). Bounded; only decides how much is observed.
	r.own.Wait()
	for i := 0; i < 6; i++ {
		runtime.Gosched()
	}
	for deadline := time.Now().Add(3 * time.Millisecond); runtime.NumGoroutine() > baseline && time.Now().Before(deadline); {
		out.settleSpins++
		time.Sleep(50 * time.Microsecond)
	}

	r.mu.Lock()
	defer r.mu.Unlock()
	out.allReleased, out.nothingHandled = true, true
	for b := range cs.Batches {
		if r.doneCalls[b] > 1 {
			r.violate("done of batch %d was called %d times", b, r.doneCalls[b])
		}
		for _, cp := range r.batchCopies[b] {
			st := &r.copies[cp]
			handled := st.reachedBuffer || st.released > 0
			if !r.accepted[b] {
				continue // Enqueue returned an error: nothing is claimed (does not happen with the ample semaphore used here)
			}
			if handled {
				out.nothingHandled = false
				if st.released != 1 {
					r.violate("copy %d (e%d of accepted batch %d) was handled by the processor (reached the ordering buffer: %v) but was reported released %d times by the time Stop() had returned and the processor had settled",
						cp, st.ev, b, st.reachedBuffer, st.released)
				}
			} else {
				out.cancelled = true
			}
			if st.released == 0 {
				out.allReleased = false
			}
			if st.releasedInStop && st.reachedBuffer {
				out.releasedByFinalClear = true
			}
		}
	}
	if len(r.late) > 0 {
		r.violate("%d callbacks of the processor ran after Stop() had returned (Stop waits until all the internal goroutines have finished): %v", len(r.late), r.late)
	}
	for _, l := range r.log {
		if l.phase == 1 && (l.kind == "buffer.ID" || l.kind == "Released") {
			out.handledInsideStop = true
		}
	}
	sem := r.sem.Processing()
	if out.allReleased && (sem.Num != 0 || sem.Size != 0) {
		r.violate("every event of every accepted batch was reported released, but the events semaphore still holds %s (right after Stop(): %s)", sem.String(), semAtStop.String())
	}
	if tb := p.TotalBuffered(); tb.Num != 0 || tb.Size != 0 {
		r.violate("after Stop() the ordering buffer still holds %s", tb.String())
	}
	if r.warning != "" {
		r.violate("%s", r.warning)
	}
	return out
}

func (r *slRun) describe(life slLife) string {
	var b strings.Builder
	cs := r.cs
	b.WriteString("events:\n")
	for i, e := range cs.Events {
		fmt.Fprintf(&b, "  e%d <- %v lamport=%d size=%d", i, e.Parents, e.Lamport, e.Size)
		if e.Dangling {
			b.WriteString(" + a parent that is never supplied")
		}
		if e.FailProc {
			b.WriteString(" [process fails]")
		}
		b.WriteString("\n")
	}
	fmt.Fprintf(&b, "buffer limit %d events, highest known Lamport %d, GOMAXPROCS=%d, asynchronous check results: %v\n", cs.BufNum, cs.Highest, runtime.GOMAXPROCS(0), cs.AsyncCheck)
	b.WriteString("one fresh processor: Start()")
	if life.Stop == slStopYieldAfterStart {
		b.WriteString("; Gosched()")
	}
	for bi, bs := range cs.Batches {
		if bs.YieldBefore {
			b.WriteString("; Gosched()")
		}
		fmt.Fprintf(&b, "; Enqueue(batch%d ordered=%v events=%v checkFails=%v) = %v", bi, bs.Ordered, bs.Events, bs.CheckErr, r.enqErr[bi])
	}
	switch life.Stop {
	case slStopGosched:
		b.WriteString("; Gosched()")
	case slStopSleep:
		fmt.Fprintf(&b, "; Sleep(%dus)", life.SleepUs)
	}
	b.WriteString("; Stop()\nobserved:\n")
	phase := 0
	for _, l := range r.log {
		for phase < l.phase {
			phase++
			b.WriteString([]string{"", "  -- Stop() called\n", "  -- Stop() returned\n"}[phase])
		}
		if l.cp >= 0 {
			st := r.copies[l.cp]
			fmt.Fprintf(&b, "    %s(copy %d = e%d of batch%d) err=%v\n", l.kind, l.cp, st.ev, st.batch, l.err)
		} else {
			fmt.Fprintf(&b, "    %s\n", l.kind)
		}
	}
	for phase < 2 {
		phase++
		b.WriteString([]string{"", "  -- Stop() called\n", "  -- Stop() returned\n"}[phase])
	}
	return b.String()
}

// ---------------------------------------------------------------------------------------------
// generator and property

func genShortLived(t *rapid.T) *slCase {
	cs := &slCase{}
	n := rapid.IntRange(1, 6).Draw(t, "events")
	cs.BufNum = rapid.SampledFrom([]uint32{0, 1, 2, 100, 100, 100}).Draw(t, "bufferNum")
	cs.Highest = uint32(rapid.IntRange(0, 5).Draw(t, "highest"))
	for i := 0; i < n; i++ {
		var e slEvent
		lam := uint32(0)
		switch rapid.SampledFrom([]string{"root", "dangling", "dangling", "child", "child"}).Draw(t, "kind") {
		case "dangling":
			e.Dangling = true
			lam = uint32(rapid.IntRange(1, 4).Draw(t, "missingParentLamport"))
		case "child":
			k := rapid.IntRange(1, 2).Draw(t, "nparents")
			for j := 0; j < k && i > 0; j++ {
				p := rapid.IntRange(0, i-1).Draw(t, "parent")
				if len(e.Parents) == 0 || e.Parents[0] != p {
					e.Parents = append(e.Parents, p)
				}
			}
		}
		for _, p := range e.Parents {
			if cs.Events[p].Lamport > lam {
				lam = cs.Events[p].Lamport
			}
		}
		e.Lamport = lam + 1
		if rapid.IntRange(0, 9).Draw(t, "farAhead") == 0 {
			// more than the buffer's event limit plus one above the highest known Lamport: dropped at once
			e.Lamport = cs.Highest + cs.BufNum + 2 + uint32(rapid.IntRange(0, 3).Draw(t, "by"))
		}
		e.Size = rapid.IntRange(1, 300).Draw(t, "size")
		e.FailProc = rapid.IntRange(0, 9).Draw(t, "processFails") == 0
		cs.Events = append(cs.Events, e)
	}
	nb := rapid.SampledFrom([]int{1, 1, 1, 2, 2, 3}).Draw(t, "batches")
	for b := 0; b < nb; b++ {
		var bs slBatch
		bs.Ordered = rapid.Bool().Draw(t, "ordered")
		bs.YieldBefore = b > 0 && rapid.IntRange(0, 3).Draw(t, "yieldBeforeEnqueue") == 0
		k := rapid.IntRange(1, 5).Draw(t, "batchLen")
		start := rapid.IntRange(0, n-1).Draw(t, "from")
		for j := 0; j < k; j++ {
			var ev int
			if rapid.IntRange(0, 3).Draw(t, "anyEvent") == 0 {
				ev = rapid.IntRange(0, n-1).Draw(t, "event")
			} else {
				ev = (start + j) % n
			}
			bs.Events = append(bs.Events, ev)
			bs.CheckErr = append(bs.CheckErr, rapid.IntRange(0, 7).Draw(t, "checkFails") == 0)
		}
		cs.Batches = append(cs.Batches, bs)
	}
	cs.AsyncCheck = rapid.IntRange(0, 5).Draw(t, "asyncCheck") == 0
	lives := rapid.IntRange(8, 24).Draw(t, "lives")
	for i := 0; i < lives; i++ {
		var l slLife
		l.Stop = rapid.SampledFrom([]int{slStopNow, slStopNow, slStopNow, slStopGosched, slStopSleep, slStopYieldAfterStart}).Draw(t, "stopMode")
		if l.Stop == slStopSleep {
			l.SleepUs = rapid.SampledFrom([]int{1, 20, 100, 400}).Draw(t, "sleepUs")
		}
		cs.Lives = append(cs.Lives, l)
	}
	return cs
}

var stShort = stats.New("short_lived")

// TestC15ShortLived: see the file comment. One case = one set of batches given to 8-24 fresh
// processors, each stopped right after its last Enqueue (drawn: immediately / after Gosched / after a
// short sleep / Gosched between Start and the first Enqueue).
func TestC15ShortLived(t *testing.T) {
	rapid.Check(t, func(t *rapid.T) {
		cs := genShortLived(t)
		var nStopFirst, nInside, nClear, nCancelled, nAllReleased, nNothing, nSettle int64
		perMode := make([]int64, slStopModes)
		nontrivial := false
		for _, life := range cs.Lives {
			r := newSlRun(cs)
			out := r.live(life)
			if r.viol != "" {
				t.Fatalf("C15 violated: %s\n%s", r.viol, r.describe(life))
			}
			perMode[life.Stop]++
			count := func(b bool, n *int64) {
				if b {
					*n++
				}
			}
			count(out.stopBeforeWorkersRan, &nStopFirst)
			count(out.handledInsideStop, &nInside)
			count(out.releasedByFinalClear, &nClear)
			count(out.cancelled, &nCancelled)
			count(out.allReleased, &nAllReleased)
			count(out.nothingHandled, &nNothing)
			count(out.settleSpins > 0, &nSettle)
			if out.stopBeforeWorkersRan && out.releasedByFinalClear {
				nontrivial = true
			}
		}
		stShort.Class("lives_run", int64(len(cs.Lives)))
		for m, n := range perMode {
			stShort.Class("lives_"+slStopNames[m], n)
		}
		stShort.Class("lives_stop_called_before_any_worker_callback", nStopFirst)
		stShort.Class("lives_copy_handled_while_stop_was_running", nInside)
		stShort.Class("lives_buffered_copy_released_by_final_clear_of_stop", nClear)
		stShort.Class("lives_accepted_batch_cancelled_by_stop", nCancelled)
		stShort.Class("lives_every_accepted_copy_released", nAllReleased)
		stShort.Class("lives_nothing_handled", nNothing)
		stShort.Class("lives_waited_for_goroutines_after_stop", nSettle)
		classes := []string{fmt.Sprintf("batches_%d", len(cs.Batches))}
		add := func(b bool, name string) {
			if b {
				classes = append(classes, name)
			}
		}
		add(cs.AsyncCheck, "check_results_from_own_goroutines")
		add(nStopFirst > 0, "stop_called_before_any_worker_callback")
		add(nInside > 0, "copy_handled_while_stop_was_running")
		add(nClear > 0, "buffered_copy_released_by_final_clear_of_stop")
		add(nCancelled > 0, "accepted_batch_cancelled_by_stop")
		add(runtime.GOMAXPROCS(0) == 1, "gomaxprocs_1")
		// non-trivial: in at least one life Stop() was called before any callback of the workers was seen and a
		// copy that stayed incomplete in the ordering buffer was released by the final Clear of that Stop()
		stShort.Case(stats.Hash(*cs), nontrivial, classes...)
		stShort.Sample(func() interface{} { return cs })
	})
}
