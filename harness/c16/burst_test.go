package c16

import (
	"fmt"
	"testing"

	"pgregory.net/rapid"

	"verif/harness/internal/canary"
	"verif/harness/internal/stats"
)

var stBurst = stats.New("receiptburst")

// TestC16ReceiptBurst: several items are announced and stay interesting; while the application's OnlyInterested
// callback is slow once (the fetcher's loop is held inside it), each item is reported received with a call of its
// own - more reports than the fetcher's queue of MaxQueuedBatches holds. Every reported item must stop being
// requested shortly afterwards (T1), the others must still be requested (T4).
func TestC16ReceiptBurst(t *testing.T) {
	rapid.Check(t, func(t *rapid.T) {
		nItems := rapid.IntRange(3, 8).Draw(t, "items")
		h := history{
			ArriveMs:      rapid.SampledFrom([]int{30, 60}).Draw(t, "arriveMs"),
			ForgetMult:    100,
			Peers:         rapid.IntRange(2, 3).Draw(t, "peers"),
			Items:         nItems,
			MaxBatch:      rapid.SampledFrom([]int{2, 512}).Draw(t, "maxBatch"),
			MaxParallel:   rapid.SampledFrom([]int{1, 4}).Draw(t, "maxParallel"),
			Settle:        true,
			Template:      "receipt_burst_during_slow_callback",
			SlackMs:       150,
			QueuedBatches: rapid.SampledFrom([]int{1, 2, 2, 4, 32}).Draw(t, "queuedBatches"),
		}
		for x := 0; x < nItems; x++ {
			h.Ops = append(h.Ops, op{Kind: "announce", Peer: rapid.IntRange(0, h.Peers-1).Draw(t, "peer"), Items: []int{x},
				PauseQ: rapid.SampledFrom([]int{0, 0, 1}).Draw(t, "pauseQ")})
		}
		var burst []int
		for x := 0; x < nItems; x++ {
			if rapid.IntRange(0, 4).Draw(t, "received") != 0 {
				burst = append(burst, x)
			}
		}
		if len(burst) == 0 {
			burst = []int{0}
		}
		burst = rapid.Permutation(burst).Draw(t, "burstOrder")
		h.Ops = append(h.Ops, op{Kind: "receivedBurst", Items: burst})
		h.Ops = append(h.Ops, op{Kind: "resume", PauseQ: int((h.bound()+3*h.arrive())/(h.arrive()/4)) + 1})
		cn := canary.Start()
		v := run(h)
		over := cn.Stop() > h.tolerance()
		if v.safety != "" {
			t.Fatalf("%s\n%s", v.safety, describe(h, v))
		}
		if v.timing != "" {
			switch confirm(t, h, 0, &v) {
			case confirmed:
				t.Fatalf("%s (re-failed 3 times in a row with a quiet canary)\n%s", v.timing, describe(h, v))
			case dismissed:
				stBurst.Class("timing_suspect_not_confirmed", 1)
			}
			stBurst.Inconclusive()
			return
		}
		if over {
			stBurst.Class("canary_overslept", 1)
		}
		cl := []string{fmt.Sprintf("queue_%d", h.QueuedBatches)}
		if len(burst) > h.QueuedBatches {
			cl = append(cl, "more_reports_than_queue")
		}
		stBurst.Case(stats.Hash(fmt.Sprintf("%+v", h)), len(burst) > h.QueuedBatches, append(cl, v.classes...)...)
		stBurst.Sample(func() interface{} { return h })
	})
}
