// C16: the items fetcher asks the right peers and does not forget pending items.
//
// Timed histories (announcements from several peers, suspension toggles, receipts, interest changes,
// pauses) are played against a running fetcher with short real timeouts. Every peer has its own
// ItemsRequesterFn, so each request is attributable; OnlyInterested is logged. A timeline monitor
// written from the property text judges the log:
//
//	safety (logged order, timing independent):
//	  S1  a request (peer p, item x) is preceded by an announcement of x by p
//	  S2  ... and by an OnlyInterested call that returned x
//	timing policy (generous bounds, canary, three re-fails):
//	  T1  no request to p for x later than `grace` after x was reported received, unless p announced x anew
//	  T2  no request to p for x after x was not interesting for a whole `grace` window, unless p announced x since
//	  T3  no request for x when x has not been interesting at any moment of the last `grace`
//	  T4  an announced item that stays interesting and unreceived (and younger than the forget timeout)
//	      is requested within 4*ArriveTimeout + 1 s after max(announcement, end of suspension)
//
// The fetcher consumes announcements and receipts from two channels with a random select, so the
// processing order of a receipt and an announcement that are queued together is not defined. The
// driver therefore issues one operation at a time: an announcement carries a never-interesting
// marker item and the driver waits until OnlyInterested has seen the marker; after a receipt 40
// marker round trips are pushed (the receipt is still queued afterwards with probability 2^-40).
package c16

import (
	"fmt"
	"os"
	"sort"
	"strings"
	"sync"
	"testing"
	"time"

	"github.com/Fantom-foundation/lachesis-base/gossip/itemsfetcher"
	"pgregory.net/rapid"

	"verif/harness/internal/canary"
	"verif/harness/internal/stats"
)

func TestMain(m *testing.M) {
	code := m.Run()
	stats.Flush()
	os.Exit(code)
}

// ---------------------------------------------------------------------------------------------
// case description

type op struct {
	Kind   string // announce, suspend, resume, received, interest
	Peer   int    `json:",omitempty"`
	Items  []int  `json:",omitempty"`
	On     bool   `json:",omitempty"`
	PauseQ int    // pause after the operation in quarters of the arrive timeout
}

type history struct {
	ArriveMs      int
	ForgetMult    int // ForgetTimeout = ForgetMult * ArriveTimeout
	Peers         int
	Items         int
	MaxBatch      int
	MaxParallel   int
	InitSuspended bool
	Settle        bool  // wait until the fetcher has consumed its start-up timer tick before the first operation
	Uninterested  []int // items that are not interesting at the start
	Template      string
	Ops           []op
	// SlackMs > 0 selects the tight deadline 4*ArriveTimeout + SlackMs (many-peers unit); runs whose canary
	// overslept more than a quarter of the slack are not counted
	SlackMs int `json:",omitempty"`
	// QueuedBatches is the fetcher's MaxQueuedBatches (32 when zero)
	QueuedBatches int `json:",omitempty"`
}

func (h history) arrive() time.Duration { return time.Duration(h.ArriveMs) * time.Millisecond }
func (h history) forget() time.Duration { return time.Duration(h.ForgetMult) * h.arrive() }

// bound for "shortly"/"a small multiple of the arrive timeout": nominal <= ~2.2 A (re-fetch period plus
// timer granularity); the timing policy asks for >= 10x nominal + 1 s only where nominal is tiny, here
// 4 A + 1 s is far above 10x the scheduling-only nominal of the stop clauses and above the re-fetch period.
func (h history) bound() time.Duration {
	if h.SlackMs > 0 {
		return 4*h.arrive() + time.Duration(h.SlackMs)*time.Millisecond
	}
	return 4*h.arrive() + time.Second
}

// tolerance is the canary oversleep above which a run of this history is not trusted.
func (h history) tolerance() time.Duration {
	if h.SlackMs > 0 {
		return time.Duration(h.SlackMs) * time.Millisecond / 4
	}
	return canary.Tolerance
}

const markerBase = 1000
const roundTripPeer = -1

// ---------------------------------------------------------------------------------------------
// timeline

type evKind int

const (
	evAnn evKind = iota
	evRecv
	evInterest
	evSuspend
	evReq
	evOI
)

type event struct {
	Kind  evKind
	T     time.Duration // ann: call; recv: call; others: occurrence
	T2    time.Duration // ann: processed by the fetcher; recv: certainly consumed
	Done  bool          // T2 valid
	Peer  int
	Items []int
	Ret   []int
	On    bool
}

func (e *event) has(x int) bool {
	for _, y := range e.Items {
		if y == x {
			return true
		}
	}
	return false
}

func contains(s []int, x int) bool {
	for _, y := range s {
		if y == x {
			return true
		}
	}
	return false
}

type runner struct {
	h  history
	t0 time.Time

	mu         sync.Mutex
	log        []*event
	interested map[int]bool
	suspended  bool
	markerSeen map[int]bool
	wake       chan struct{}

	f          *itemsfetcher.Fetcher
	nextMarker int

	gate        chan struct{} // when set, the next OnlyInterested call blocks until it is closed
	gateEntered chan struct{}
}

func (r *runner) now() time.Duration { return time.Since(r.t0) }

// add appends under the lock, so that log order and time order agree.
func (r *runner) add(e *event) *event {
	r.mu.Lock()
	e.T = r.now()
	r.log = append(r.log, e)
	r.mu.Unlock()
	return e
}

func (r *runner) onlyInterested(ids []interface{}) []interface{} {
	// a slow application callback: the armed gate holds this one call (and with it the fetcher's loop)
	r.mu.Lock()
	g := r.gate
	r.gate = nil
	r.mu.Unlock()
	if g != nil {
		r.gateEntered <- struct{}{}
		<-g
	}
	r.mu.Lock()
	defer r.mu.Unlock()
	e := &event{Kind: evOI, T: r.now()}
	res := make([]interface{}, 0, len(ids))
	for _, id := range ids {
		x := id.(int)
		if x >= markerBase {
			r.markerSeen[x] = true
			continue
		}
		e.Items = append(e.Items, x)
		if r.interested[x] {
			res = append(res, id)
			e.Ret = append(e.Ret, x)
		}
	}
	r.log = append(r.log, e)
	select {
	case r.wake <- struct{}{}:
	default:
	}
	return res
}

func (r *runner) requester(peer int) itemsfetcher.ItemsRequesterFn {
	return func(ids []interface{}) error {
		e := &event{Kind: evReq, Peer: peer}
		for _, id := range ids {
			e.Items = append(e.Items, id.(int))
		}
		r.add(e)
		return nil
	}
}

const hardTimeout = 20 * time.Second

// announce sends ids plus a fresh marker and waits until the fetcher has looked at the marker.
func (r *runner) announce(peer int, items []int) (processed time.Duration, err error) {
	r.mu.Lock()
	r.nextMarker++
	marker := markerBase + r.nextMarker
	r.mu.Unlock()
	ids := make([]interface{}, 0, len(items)+1)
	for _, x := range items {
		ids = append(ids, x)
	}
	ids = append(ids, marker)
	if e := r.f.NotifyAnnounces(fmt.Sprintf("peer%d", peer), ids, time.Now(), r.requester(peer)); e != nil {
		return 0, e
	}
	deadline := time.Now().Add(hardTimeout)
	for {
		r.mu.Lock()
		seen := r.markerSeen[marker]
		r.mu.Unlock()
		if seen {
			return r.now(), nil
		}
		d := time.Until(deadline)
		if d <= 0 {
			return 0, fmt.Errorf("announcement not consumed by the fetcher loop within %v", hardTimeout)
		}
		tm := time.NewTimer(d)
		select {
		case <-r.wake:
			tm.Stop()
		case <-tm.C:
		}
	}
}

type verdict struct {
	safety       string
	timing       string
	inconclusive bool
	classes      []string
	nontrivial   bool
	logText      string
	duration     time.Duration
}

func run(h history) verdict {
	r := &runner{h: h, t0: time.Now(), interested: map[int]bool{}, markerSeen: map[int]bool{}, wake: make(chan struct{}, 1)}
	for x := 0; x < h.Items; x++ {
		r.interested[x] = !contains(h.Uninterested, x)
	}
	r.suspended = h.InitSuspended
	cfg := itemsfetcher.Config{
		ForgetTimeout:       h.forget(),
		ArriveTimeout:       h.arrive(),
		GatherSlack:         h.arrive() / 10,
		HashLimit:           10000,
		MaxBatch:            h.MaxBatch,
		MaxParallelRequests: h.MaxParallel,
		MaxQueuedBatches:    32,
	}
	if h.QueuedBatches > 0 {
		cfg.MaxQueuedBatches = h.QueuedBatches
	}
	r.gateEntered = make(chan struct{}, 1)
	r.f = itemsfetcher.New(cfg, itemsfetcher.Callback{
		OnlyInterested: r.onlyInterested,
		Suspend: func() bool {
			r.mu.Lock()
			defer r.mu.Unlock()
			return r.suspended
		},
	})
	r.f.Start()
	defer r.f.Stop()

	var v verdict
	infra := func(err error) verdict {
		v.timing = err.Error()
		v.logText = r.render()
		return v
	}
	if h.Settle {
		// The loop starts with an expired timer. Until that first tick is consumed the fetcher is not
		// idle (a tick that comes after the first announcement re-fetches and re-arms). Each marker round
		// trip is one select in which the tick loses with probability 1/2.
		for i := 0; i < 40; i++ {
			if _, err := r.announce(roundTripPeer, nil); err != nil {
				return infra(err)
			}
		}
	}
	for _, o := range h.Ops {
		switch o.Kind {
		case "announce":
			e := r.add(&event{Kind: evAnn, Peer: o.Peer, Items: o.Items})
			t2, err := r.announce(o.Peer, o.Items)
			if err != nil {
				return infra(err)
			}
			r.mu.Lock()
			e.T2, e.Done = t2, true
			r.mu.Unlock()
		case "received":
			e := r.add(&event{Kind: evRecv, Items: o.Items})
			ids := make([]interface{}, len(o.Items))
			for i, x := range o.Items {
				ids[i] = x
			}
			if err := r.f.NotifyReceived(ids); err != nil {
				return infra(err)
			}
			for i := 0; i < 40; i++ {
				if _, err := r.announce(roundTripPeer, nil); err != nil {
					return infra(err)
				}
			}
			r.mu.Lock()
			e.T2, e.Done = r.now(), true
			r.mu.Unlock()
		case "receivedBurst":
			// the application's OnlyInterested callback is slow once (the loop is held inside it) while every item
			// is reported received with a call of its own: more reports than the fetcher queues. All of them
			// count as reported.
			g := make(chan struct{})
			r.mu.Lock()
			r.gate = g
			r.mu.Unlock()
			annDone := make(chan error, 1)
			go func() { _, err := r.announce(roundTripPeer, nil); annDone <- err }()
			select {
			case <-r.gateEntered:
			case <-time.After(hardTimeout):
				close(g)
				return infra(fmt.Errorf("the fetcher loop did not call OnlyInterested within %v", hardTimeout))
			}
			e := r.add(&event{Kind: evRecv, Items: o.Items})
			recvDone := make(chan error, 1)
			go func() {
				for _, x := range o.Items {
					if err := r.f.NotifyReceived([]interface{}{x}); err != nil {
						recvDone <- err
						return
					}
				}
				recvDone <- nil
			}()
			time.Sleep(h.arrive() / 4)
			close(g)
			if err := <-recvDone; err != nil {
				return infra(err)
			}
			if err := <-annDone; err != nil {
				return infra(err)
			}
			for i := 0; i < 40; i++ {
				if _, err := r.announce(roundTripPeer, nil); err != nil {
					return infra(err)
				}
			}
			r.mu.Lock()
			e.T2, e.Done = r.now(), true
			r.mu.Unlock()
		case "interest":
			r.mu.Lock()
			r.interested[o.Items[0]] = o.On
			r.log = append(r.log, &event{Kind: evInterest, T: r.now(), Items: o.Items, On: o.On})
			r.mu.Unlock()
		case "suspend", "resume":
			r.mu.Lock()
			r.suspended = o.Kind == "suspend"
			r.log = append(r.log, &event{Kind: evSuspend, T: r.now(), On: r.suspended})
			r.mu.Unlock()
		}
		if o.PauseQ > 0 {
			time.Sleep(time.Duration(o.PauseQ) * h.arrive() / 4)
		}
	}
	// keep observing until every obligation is settled and the stop clauses had time to show
	for {
		r.mu.Lock()
		res := evaluate(h, r.log, r.now())
		r.mu.Unlock()
		if res.safety != "" || res.timing != "" || r.now() >= res.waitUntil {
			v.safety, v.timing = res.safety, res.timing
			v.classes, v.nontrivial = res.classes, res.nontrivial
			break
		}
		d := res.waitUntil - r.now()
		if d > h.arrive()/2 {
			d = h.arrive() / 2
		}
		time.Sleep(d)
	}
	v.duration = r.now()
	if v.safety != "" || v.timing != "" {
		v.logText = r.render()
	}
	return v
}

func (r *runner) render() string {
	r.mu.Lock()
	defer r.mu.Unlock()
	var sb strings.Builder
	for _, e := range r.log {
		ms := func(d time.Duration) string { return fmt.Sprintf("%7.1fms", float64(d)/1e6) }
		switch e.Kind {
		case evAnn:
			fmt.Fprintf(&sb, "  %s announce(peer%d, %v) processed@%s\n", ms(e.T), e.Peer, e.Items, ms(e.T2))
		case evRecv:
			fmt.Fprintf(&sb, "  %s received(%v) consumed-by@%s\n", ms(e.T), e.Items, ms(e.T2))
		case evInterest:
			fmt.Fprintf(&sb, "  %s interest(%v)=%v\n", ms(e.T), e.Items, e.On)
		case evSuspend:
			fmt.Fprintf(&sb, "  %s suspended=%v\n", ms(e.T), e.On)
		case evReq:
			fmt.Fprintf(&sb, "  %s REQUEST to peer%d for %v\n", ms(e.T), e.Peer, e.Items)
		case evOI:
			if len(e.Items) > 0 {
				fmt.Fprintf(&sb, "  %s OnlyInterested(%v)->%v\n", ms(e.T), e.Items, e.Ret)
			}
		}
	}
	return sb.String()
}

// ---------------------------------------------------------------------------------------------
// the monitor

type evalResult struct {
	safety, timing string
	waitUntil      time.Duration
	classes        []string
	nontrivial     bool
}

func evaluate(h history, log []*event, now time.Duration) evalResult {
	var res evalResult
	bound := h.bound()
	grace := h.bound()
	A := h.arrive()
	cls := map[string]bool{}

	interestAt := func(x int, t time.Duration) bool {
		v := !contains(h.Uninterested, x)
		for _, e := range log {
			if e.Kind == evInterest && e.Items[0] == x && e.T <= t {
				v = e.On
			}
		}
		return v
	}
	interestedSometimeIn := func(x int, from, to time.Duration) bool {
		if interestAt(x, from) {
			return true
		}
		for _, e := range log {
			if e.Kind == evInterest && e.Items[0] == x && e.On && e.T >= from && e.T <= to {
				return true
			}
		}
		return false
	}
	// uninterestedWindowBefore: start of a window of at least `min` that ends before t during which x was not
	// interesting at any moment (the latest such window)
	uninterestedWindowBefore := func(x int, t, min time.Duration) (time.Duration, bool) {
		on := !contains(h.Uninterested, x)
		var start time.Duration
		found, at := false, time.Duration(0)
		for _, e := range log {
			if e.Kind != evInterest || e.Items[0] != x || e.T > t {
				continue
			}
			if !on && e.On && e.T-start >= min {
				found, at = true, start
			}
			if on && !e.On {
				start = e.T
			}
			on = e.On
		}
		if !on && t-start >= min {
			found, at = true, start
		}
		return at, found
	}
	suspendedAt := func(t time.Duration) bool {
		v := h.InitSuspended
		for _, e := range log {
			if e.Kind == evSuspend && e.T <= t {
				v = e.On
			}
		}
		return v
	}
	ms := func(d time.Duration) string { return fmt.Sprintf("%.1fms", float64(d)/1e6) }

	// requests
	for i, e := range log {
		if e.Kind != evReq {
			continue
		}
		for _, x := range e.Items {
			announcedByPeer, returned, live := false, false, false
			for _, a := range log[:i] {
				switch {
				case a.Kind == evAnn && a.Peer == e.Peer && a.has(x):
					announcedByPeer = true
					cleared := false
					if a.Done {
						for _, rc := range log[:i] {
							if rc.Kind == evRecv && rc.has(x) && rc.Done && rc.T > a.T2 && rc.T2+grace < e.T {
								cleared = true
							}
						}
					}
					if !cleared {
						live = true
					}
				case a.Kind == evOI && contains(a.Ret, x):
					returned = true
				}
			}
			if !announcedByPeer && res.safety == "" {
				res.safety = fmt.Sprintf("S1: item %d requested from peer%d at %s, but peer%d never announced it", x, e.Peer, ms(e.T), e.Peer)
			}
			if !returned && res.safety == "" {
				res.safety = fmt.Sprintf("S2: item %d requested from peer%d at %s, but OnlyInterested never returned it before", x, e.Peer, ms(e.T))
			}
			if announcedByPeer && !live && res.timing == "" {
				res.timing = fmt.Sprintf("T1: item %d requested from peer%d at %s, more than %s after it was reported received, and peer%d has not announced it anew", x, e.Peer, ms(e.T), ms(grace), e.Peer)
			}
			// T2: x was continuously not interesting for `grace` (a re-fetch round fell into that window, the item was
			// reported not interesting there and dropped), it has become interesting again, and the peer has not
			// announced it since the window began: nothing may be requested
			if w, ok := uninterestedWindowBefore(x, e.T, grace); ok && res.timing == "" {
				anew := false
				for _, a := range log[:i] {
					if a.Kind == evAnn && a.Peer == e.Peer && a.has(x) && (a.T >= w || a.T2 >= w) {
						anew = true
					}
				}
				if !anew {
					cls["request_after_interest_returned"] = true
					res.timing = fmt.Sprintf("T2: item %d requested from peer%d at %s, although it had been reported not interesting for more than %s (since %s) and peer%d has not announced it anew",
						x, e.Peer, ms(e.T), ms(grace), ms(w), e.Peer)
				}
			}
			from := e.T - grace
			if from < 0 {
				from = 0
			}
			if returned && !interestedSometimeIn(x, from, e.T) && res.timing == "" {
				res.timing = fmt.Sprintf("T3: item %d requested from peer%d at %s, although it has not been interesting for more than %s", x, e.Peer, ms(e.T), ms(grace))
			}
		}
	}

	// obligations
	firstAnn := map[int]time.Duration{}
	for _, e := range log {
		if e.Kind == evAnn {
			for _, x := range e.Items {
				if _, ok := firstAnn[x]; !ok {
					firstAnn[x] = e.T
				}
			}
		}
	}
	for _, a := range log {
		if a.Kind != evAnn || !a.Done || a.Peer == roundTripPeer {
			continue
		}
		for _, x := range a.Items {
			if !interestAt(x, a.T) {
				cls["announce_uninteresting"] = true
				continue
			}
			tu := a.T
			if suspendedAt(a.T) {
				cls["announced_while_suspended"] = true
				found := false
				for _, s := range log {
					if s.Kind == evSuspend && !s.On && s.T > a.T {
						tu, found = s.T, true
						break
					}
				}
				if !found {
					cls["never_unsuspended"] = true
					continue
				}
			}
			D := tu + bound
			broken := false
			for _, s := range log {
				if s.T < a.T || s.T > D {
					continue
				}
				if s.Kind == evInterest && s.Items[0] == x && !s.On {
					broken = true
					cls["interest_revoked_while_pending"] = true
				}
				if s.Kind == evRecv && s.has(x) {
					broken = true
					cls["received_while_pending"] = true
				}
			}
			if broken {
				continue
			}
			if D-firstAnn[x] >= h.forget()-A {
				cls["deadline_waived_forget_timeout"] = true
				continue
			}
			satisfied := false
			for _, q := range log {
				if q.Kind == evReq && q.has(x) && q.T >= a.T && q.T <= D {
					satisfied = true
					break
				}
			}
			if satisfied {
				cls["deadline_met"] = true
				continue
			}
			if now > D {
				if res.timing == "" {
					res.timing = fmt.Sprintf("T4: item %d announced by peer%d at %s (suspension over at %s) stayed interesting and unreceived but was not requested until %s", x, a.Peer, ms(a.T), ms(tu), ms(D))
				}
			} else if D > res.waitUntil {
				res.waitUntil = D // unresolved
			}
		}
	}

	// every history is observed for at least two re-fetch periods after its last operation
	for _, e := range log {
		if e.Kind != evReq && e.Kind != evOI {
			at := e.T
			if e.Done {
				at = e.T2
			}
			if t := at + 5*A/2; t > res.waitUntil {
				res.waitUntil = t
			}
		}
	}
	// the stop clauses need observation time after a stop event on an announced item
	if h.ForgetMult > 5 {
		for i, s := range log {
			var at time.Duration
			switch {
			case s.Kind == evRecv && s.Done:
				at = s.T2
			case s.Kind == evInterest && !s.On:
				at = s.T
			default:
				continue
			}
			for _, x := range s.Items {
				for _, a := range log[:i] {
					if a.Kind == evAnn && a.has(x) {
						if t := at + grace + 2*A; t > res.waitUntil {
							res.waitUntil = t
						}
					}
				}
			}
		}
	}

	// classes
	reqCount := map[int]int{}
	reqPeers := map[int]map[int]bool{}
	annPeers := map[int]map[int]bool{}
	for _, e := range log {
		switch e.Kind {
		case evReq:
			for _, x := range e.Items {
				reqCount[x]++
				if reqPeers[x] == nil {
					reqPeers[x] = map[int]bool{}
				}
				reqPeers[x][e.Peer] = true
			}
		case evAnn:
			for _, x := range e.Items {
				if annPeers[x] == nil {
					annPeers[x] = map[int]bool{}
				}
				annPeers[x][e.Peer] = true
			}
		}
	}
	for x, n := range reqCount {
		if n >= 2 {
			cls["refetched"] = true
			if len(annPeers[x]) >= 2 {
				cls["multi_announcer_refetch"] = true
			}
		}
		if len(reqPeers[x]) >= 2 {
			cls["requested_from_two_peers"] = true
		}
	}
	res.nontrivial = cls["multi_announcer_refetch"] || (cls["announced_while_suspended"] && !cls["never_unsuspended"])
	for c := range cls {
		res.classes = append(res.classes, c)
	}
	sort.Strings(res.classes)
	return res
}

// ---------------------------------------------------------------------------------------------
// generator

func genHistory(t *rapid.T, label string) history {
	h := history{
		ArriveMs:    rapid.SampledFrom([]int{30, 60}).Draw(t, label+".arriveMs"),
		ForgetMult:  rapid.SampledFrom([]int{5, 100, 100}).Draw(t, label+".forgetMult"),
		Peers:       rapid.IntRange(2, 3).Draw(t, label+".peers"),
		Items:       rapid.IntRange(1, 6).Draw(t, label+".items"),
		MaxBatch:    rapid.SampledFrom([]int{2, 512}).Draw(t, label+".maxBatch"),
		MaxParallel: rapid.SampledFrom([]int{1, 4}).Draw(t, label+".maxParallel"),
	}
	pause := func() int {
		return rapid.SampledFrom([]int{0, 0, 0, 1, 1, 2, 4, 4, 12}).Draw(t, label+".pauseQ")
	}
	items := func(min int) []int {
		n := rapid.IntRange(min, h.Items).Draw(t, label+".nItems")
		if n > 3 {
			n = 3
		}
		set := map[int]bool{}
		var res []int
		for len(res) < n {
			x := rapid.IntRange(0, h.Items-1).Draw(t, label+".item")
			if !set[x] {
				set[x] = true
				res = append(res, x)
			}
		}
		return res
	}
	for x := 0; x < h.Items; x++ {
		if rapid.IntRange(0, 5).Draw(t, label+".uninterested?") == 5 {
			h.Uninterested = append(h.Uninterested, x)
		}
	}
	switch rapid.SampledFrom([]int{0, 1, 1, 2, 3}).Draw(t, label+".template") {
	case 0:
		// everything is announced while the fetcher is suspended; nothing is announced afterwards
		h.Template = "announce_only_while_suspended"
		h.InitSuspended = true
		h.Settle = true
		h.Uninterested = nil
		n := rapid.IntRange(1, 2).Draw(t, label+".announces")
		announced := map[int]bool{}
		for i := 0; i < n; i++ {
			its := items(1)
			for _, x := range its {
				announced[x] = true
			}
			h.Ops = append(h.Ops, op{Kind: "announce", Peer: rapid.IntRange(0, h.Peers-1).Draw(t, label+".peer"), Items: its, PauseQ: pause()})
		}
		h.Ops = append(h.Ops, op{Kind: "resume", PauseQ: pause()})
		var others []int
		for x := 0; x < h.Items; x++ {
			if !announced[x] {
				others = append(others, x)
			}
		}
		m := rapid.IntRange(0, 3).Draw(t, label+".after")
		for i := 0; i < m && len(others) > 0; i++ {
			x := rapid.SampledFrom(others).Draw(t, label+".other")
			if rapid.Bool().Draw(t, label+".recvOther") {
				h.Ops = append(h.Ops, op{Kind: "received", Items: []int{x}, PauseQ: pause()})
			} else {
				h.Ops = append(h.Ops, op{Kind: "interest", Items: []int{x}, On: rapid.Bool().Draw(t, label+".on"), PauseQ: pause()})
			}
		}
	case 1:
		// two groups of items are announced a little apart, the first group arrives, later another
		// peer announces the still pending group (re-fetch driven by the timer only)
		h.Template = "staggered_then_second_announcer"
		h.Settle = true
		h.Uninterested = nil
		short := func() int { return rapid.SampledFrom([]int{0, 1, 1, 2, 2, 4}).Draw(t, label+".shortPauseQ") }
		min := 1
		if h.Items >= 2 {
			min = 2
		}
		all := items(min)
		cut := rapid.IntRange(0, len(all)-1).Draw(t, label+".cut")
		if len(all) > 1 && cut == 0 {
			cut = 1
		}
		first, second := all[:cut], all[cut:]
		p1 := rapid.IntRange(0, h.Peers-1).Draw(t, label+".peer")
		p2 := rapid.IntRange(0, h.Peers-1).Draw(t, label+".peer")
		if len(first) > 0 {
			h.Ops = append(h.Ops, op{Kind: "announce", Peer: p1, Items: first, PauseQ: short()})
		}
		h.Ops = append(h.Ops, op{Kind: "announce", Peer: p2, Items: second, PauseQ: short()})
		if len(first) > 0 {
			h.Ops = append(h.Ops, op{Kind: "received", Items: first, PauseQ: pause()})
		}
		if rapid.Bool().Draw(t, label+".extraPause") {
			h.Ops = append(h.Ops, op{Kind: "resume", PauseQ: pause()})
		}
		h.Ops = append(h.Ops, op{Kind: "announce", Peer: (p2 + 1) % h.Peers, Items: second, PauseQ: pause()})
	default:
		h.Template = "free"
		h.InitSuspended = rapid.IntRange(0, 3).Draw(t, label+".initSuspended") == 3
		h.Settle = rapid.IntRange(0, 3).Draw(t, label+".settle") != 3
		n := rapid.IntRange(3, 14).Draw(t, label+".ops")
		kinds := []string{"announce", "announce", "announce", "announce", "announce", "suspend", "resume", "resume", "received", "received", "interestOff", "interestOn"}
		for i := 0; i < n; i++ {
			k := rapid.SampledFrom(kinds).Draw(t, label+".kind")
			o := op{Kind: k, PauseQ: pause()}
			switch k {
			case "announce":
				o.Peer = rapid.IntRange(0, h.Peers-1).Draw(t, label+".peer")
				o.Items = items(1)
			case "received":
				o.Items = items(1)
			case "interestOff", "interestOn":
				o.Kind = "interest"
				o.On = k == "interestOn"
				o.Items = []int{rapid.IntRange(0, h.Items-1).Draw(t, label+".item")}
			}
			h.Ops = append(h.Ops, o)
		}
	}
	return h
}

// ---------------------------------------------------------------------------------------------
// property

var st = stats.New("histories")

const batch = 10 // histories per rapid case, run concurrently (each one mostly sleeps)

func describe(h history, v verdict) string {
	return fmt.Sprintf("%+v\ntimeline:\n%s", h, v.logText)
}

func TestC16Timeline(t *testing.T) {
	rapid.Check(t, func(t *rapid.T) {
		hs := make([]history, batch)
		for i := range hs {
			hs[i] = genHistory(t, fmt.Sprintf("h%d", i))
		}
		cn := canary.Start()
		vs := make([]verdict, batch)
		var wg sync.WaitGroup
		for i := range hs {
			wg.Add(1)
			go func(i int) {
				defer wg.Done()
				vs[i] = run(hs[i])
			}(i)
		}
		wg.Wait()
		overloaded := cn.Stop() > canary.Tolerance
		for i, v := range vs {
			if v.safety != "" {
				t.Fatalf("%s\nhistory %d: %s", v.safety, i, describe(hs[i], v))
			}
		}
		if overloaded {
			st.Class("batch_canary_overslept", 1)
		}
		for i, v := range vs {
			if v.timing != "" {
				// timing policy: a suspect is reported only if the same history, run alone, re-fails three
				// times in a row; runs during which the canary overslept are not counted either way
				switch confirm(t, hs[i], i, &v) {
				case confirmed:
					t.Fatalf("%s (re-failed 3 times in a row)\nhistory %d: %s", v.timing, i, describe(hs[i], v))
				case dismissed:
					st.Class("timing_suspect_not_confirmed", 1)
				}
				st.Inconclusive()
				continue
			}
			cl := append([]string{"template_" + hs[i].Template, fmt.Sprintf("forget_%dA", hs[i].ForgetMult)}, v.classes...)
			st.Case(stats.Hash(fmt.Sprintf("%+v", hs[i])), v.nontrivial, cl...)
			hi := hs[i]
			st.Sample(func() interface{} { return hi })
		}
	})
}

type confirmation int

const (
	confirmed confirmation = iota
	dismissed
	undecided
)

func confirm(t *rapid.T, h history, idx int, v *verdict) confirmation {
	refails := 0
	for attempt := 0; attempt < 10 && refails < 3; attempt++ {
		cn := canary.Start()
		r := run(h)
		over := cn.Stop() > h.tolerance()
		if r.safety != "" {
			t.Fatalf("%s\nhistory %d: %s", r.safety, idx, describe(h, r))
		}
		if over {
			continue
		}
		if r.timing == "" {
			return dismissed
		}
		refails++
		*v = r
	}
	if refails == 3 {
		return confirmed
	}
	return undecided
}

// TestC16Regression: F3 (DESIGN.md §5) as a fixed history -- an item announced while the fetcher is
// suspended and idle must be requested once the suspension ends.
func TestC16Regression(t *testing.T) {
	h := history{ArriveMs: 30, ForgetMult: 100, Peers: 2, Items: 2, MaxBatch: 512, MaxParallel: 4, InitSuspended: true, Settle: true,
		Template: "regression", Ops: []op{{Kind: "announce", Peer: 0, Items: []int{0}, PauseQ: 4}, {Kind: "resume"}}}
	fails := 0
	var last verdict
	for attempt := 0; attempt < 12 && fails < 4; attempt++ {
		cn := canary.Start()
		v := run(h)
		over := cn.Stop() > canary.Tolerance
		if v.safety != "" {
			t.Fatalf("%s\n%s", v.safety, describe(h, v))
		}
		if over {
			continue
		}
		if v.timing == "" {
			break
		}
		fails++
		last = v
	}
	if fails == 4 {
		t.Fatalf("%s (failed 4 times in a row)\n%s", last.timing, describe(h, last))
	}
	stReg.Evals(1)
	stReg.Class("regression_scripts", 1)
	stReg.Sample(func() interface{} { return "hand-written regression histories" })
}

var stReg = stats.New("regression")
