package c16

import (
	"fmt"
	"testing"

	"pgregory.net/rapid"

	"verif/harness/internal/canary"
	"verif/harness/internal/stats"
)

var stFlip = stats.New("interestflip")

// TestC16InterestFlip: some items are announced, then every pending item is reported not interesting for longer
// than the "shortly" bound (several re-fetch rounds see nothing interesting at all), then some of them become
// interesting again without a new announcement, and a few are announced anew by another peer. Only the ones
// announced anew may be requested afterwards (T2), and those must be (T4).
func TestC16InterestFlip(t *testing.T) {
	rapid.Check(t, func(t *rapid.T) {
		nItems := rapid.IntRange(1, 3).Draw(t, "items")
		h := history{
			ArriveMs:    rapid.SampledFrom([]int{30, 60}).Draw(t, "arriveMs"),
			ForgetMult:  100,
			Peers:       rapid.IntRange(2, 3).Draw(t, "peers"),
			Items:       nItems,
			MaxBatch:    rapid.SampledFrom([]int{2, 512}).Draw(t, "maxBatch"),
			MaxParallel: rapid.SampledFrom([]int{1, 4}).Draw(t, "maxParallel"),
			Settle:      true,
			Template:    "interest_off_for_long_then_on",
			SlackMs:     150,
		}
		for x := 0; x < nItems; x++ {
			h.Ops = append(h.Ops, op{Kind: "announce", Peer: rapid.IntRange(0, h.Peers-1).Draw(t, "peer"), Items: []int{x},
				PauseQ: rapid.SampledFrom([]int{0, 0, 1, 5}).Draw(t, "pauseQ")})
		}
		for x := 0; x < nItems; x++ {
			q := 0
			if x == nItems-1 {
				// all pending items stay uninteresting for the whole bound and two more arrive timeouts
				q = int((h.bound()+2*h.arrive())/(h.arrive()/4)) + 1
			}
			h.Ops = append(h.Ops, op{Kind: "interest", Items: []int{x}, On: false, PauseQ: q})
		}
		anew := 0
		for x := 0; x < nItems; x++ {
			switch rapid.IntRange(0, 3).Draw(t, "afterwards") {
			case 0: // stays uninteresting
			case 1:
				h.Ops = append(h.Ops, op{Kind: "interest", Items: []int{x}, On: true})
				h.Ops = append(h.Ops, op{Kind: "announce", Peer: rapid.IntRange(0, h.Peers-1).Draw(t, "peerAnew"), Items: []int{x}})
				anew++
			default:
				h.Ops = append(h.Ops, op{Kind: "interest", Items: []int{x}, On: true})
			}
		}
		h.Ops = append(h.Ops, op{Kind: "resume", PauseQ: 14}) // (no-op) three and a half arrive timeouts of observation
		cn := canary.Start()
		v := run(h)
		over := cn.Stop() > h.tolerance()
		if v.safety != "" {
			t.Fatalf("%s\n%s", v.safety, describe(h, v))
		}
		if v.timing != "" {
			switch confirm(t, h, 0, &v) {
			case confirmed:
				t.Fatalf("%s (re-failed 3 times in a row with a quiet canary)\n%s", v.timing, describe(h, v))
			case dismissed:
				stFlip.Class("timing_suspect_not_confirmed", 1)
			}
			stFlip.Inconclusive()
			return
		}
		if over {
			stFlip.Class("canary_overslept", 1)
		}
		stFlip.Case(stats.Hash(fmt.Sprintf("%+v", h)), true, append([]string{fmt.Sprintf("items_%d", nItems), fmt.Sprintf("announced_anew_%d", anew)}, v.classes...)...)
		stFlip.Sample(func() interface{} { return h })
	})
}
