package c16

import (
	"fmt"
	"testing"

	"pgregory.net/rapid"

	"verif/harness/internal/canary"
	"verif/harness/internal/stats"
)

var stMany = stats.New("manypeers")

// TestC16ManyPeers: 5-8 peers each announce their own item while the (idle, settled) fetcher is suspended,
// then the suspension ends and nothing else happens. Every item must be requested from its announcer
// within 4*ArriveTimeout (+ a small slack; runs with a noisy canary are not counted, a suspect must re-fail
// three times in a row). With many peers due in the same timer round this is the class in which a round
// that serves only some of the due peers shows up reliably; the generic unit's "+1 s" bound hides it.
func TestC16ManyPeers(t *testing.T) {
	rapid.Check(t, func(t *rapid.T) {
		n := rapid.IntRange(5, 8).Draw(t, "peers")
		h := history{
			ArriveMs:      rapid.SampledFrom([]int{30, 60}).Draw(t, "arriveMs"),
			ForgetMult:    100,
			Peers:         n,
			Items:         n,
			MaxBatch:      rapid.SampledFrom([]int{2, 512}).Draw(t, "maxBatch"),
			MaxParallel:   rapid.SampledFrom([]int{1, 4}).Draw(t, "maxParallel"),
			InitSuspended: true,
			Settle:        true,
			Template:      "many_peers_announce_while_suspended",
			SlackMs:       150,
		}
		order := rapid.Permutation(seqInts(n)).Draw(t, "announceOrder")
		for _, p := range order {
			h.Ops = append(h.Ops, op{Kind: "announce", Peer: p, Items: []int{p}, PauseQ: rapid.SampledFrom([]int{0, 0, 1}).Draw(t, "pauseQ")})
		}
		h.Ops = append(h.Ops, op{Kind: "resume", PauseQ: 24}) // then 6 arrive timeouts of silence
		cn := canary.Start()
		v := run(h)
		over := cn.Stop() > h.tolerance()
		if v.safety != "" {
			t.Fatalf("%s\n%s", v.safety, describe(h, v))
		}
		if v.timing != "" {
			switch confirm(t, h, 0, &v) {
			case confirmed:
				t.Fatalf("%s (re-failed 3 times in a row with a quiet canary)\n%s", v.timing, describe(h, v))
			case dismissed:
				stMany.Class("timing_suspect_not_confirmed", 1)
			}
			stMany.Inconclusive()
			return
		}
		if over {
			stMany.Class("canary_overslept", 1)
		}
		stMany.Case(stats.Hash(fmt.Sprintf("%+v", h)), true, append([]string{fmt.Sprintf("peers_%d", n)}, v.classes...)...)
		stMany.Sample(func() interface{} { return h })
	})
}

func seqInts(n int) []int {
	s := make([]int, n)
	for i := range s {
		s[i] = i
	}
	return s
}
