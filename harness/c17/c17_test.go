// C17: the stream seeder serves each session in order, once, within limits.
//
// The seeder is driven with generated request/unregister histories over an integer item universe.
// The oracle is a model of the session table written from the property text (at most three live
// sessions per peer, the oldest one is dropped only when a *new* session is opened while three are
// held, everything is dropped on unregister) plus the definition of what a session has to deliver:
// the items of [start, stop) in order, without gaps or repeats, one Done at the end, nothing after it.
//
// The reader loop is asynchronous. The harness waits for quiescence after every operation without
// consulting the model: a sentinel request from a private peer (request type 255) is queued behind
// the operation; when the seeder calls ForEachItem for the sentinel, the reader loop has finished the
// operation, the number of ForEachItem calls seen in between is the number of responses that must
// still arrive. After UnregisterPeer 40 sentinel round trips are pushed (the reader selects randomly
// between its two channels; the unregister is still queued afterwards with probability 2^-40).
//
// TestC17Pipelined drives the seeder with overlapping requests: SendChunk of some peers is held back
// (per-peer gates, optionally released one call at a time) while further requests resume the same
// sessions or work on sessions of other peers. Only the reader loop is awaited between requests
// (sentinel), the responses are collected when the gates are opened at the end of a window. Besides
// the session-table model, the order in which SendChunk is CALLED for one session is compared with
// the order in which the seeder produced the responses (see pipelined_test.go).
//
// TestC17SendFaults replays the histories of TestC17Sessions with peers whose SendChunk returns an
// error (broken: always; flaky: a drawn subset of the sends of each request) and mostly small
// pending-memory limits. Sessions without a failed send keep the full oracle; a session with a failed
// send only owes what holds under every reading of the property (checkTainted). The seeder's private
// pending counter is read as well (locatePending): bounds at every ForEachItem/SendChunk entry, zero
// whenever nothing is pending (checkDrained), and a reader loop that stands still at the limit
// although nothing is pending is reported (waitFor).
package c17

import (
	"errors"
	"fmt"
	"math"
	"os"
	"reflect"
	"sort"
	"strings"
	"sync"
	"sync/atomic"
	"testing"
	"time"
	"unsafe"

	"github.com/Fantom-foundation/lachesis-base/gossip/basestream"
	"github.com/Fantom-foundation/lachesis-base/gossip/basestream/basestreamseeder"
	"pgregory.net/rapid"

	"verif/harness/internal/canary"
	"verif/harness/internal/stats"
)

func TestMain(m *testing.M) {
	code := m.Run()
	stats.Flush()
	os.Exit(code)
}

// ---------------------------------------------------------------------------------------------
// item universe, locator, payload

type loc int

func (l loc) Compare(b basestream.Locator) int {
	o := b.(loc)
	switch {
	case l < o:
		return -1
	case l > o:
		return 1
	}
	return 0
}

func (l loc) Inc() basestream.Locator { return l + 1 }

type item struct {
	Key  int
	Size uint64
}

const itemMemOverhead = 8

// payload accumulates items; add has a pointer receiver (the repo's own test payload uses a
// value receiver and therefore stays empty).
type payload struct {
	keys  []int
	sizes []uint64
	size  uint64
	rec   *respRec
}

func (p *payload) add(it item) {
	p.keys = append(p.keys, it.Key)
	p.sizes = append(p.sizes, it.Size)
	p.size += it.Size
}
func (p *payload) Len() int          { return len(p.keys) }
func (p *payload) TotalSize() uint64 { return p.size }
func (p *payload) TotalMemSize() int { return int(p.size) + len(p.keys)*itemMemOverhead }

const sentinelType = basestream.RequestType(255)
const sentinelPeer = "~sentinel"

// ---------------------------------------------------------------------------------------------
// harness around a running seeder

type respRec struct {
	mem      int
	finished bool
	seq      int  // production order (ForEachItem calls of ordinary requests)
	called   bool // SendChunk was called with this payload
	callIdx  int  // position in the global order of SendChunk calls
	peer     string
	resp     basestream.Response
	keys     []int
	failed   bool // SendChunk returned an (injected) error for it
}

// sentinelPayload is the payload of a sentinel session that is never done (reuse mode); it does
// not count towards the pending response memory.
type sentinelPayload struct{ n int }

func (p *sentinelPayload) Len() int          { return p.n }
func (p *sentinelPayload) TotalSize() uint64 { return 0 }
func (p *sentinelPayload) TotalMemSize() int { return 0 }

// peerGate holds back the SendChunk calls of one peer; tokens let single calls through.
type peerGate struct {
	closed bool
	tokens int
}

type harness struct {
	mu       sync.Mutex
	wake     chan struct{}
	universe []item
	cfg      basestreamseeder.Config
	seeder   *basestreamseeder.BaseSeeder

	feCalls      int // ForEachItem calls of ordinary requests
	feTypes      []basestream.RequestType
	sentinelSeen int
	outstanding  []*respRec // produced by ForEachItem, SendChunk not finished
	maxMem       int
	maxOutSeen   int
	gate         chan struct{} // non-nil: SendChunk of ordinary peers blocks on it
	blockedSends int

	cond          *sync.Cond           // on mu; peer gates
	peerGates     map[string]*peerGate // per-peer gates (pipelined unit)
	produced      []*respRec           // all responses of ordinary requests in production order
	calls         []*respRec           // the same in the order in which SendChunk was called
	finishedCount int
	finishedOf    map[string]int // per peer: SendChunk calls that returned
	sentinelReuse bool           // the sentinel resumes one endless session instead of opening a new one per barrier
	sentinelSent  int            // sentinel responses whose SendChunk was called
	stallAfter    time.Duration

	recv map[string][]basestream.Response
	misb map[string][]error

	violation  string
	sentinelID uint32
	stalls     int

	// send faults (TestC17SendFaults): bit i of failMask[peer] makes the i-th SendChunk call of the
	// peer's current request return an error (one request at a time, so the index is well defined)
	failMask   map[string]uint64
	failBase   map[string]int
	recvFailed map[string][]bool // parallel to recv: the call returned an error

	// the seeder's private pending-memory counter (nil if it cannot be located)
	pendingPtr *int64
	maxPending int64
}

var errInjected = errors.New("injected send failure (connection reset by peer)")

// locatePending finds BaseSeeder.pendingResponsesSize (observation point "BaseSeeder pending size").
func locatePending(s *basestreamseeder.BaseSeeder) *int64 {
	f := reflect.ValueOf(s).Elem().FieldByName("pendingResponsesSize")
	if !f.IsValid() || f.Kind() != reflect.Int64 || !f.CanAddr() {
		return nil
	}
	return (*int64)(unsafe.Pointer(f.UnsafeAddr()))
}

// pendingLocked samples the seeder's pending counter and checks it against what is known from
// outside; h.mu must be held (a response that entered SendChunk cannot finish without h.mu).
//   - never above limit - 1 + largest response (the reader adds a response only below the limit);
//   - at least the memory of the responses that are inside SendChunk right now: they were added
//     before they were enqueued and are subtracted only after SendChunk returned.
func (h *harness) pendingLocked() {
	if h.pendingPtr == nil {
		return
	}
	c := atomic.LoadInt64(h.pendingPtr)
	if c > h.maxPending {
		h.maxPending = c
	}
	inside := 0
	for _, r := range h.outstanding {
		if r.called && !r.finished {
			inside += r.mem
		}
	}
	if c > h.cfg.MaxPendingResponsesSize-1+int64(h.maxMem) {
		h.fail("the seeder's pending response memory is %d: exceeds the limit %d by more than one response (largest response so far %d)",
			c, h.cfg.MaxPendingResponsesSize, h.maxMem)
	}
	if c < int64(inside) {
		h.fail("the seeder's pending response memory is %d, but responses of %d bytes are inside SendChunk right now", c, inside)
	}
}

func newHarness(cfg basestreamseeder.Config, universe []item) *harness {
	h := &harness{
		wake:     make(chan struct{}, 1),
		universe: universe,
		cfg:      cfg,
		recv:     map[string][]basestream.Response{},
		misb:     map[string][]error{},

		peerGates:  map[string]*peerGate{},
		finishedOf: map[string]int{},
		stallAfter: 25 * time.Millisecond,

		failMask:   map[string]uint64{},
		failBase:   map[string]int{},
		recvFailed: map[string][]bool{},
	}
	h.cond = sync.NewCond(&h.mu)
	h.seeder = basestreamseeder.New(cfg, basestreamseeder.Callbacks{ForEachItem: h.forEachItem})
	h.pendingPtr = locatePending(h.seeder)
	h.seeder.Start()
	return h
}

func (h *harness) signal() {
	select {
	case h.wake <- struct{}{}:
	default:
	}
}

func (h *harness) fail(format string, a ...interface{}) {
	if h.violation == "" {
		h.violation = fmt.Sprintf(format, a...)
	}
}

// forEachItem is the embedder's iteration callback, implemented the documented way: walk the items
// from start, ask onKey before adding, ask onAppended after adding.
func (h *harness) forEachItem(start basestream.Locator, rt basestream.RequestType, onKey func(basestream.Locator) bool, onAppended func(basestream.Payload) bool) basestream.Payload {
	h.mu.Lock()
	// Every response produced before this call has been enqueued (the reader loop is sequential);
	// those whose SendChunk has not returned are still counted by the seeder's pending counter.
	out := 0
	for _, r := range h.outstanding {
		out += r.mem
	}
	if out > h.maxOutSeen {
		h.maxOutSeen = out
	}
	if int64(out) > h.cfg.MaxPendingResponsesSize-1+int64(h.maxMem) {
		h.fail("pending response memory %d exceeds limit %d by more than one response (largest response so far %d)",
			out, h.cfg.MaxPendingResponsesSize, h.maxMem)
	}
	h.pendingLocked()
	if rt == sentinelType {
		h.sentinelSeen++
	} else {
		h.feCalls++
		h.feTypes = append(h.feTypes, rt)
	}
	reuse := h.sentinelReuse
	h.signal()
	h.mu.Unlock()

	if rt == sentinelType && reuse {
		// one item per response, never done: the barrier resumes this session for ever
		sp := &sentinelPayload{}
		if onKey(start) {
			sp.n = 1
			onAppended(sp)
		}
		return sp
	}

	p := &payload{}
	s := int(start.(loc))
	i := sort.Search(len(h.universe), func(i int) bool { return h.universe[i].Key >= s })
	for ; i < len(h.universe); i++ {
		if !onKey(loc(h.universe[i].Key)) {
			break
		}
		p.add(h.universe[i])
		if !onAppended(p) {
			break
		}
	}

	if rt != sentinelType {
		h.mu.Lock()
		p.rec = &respRec{mem: p.TotalMemSize(), seq: len(h.produced), keys: p.keys}
		h.produced = append(h.produced, p.rec)
		h.outstanding = append(h.outstanding, p.rec)
		if p.rec.mem > h.maxMem {
			h.maxMem = p.rec.mem
		}
		h.mu.Unlock()
	}
	return p
}

func (h *harness) peer(id string) basestreamseeder.Peer {
	return basestreamseeder.Peer{
		ID: id,
		SendChunk: func(r basestream.Response) error {
			h.mu.Lock()
			// the call order is recorded at entry: calls of one session are serialized by its sender thread
			if p, ok := r.Payload.(*payload); !ok || p == nil || p.rec == nil {
				h.fail("SendChunk(%s) was called with a payload that ForEachItem did not produce: %T", id, r.Payload)
			} else if p.rec.called {
				h.fail("SendChunk(%s) was called twice with the same response {sid=%d done=%v items=%v}", id, r.SessionID, r.Done, p.keys)
			} else {
				p.rec.called, p.rec.callIdx, p.rec.peer, p.rec.resp = true, len(h.calls), id, r
				h.calls = append(h.calls, p.rec)
			}
			h.pendingLocked()
			g := h.gate
			if g != nil {
				h.blockedSends++
			}
			h.mu.Unlock()
			if g != nil {
				<-g
			}
			h.mu.Lock()
			for pg := h.peerGates[id]; pg != nil && pg.closed && pg.tokens == 0; pg = h.peerGates[id] {
				h.cond.Wait()
			}
			if pg := h.peerGates[id]; pg != nil && pg.closed {
				pg.tokens--
			}
			// injected fault: the i-th call of the peer's current request fails
			failed := false
			if idx := len(h.recv[id]) - h.failBase[id]; idx >= 0 && idx < 64 && h.failMask[id]>>uint(idx)&1 == 1 {
				failed = true
			}
			h.recv[id] = append(h.recv[id], r)
			h.recvFailed[id] = append(h.recvFailed[id], failed)
			h.finishedOf[id]++
			if p, ok := r.Payload.(*payload); ok && p.rec != nil && !p.rec.finished {
				p.rec.finished = true
				p.rec.failed = failed
				h.finishedCount++
				k := 0
				for _, o := range h.outstanding {
					if !o.finished {
						h.outstanding[k] = o
						k++
					}
				}
				h.outstanding = h.outstanding[:k]
			}
			h.signal()
			h.mu.Unlock()
			if failed {
				return errInjected
			}
			return nil
		},
		Misbehaviour: func(err error) {
			h.mu.Lock()
			h.misb[id] = append(h.misb[id], err)
			h.signal()
			h.mu.Unlock()
		},
	}
}

func (h *harness) sentinelPeerStruct() basestreamseeder.Peer {
	return basestreamseeder.Peer{
		ID: sentinelPeer,
		SendChunk: func(basestream.Response) error {
			h.mu.Lock()
			h.sentinelSent++
			h.signal()
			h.mu.Unlock()
			return nil
		},
		Misbehaviour: func(error) {},
	}
}

func (h *harness) closeGate() {
	h.mu.Lock()
	if h.gate == nil {
		h.gate = make(chan struct{})
	}
	h.mu.Unlock()
}

// openGate opens the global gate and every peer gate.
func (h *harness) openGate() {
	h.mu.Lock()
	if h.gate != nil {
		close(h.gate)
		h.gate = nil
	}
	for _, pg := range h.peerGates {
		pg.closed, pg.tokens = false, 0
	}
	h.cond.Broadcast()
	h.mu.Unlock()
}

func (h *harness) anyGateClosed() bool {
	if h.gate != nil {
		return true
	}
	for _, pg := range h.peerGates {
		if pg.closed {
			return true
		}
	}
	return false
}

const hardTimeout = 60 * time.Second

// stuckTimeout: how long the seeder's pending counter may stay at its limit while nothing is
// pending (nominal: the few instructions between the return of SendChunk and the decrement).
const stuckTimeout = 10 * time.Second

// violationSeen is set when a case of this process has failed. From then on rapid only shrinks and
// re-runs the failing history; a stuck reader loop is then given 1 s instead of stuckTimeout (the
// verdict was reached with the full patience, the shorter one only keeps shrinking affordable).
var violationSeen atomic.Bool

// errTimeout: the seeder did not react within hardTimeout (nominal: microseconds). Reported as a
// violation unless the canary shows that the machine stalled the process.
type errTimeout struct{ msg string }

func (e errTimeout) Error() string { return e.msg }

// waitFor blocks until cond (evaluated under the lock) holds. While the gate is closed, a stall
// of stallAfter without any event opens it (the reader loop is then blocked on the pending
// limit or on a full sender queue; opening early only lowers the pressure, never the soundness).
func (h *harness) waitFor(what string, cond func() bool) error {
	deadline := time.Now().Add(hardTimeout)
	stallAfter := h.stallAfter
	var stuckSince time.Time
	for {
		h.mu.Lock()
		ok := cond()
		gated := h.anyGateClosed()
		// nothing is pending (SendChunk returned for every produced response), yet the seeder's
		// counter says the pending memory is at its limit: the reader loop cannot go on. Legitimate
		// only for the moment between the return of SendChunk and the sender's bookkeeping.
		stuck, pend := false, int64(0)
		if h.pendingPtr != nil && !gated && len(h.outstanding) == 0 {
			pend = atomic.LoadInt64(h.pendingPtr)
			stuck = pend >= h.cfg.MaxPendingResponsesSize
		}
		h.mu.Unlock()
		if ok {
			return nil
		}
		if !stuck {
			stuckSince = time.Time{}
		} else if stuckSince.IsZero() {
			stuckSince = time.Now()
		} else if patience := stuckPatience(); time.Since(stuckSince) > patience {
			return errTimeout{fmt.Sprintf("waiting for %s: for %v the seeder's pending response memory has been %d (limit %d) although no response is pending "+
				"(SendChunk returned for every response that was produced); the reader loop waits for ever and serves no request of any peer",
				what, patience, pend, h.cfg.MaxPendingResponsesSize)}
		}
		d := time.Until(deadline)
		if d <= 0 {
			return errTimeout{fmt.Sprintf("timed out after %v waiting for %s", hardTimeout, what)}
		}
		tick := false
		if gated && d > stallAfter {
			d = stallAfter
		} else if stuck && d > 200*time.Millisecond {
			d, tick = 200*time.Millisecond, true
		}
		tm := time.NewTimer(d)
		select {
		case <-h.wake:
			tm.Stop()
		case <-tm.C:
			if gated && !tick {
				h.mu.Lock()
				h.stalls++
				h.mu.Unlock()
				h.openGate()
			}
		}
	}
}

func stuckPatience() time.Duration {
	if violationSeen.Load() {
		return time.Second
	}
	return stuckTimeout
}

// barrier queues one sentinel request and waits until the reader loop reaches it.
func (h *harness) barrier() error {
	h.mu.Lock()
	want := h.sentinelSeen + 1
	h.sentinelID++
	sid := h.sentinelID
	sess := basestream.Session{ID: sid, Start: loc(0), Stop: loc(0)}
	if h.sentinelReuse {
		sess = basestream.Session{ID: 1, Start: loc(0), Stop: loc(math.MaxInt32)}
	}
	h.mu.Unlock()
	err, perr := h.seeder.NotifyRequestReceived(h.sentinelPeerStruct(), basestream.Request{
		Session:        sess,
		Type:           sentinelType,
		MaxPayloadNum:  1,
		MaxPayloadSize: 1,
		MaxChunks:      1,
	})
	if err != nil || perr != nil {
		return fmt.Errorf("sentinel request rejected: %v %v", err, perr)
	}
	return h.waitFor("sentinel round trip", func() bool { return h.sentinelSeen >= want })
}

type outcome struct {
	err, peerErr error
	responses    []basestream.Response
	misb         []error
	feTypes      []basestream.RequestType
	failed       []bool // parallel to responses: SendChunk returned an injected error
}

// request submits one request and returns everything it caused, after quiescence.
func (h *harness) request(peer string, r basestream.Request, gated bool) (outcome, error) {
	var o outcome
	h.mu.Lock()
	fe0, r0, m0 := h.feCalls, len(h.recv[peer]), len(h.misb[peer])
	h.failBase[peer] = r0
	h.mu.Unlock()
	if gated {
		h.closeGate()
	}
	o.err, o.peerErr = h.seeder.NotifyRequestReceived(h.peer(peer), r)
	if err := h.barrier(); err != nil {
		h.openGate()
		return o, err
	}
	h.openGate()
	h.mu.Lock()
	k := h.feCalls - fe0
	o.feTypes = append(o.feTypes, h.feTypes[fe0:]...)
	h.mu.Unlock()
	if err := h.waitFor(fmt.Sprintf("%d responses of the request", k), func() bool { return len(h.recv[peer]) >= r0+k }); err != nil {
		return o, err
	}
	h.mu.Lock()
	o.responses = append(o.responses, h.recv[peer][r0:]...)
	o.failed = append(o.failed, h.recvFailed[peer][r0:]...)
	o.misb = append(o.misb, h.misb[peer][m0:]...)
	h.mu.Unlock()
	return o, nil
}

// setFailMask: bit i set = the i-th SendChunk call of the peer's next request returns an error.
func (h *harness) setFailMask(peer string, mask uint64) {
	h.mu.Lock()
	h.failMask[peer] = mask
	h.mu.Unlock()
}

// checkDrained is called when SendChunk has returned for every response that was produced and no
// request is in flight: the seeder's pending counter must be back at zero. No timing involved: a
// sender thread runs its tasks one after the other, consecutive new sessions are assigned to the
// sender threads round robin, so after one sentinel response went through every sender thread each
// earlier task - SendChunk and its bookkeeping - has been completed.
func (h *harness) checkDrained() error {
	if h.pendingPtr == nil || h.sentinelReuse {
		return nil
	}
	if atomic.LoadInt64(h.pendingPtr) == 0 {
		return nil
	}
	for i := 0; i < h.cfg.SenderThreads; i++ {
		if err := h.barrier(); err != nil {
			return err
		}
	}
	if err := h.waitFor("the sentinel responses to pass the sender threads", func() bool { return uint32(h.sentinelSent) >= h.sentinelID }); err != nil {
		return err
	}
	h.mu.Lock()
	defer h.mu.Unlock()
	if len(h.outstanding) != 0 {
		return nil // not quiescent (must not happen for the callers of this function)
	}
	if c := atomic.LoadInt64(h.pendingPtr); c != 0 {
		return fmt.Errorf("the seeder's pending response memory is %d although nothing is pending: every produced response went through SendChunk "+
			"and every sender thread has finished the tasks queued before (limit %d; the reader loop stops serving requests when the limit is reached)",
			c, h.cfg.MaxPendingResponsesSize)
	}
	return nil
}

func (h *harness) unregister(peer string) error {
	if err := h.seeder.UnregisterPeer(peer); err != nil {
		return err
	}
	for i := 0; i < 40; i++ {
		if err := h.barrier(); err != nil {
			return err
		}
	}
	return nil
}

func (h *harness) stop() {
	h.openGate()
	h.seeder.Stop()
}

// ---------------------------------------------------------------------------------------------
// model of the session table (from the property text)

type mSession struct {
	sid       uint32
	start     int
	stop      int
	expect    []item // items of [start, stop) in order
	delivered int
	done      bool
	requests  int // requests that were served from this session

	// send faults: a session is tainted from its first response whose SendChunk returned an error.
	// The property speaks about the responses SENT; what a session owes its peer after a failed
	// send (go on as the code does, send again, give up) is not stated, so only the clauses that
	// hold under every reading are claimed for it (see checkTainted).
	tainted  bool
	succIdx  int  // items of expect[:succIdx] were sent successfully
	succDone bool // a response marked Done was sent successfully
}

type mPeer struct {
	live []*mSession
}

type model struct {
	universe []item
	cfg      basestreamseeder.Config
	peers    map[string]*mPeer
}

func (m *model) peer(id string) *mPeer {
	p := m.peers[id]
	if p == nil {
		p = &mPeer{}
		m.peers[id] = p
	}
	return p
}

func (m *model) find(peer string, sid uint32) *mSession {
	for _, s := range m.peer(peer).live {
		if s.sid == sid {
			return s
		}
	}
	return nil
}

func (m *model) itemsIn(start, stop int) []item {
	var res []item
	for _, it := range m.universe {
		if it.Key >= start && it.Key < stop {
			res = append(res, it)
		}
	}
	return res
}

func keysOf(items []item) []int {
	res := make([]int, len(items))
	for i, it := range items {
		res[i] = it.Key
	}
	return res
}

type reqDesc struct {
	Peer        string
	SID         uint32
	Start, Stop int
	Type        uint8
	Num         uint32
	Size        uint64
	Chunks      uint32
	Gated       bool
}

func (r reqDesc) String() string {
	num, size := fmt.Sprint(r.Num), fmt.Sprint(r.Size)
	if r.Num == math.MaxUint32 {
		num = "inf"
	}
	if r.Size == math.MaxUint64 {
		size = "inf"
	}
	return fmt.Sprintf("request(peer=%s sid=%d [%d,%d) num=%s size=%s chunks=%d gated=%v)", r.Peer, r.SID, r.Start, r.Stop, num, size, r.Chunks, r.Gated)
}

func describeResponses(rs []basestream.Response) string {
	var sb strings.Builder
	for i, r := range rs {
		if i > 0 {
			sb.WriteString(" ")
		}
		p, _ := r.Payload.(*payload)
		var keys []int
		if p != nil {
			keys = p.keys
		}
		fmt.Fprintf(&sb, "{sid=%d done=%v items=%v}", r.SessionID, r.Done, keys)
	}
	if len(rs) == 0 {
		return "(no responses)"
	}
	return sb.String()
}

type applyInfo struct {
	opened, pruned, resumed, mismatch, tooMany, afterDone bool
	nontrivial, heldThree, zeroOpen                       bool
	tainted, completed                                    bool // the session had a failed send / got its Done by this request
}

// apply checks what the seeder did for one request against the model and advances the model.
func (m *model) apply(r reqDesc, o outcome) (applyInfo, error) {
	s, info := m.admit(r)
	return m.check(r, s, info, o)
}

// admit advances the session table for one request (it depends on the requests only): a request
// above the configured chunk limit is rejected before it reaches the table, an unknown session ID
// opens a session (dropping the oldest one when three are held), a known one is resumed.
func (m *model) admit(r reqDesc) (*mSession, applyInfo) {
	var info applyInfo
	if r.Chunks > m.cfg.MaxResponseChunks {
		info.tooMany = true
		return nil, info
	}
	mp := m.peer(r.Peer)
	s := m.find(r.Peer, r.SID)
	if s == nil {
		// a new session; the oldest one goes only now, and only when three are held
		info.opened = true
		if len(mp.live) == 3 {
			info.pruned = true
			mp.live = mp.live[1:]
		}
		s = &mSession{sid: r.SID, start: r.Start, stop: r.Stop, expect: m.itemsIn(r.Start, r.Stop)}
		mp.live = append(mp.live, s)
		info.zeroOpen = r.Chunks == 0
	} else {
		info.resumed = true
		if s.start != r.Start {
			info.mismatch = true
			return s, info
		}
	}
	info.heldThree = len(mp.live) == 3
	return s, info
}

// check compares what the seeder did for one admitted request with the model and advances the
// delivery state of its session. Requests must be checked in the order in which they were admitted.
func (m *model) check(r reqDesc, s *mSession, info applyInfo, o outcome) (applyInfo, error) {
	if o.err != nil {
		return info, fmt.Errorf("NotifyRequestReceived returned err=%v on a running seeder", o.err)
	}
	if info.tooMany {
		if !errors.Is(o.peerErr, basestreamseeder.ErrTooManyChunks) {
			return info, fmt.Errorf("MaxChunks %d above the configured %d: want ErrTooManyChunks, got %v", r.Chunks, m.cfg.MaxResponseChunks, o.peerErr)
		}
		if len(o.responses) != 0 || len(o.misb) != 0 {
			return info, fmt.Errorf("rejected request still caused %s / misbehaviour %v", describeResponses(o.responses), o.misb)
		}
		return info, nil
	}
	if o.peerErr != nil {
		return info, fmt.Errorf("unexpected peer error %v", o.peerErr)
	}
	if info.mismatch {
		if len(o.misb) != 1 || !errors.Is(o.misb[0], basestreamseeder.ErrSelectorMismatch) {
			return info, fmt.Errorf("live session %d was opened at %d, request says %d: want one Misbehaviour(ErrSelectorMismatch), got %v", s.sid, s.start, r.Start, o.misb)
		}
		if len(o.responses) != 0 {
			return info, fmt.Errorf("selector mismatch must not be answered, got %s", describeResponses(o.responses))
		}
		return info, nil
	}
	if len(o.misb) != 0 {
		return info, fmt.Errorf("unexpected Misbehaviour %v (session %d start %d, request start %d)", o.misb, s.sid, s.start, r.Start)
	}
	if s.done {
		info.afterDone = true
	}
	numLimit := uint64(r.Num)
	if uint64(m.cfg.MaxResponsePayloadNum) < numLimit {
		numLimit = uint64(m.cfg.MaxResponsePayloadNum)
	}
	sizeLimit := r.Size
	if m.cfg.MaxResponsePayloadSize < sizeLimit {
		sizeLimit = m.cfg.MaxResponsePayloadSize
	}
	if uint32(len(o.responses)) > r.Chunks {
		return info, fmt.Errorf("%d responses for a request of %d chunks: %s", len(o.responses), r.Chunks, describeResponses(o.responses))
	}
	for i, resp := range o.responses {
		if resp.SessionID != r.SID {
			return info, fmt.Errorf("response %d carries session %d, the only request in flight was for session %d", i, resp.SessionID, r.SID)
		}
		failed := i < len(o.failed) && o.failed[i]
		if s.tainted {
			if err := m.checkTainted(r, s, i, resp, failed, numLimit, sizeLimit); err != nil {
				return info, err
			}
			continue
		}
		if failed {
			// produced before the failure could be known: it has to be the regular next response
			// (checked below), but it was not delivered and the session is tainted from now on
			info.tainted = true
		}
		if s.done {
			return info, fmt.Errorf("response after Done on session %d: %s", s.sid, describeResponses(o.responses[i:]))
		}
		p, ok := resp.Payload.(*payload)
		if !ok || p == nil {
			return info, fmt.Errorf("response %d has a foreign payload %T", i, resp.Payload)
		}
		rest := s.expect[s.delivered:]
		if len(p.keys) > len(rest) {
			return info, fmt.Errorf("session %d [%d,%d): response %d carries items %v, only %v remain (delivered so far: %v)",
				s.sid, s.start, s.stop, i, p.keys, keysOf(rest), keysOf(s.expect[:s.delivered]))
		}
		for j, k := range p.keys {
			if rest[j].Key != k {
				return info, fmt.Errorf("session %d [%d,%d): response %d carries items %v, expected the next items %v (delivered so far: %v)",
					s.sid, s.start, s.stop, i, p.keys, keysOf(rest[:len(p.keys)]), keysOf(s.expect[:s.delivered]))
			}
		}
		if uint64(len(p.keys)) > numLimit+1 {
			return info, fmt.Errorf("response with %d items exceeds the item limit %d by more than one", len(p.keys), numLimit)
		}
		if n := len(p.keys); n > 0 {
			if withoutLast := p.size - p.sizes[n-1]; withoutLast > sizeLimit {
				return info, fmt.Errorf("response of size %d (last item %d) exceeds the size limit %d by more than one item", p.size, p.sizes[n-1], sizeLimit)
			}
		}
		s.delivered += len(p.keys)
		if resp.Done {
			if s.delivered != len(s.expect) {
				return info, fmt.Errorf("session %d [%d,%d) marked Done after %v, still missing %v", s.sid, s.start, s.stop,
					keysOf(s.expect[:s.delivered]), keysOf(s.expect[s.delivered:]))
			}
			s.done = true
		} else if len(p.keys) == 0 {
			return info, fmt.Errorf("session %d: empty response that is not Done (no progress)", s.sid)
		}
		if failed {
			s.tainted = true
		} else {
			s.succIdx, s.succDone = s.delivered, s.done
		}
	}
	if s.tainted {
		info.tainted = true
		if len(o.feTypes) != len(o.responses) {
			return info, fmt.Errorf("%d ForEachItem calls but %d responses", len(o.feTypes), len(o.responses))
		}
		return info, nil
	}
	if s.done && len(o.responses) > 0 {
		info.completed = true
	}
	if uint32(len(o.responses)) < r.Chunks && !s.done {
		return info, fmt.Errorf("session %d [%d,%d): %d chunks requested, %d sent and the session is not Done; delivered %v of %v",
			s.sid, s.start, s.stop, r.Chunks, len(o.responses), keysOf(s.expect[:s.delivered]), keysOf(s.expect))
	}
	if len(o.feTypes) != len(o.responses) {
		return info, fmt.Errorf("%d ForEachItem calls but %d responses", len(o.feTypes), len(o.responses))
	}
	for _, ft := range o.feTypes {
		if uint8(ft) != r.Type {
			return info, fmt.Errorf("ForEachItem called with request type %d, the request has type %d", ft, r.Type)
		}
	}
	if len(o.responses) > 0 {
		s.requests++
	}
	info.nontrivial = s.requests >= 2 && info.heldThree
	return info, nil
}

// checkTainted: a response of a session that had a failed send before. Claimed under every reading
// of the property: it carries consecutive items of the session, none of which was already sent
// successfully (no repeats), within the limits; Done only together with the last items of the
// session; nothing after a Done that was sent successfully.
func (m *model) checkTainted(r reqDesc, s *mSession, i int, resp basestream.Response, failed bool, numLimit, sizeLimit uint64) error {
	if s.succDone {
		return fmt.Errorf("session %d: response %d after a Done that was delivered", s.sid, i)
	}
	p, ok := resp.Payload.(*payload)
	if !ok || p == nil {
		return fmt.Errorf("response %d has a foreign payload %T", i, resp.Payload)
	}
	j := len(s.expect)
	if len(p.keys) > 0 {
		j = sort.Search(len(s.expect), func(x int) bool { return s.expect[x].Key >= p.keys[0] })
	}
	if j+len(p.keys) > len(s.expect) {
		return fmt.Errorf("session %d [%d,%d) (had a failed send): response %d carries items %v, the session has %v", s.sid, s.start, s.stop, i, p.keys, keysOf(s.expect))
	}
	for x, k := range p.keys {
		if s.expect[j+x].Key != k {
			return fmt.Errorf("session %d [%d,%d) (had a failed send): response %d carries items %v, not consecutive items of the session %v", s.sid, s.start, s.stop, i, p.keys, keysOf(s.expect))
		}
	}
	if len(p.keys) > 0 && j < s.succIdx {
		return fmt.Errorf("session %d (had a failed send): response %d carries items %v, but %v were already delivered", s.sid, i, p.keys, keysOf(s.expect[:s.succIdx]))
	}
	if uint64(len(p.keys)) > numLimit+1 {
		return fmt.Errorf("response with %d items exceeds the item limit %d by more than one", len(p.keys), numLimit)
	}
	if n := len(p.keys); n > 0 {
		if withoutLast := p.size - p.sizes[n-1]; withoutLast > sizeLimit {
			return fmt.Errorf("response of size %d (last item %d) exceeds the size limit %d by more than one item", p.size, p.sizes[n-1], sizeLimit)
		}
	}
	if resp.Done && j+len(p.keys) != len(s.expect) {
		return fmt.Errorf("session %d [%d,%d) (had a failed send) marked Done with items %v, the session ends with %v", s.sid, s.start, s.stop, p.keys, keysOf(s.expect))
	}
	if !failed {
		if len(p.keys) > 0 {
			s.succIdx = j + len(p.keys)
		}
		s.succDone = resp.Done
	}
	return nil
}

func (m *model) unregister(peer string) {
	delete(m.peers, peer)
}

// ---------------------------------------------------------------------------------------------
// generator + property

var st = stats.New("histories")

type opDesc struct {
	Kind string
	Req  *reqDesc `json:",omitempty"`
	Peer string   `json:",omitempty"`
}

// rare is true with probability 2^-bits (rapid's integer generators favour small values, so
// "IntRange(0,n) == 0" is far more frequent than 1/(n+1)).
func rare(t *rapid.T, label string, bits int) bool {
	for i := 0; i < bits; i++ {
		if !rapid.Bool().Draw(t, label) {
			return false
		}
	}
	return true
}

func genUniverse(t *rapid.T) []item {
	n := rapid.IntRange(0, 24).Draw(t, "universeSpan")
	dense := rapid.Bool().Draw(t, "dense")
	var u []item
	for k := 0; k < n; k++ {
		if dense || rapid.IntRange(0, 3).Draw(t, "present") != 0 {
			u = append(u, item{Key: k, Size: uint64(rapid.IntRange(0, 4).Draw(t, "itemSize"))})
		}
	}
	return u
}

func genConfig(t *rapid.T) basestreamseeder.Config {
	return basestreamseeder.Config{
		SenderThreads:           rapid.IntRange(1, 4).Draw(t, "senderThreads"),
		MaxSenderTasks:          rapid.SampledFrom([]int{1, 4, 64}).Draw(t, "maxSenderTasks"),
		MaxPendingResponsesSize: rapid.SampledFrom([]int64{1, 20, 60, 1 << 30, 1 << 30}).Draw(t, "maxPending"),
		MaxResponsePayloadNum:   rapid.SampledFrom([]uint32{2, 4, 1000}).Draw(t, "cfgMaxNum"),
		MaxResponsePayloadSize:  rapid.SampledFrom([]uint64{3, 10, 1 << 40}).Draw(t, "cfgMaxSize"),
		MaxResponseChunks:       uint32(rapid.IntRange(1, 6).Draw(t, "cfgMaxChunks")),
	}
}

func runHistory(t *rapid.T) { runHistoryMode(t, false, st) }

// runHistoryMode: faults = some peers are broken (every SendChunk returns an error) or flaky (a
// drawn subset of the sends of each request fails), with mostly small pending-memory limits.
func runHistoryMode(t *rapid.T, faults bool, st *stats.Collector) {
	universe := genUniverse(t)
	cfg := genConfig(t)
	nPeers := rapid.IntRange(1, 3).Draw(t, "peers")
	peers := []string{"A", "B", "C"}[:nPeers]
	profile := map[string]string{}
	if faults {
		// a handful of failed responses (8 bytes per item + item sizes 0..4) add up to the limit
		cfg.MaxPendingResponsesSize = rapid.SampledFrom([]int64{1 << 30, 400, 150, 100, 60, 40, 20, 1}).Draw(t, "maxPendingFaults")
		for {
			n := 0
			for _, p := range peers {
				profile[p] = rapid.SampledFrom([]string{"healthy", "healthy", "broken", "flaky", "flaky"}).Draw(t, "profile")
				if profile[p] != "healthy" {
					n++
				}
			}
			if n > 0 {
				break
			}
		}
	}
	failedSends, failedMem, limitReachedAt := 0, int64(0), -1
	span := 0
	if len(universe) > 0 {
		span = universe[len(universe)-1].Key + 1
	}
	nOps := rapid.IntRange(4, 30).Draw(t, "ops")
	// SendChunk is held back for some requests of some histories, so that responses pile up
	gating := cfg.MaxPendingResponsesSize < 1<<30 && rapid.IntRange(0, 2).Draw(t, "gating") == 0

	h := newHarness(cfg, universe)
	defer h.stop()
	m := &model{universe: universe, cfg: cfg, peers: map[string]*mPeer{}}
	cn := canary.Start()
	defer cn.Stop()

	var history []string
	var ops []opDesc
	classes := map[string]bool{}
	nontrivial := false

	fatal := func(format string, a ...interface{}) {
		violationSeen.Store(true)
		t.Fatalf("%s\nuniverse=%v cfg=%+v send faults=%v\nhistory:\n  %s", fmt.Sprintf(format, a...), universe, cfg, profile, strings.Join(history, "\n  "))
	}

	for i := 0; i < nOps; i++ {
		peer := rapid.SampledFrom(peers).Draw(t, "peer")
		mp := m.peer(peer)
		if rare(t, "unregister?", 5) {
			history = append(history, fmt.Sprintf("unregister(%s)", peer))
			ops = append(ops, opDesc{Kind: "unregister", Peer: peer})
			if err := h.unregister(peer); err != nil {
				if _, ok := err.(errTimeout); ok && cn.Overloaded() {
					st.Inconclusive()
					return
				}
				fatal("%v", err)
			}
			m.unregister(peer)
			classes["unregister"] = true
			continue
		}
		// session: resume a live one (mostly) or open a new one from a pool of five IDs per peer
		var r reqDesc
		r.Peer = peer
		resumeBias := 4
		if len(mp.live) == 3 {
			resumeBias = 8 // the interesting state: keep working on the three held sessions
		}
		resume := len(mp.live) > 0 && rapid.IntRange(0, 9).Draw(t, "resume?") < resumeBias
		if resume {
			s := mp.live[rapid.IntRange(0, len(mp.live)-1).Draw(t, "liveIdx")]
			r.SID, r.Start, r.Stop = s.sid, s.start, s.stop
			if rare(t, "otherStart?", 4) {
				r.Start = rapid.IntRange(0, span+1).Draw(t, "otherStart") // possibly a selector mismatch
			} else if rare(t, "otherStop?", 4) {
				r.Stop = rapid.IntRange(0, span+2).Draw(t, "otherStop") // ignored: parameters are fixed at creation
			}
		} else {
			r.SID = uint32(rapid.IntRange(1, 5).Draw(t, "sid"))
			if s := m.find(peer, r.SID); s != nil {
				r.Start, r.Stop = s.start, s.stop
			} else {
				r.Start = rapid.IntRange(0, span+1).Draw(t, "start")
				r.Stop = rapid.IntRange(0, span+2).Draw(t, "stop")
				if rapid.IntRange(0, 2).Draw(t, "wide") != 0 && r.Stop < r.Start+3 {
					r.Stop = span + 1
				}
			}
		}
		r.Type = uint8(rapid.IntRange(0, 2).Draw(t, "type"))
		r.Num = rapid.SampledFrom([]uint32{0, 1, 1, 2, 2, 5, math.MaxUint32}).Draw(t, "num")
		r.Size = rapid.SampledFrom([]uint64{0, 1, 2, 5, 5, math.MaxUint64, math.MaxUint64}).Draw(t, "size")
		r.Chunks = uint32(rapid.IntRange(0, int(cfg.MaxResponseChunks)).Draw(t, "chunks"))
		if rare(t, "tooMany?", 5) {
			r.Chunks = cfg.MaxResponseChunks + uint32(rapid.IntRange(1, 3).Draw(t, "over"))
		}
		r.Gated = gating && rapid.IntRange(0, 2).Draw(t, "gated?") == 0
		var mask uint64
		switch profile[peer] {
		case "broken":
			mask = math.MaxUint64
		case "flaky":
			for b := uint32(0); b < r.Chunks && b < 64; b++ {
				if rapid.Bool().Draw(t, "sendFails") {
					mask |= 1 << b
				}
			}
		}
		if faults {
			h.setFailMask(peer, mask)
		}

		history = append(history, r.String())
		ops = append(ops, opDesc{Kind: "request", Req: &r})
		o, err := h.request(peer, basestream.Request{
			Session:        basestream.Session{ID: r.SID, Start: loc(r.Start), Stop: loc(r.Stop)},
			Type:           basestream.RequestType(r.Type),
			MaxPayloadNum:  r.Num,
			MaxPayloadSize: r.Size,
			MaxChunks:      r.Chunks,
		}, r.Gated)
		if err != nil {
			if _, ok := err.(errTimeout); ok && cn.Overloaded() {
				st.Inconclusive()
				return
			}
			fatal("%v", err)
		}
		history[len(history)-1] += " -> " + describeResponses(o.responses)
		nFailedNow := 0
		for j, f := range o.failed {
			if f {
				nFailedNow++
				failedSends++
				if p, ok := o.responses[j].Payload.(*payload); ok && p != nil {
					failedMem += int64(p.TotalMemSize())
				}
			}
		}
		if nFailedNow > 0 {
			history[len(history)-1] += fmt.Sprintf(" SendChunk failed: %v", o.failed)
			classes["failed_send"] = true
			if r.Gated {
				classes["failed_send_held_back_first"] = true
			}
			if failedMem >= cfg.MaxPendingResponsesSize && limitReachedAt < 0 {
				limitReachedAt = i
				classes["failed_sends_memory_reached_pending_limit"] = true
			}
		}
		if len(o.misb) > 0 {
			history[len(history)-1] += fmt.Sprintf(" misbehaviour=%v", o.misb)
		}
		info, verr := m.apply(r, o)
		h.mu.Lock()
		hv := h.violation
		h.mu.Unlock()
		if verr == nil && hv != "" {
			verr = errors.New(hv)
		}
		if verr != nil {
			fatal("%v", verr)
		}
		// nothing is pending now: the seeder's pending counter must be back at zero
		if err := h.checkDrained(); err != nil {
			if _, ok := err.(errTimeout); ok && cn.Overloaded() {
				st.Inconclusive()
				return
			}
			fatal("%v", err)
		}
		if faults {
			served := len(o.responses) > 0 && nFailedNow == 0
			for name, on := range map[string]bool{
				"request_of_" + profile[peer] + "_peer":                     true,
				"session_with_failed_send_resumed":                          info.tainted && info.resumed,
				"served_after_failed_send":                                  served && failedSends > 0,
				"healthy_peer_served_after_failed_send":                     served && failedSends > 0 && profile[peer] == "healthy",
				"served_after_three_failed_sends":                           served && failedSends >= 3,
				"served_after_failed_sends_memory_reached_pending_limit":    served && limitReachedAt >= 0,
				"session_completed_after_failed_send":                       info.completed && !info.tainted && failedSends > 0,
				"session_completed_after_failed_sends_memory_reached_limit": info.completed && !info.tainted && limitReachedAt >= 0,
			} {
				if on {
					classes[name] = true
				}
			}
			if info.completed && !info.tainted && failedSends > 0 {
				nontrivial = true
			}
		}
		for name, on := range map[string]bool{
			"open": info.opened, "open_prunes_oldest": info.pruned, "resume": info.resumed,
			"selector_mismatch": info.mismatch, "too_many_chunks": info.tooMany, "request_after_done": info.afterDone,
			"resume_while_holding_three": info.resumed && info.heldThree && !info.mismatch, "gated": r.Gated,
			"zero_chunks": r.Chunks == 0, "open_with_zero_chunks": info.zeroOpen,
		} {
			if on {
				classes[name] = true
			}
		}
		if info.nontrivial && !faults {
			nontrivial = true
		}
	}
	// quiescent: nothing may arrive any more
	if err := h.barrier(); err != nil {
		if _, ok := err.(errTimeout); ok && cn.Overloaded() {
			st.Inconclusive()
			return
		}
		fatal("%v", err)
	}
	h.mu.Lock()
	hv, stalls, maxOut := h.violation, h.stalls, h.maxOutSeen
	if h.pendingPtr != nil {
		classes["pending_counter_observed"] = true
		if h.maxPending > 0 {
			classes["pending_counter_sampled_nonzero"] = true
		}
		if h.maxPending >= cfg.MaxPendingResponsesSize {
			classes["pending_counter_sampled_at_or_above_limit"] = true
		}
	}
	h.mu.Unlock()
	if hv != "" {
		fatal("%s", hv)
	}
	if stalls > 0 {
		classes["reader_blocked_on_pending_limit_or_queue"] = true
	}
	if int64(maxOut) >= cfg.MaxPendingResponsesSize {
		classes["pending_reached_limit"] = true
	}
	var cl []string
	for c := range classes {
		cl = append(cl, c)
	}
	sort.Strings(cl)
	if nontrivial && !faults {
		cl = append(cl, "nontrivial_multi_request_session_with_three_held")
	}
	if nontrivial && faults {
		cl = append(cl, "nontrivial_session_served_completely_after_failed_sends")
	}
	if faults {
		st.Class("failed_sends_total", int64(failedSends))
	}
	st.Case(stats.Hash(universe, cfg, profile, history), nontrivial, cl...)
	st.Sample(func() interface{} {
		return map[string]interface{}{"universe": universe, "cfg": fmt.Sprintf("%+v", cfg), "send_faults": profile, "ops": ops}
	})
}

var stFaults = stats.New("sendfaults")

// TestC17SendFaults: the same histories with peers whose SendChunk returns an error (always, or
// for a drawn subset of the sends). Sessions without a failed send - of healthy peers and of the
// faulty peers themselves - must be served exactly as the property states, and the seeder's pending
// response memory must return to zero whenever nothing is pending.
func TestC17SendFaults(t *testing.T) {
	rapid.Check(t, func(t *rapid.T) { runHistoryMode(t, true, stFaults) })
}

// TestC17Sessions: generated histories against the session-table model.
func TestC17Sessions(t *testing.T) {
	rapid.Check(t, runHistory)
}

// ---------------------------------------------------------------------------------------------
// hand-written regression histories (the defects found with this check, see DESIGN.md §5 F4 and
// the zero-chunk defect repaired by be58d82); they run through the same harness and oracle.

type step struct {
	unregister string
	req        reqDesc
}

func runScript(t *testing.T, name string, universe []item, cfg basestreamseeder.Config, steps []step) {
	h := newHarness(cfg, universe)
	defer h.stop()
	m := &model{universe: universe, cfg: cfg, peers: map[string]*mPeer{}}
	var history []string
	for _, s := range steps {
		if s.unregister != "" {
			history = append(history, "unregister("+s.unregister+")")
			if err := h.unregister(s.unregister); err != nil {
				t.Fatalf("%s: %v", name, err)
			}
			m.unregister(s.unregister)
			continue
		}
		r := s.req
		o, err := h.request(r.Peer, basestream.Request{
			Session:        basestream.Session{ID: r.SID, Start: loc(r.Start), Stop: loc(r.Stop)},
			Type:           basestream.RequestType(r.Type),
			MaxPayloadNum:  r.Num,
			MaxPayloadSize: r.Size,
			MaxChunks:      r.Chunks,
		}, r.Gated)
		if err != nil {
			t.Fatalf("%s: %v", name, err)
		}
		history = append(history, r.String()+" -> "+describeResponses(o.responses)+fmt.Sprintf(" misbehaviour=%v", o.misb))
		if _, verr := m.apply(r, o); verr != nil {
			t.Fatalf("%s: %v\nhistory:\n  %s", name, verr, strings.Join(history, "\n  "))
		}
	}
	h.mu.Lock()
	hv := h.violation
	h.mu.Unlock()
	if hv != "" {
		t.Fatalf("%s: %s\nhistory:\n  %s", name, hv, strings.Join(history, "\n  "))
	}
}

var stReg = stats.New("regression")

func TestC17Regression(t *testing.T) {
	var universe []item
	for k := 0; k < 10; k++ {
		universe = append(universe, item{Key: k, Size: 1})
	}
	cfg := basestreamseeder.Config{SenderThreads: 2, MaxSenderTasks: 16, MaxPendingResponsesSize: 1 << 20,
		MaxResponsePayloadNum: 100, MaxResponsePayloadSize: 1 << 20, MaxResponseChunks: 4}
	rq := func(sid uint32, start int, chunks uint32) step {
		return step{req: reqDesc{Peer: "p", SID: sid, Start: start, Stop: 10, Num: 3, Size: 1000, Chunks: chunks}}
	}
	// F4: resuming one of three live sessions must not prune the oldest one
	runScript(t, "resume-does-not-prune", universe, cfg, []step{rq(1, 0, 1), rq(2, 0, 1), rq(3, 0, 1), rq(3, 0, 1), rq(1, 0, 1), rq(2, 0, 1)})
	// a fourth session prunes the oldest: session 1 restarts from its start
	runScript(t, "new-session-prunes-oldest", universe, cfg, []step{rq(1, 0, 1), rq(2, 0, 1), rq(3, 0, 1), rq(4, 0, 1), rq(1, 0, 1)})
	// zero-chunk requests open a session like any other request
	runScript(t, "zero-chunk-open-twice", universe, cfg, []step{rq(1, 0, 1), rq(2, 0, 1), rq(3, 0, 0), rq(3, 0, 0), rq(1, 0, 1)})
	runScript(t, "zero-chunk-open-then-other-start", universe, cfg, []step{rq(7, 0, 0), rq(7, 5, 1)})
	// unregister clears the table
	runScript(t, "unregister-clears", universe, cfg, []step{rq(1, 0, 1), {unregister: "p"}, rq(1, 0, 1)})
	// a session resumed while its earlier responses are still queued (1-4 sender threads)
	pipelinedRegression(t)
	stReg.Evals(5)
	stReg.Class("regression_scripts", 5)
	stReg.Sample(func() interface{} { return "hand-written regression histories" })
}
