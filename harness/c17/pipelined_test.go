// C17, overlapping requests: sessions are resumed while their earlier responses are still queued.
//
// The histories of TestC17Sessions wait for every response before the next request is issued, so a
// session is never resumed while the seeder still holds responses of it. Here SendChunk of some peers
// is held back (per-peer gate; with a single gated peer single calls are let through one by one) while
// further requests resume the same sessions, open other sessions of the same peer or work on sessions
// of other (gated or free) peers, with 1-4 sender threads. Between two requests only the reader loop
// is awaited (sentinel round trip; it does not depend on the senders), which also tells which
// ForEachItem calls - and therefore which responses - belong to which request. A window ends by
// opening all gates and waiting until every produced response went through SendChunk; then
//
//   - the requests of the window are checked against the session-table model in the order in which
//     they were issued (the reader loop is sequential), each with its own responses;
//   - for every session the order in which SendChunk was CALLED with its responses (recorded at
//     entry, before the gate) must be the order in which the responses were produced, i.e. the order
//     of the items of the session: "in order and without gaps or repeats" across requests.
//
// The driver never blocks the reader loop: while a gate is closed a request is only issued if all
// responses it can produce (and the sentinel's) fit into one sender queue and below the pending
// memory limit, whatever the assignment of sessions to sender threads; otherwise the gates are
// opened and drained first. Should the reader block nevertheless, waitFor opens the gates after
// stallAfter without any event (sound: opening a gate early only lowers the pressure).
package c17

import (
	"errors"
	"fmt"
	"math"
	"sort"
	"strings"
	"testing"
	"time"

	"github.com/Fantom-foundation/lachesis-base/gossip/basestream"
	"github.com/Fantom-foundation/lachesis-base/gossip/basestream/basestreamseeder"
	"pgregory.net/rapid"

	"verif/harness/internal/canary"
	"verif/harness/internal/stats"
	"verif/harness/internal/uni"
)

var stPipe = stats.New("pipelined")

// pendReq is a request that was processed by the reader loop; its responses may still be queued.
type pendReq struct {
	r    reqDesc
	s    *mSession
	info applyInfo
	o    outcome
	recs []*respRec
	hist int
}

func (h *harness) closePeerGate(peer string) {
	h.mu.Lock()
	pg := h.peerGates[peer]
	if pg == nil {
		pg = &peerGate{}
		h.peerGates[peer] = pg
	}
	pg.closed, pg.tokens = true, 0
	h.mu.Unlock()
}

// release lets k held-back SendChunk calls of the peer through and waits until k calls returned.
// Precondition (progress): no other gate is closed and at least k responses of the peer are unsent.
func (h *harness) release(peer string, k int) error {
	h.mu.Lock()
	f0 := h.finishedOf[peer]
	if pg := h.peerGates[peer]; pg != nil && pg.closed {
		pg.tokens += k
	}
	h.cond.Broadcast()
	h.mu.Unlock()
	return h.waitFor(fmt.Sprintf("%d released SendChunk calls of %s", k, peer), func() bool { return h.finishedOf[peer] >= f0+k })
}

// submit issues one request and waits until the reader loop has processed it - not for SendChunk.
func (h *harness) submit(r reqDesc) (*pendReq, error) {
	pr := &pendReq{r: r}
	h.mu.Lock()
	fe0, p0, m0 := h.feCalls, len(h.produced), len(h.misb[r.Peer])
	h.mu.Unlock()
	pr.o.err, pr.o.peerErr = h.seeder.NotifyRequestReceived(h.peer(r.Peer), basestream.Request{
		Session:        basestream.Session{ID: r.SID, Start: loc(r.Start), Stop: loc(r.Stop)},
		Type:           basestream.RequestType(r.Type),
		MaxPayloadNum:  r.Num,
		MaxPayloadSize: r.Size,
		MaxChunks:      r.Chunks,
	})
	if err := h.barrier(); err != nil {
		return pr, err
	}
	h.mu.Lock()
	pr.o.feTypes = append(pr.o.feTypes, h.feTypes[fe0:]...)
	pr.recs = append(pr.recs, h.produced[p0:]...)
	pr.o.misb = append(pr.o.misb, h.misb[r.Peer][m0:]...)
	h.mu.Unlock()
	return pr, nil
}

// settle gives the sender threads time to pick up what they can: it returns once no SendChunk call
// was entered or left during a short sleep. Only the effectiveness of the scenarios depends on it
// (a sender thread that is slow to start a call makes a window less overlapped), never a verdict.
func (h *harness) settle() {
	for i := 0; i < 20; i++ {
		h.mu.Lock()
		n := len(h.calls) + h.finishedCount + h.sentinelSent
		h.mu.Unlock()
		time.Sleep(settleStep)
		h.mu.Lock()
		same := n == len(h.calls)+h.finishedCount+h.sentinelSent
		h.mu.Unlock()
		if same {
			return
		}
	}
}

const settleStep = 300 * time.Microsecond

// drain opens every gate and waits until every produced response went through SendChunk.
func (h *harness) drain() error {
	h.openGate()
	return h.waitFor("all produced responses to be sent", func() bool { return h.finishedCount == len(h.produced) })
}

// unsentTasks is an upper bound of the tasks sitting in any one sender queue.
func (h *harness) unsentTasks() int {
	h.mu.Lock()
	defer h.mu.Unlock()
	return (len(h.produced) - h.finishedCount) + (int(h.sentinelID) - h.sentinelSent)
}

func (h *harness) unsentMem() int {
	h.mu.Lock()
	defer h.mu.Unlock()
	out := 0
	for _, r := range h.outstanding {
		out += r.mem
	}
	return out
}

func unsent(h *harness, recs []*respRec) int {
	h.mu.Lock()
	defer h.mu.Unlock()
	n := 0
	for _, r := range recs {
		if !r.finished {
			n++
		}
	}
	return n
}

func keysInOrder(recs []*respRec) [][]int {
	res := make([][]int, len(recs))
	for i, r := range recs {
		res[i] = r.keys
	}
	return res
}

// checkWindow: model check of the requests in issue order, then the per-session call order.
func checkWindow(m *model, win []*pendReq, history []string) error {
	for _, pr := range win {
		byCall := append([]*respRec(nil), pr.recs...)
		for _, rec := range byCall {
			if !rec.called {
				return fmt.Errorf("a response produced for %s never reached SendChunk", pr.r)
			}
		}
		sort.Slice(byCall, func(i, j int) bool { return byCall[i].callIdx < byCall[j].callIdx })
		for _, rec := range byCall {
			if rec.peer != pr.r.Peer {
				return fmt.Errorf("a response produced for %s was handed to SendChunk of peer %s", pr.r, rec.peer)
			}
			pr.o.responses = append(pr.o.responses, rec.resp)
		}
		history[pr.hist] += " -> " + describeResponses(pr.o.responses)
		if len(pr.o.misb) > 0 {
			history[pr.hist] += fmt.Sprintf(" misbehaviour=%v", pr.o.misb)
		}
		info, err := m.check(pr.r, pr.s, pr.info, pr.o)
		pr.info = info
		if err != nil {
			return err
		}
	}
	seen := map[*mSession]bool{}
	for _, pr := range win {
		if pr.s == nil || seen[pr.s] {
			continue
		}
		seen[pr.s] = true
		var recs []*respRec
		for _, q := range win {
			if q.s == pr.s {
				recs = append(recs, q.recs...)
			}
		}
		produced := append([]*respRec(nil), recs...)
		sort.Slice(produced, func(i, j int) bool { return produced[i].seq < produced[j].seq })
		sort.Slice(recs, func(i, j int) bool { return recs[i].callIdx < recs[j].callIdx })
		for i := range recs {
			if recs[i] != produced[i] {
				return fmt.Errorf("session %d of peer %s [%d,%d): SendChunk was called out of order across requests: items per response in call order %v, the session lists them as %v",
					pr.s.sid, pr.r.Peer, pr.s.start, pr.s.stop, keysInOrder(recs), keysInOrder(produced))
			}
		}
	}
	return nil
}

func genPipeConfig(t *rapid.T) basestreamseeder.Config {
	return basestreamseeder.Config{
		SenderThreads:           1 + uni.Int(t, "senderThreads", 4),
		MaxSenderTasks:          rapid.SampledFrom([]int{4, 16, 64, 64}).Draw(t, "maxSenderTasks"),
		MaxPendingResponsesSize: rapid.SampledFrom([]int64{1 << 30, 1 << 30, 1 << 30, 150, 600}).Draw(t, "maxPending"),
		MaxResponsePayloadNum:   rapid.SampledFrom([]uint32{2, 4, 1000}).Draw(t, "cfgMaxNum"),
		MaxResponsePayloadSize:  rapid.SampledFrom([]uint64{10, 1 << 40, 1 << 40}).Draw(t, "cfgMaxSize"),
		MaxResponseChunks:       uint32(rapid.IntRange(2, 8).Draw(t, "cfgMaxChunks")),
	}
}

const maxItemSize = 4

func runPipelined(t *rapid.T) {
	span := rapid.IntRange(4, 40).Draw(t, "universeSpan")
	sparse := uni.Chance(t, "sparse", 25)
	var universe []item
	for k := 0; k < span; k++ {
		if !sparse || rapid.IntRange(0, 3).Draw(t, "present") != 0 {
			universe = append(universe, item{Key: k, Size: uint64(rapid.IntRange(0, maxItemSize).Draw(t, "itemSize"))})
		}
	}
	cfg := genPipeConfig(t)
	nPeers := 1 + uni.Int(t, "peers", 3)
	peers := []string{"A", "B", "C"}[:nPeers]
	nWindows := rapid.IntRange(1, 4).Draw(t, "windows")

	h := newHarness(cfg, universe)
	h.sentinelReuse = rapid.Bool().Draw(t, "sentinelReuse")
	h.stallAfter = 2 * time.Second // the reader is never blocked by construction
	defer h.stop()
	m := &model{universe: universe, cfg: cfg, peers: map[string]*mPeer{}}
	cn := canary.Start()
	defer cn.Stop()

	var history []string
	var ops []opDesc
	classes := map[string]bool{fmt.Sprintf("sender_threads_%d", cfg.SenderThreads): true}
	if h.sentinelReuse {
		classes["sentinel_resumes_one_session"] = true
	}
	nontrivial := false
	inconclusive := false

	fatal := func(format string, a ...interface{}) {
		t.Fatalf("%s\nuniverse=%v cfg=%+v sentinelReuse=%v\nhistory:\n  %s", fmt.Sprintf(format, a...), universe, cfg, h.sentinelReuse, strings.Join(history, "\n  "))
	}
	// infra reports a driver-level error; true = the case must be abandoned as inconclusive
	infra := func(err error) bool {
		if _, ok := err.(errTimeout); ok && cn.Overloaded() {
			inconclusive = true
			return true
		}
		fatal("%v", err)
		return false
	}

	genRequest := func(win []*pendReq, gated map[string]bool) reqDesc {
		var r reqDesc
		// hot sessions: live sessions with responses of this window that were not sent yet
		type hot struct {
			peer string
			s    *mSession
		}
		var hots []hot
		seen := map[*mSession]bool{}
		for _, pr := range win {
			if pr.s == nil || seen[pr.s] || m.find(pr.r.Peer, pr.s.sid) != pr.s {
				continue
			}
			seen[pr.s] = true
			n := 0
			for _, q := range win {
				if q.s == pr.s {
					n += unsent(h, q.recs)
				}
			}
			if n > 0 {
				hots = append(hots, hot{pr.r.Peer, pr.s})
			}
		}
		if len(hots) > 0 && uni.Chance(t, "resumeHot?", 50) {
			x := hots[uni.Int(t, "hotIdx", len(hots))]
			r.Peer, r.SID, r.Start, r.Stop = x.peer, x.s.sid, x.s.start, x.s.stop
		} else {
			r.Peer = peers[uni.Int(t, "peer", len(peers))]
			mp := m.peer(r.Peer)
			if len(mp.live) > 0 && uni.Chance(t, "resume?", 50) {
				s := mp.live[uni.Int(t, "liveIdx", len(mp.live))]
				r.SID, r.Start, r.Stop = s.sid, s.start, s.stop
			} else {
				r.SID = uint32(1 + uni.Int(t, "sid", 5))
				if s := m.find(r.Peer, r.SID); s != nil {
					r.Start, r.Stop = s.start, s.stop
				} else {
					r.Start = rapid.IntRange(0, span/2).Draw(t, "start")
					r.Stop = span + 1
					if uni.Chance(t, "narrow?", 25) {
						r.Stop = rapid.IntRange(0, span+2).Draw(t, "stop")
					}
				}
			}
		}
		if s := m.find(r.Peer, r.SID); s != nil && rare(t, "otherStart?", 5) {
			r.Start = rapid.IntRange(0, span+1).Draw(t, "otherStart") // possibly a selector mismatch
		}
		r.Type = uint8(rapid.IntRange(0, 2).Draw(t, "type"))
		r.Num = rapid.SampledFrom([]uint32{1, 1, 1, 2, 2, 5, 0, math.MaxUint32}).Draw(t, "num")
		r.Size = rapid.SampledFrom([]uint64{math.MaxUint64, math.MaxUint64, math.MaxUint64, 5, 1, 0}).Draw(t, "size")
		r.Chunks = uint32(1 + uni.Int(t, "chunks", int(cfg.MaxResponseChunks)))
		if rare(t, "zeroChunks?", 4) {
			r.Chunks = 0
		} else if rare(t, "tooMany?", 5) {
			r.Chunks = cfg.MaxResponseChunks + uint32(rapid.IntRange(1, 3).Draw(t, "over"))
		}
		r.Gated = gated[r.Peer]
		return r
	}

	// fits: the reader loop cannot block on this request while the gates stay closed
	fits := func(r reqDesc) bool {
		if r.Chunks > cfg.MaxResponseChunks {
			return true // rejected by NotifyRequestReceived, only the sentinel is queued
		}
		if h.unsentTasks()+int(r.Chunks)+1 > cfg.MaxSenderTasks {
			return false
		}
		if cfg.MaxPendingResponsesSize < 1<<30 {
			n := uint64(r.Num)
			if uint64(cfg.MaxResponsePayloadNum) < n {
				n = uint64(cfg.MaxResponsePayloadNum)
			}
			if uint64(len(universe)) < n {
				n = uint64(len(universe))
			}
			worst := int64(n+1) * (maxItemSize + itemMemOverhead)
			if int64(h.unsentMem())+int64(r.Chunks)*worst >= cfg.MaxPendingResponsesSize {
				return false
			}
		}
		return true
	}

	for w := 0; w < nWindows && !inconclusive; w++ {
		if w > 0 && uni.Chance(t, "unregister?", 15) {
			peer := peers[uni.Int(t, "unregPeer", len(peers))]
			history = append(history, fmt.Sprintf("unregister(%s)", peer))
			ops = append(ops, opDesc{Kind: "unregister", Peer: peer})
			if err := h.unregister(peer); err != nil {
				if infra(err) {
					break
				}
			}
			m.unregister(peer)
			classes["unregister"] = true
		}
		gated := map[string]bool{}
		var gatedList []string
		for _, p := range peers {
			if uni.Chance(t, "gate?", 65) {
				gated[p] = true
				gatedList = append(gatedList, p)
				h.closePeerGate(p)
			}
		}
		stepwise := len(gatedList) == 1 && rapid.Bool().Draw(t, "stepwise")
		switch {
		case len(gatedList) == 0:
			classes["window_no_gate"] = true
		case len(gatedList) == 1 && nPeers > 1:
			classes["window_one_slow_peer_others_free"] = true
		case len(gatedList) == nPeers:
			classes["window_all_peers_gated"] = true
		default:
			classes["window_two_of_three_peers_gated"] = true
		}
		history = append(history, fmt.Sprintf("--- window: SendChunk held back for %v", gatedList))
		ops = append(ops, opDesc{Kind: "window gated=" + strings.Join(gatedList, ",")})

		var win []*pendReq
		open := len(gatedList) == 0
		nReq := rapid.IntRange(3, 10).Draw(t, "requests")
		for i := 0; i < nReq; i++ {
			if stepwise && !open && uni.Chance(t, "release?", 25) {
				var recs []*respRec
				for _, pr := range win {
					if pr.r.Peer == gatedList[0] {
						recs = append(recs, pr.recs...)
					}
				}
				if n := unsent(h, recs); n > 0 {
					k := rapid.IntRange(1, n).Draw(t, "releaseCalls")
					history = append(history, fmt.Sprintf("release(%s, %d calls)", gatedList[0], k))
					ops = append(ops, opDesc{Kind: fmt.Sprintf("release %d", k), Peer: gatedList[0]})
					if err := h.release(gatedList[0], k); err != nil {
						if infra(err) {
							break
						}
					}
					classes["slow_peer_single_calls_let_through"] = true
					h.settle()
					continue
				}
			}
			r := genRequest(win, gated)
			if !open && !fits(r) {
				history = append(history, "open all gates, wait for the responses (the next request would not fit into the queues)")
				if err := h.drain(); err != nil {
					if infra(err) {
						break
					}
				}
				open = true
				classes["gates_opened_before_a_request_that_could_block"] = true
			}
			if open {
				r.Gated = false
			}
			// what is still unsent when the request is issued
			own, samePeerOther, otherPeer := 0, 0, 0
			s0 := m.find(r.Peer, r.SID)
			for _, q := range win {
				n := unsent(h, q.recs)
				switch {
				case q.s != nil && q.s == s0:
					own += n
				case q.r.Peer == r.Peer:
					samePeerOther += n
				default:
					otherPeer += n
				}
			}
			history = append(history, r.String())
			rc := r
			ops = append(ops, opDesc{Kind: "request", Req: &rc})
			pr, err := h.submit(r)
			if err != nil {
				if infra(err) {
					break
				}
			}
			pr.hist = len(history) - 1
			pr.s, pr.info = m.admit(r)
			win = append(win, pr)
			if !open {
				h.settle()
			}
			served := len(pr.recs) > 0
			for name, on := range map[string]bool{
				"open": pr.info.opened, "open_prunes_oldest": pr.info.pruned, "resume": pr.info.resumed,
				"selector_mismatch": pr.info.mismatch, "too_many_chunks": pr.info.tooMany, "zero_chunks": r.Chunks == 0,
				"open_prunes_session_with_unsent_responses":      pr.info.pruned && samePeerOther > 0,
				"resume_with_1_unsent_response_of_the_session":   served && pr.info.resumed && own == 1,
				"resume_with_2+_unsent_responses_of_the_session": served && pr.info.resumed && own >= 2,
				"resume_2+_unsent_nothing_else_unsent":           served && pr.info.resumed && own >= 2 && samePeerOther == 0 && otherPeer == 0,
				"resume_2+_unsent_other_session_of_peer_unsent":  served && pr.info.resumed && own >= 2 && samePeerOther > 0,
				"resume_2+_unsent_other_peer_unsent":             served && pr.info.resumed && own >= 2 && otherPeer > 0,
				"resume_2+_unsent_with_2+_sender_threads":        served && pr.info.resumed && own >= 2 && cfg.SenderThreads >= 2,
				"request_served_while_other_sessions_unsent":     served && own == 0 && samePeerOther+otherPeer > 0,
			} {
				if on {
					classes[name] = true
				}
			}
			if served && pr.info.resumed && own >= 2 {
				nontrivial = true
			}
		}
		if inconclusive {
			break
		}
		history = append(history, "open all gates, wait for the responses")
		if err := h.drain(); err != nil {
			if infra(err) {
				break
			}
		}
		verr := checkWindow(m, win, history)
		h.mu.Lock()
		hv := h.violation
		h.mu.Unlock()
		if hv != "" {
			verr = errors.New(hv)
		}
		if verr != nil {
			fatal("%v", verr)
		}
		for _, pr := range win {
			if pr.info.afterDone {
				classes["request_after_done"] = true
			}
		}
	}
	if inconclusive {
		stPipe.Inconclusive()
		return
	}
	// quiescent: nothing may arrive any more
	if err := h.barrier(); err != nil {
		if infra(err) {
			stPipe.Inconclusive()
			return
		}
	}
	h.mu.Lock()
	hv, stalls, extra := h.violation, h.stalls, len(h.calls) != len(h.produced)
	h.mu.Unlock()
	if hv != "" {
		fatal("%s", hv)
	}
	if extra {
		fatal("SendChunk calls and produced responses differ in number after quiescence")
	}
	if stalls > 0 {
		classes["gates_opened_by_stall_timer"] = true
	}
	var cl []string
	for c := range classes {
		cl = append(cl, c)
	}
	sort.Strings(cl)
	stPipe.Case(stats.Hash(universe, cfg, h.sentinelReuse, history), nontrivial, cl...)
	stPipe.Sample(func() interface{} {
		return map[string]interface{}{"universe": universe, "cfg": fmt.Sprintf("%+v", cfg), "sentinelReuse": h.sentinelReuse, "ops": ops}
	})
}

// TestC17Pipelined: sessions resumed while their earlier responses are still queued on a sender thread.
func TestC17Pipelined(t *testing.T) {
	rapid.Check(t, runPipelined)
}

// pipelinedRegression (part of TestC17Regression): one slow peer, one session over items 0..9, one item per response; the
// first request asks for three responses, the session is resumed for two more while the first call
// is held back (four sender threads). SendChunk must be called with items 0,1,2,3,4 in this order.
func pipeRegCfg(threads int) basestreamseeder.Config {
	return basestreamseeder.Config{SenderThreads: threads, MaxSenderTasks: 64, MaxPendingResponsesSize: 1 << 20,
		MaxResponsePayloadNum: 1000, MaxResponsePayloadSize: 1 << 20, MaxResponseChunks: 12}
}

func pipelinedRegression(t *testing.T) {
	var universe []item
	for k := 0; k < 100; k++ {
		universe = append(universe, item{Key: k, Size: 10})
	}
	for threads := 1; threads <= 4; threads++ {
		cfg := basestreamseeder.Config{SenderThreads: threads, MaxSenderTasks: 64, MaxPendingResponsesSize: 1 << 20,
			MaxResponsePayloadNum: 1000, MaxResponsePayloadSize: 1 << 20, MaxResponseChunks: 12}
		h := newHarness(cfg, universe)
		h.stallAfter = 2 * time.Second
		m := &model{universe: universe, cfg: cfg, peers: map[string]*mPeer{}}
		h.closePeerGate("slow")
		var win []*pendReq
		history := []string{}
		for _, chunks := range []uint32{3, 2} {
			r := reqDesc{Peer: "slow", SID: 7, Start: 0, Stop: 10, Num: 1, Size: 1000, Chunks: chunks, Gated: true}
			history = append(history, r.String())
			pr, err := h.submit(r)
			if err != nil {
				h.stop()
				t.Fatalf("threads=%d: %v", threads, err)
			}
			pr.hist = len(history) - 1
			pr.s, pr.info = m.admit(r)
			win = append(win, pr)
			h.settle()
		}
		err := h.drain()
		if err == nil {
			err = checkWindow(m, win, history)
		}
		h.mu.Lock()
		hv := h.violation
		h.mu.Unlock()
		h.stop()
		if err == nil && hv != "" {
			err = errors.New(hv)
		}
		if err != nil {
			t.Fatalf("threads=%d: %v\nhistory:\n  %s", threads, err, strings.Join(history, "\n  "))
		}
	}
	stReg.Evals(4)
	stReg.Class("pipelined_regression_scripts", 4)
}
