// C18: leechers respect flow control and peer removal.
//
// Peer leecher: all callbacks run on the leecher's loop goroutine, so the callback log is a
// sequential history; the oracle is evaluated on that log (timing independent). Only the clause
// "stops once the download is reported done" needs a deadline; it follows the timing policy
// (generous bound, canary, three re-fails).
//
// Base leecher: Register/Unregister/Routine/Terminate histories with session callbacks implemented
// the way an embedder does (candidates = current d.Peers, session state kept by the embedder).
// Routine is driven directly under Mu (fully deterministic) and, in the other half of the cases,
// also by the leecher's own ticker.
package c18

import (
	"fmt"
	"os"
	"sort"
	"strings"
	"sync"
	"testing"
	"time"

	"github.com/Fantom-foundation/lachesis-base/gossip/basestream/basestreamleecher"
	"github.com/Fantom-foundation/lachesis-base/gossip/basestream/basestreamleecher/basepeerleecher"
	"pgregory.net/rapid"

	"verif/harness/internal/canary"
	"verif/harness/internal/stats"
)

func TestMain(m *testing.M) {
	code := m.Run()
	stats.Flush()
	os.Exit(code)
}

// ---------------------------------------------------------------------------------------------
// peer leecher

type plAction struct {
	Kind  string // notify, notifyDup, process, suspend, resume, done, wait, yield
	Arg   int
	Pause int // microseconds to sleep after the action
}

type plCase struct {
	Parallel int
	Actions  []plAction
	EndBy    string // "done" or "terminate"
}

type plHarness struct {
	mu        sync.Mutex
	log       []string
	processed map[int]bool
	suspended bool
	done      bool
	par       int

	// oracle state, advanced inside the callbacks (sequential: one loop goroutine)
	requested      int // sum of maxChunks over RequestChunks
	processedTrue  int // chunks reported processed: per chunk id min(#IsProcessed->true, #notifications)
	notifiedN      map[int]int
	trueN          map[int]int
	doneReported   bool
	routineOpen    bool // Done() returned false in the current routine
	suspendCleared bool // Suspend() returned false in the current routine, no request since
	violation      string

	requests, requestsAfterProgress, suspendTrue, doneCalls, doneCallsAfterTrue int
}

func (h *plHarness) fail(format string, a ...interface{}) {
	if h.violation == "" {
		h.violation = fmt.Sprintf(format, a...) + "\ncallback log (tail):\n  " + strings.Join(tail(h.log, 40), "\n  ")
	}
}

func tail(s []string, n int) []string {
	if len(s) > n {
		return s[len(s)-n:]
	}
	return s
}

func (h *plHarness) callbacks() basepeerleecher.EpochDownloaderCallbacks {
	return basepeerleecher.EpochDownloaderCallbacks{
		Done: func() bool {
			h.mu.Lock()
			defer h.mu.Unlock()
			h.doneCalls++
			r := h.done
			h.log = append(h.log, fmt.Sprintf("Done()->%v", r))
			if h.doneReported {
				// a stopped leecher may poll Done once more (its select is not ordered); it must not do anything else
				h.doneCallsAfterTrue++
			}
			h.routineOpen = !r
			h.suspendCleared = false
			if r {
				h.doneReported = true
			}
			return r
		},
		IsProcessed: func(id interface{}) bool {
			h.mu.Lock()
			defer h.mu.Unlock()
			r := h.processed[id.(int)]
			h.log = append(h.log, fmt.Sprintf("IsProcessed(%v)->%v", id, r))
			if h.doneReported {
				h.fail("IsProcessed called after Done() returned true")
			}
			if r {
				// a delivered chunk can be counted as processed only once
				h.trueN[id.(int)]++
				if h.trueN[id.(int)] <= h.notifiedN[id.(int)] {
					h.processedTrue++
				}
			}
			return r
		},
		Suspend: func() bool {
			h.mu.Lock()
			defer h.mu.Unlock()
			r := h.suspended
			h.log = append(h.log, fmt.Sprintf("Suspend()->%v", r))
			if h.doneReported {
				h.fail("Suspend called after Done() returned true")
			}
			if r {
				h.suspendTrue++
			}
			h.suspendCleared = !r && h.routineOpen
			return r
		},
		RequestChunks: func(maxNum uint32, maxSize uint64, maxChunks uint32) error {
			h.mu.Lock()
			defer h.mu.Unlock()
			h.log = append(h.log, fmt.Sprintf("RequestChunks(chunks=%d) [requested before=%d processed=%d]", maxChunks, h.requested, h.processedTrue))
			if h.doneReported {
				h.fail("RequestChunks after Done() returned true")
			}
			if !h.routineOpen {
				h.fail("RequestChunks without a preceding Done()->false in the same routine")
			}
			if !h.suspendCleared {
				h.fail("RequestChunks without a preceding Suspend()->false in the same routine (request while suspended)")
			}
			h.suspendCleared = false
			if maxChunks == 0 {
				h.fail("RequestChunks asks for 0 chunks: a request was issued although the window is full")
			}
			h.requests++
			if h.processedTrue > 0 {
				h.requestsAfterProgress++
			}
			h.requested += int(maxChunks)
			if h.requested-h.processedTrue > h.par {
				h.fail("flow control: %d chunks requested, %d reported processed, parallelism limit %d", h.requested, h.processedTrue, h.par)
			}
			return nil
		},
	}
}

type verdict struct {
	safety       string // violation on logged order (timing independent)
	timing       string // suspected deadline violation
	inconclusive bool
	classes      []string
	nontrivial   bool
}

const plStopBound = 3 * time.Second // nominal: one tick (1 ms); bound >= 10x nominal + 1 s

func runPeerLeecher(c plCase) verdict {
	cn := canary.Start()
	h := &plHarness{processed: map[int]bool{}, par: c.Parallel, notifiedN: map[int]int{}, trueN: map[int]int{}}
	var wg sync.WaitGroup
	l := basepeerleecher.New(&wg, basepeerleecher.EpochDownloaderConfig{
		RecheckInterval:        time.Millisecond,
		DefaultChunkItemsNum:   7,
		DefaultChunkItemsSize:  1000,
		ParallelChunksDownload: c.Parallel,
	}, h.callbacks())
	l.Start()
	nextChunk := 0
	var notified []int
	notifiedAfterDone := false
	for _, a := range c.Actions {
		switch a.Kind {
		case "notify":
			id := nextChunk
			nextChunk++
			notified = append(notified, id)
			h.mu.Lock()
			if h.done {
				notifiedAfterDone = true
			}
			h.notifiedN[id]++
			h.mu.Unlock()
			_ = l.NotifyChunkReceived(id)
		case "notifyDup":
			if len(notified) > 0 {
				id := notified[a.Arg%len(notified)]
				h.mu.Lock()
				h.notifiedN[id]++
				h.mu.Unlock()
				_ = l.NotifyChunkReceived(id)
			}
		case "process":
			if len(notified) > 0 {
				h.mu.Lock()
				h.processed[notified[a.Arg%len(notified)]] = true
				h.mu.Unlock()
			}
		case "processAll":
			h.mu.Lock()
			for _, id := range notified {
				h.processed[id] = true
			}
			h.mu.Unlock()
		case "suspend":
			h.mu.Lock()
			h.suspended = true
			h.mu.Unlock()
		case "resume":
			h.mu.Lock()
			h.suspended = false
			h.mu.Unlock()
		case "done":
			h.mu.Lock()
			h.done = true
			h.mu.Unlock()
		}
		if a.Pause > 0 {
			time.Sleep(time.Duration(a.Pause) * time.Microsecond)
		}
	}
	var v verdict
	if c.EndBy == "terminate" {
		l.Terminate()
	} else {
		h.mu.Lock()
		h.done = true
		h.mu.Unlock()
	}
	stopped := make(chan struct{})
	go func() { wg.Wait(); close(stopped) }()
	select {
	case <-stopped:
	case <-time.After(plStopBound):
		v.timing = fmt.Sprintf("leecher loop still running %v after the download was reported done / terminated", plStopBound)
		l.Terminate()
		<-stopped
	}
	over := cn.Stop()
	h.mu.Lock()
	defer h.mu.Unlock()
	if v.timing == "" && !l.Stopped() {
		v.safety = "loop exited but Stopped() is false"
	}
	if v.timing == "" && c.EndBy == "done" && !h.doneReported {
		v.safety = "leecher stopped without ever seeing Done()->true"
	}
	if h.violation != "" {
		v.safety = h.violation
	}
	if v.timing != "" && over > canary.Tolerance {
		v.inconclusive = true
	}
	if h.requestsAfterProgress > 0 {
		v.classes = append(v.classes, "request_after_window_slid")
		v.nontrivial = true
	}
	if h.suspendTrue > 0 {
		v.classes = append(v.classes, "tick_while_suspended")
	}
	if h.doneCallsAfterTrue > 0 {
		v.classes = append(v.classes, "done_polled_again_after_true")
	}
	if notifiedAfterDone {
		v.classes = append(v.classes, "notify_after_done")
	}
	if h.requests > 1 {
		v.classes = append(v.classes, "several_requests")
	}
	v.classes = append(v.classes, "end_by_"+c.EndBy)
	return v
}

func genPeerLeecherCase(t *rapid.T) plCase {
	c := plCase{Parallel: rapid.IntRange(1, 4).Draw(t, "parallel")}
	n := rapid.IntRange(3, 25).Draw(t, "actions")
	kinds := []string{"notify", "notify", "notify", "process", "process", "process", "processAll", "notifyDup", "suspend", "resume", "resume", "wait", "wait", "done"}
	for i := 0; i < n; i++ {
		a := plAction{Kind: rapid.SampledFrom(kinds).Draw(t, "kind")}
		if a.Kind == "done" && rapid.IntRange(0, 3).Draw(t, "reallyDone") != 3 {
			a.Kind = "wait"
		}
		a.Arg = rapid.IntRange(0, 7).Draw(t, "arg")
		a.Pause = rapid.SampledFrom([]int{0, 0, 100, 1200, 2500}).Draw(t, "pauseUs")
		if a.Kind == "wait" {
			a.Pause = rapid.SampledFrom([]int{1200, 2500, 4000}).Draw(t, "waitUs")
		}
		c.Actions = append(c.Actions, a)
	}
	c.EndBy = rapid.SampledFrom([]string{"done", "done", "done", "terminate"}).Draw(t, "endBy")
	return c
}

var stPL = stats.New("peer_leecher")

// checkTimed applies the timing policy: safety violations fail at once, a suspected deadline
// violation only after the same case re-failed three more times in a row.
func checkTimed(t *rapid.T, st *stats.Collector, run func() verdict, describe func() string) (verdict, bool) {
	v := run()
	if v.safety != "" {
		t.Fatalf("%s\ncase: %s", v.safety, describe())
	}
	if v.timing != "" {
		// runs during which the canary overslept are not counted either way
		refails := 0
		for attempt := 0; attempt < 10 && refails < 3; attempt++ {
			r := run()
			if r.safety != "" {
				t.Fatalf("%s\ncase: %s", r.safety, describe())
			}
			if r.inconclusive {
				continue
			}
			if r.timing == "" {
				st.Class("timing_suspect_not_confirmed", 1)
				return r, true
			}
			refails++
		}
		if refails == 3 {
			t.Fatalf("%s (re-failed 3 times in a row)\ncase: %s", v.timing, describe())
		}
		st.Inconclusive()
		return v, false
	}
	return v, true
}

func TestC18PeerLeecher(t *testing.T) {
	rapid.Check(t, func(t *rapid.T) {
		c := genPeerLeecherCase(t)
		v, ok := checkTimed(t, stPL, func() verdict { return runPeerLeecher(c) }, func() string { return fmt.Sprintf("%+v", c) })
		if !ok {
			return
		}
		stPL.Case(stats.Hash(fmt.Sprintf("%+v", c)), v.nontrivial, v.classes...)
		stPL.Sample(func() interface{} { return c })
	})
}

// ---------------------------------------------------------------------------------------------
// base leecher

type blOp struct {
	Kind  string // register, unregister, unregisterSessionPeer, routine, terminate, shouldTerminate, eligible
	Peer  string
	Pause int // microseconds (ticker mode)
	// crowd histories (Pool > 0) name their peers at run time: registerNth = the Arg-th pool peer that
	// is not registered (a duplicate registration if all are), unregisterNth = the Arg-th registered
	// peer (a never registered name if none is), registerDup = the Arg-th registered peer once more,
	// eligibleNth = the Arg-th pool peer;
	// unregisterSessionPeer with an empty Peer falls back to unregisterNth when no session runs
	Arg int
}

type blCase struct {
	Ticker    bool
	StalePeer bool // OngoingSessionPeer keeps returning the last peer after the session ended
	Picks     []int
	Pool      int // crowd histories: number of distinct peer names (p00, p01, ...)
	Ops       []blOp
}

type blHarness struct {
	mu sync.Mutex
	d  *basestreamleecher.BaseLeecher
	c  blCase

	// embedder state
	ongoing         bool
	sessionPeer     string
	shouldTerminate bool
	ineligible      map[string]bool
	pickI           int

	// model
	registered          map[string]bool
	counted             map[string]bool // peers the leecher has to count: registered before Terminate, not unregistered since
	peakCounted         int
	deepWave            bool // the peer set fell to <= 1/4 of a peak of >= 16 peers
	startsAfterDeepWave int
	unregistering       map[string]int // calls in flight
	terminating         bool           // Terminate called
	terminated          bool           // Terminate returned

	log       []string
	violation string

	starts, restartsOnUnregister int
}

func (h *blHarness) fail(format string, a ...interface{}) {
	if h.violation == "" {
		h.violation = fmt.Sprintf(format, a...) + "\nlog (tail):\n  " + strings.Join(tail(h.log, 40), "\n  ")
	}
}

func (h *blHarness) callbacks() basestreamleecher.Callbacks {
	return basestreamleecher.Callbacks{
		SelectSessionPeerCandidates: func() []string {
			// the embedder's view: the currently known peers (the caller holds d.Mu)
			var res []string
			for p := range h.d.Peers {
				res = append(res, p)
			}
			sort.Strings(res)
			h.mu.Lock()
			defer h.mu.Unlock()
			k := 0
			for _, p := range res {
				if !h.ineligible[p] {
					res[k] = p
					k++
				}
			}
			res = res[:k]
			h.log = append(h.log, fmt.Sprintf("  SelectSessionPeerCandidates()->%v", res))
			return res
		},
		ShouldTerminateSession: func() bool {
			h.mu.Lock()
			defer h.mu.Unlock()
			return h.shouldTerminate
		},
		StartSession: func(candidates []string) {
			h.mu.Lock()
			defer h.mu.Unlock()
			picked := candidates[h.c.Picks[h.pickI%len(h.c.Picks)]%len(candidates)]
			h.pickI++
			h.log = append(h.log, fmt.Sprintf("  StartSession(%v) picks %s", candidates, picked))
			if h.terminated {
				h.fail("StartSession after Terminate returned")
			}
			if h.terminating && !h.c.Ticker {
				// nothing but Terminate itself runs now
				h.fail("StartSession from inside Terminate")
			}
			if h.ongoing {
				h.fail("StartSession while the session with %s is still running", h.sessionPeer)
			}
			for _, p := range candidates {
				if !h.registered[p] {
					h.fail("StartSession offers peer %s which is not registered (unregistered earlier and not re-registered)", p)
				}
				// without the ticker nothing runs between the start of UnregisterPeer and its own
				// restart of the session, so the peer being removed must already be gone
				if !h.c.Ticker && h.unregistering[p] > 0 {
					h.fail("UnregisterPeer(%s) restarts the session with candidates %v", p, candidates)
				}
			}
			if !h.registered[picked] {
				h.fail("StartSession: session started with peer %s which is not registered", picked)
			}
			h.ongoing = true
			h.sessionPeer = picked
			h.shouldTerminate = false
			h.starts++
			if h.deepWave {
				h.startsAfterDeepWave++
			}
		},
		TerminateSession: func() {
			h.mu.Lock()
			defer h.mu.Unlock()
			h.log = append(h.log, "  TerminateSession()")
			h.ongoing = false
			h.shouldTerminate = false
			if !h.c.StalePeer {
				h.sessionPeer = ""
			}
		},
		OngoingSession: func() bool {
			h.mu.Lock()
			defer h.mu.Unlock()
			return h.ongoing
		},
		OngoingSessionPeer: func() string {
			h.mu.Lock()
			defer h.mu.Unlock()
			return h.sessionPeer
		},
	}
}

func poolPeer(i int) string { return fmt.Sprintf("p%02d", i) }

// resolve names the peer of a crowd operation from the model state (caller holds h.mu)
func (h *blHarness) resolve(op blOp) blOp {
	nthRegistered := func() string {
		var reg []string
		for p := range h.registered {
			reg = append(reg, p)
		}
		if len(reg) == 0 {
			return "ghost" // unregistering an unknown peer is legal
		}
		sort.Strings(reg)
		return reg[op.Arg%len(reg)]
	}
	switch op.Kind {
	case "registerNth":
		op.Kind = "register"
		var free []string
		for i := 0; i < h.c.Pool; i++ {
			if !h.registered[poolPeer(i)] {
				free = append(free, poolPeer(i))
			}
		}
		if len(free) == 0 {
			op.Peer = poolPeer(op.Arg % h.c.Pool)
		} else {
			op.Peer = free[op.Arg%len(free)]
		}
	case "registerDup":
		// registering a registered peer again does not change the set
		if len(h.registered) == 0 {
			op.Kind = "routine"
		} else {
			op.Kind = "register"
			op.Peer = nthRegistered()
		}
	case "unregisterNth":
		op.Kind = "unregister"
		op.Peer = nthRegistered()
	case "unregisterSessionPeer":
		if op.Peer == "" && !h.ongoing {
			op.Kind = "unregister"
			op.Peer = nthRegistered()
		}
	case "eligibleNth":
		op.Kind = "eligible"
		op.Peer = poolPeer(op.Arg % h.c.Pool)
	}
	return op
}

// checkPeersNum: a registered peer is counted, an unregistered one is not (judged until Terminate,
// which makes RegisterPeer a no-op). Only the driver goroutine changes the peer set.
func (h *blHarness) checkPeersNum(after string) {
	got := h.d.PeersNum()
	h.mu.Lock()
	defer h.mu.Unlock()
	if got != len(h.counted) {
		var reg []string
		for p := range h.counted {
			reg = append(reg, p)
		}
		sort.Strings(reg)
		h.fail("after %s returned PeersNum() = %d, but %d peers are registered: %v", after, got, len(reg), reg)
	}
}

func runBaseLeecher(c blCase) verdict {
	h := &blHarness{c: c, ineligible: map[string]bool{}, registered: map[string]bool{}, counted: map[string]bool{}, unregistering: map[string]int{}}
	interval := time.Hour
	if c.Ticker {
		interval = time.Millisecond
	}
	h.d = basestreamleecher.New(interval, h.callbacks())
	if c.Ticker {
		h.d.Start()
	}
	var v verdict
	cls := map[string]bool{}
	terminateCalled := false
	for _, op := range c.Ops {
		if c.Pool > 0 {
			h.mu.Lock()
			op = h.resolve(op)
			h.mu.Unlock()
		}
		switch op.Kind {
		case "register":
			h.mu.Lock()
			h.log = append(h.log, "RegisterPeer("+op.Peer+")")
			h.registered[op.Peer] = true // from now on a session with the peer is legitimate
			if !terminateCalled {
				h.counted[op.Peer] = true
				if len(h.counted) > h.peakCounted {
					h.peakCounted = len(h.counted)
				}
			}
			h.mu.Unlock()
			_ = h.d.RegisterPeer(op.Peer)
			if !terminateCalled {
				h.checkPeersNum("RegisterPeer(" + op.Peer + ")")
			}
		case "unregister", "unregisterSessionPeer":
			h.mu.Lock()
			if op.Kind == "unregisterSessionPeer" && h.ongoing {
				op.Peer = h.sessionPeer // resolved at run time: the peer of the running session
			}
			h.log = append(h.log, "UnregisterPeer("+op.Peer+")")
			h.unregistering[op.Peer]++
			wasRunningWithPeer := h.ongoing && h.sessionPeer == op.Peer
			others := 0
			for p := range h.registered {
				if p != op.Peer && !h.ineligible[p] {
					others++
				}
			}
			startsBefore := h.starts
			h.mu.Unlock()
			_ = h.d.UnregisterPeer(op.Peer)
			h.mu.Lock()
			h.unregistering[op.Peer]--
			delete(h.registered, op.Peer)
			delete(h.counted, op.Peer)
			h.log = append(h.log, "UnregisterPeer("+op.Peer+") returned")
			if !terminateCalled && h.peakCounted >= 16 {
				if len(h.counted) <= h.peakCounted/4 {
					h.deepWave = true
					cls["wave_down_to_quarter_of_peak"] = true
				}
				if len(h.counted) == 0 {
					cls["wave_down_to_zero"] = true
				}
			}
			if h.ongoing && h.sessionPeer == op.Peer {
				h.fail("after UnregisterPeer(%s) returned, a session with %s is running", op.Peer, op.Peer)
			}
			if wasRunningWithPeer && !terminateCalled {
				if others > 0 {
					cls["unregister_session_peer_others_exist"] = true
				} else {
					cls["unregister_session_peer_last_one"] = true
				}
				if h.starts > startsBefore {
					cls["session_restarted_by_unregister"] = true
				}
			}
			h.mu.Unlock()
			if !terminateCalled {
				h.checkPeersNum("UnregisterPeer(" + op.Peer + ")")
			}
		case "routine":
			h.mu.Lock()
			h.log = append(h.log, "Routine()")
			h.mu.Unlock()
			h.d.Mu.Lock()
			h.d.Routine()
			h.d.Mu.Unlock()
		case "terminate":
			if terminateCalled {
				continue // Terminate closes Quit; a second call is outside the API contract
			}
			terminateCalled = true
			h.mu.Lock()
			h.log = append(h.log, "Terminate()")
			h.terminating = true
			h.mu.Unlock()
			h.d.Terminate()
			h.mu.Lock()
			h.terminated = true
			h.log = append(h.log, "Terminate() returned")
			h.mu.Unlock()
			cls["terminated_midway"] = true
		case "shouldTerminate":
			h.mu.Lock()
			h.log = append(h.log, "embedder: session should terminate")
			h.shouldTerminate = true
			h.mu.Unlock()
		case "eligible":
			h.mu.Lock()
			h.ineligible[op.Peer] = !h.ineligible[op.Peer]
			h.log = append(h.log, fmt.Sprintf("embedder: ineligible[%s]=%v", op.Peer, h.ineligible[op.Peer]))
			h.mu.Unlock()
		}
		if c.Ticker && op.Pause > 0 {
			time.Sleep(time.Duration(op.Pause) * time.Microsecond)
		}
		if terminateCalled && op.Kind != "terminate" {
			cls["ops_after_terminate"] = true
		}
	}
	if !terminateCalled {
		h.mu.Lock()
		h.log = append(h.log, "Terminate() [end of case]")
		h.terminating = true
		h.mu.Unlock()
		h.d.Terminate()
	}
	h.d.Wg.Wait()
	h.mu.Lock()
	defer h.mu.Unlock()
	v.safety = h.violation
	if h.starts > 1 {
		cls["several_sessions"] = true
	}
	if h.startsAfterDeepWave > 0 {
		cls["session_started_after_wave_down"] = true
	}
	switch {
	case h.peakCounted >= 25:
		cls["peak_25_40_peers"] = true
	case h.peakCounted >= 16:
		cls["peak_16_24_peers"] = true
	}
	if c.Ticker {
		cls["ticker"] = true
	} else {
		cls["direct"] = true
	}
	v.nontrivial = cls["unregister_session_peer_others_exist"] || cls["unregister_session_peer_last_one"]
	for k := range cls {
		v.classes = append(v.classes, k)
	}
	sort.Strings(v.classes)
	return v
}

func genBaseLeecherCase(t *rapid.T) blCase {
	c := blCase{
		Ticker:    rapid.Bool().Draw(t, "ticker"),
		StalePeer: rapid.Bool().Draw(t, "stalePeerName"),
		Picks:     rapid.SliceOfN(rapid.IntRange(0, 5), 8, 8).Draw(t, "picks"),
	}
	peers := []string{"a", "b", "c", "d"}[:rapid.IntRange(1, 4).Draw(t, "peers")]
	n := rapid.IntRange(3, 30).Draw(t, "ops")
	kinds := []string{"register", "register", "register", "unregister", "unregisterSessionPeer", "routine", "routine", "routine", "shouldTerminate", "eligible", "terminate"}
	for i := 0; i < n; i++ {
		op := blOp{Kind: rapid.SampledFrom(kinds).Draw(t, "kind"), Peer: rapid.SampledFrom(peers).Draw(t, "peer")}
		if op.Kind == "terminate" && rapid.IntRange(0, 3).Draw(t, "reallyTerminate") != 3 {
			op.Kind = "routine"
		}
		if op.Kind == "eligible" && rapid.IntRange(0, 2).Draw(t, "reallyEligible") != 2 {
			op.Kind = "unregister"
		}
		if c.Ticker {
			op.Pause = rapid.SampledFrom([]int{0, 0, 300, 1200, 2500}).Draw(t, "pauseUs")
		}
		c.Ops = append(c.Ops, op)
	}
	return c
}

// genBaseLeecherCrowdCase: a node-sized peer set. 1-3 cycles of a registration wave (the first one up
// to the drawn peak of 16-40 peers, later ones to any level) followed by a wave of unregistrations down
// to few or zero peers; ticks, session terminations, eligibility changes, duplicate registrations and
// unregistrations of unknown peers are interleaved. The generator knows the size of the peer set
// (every unregistration removes exactly one registered peer if there is one), not its members.
func genBaseLeecherCrowdCase(t *rapid.T) blCase {
	c := blCase{
		Ticker:    rapid.IntRange(0, 2).Draw(t, "ticker") == 0,
		StalePeer: rapid.Bool().Draw(t, "stalePeerName"),
		Picks:     rapid.SliceOfN(rapid.IntRange(0, 39), 8, 8).Draw(t, "picks"),
	}
	peak := rapid.IntRange(16, 40).Draw(t, "peak")
	c.Pool = peak + rapid.IntRange(0, 4).Draw(t, "spareNames")
	n := 0 // size of the peer set
	terminated := false
	terminateAt := -1 // 1 case in 8 terminates the leecher somewhere in the history
	if rapid.IntRange(0, 7).Draw(t, "terminates") == 0 {
		terminateAt = rapid.IntRange(0, 150).Draw(t, "terminateAt")
	}
	emit := func(kind string) {
		if len(c.Ops) == terminateAt {
			terminated = true
			c.Ops = append(c.Ops, blOp{Kind: "terminate"})
		}
		op := blOp{Kind: kind, Arg: rapid.IntRange(0, 39).Draw(t, "arg")}
		if c.Ticker && rapid.IntRange(0, 7).Draw(t, "pause") == 0 {
			op.Pause = rapid.SampledFrom([]int{300, 1200}).Draw(t, "pauseUs")
		}
		c.Ops = append(c.Ops, op)
	}
	misc := func() {
		// 0-2 interleaved operations which do not change the size of the peer set
		for k := rapid.SampledFrom([]int{0, 0, 0, 1, 1, 2}).Draw(t, "interleaved"); k > 0; k-- {
			kind := rapid.SampledFrom([]string{"routine", "routine", "routine", "routine", "shouldTerminate", "shouldTerminate", "eligibleNth", "dupRegister", "ghost"}).Draw(t, "misc")
			switch kind {
			case "dupRegister":
				emit("registerDup")
			case "ghost":
				c.Ops = append(c.Ops, blOp{Kind: "unregister", Peer: "ghost"})
			default:
				emit(kind)
			}
		}
	}
	cycles := rapid.IntRange(1, 3).Draw(t, "cycles")
	for cy := 0; cy < cycles; cy++ {
		up := peak
		if cy > 0 {
			up = rapid.IntRange(1, peak).Draw(t, "level")
		}
		for n < up {
			emit("registerNth")
			if !terminated {
				n++
			} else {
				up-- // RegisterPeer is a no-op now; bound the wave all the same
			}
			misc()
		}
		down := rapid.SampledFrom([]int{0, 0, 0, 1, 1, 2, 3, 5, n / 4, n / 2}).Draw(t, "downTo")
		sessionPeerEvery := rapid.IntRange(1, 6).Draw(t, "sessionPeerEvery")
		for n > down {
			if rapid.IntRange(1, sessionPeerEvery).Draw(t, "which") == 1 {
				emit("unregisterSessionPeer")
			} else {
				emit("unregisterNth")
			}
			n--
			misc()
		}
		for k := rapid.IntRange(0, 2).Draw(t, "ticksAfterWave"); k > 0; k-- {
			emit("routine")
		}
	}
	return c
}

var stBL = stats.New("base_leecher")
var stBLC = stats.New("base_leecher_crowd")

func TestC18BaseLeecherCrowd(t *testing.T) {
	rapid.Check(t, func(t *rapid.T) {
		c := genBaseLeecherCrowdCase(t)
		v := runBaseLeecher(c)
		if v.safety != "" {
			t.Fatalf("%s\ncase: %+v", v.safety, c)
		}
		stBLC.Case(stats.Hash(fmt.Sprintf("%+v", c)), v.nontrivial, v.classes...)
		stBLC.Sample(func() interface{} { return c })
	})
}

func TestC18BaseLeecher(t *testing.T) {
	rapid.Check(t, func(t *rapid.T) {
		c := genBaseLeecherCase(t)
		v := runBaseLeecher(c)
		if v.safety != "" {
			t.Fatalf("%s\ncase: %+v", v.safety, c)
		}
		stBL.Case(stats.Hash(fmt.Sprintf("%+v", c)), v.nontrivial, v.classes...)
		stBL.Sample(func() interface{} { return c })
	})
}

// TestC18Regression: F5 (DESIGN.md §5) as a fixed history.
func TestC18Regression(t *testing.T) {
	for _, stale := range []bool{false, true} {
		v := runBaseLeecher(blCase{StalePeer: stale, Picks: []int{0}, Ops: []blOp{
			{Kind: "register", Peer: "a"}, {Kind: "routine"}, {Kind: "unregister", Peer: "a"}, {Kind: "routine"},
		}})
		if v.safety != "" {
			t.Fatalf("unregistering the only peer: %s", v.safety)
		}
		v = runBaseLeecher(blCase{StalePeer: stale, Picks: []int{0}, Ops: []blOp{
			{Kind: "register", Peer: "a"}, {Kind: "register", Peer: "b"}, {Kind: "routine"}, {Kind: "unregister", Peer: "a"},
			{Kind: "terminate"}, {Kind: "register", Peer: "c"}, {Kind: "routine"},
		}})
		if v.safety != "" {
			t.Fatalf("unregistering the session peer with another peer present: %s", v.safety)
		}
	}
	stReg.Evals(4)
	stReg.Class("regression_scripts", 4)
	stReg.Sample(func() interface{} { return "hand-written regression histories" })
}

var stReg = stats.New("regression")
