// C19: parent selection is well-formed.
//
// Generator: existing-parent lists, option lists (with overlaps and duplicates) over a small
// universe of event ids, and 0-6 strategies, each a "drawn rank" strategy (picks the option with
// a drawn rank in id order, so the pick does not depend on the shuffled order in which
// ChooseParents offers the options), a MetricStrategy over a drawn metric table, or the repo's
// RandomStrategy with a drawn seed.
// Oracle: the clauses of the property text evaluated on the result and on a log of what every
// strategy was offered and what it answered.
package c19

import (
	"bytes"
	"fmt"
	"math/rand"
	"os"
	"sort"
	"testing"

	"github.com/Fantom-foundation/lachesis-base/emitter/ancestor"
	"github.com/Fantom-foundation/lachesis-base/hash"
	"pgregory.net/rapid"

	"verif/harness/internal/stats"
	"verif/harness/internal/uni"
)

func TestMain(m *testing.M) {
	code := m.Run()
	stats.Flush()
	os.Exit(code)
}

const universe = 10

// id k of the universe as an event hash (distinct, not ordered like k)
func ev(k int) hash.Event {
	var h hash.Event
	h[0] = byte(k * 37)
	h[7] = byte(k)
	h[31] = byte(255 - k)
	return h
}

func idOf(h hash.Event) int {
	for k := 0; k < universe; k++ {
		if ev(k) == h {
			return k
		}
	}
	return -1
}

func toEvents(ks []int) hash.Events {
	res := make(hash.Events, len(ks))
	for i, k := range ks {
		res[i] = ev(k)
	}
	return res
}

func toIDs(hs hash.Events) []int {
	res := make([]int, len(hs))
	for i, h := range hs {
		res[i] = idOf(h)
	}
	return res
}

var metricValues = []uint64{0, 0, 0, 1, 1, 2, 3, 5, 5, 1 << 32, 1<<32 + 1, 1 << 33, 1<<63 - 1, 1 << 63, ^uint64(0) - 1, ^uint64(0)}

type stratSpec struct {
	Kind   string   // "rank", "metric", "random"
	Rank   int      // rank strategy: rank (mod number of options offered) in id order
	Metric []uint64 // metric strategy: metric of every universe id
	Seed   int64    // random strategy
}

type call struct {
	existing hash.Events
	options  hash.Events
	answer   int
}

// recorder wraps a strategy and logs what it was offered and what it answered
type recorder struct {
	inner ancestor.SearchStrategy
	calls []call
}

func (r *recorder) Choose(existing hash.Events, options hash.Events) int {
	a := r.inner.Choose(existing, options)
	r.calls = append(r.calls, call{existing.Copy(), options.Copy(), a})
	return a
}

// rankStrategy answers with the index of the option that has the drawn rank in byte order
type rankStrategy struct{ rank int }

func (s rankStrategy) Choose(_ hash.Events, options hash.Events) int {
	order := make([]int, len(options))
	for i := range order {
		order[i] = i
	}
	sort.SliceStable(order, func(a, b int) bool { return bytes.Compare(options[order[a]][:], options[order[b]][:]) < 0 })
	return order[s.rank%len(options)]
}

func genMetricTable(t *rapid.T, label string) []uint64 {
	tbl := make([]uint64, universe)
	mode := uni.Int(t, label+".mode", 5)
	for k := range tbl {
		switch mode {
		case 0: // all zero
			tbl[k] = 0
		case 1: // few small values: ties guaranteed
			tbl[k] = uint64(uni.Int(t, fmt.Sprintf("%s.%d", label, k), 3))
		case 2: // one constant
			tbl[k] = metricValues[uni.Int(t, label+".const", len(metricValues))]
		default:
			tbl[k] = metricValues[uni.Int(t, fmt.Sprintf("%s.%d", label, k), len(metricValues))]
		}
	}
	return tbl
}

func metricFn(tbl []uint64) func(hash.Event) ancestor.Metric {
	return func(h hash.Event) ancestor.Metric { return ancestor.Metric(tbl[idOf(h)]) }
}

var stSel = stats.New("choose_parents")

func TestC19ChooseParents(t *testing.T) {
	rapid.Check(t, func(t *rapid.T) {
		// existing parents: distinct; low-rate class with duplicates
		nEx := uni.Int(t, "nExisting", 5)
		perm := rapid.Permutation([]int{0, 1, 2, 3, 4, 5, 6, 7, 8, 9}).Draw(t, "perm")
		existing := append([]int{}, perm[:nEx]...)
		dupExisting := false
		if nEx >= 1 && uni.Chance(t, "dupExisting", 8) {
			existing = append(existing, existing[uni.Int(t, "dupExistingIdx", nEx)])
			dupExisting = true
		}
		// options: drawn from the universe with repetition; overlap with existing is likely
		nOpt := uni.Int(t, "nOptions", 9)
		if uni.Chance(t, "manyOptions", 10) {
			nOpt = 9 + uni.Int(t, "nOptionsMore", 8)
		}
		options := make([]int, nOpt)
		for i := range options {
			options[i] = uni.Int(t, fmt.Sprintf("opt%d", i), universe)
		}
		if uni.Chance(t, "optionsSubsetOfExisting", 6) && nEx > 0 {
			for i := range options {
				options[i] = existing[uni.Int(t, fmt.Sprintf("optEx%d", i), len(existing))]
			}
		}
		nStr := uni.Int(t, "nStrategies", 7)
		specs := make([]stratSpec, nStr)
		recs := make([]*recorder, nStr)
		strategies := make([]ancestor.SearchStrategy, nStr)
		for i := range specs {
			lbl := fmt.Sprintf("s%d", i)
			switch k := uni.Pct(t, lbl+".kind"); {
			case k < 45:
				specs[i] = stratSpec{Kind: "rank", Rank: uni.Int(t, lbl+".rank", 16)}
				recs[i] = &recorder{inner: rankStrategy{specs[i].Rank}}
			case k < 92:
				specs[i] = stratSpec{Kind: "metric", Metric: genMetricTable(t, lbl)}
				recs[i] = &recorder{inner: ancestor.NewMetricStrategy(metricFn(specs[i].Metric))}
			default:
				specs[i] = stratSpec{Kind: "random", Seed: rapid.Int64().Draw(t, lbl+".seed")}
				recs[i] = &recorder{inner: ancestor.NewRandomStrategy(rand.New(rand.NewSource(specs[i].Seed)))}
			}
			strategies[i] = recs[i]
		}

		exEvents, optEvents := toEvents(existing), toEvents(options)
		// the existing-parents list is a reused buffer with spare capacity in half of the cases
		spare := rapid.Bool().Draw(t, "existingParentsBufferHasSpareCapacity")
		if spare {
			buf := make(hash.Events, len(exEvents), len(exEvents)+10)
			copy(buf, exEvents)
			exEvents = buf
		}
		exCopy, optCopy := exEvents.Copy(), optEvents.Copy()
		res := ancestor.ChooseParents(exEvents, optEvents, strategies)
		got := toIDs(res)
		if spare {
			// a second selection from the same buffer (other options, simple strategies) must not rewrite the first result
			other := make(hash.Events, 0, 4)
			for k := 0; k < 4; k++ {
				other = append(other, ev((k*3+1)%universe))
			}
			second := make([]ancestor.SearchStrategy, len(strategies))
			for i := range second {
				second[i] = rankStrategy{i}
			}
			_ = ancestor.ChooseParents(exEvents, other, second)
			if now := toIDs(res); fmt.Sprint(now) != fmt.Sprint(got) {
				t.Fatalf("a second ChooseParents call from the same existing-parents buffer changed the first result from %v to %v\nexisting=%v options=%v", got, now, existing, options)
			}
		}

		fail := func(format string, args ...interface{}) {
			t.Fatalf("%s\nexisting=%v options=%v strategies=%+v result=%v", fmt.Sprintf(format, args...), existing, options, specs, got)
		}

		// the inputs are not modified
		for i := range exCopy {
			if exEvents[i] != exCopy[i] {
				fail("ChooseParents modified the existing-parents argument")
			}
		}
		for i := range optCopy {
			if optEvents[i] != optCopy[i] {
				fail("ChooseParents modified the options argument")
			}
		}

		// "returns the given existing parents first and in order"
		if len(got) < len(existing) {
			fail("result shorter than the existing parents")
		}
		for i, k := range existing {
			if got[i] != k {
				fail("result does not start with the existing parents (position %d)", i)
			}
		}
		added := got[len(existing):]
		inOptions := map[int]bool{}
		for _, k := range options {
			inOptions[k] = true
		}
		inExisting := map[int]bool{}
		for _, k := range existing {
			inExisting[k] = true
		}
		avail := 0
		for k := range inOptions {
			if !inExisting[k] {
				avail++
			}
		}
		// "followed by at most one new option per strategy ... stops early only when no options remain"
		wantAdded := nStr
		if avail < wantAdded {
			wantAdded = avail
		}
		if len(added) != wantAdded {
			fail("added %d parents, expected min(#strategies=%d, #fresh options=%d)", len(added), nStr, avail)
		}
		// "never repeats a parent, adds only offered options"
		seen := map[int]bool{}
		for _, k := range existing {
			seen[k] = true
		}
		for i, k := range added {
			if k < 0 || !inOptions[k] {
				fail("added parent #%d (%d) was not among the options", i, k)
			}
			if seen[k] {
				fail("added parent #%d (%d) repeats an earlier parent", i, k)
			}
			seen[k] = true
		}
		// one pick per strategy, in strategy order; the added parent is what the strategy was offered and chose
		tie, allZero := false, false
		for i, r := range recs {
			if i >= len(added) {
				if len(r.calls) != 0 {
					fail("strategy %d was consulted although its pick was not added", i)
				}
				continue
			}
			if len(r.calls) != 1 {
				fail("strategy %d was consulted %d times", i, len(r.calls))
			}
			c := r.calls[0]
			if c.answer < 0 || c.answer >= len(c.options) {
				fail("strategy %d answered %d for %d options", i, c.answer, len(c.options))
			}
			if idOf(c.options[c.answer]) != added[i] {
				fail("added parent #%d is %d but strategy %d chose %d", i, added[i], i, idOf(c.options[c.answer]))
			}
			if specs[i].Kind == "metric" {
				// "The metric strategy always picks an option of maximal metric."
				tbl := specs[i].Metric
				max, nmax := uint64(0), 0
				for _, o := range c.options {
					if m := tbl[idOf(o)]; m > max {
						max = m
					}
				}
				for _, o := range c.options {
					if tbl[idOf(o)] == max {
						nmax++
					}
				}
				if tbl[added[i]] != max {
					fail("metric strategy %d picked %d with metric %d, but an offered option has metric %d (offered %v)",
						i, added[i], tbl[added[i]], max, toIDs(c.options))
				}
				if nmax > 1 {
					tie = true
				}
				if max == 0 {
					allZero = true
				}
			}
		}

		earlyStop := nStr > avail
		classes := []string{}
		add := func(b bool, name string) {
			if b {
				classes = append(classes, name)
			}
		}
		add(earlyStop, "early_stop_options_ran_out")
		add(tie, "metric_tie_at_max")
		add(allZero, "metric_all_zero_offered")
		add(dupExisting, "existing_with_duplicates")
		add(len(inOptions) < len(options), "options_with_duplicates")
		overlap := false
		for k := range inOptions {
			if inExisting[k] {
				overlap = true
			}
		}
		add(overlap, "options_overlap_existing")
		add(len(options) == 0, "no_options")
		add(avail == 0 && len(options) > 0, "all_options_already_parents")
		add(nStr == 0, "no_strategies")
		add(len(existing) == 0, "no_existing")
		add(len(added) > 0, "added_some")
		stSel.Case(stats.Hash(existing, options, fmt.Sprintf("%+v", specs)), earlyStop || tie || allZero, classes...)
		stSel.Sample(func() interface{} {
			return map[string]interface{}{"existing": existing, "options": options, "strategies": fmt.Sprintf("%+v", specs), "result": got}
		})
	})
}

var stMetric = stats.New("metric_choose")

// TestC19MetricChoose calls MetricStrategy.Choose directly on drawn non-empty option lists
// (with duplicates): the answer is a valid index of an option with maximal metric.
func TestC19MetricChoose(t *testing.T) {
	rapid.Check(t, func(t *rapid.T) {
		tbl := genMetricTable(t, "tbl")
		// one strategy object serves several unrelated selections (as an emitter reuses it): an answer must not
		// depend on earlier calls
		s := ancestor.NewMetricStrategy(metricFn(tbl))
		calls := 1 + uni.Int(t, "calls", 4)
		var options []int
		var a, n int
		var max uint64
		nmax := 0
		for call := 0; call < calls; call++ {
			n = 1 + uni.Int(t, fmt.Sprintf("nOptions%d", call), 10)
			options = make([]int, n)
			for i := range options {
				options[i] = uni.Int(t, fmt.Sprintf("opt%d_%d", call, i), universe)
			}
			nEx := uni.Int(t, fmt.Sprintf("nExisting%d", call), 4)
			existing := make([]int, nEx)
			for i := range existing {
				existing[i] = uni.Int(t, fmt.Sprintf("ex%d_%d", call, i), universe)
			}
			a = s.Choose(toEvents(existing), toEvents(options))
			if a < 0 || a >= n {
				t.Fatalf("call %d: MetricStrategy.Choose answered %d for %d options (options=%v metrics=%v)", call+1, a, n, options, tbl)
			}
			max, nmax = 0, 0
			for _, o := range options {
				if tbl[o] > max {
					max = tbl[o]
				}
			}
			for _, o := range options {
				if tbl[o] == max {
					nmax++
				}
			}
			if tbl[options[a]] != max {
				t.Fatalf("call %d on the same strategy object: MetricStrategy.Choose picked option #%d (id %d, metric %d) but the maximal metric is %d (options=%v metrics=%v)",
					call+1, a, options[a], tbl[options[a]], max, options, tbl)
			}
		}
		cls := "unique_max"
		if max == 0 {
			cls = "all_zero"
		} else if nmax > 1 {
			cls = "tie_at_max"
		}
		classes := []string{cls}
		if calls > 1 {
			classes = append(classes, "strategy_object_reused")
		}
		if max >= 1<<32 {
			classes = append(classes, "max_above_32_bits")
		}
		stMetric.Case(stats.Hash(options, tbl), nmax > 1 || max == 0, classes...)
		stMetric.Sample(func() interface{} {
			return map[string]interface{}{"options": options, "metrics": fmt.Sprint(tbl), "answer": a}
		})
	})
}
