// C20: quorum indexer medians and metrics follow their definition.
//
// Two domains: (a) a fake DagIndex that returns drawn observation vectors (zeros, small and large
// sequence numbers, fork markers) for drawn processing histories with self/non-self flags;
// (b) the real vecfc index over small rapid-drawn DAGs with forks, where the observations are
// recomputed from the graph definition (ancestor sets).
// Oracle: the weighted median by brute force from its definition in the property text
// (fork = maximal observation), the metric as the plain sum of the drawn diff function.
package c20

import (
	"fmt"
	"math"
	"os"
	"testing"

	"github.com/Fantom-foundation/lachesis-base/abft/dagidx"
	"github.com/Fantom-foundation/lachesis-base/emitter/ancestor"
	"github.com/Fantom-foundation/lachesis-base/hash"
	"github.com/Fantom-foundation/lachesis-base/inter/dag"
	"github.com/Fantom-foundation/lachesis-base/inter/dag/tdag"
	"github.com/Fantom-foundation/lachesis-base/inter/idx"
	"github.com/Fantom-foundation/lachesis-base/inter/pos"
	"github.com/Fantom-foundation/lachesis-base/kvdb/memorydb"
	"github.com/Fantom-foundation/lachesis-base/utils/adapters"
	"github.com/Fantom-foundation/lachesis-base/vecfc"
	"pgregory.net/rapid"

	"verif/harness/internal/stats"
	"verif/harness/internal/uni"
)

func TestMain(m *testing.M) {
	code := m.Run()
	stats.Flush()
	os.Exit(code)
}

// ---------------------------------------------------------------------------------------------
// oracle

// observations are int64; a detected fork is the maximal observation
const forkObs = int64(math.MaxInt64)

// how a fork observation is reported through idx.Event values (quorum_indexer.go: seqOf)
const forkReported = uint32(math.MaxUint32/2 - 1)

// largest sequence number a well-formed event can carry (C13: below 2^31-2)
const maxSeq = uint32(1)<<31 - 3

func reported(o int64) uint32 {
	if o == forkObs {
		return forkReported
	}
	return uint32(o)
}

// refMedian: "the largest sequence number s such that validators holding at least a quorum of
// weight have, in their latest processed events, observed that validator at s or above".
// obsOfV[i] = observation of the validator in question by validator i's latest processed event.
func refMedian(obsOfV []int64, weights []uint64) int64 {
	total := uint64(0)
	for _, w := range weights {
		total += w
	}
	best := int64(0) // everybody observes "0 or above"
	for _, s := range obsOfV {
		w := uint64(0)
		for i, o := range obsOfV {
			if o >= s {
				w += weights[i]
			}
		}
		// a quorum is more than two thirds of the total weight
		if 3*w > 2*total && s > best {
			best = s
		}
	}
	return best
}

// without the "fork counts as maximal" rule (forks read as 0), to classify cases
func refMedianForkAsZero(obsOfV []int64, weights []uint64) int64 {
	o2 := make([]int64, len(obsOfV))
	for i, o := range obsOfV {
		if o != forkObs {
			o2[i] = o
		}
	}
	return refMedian(o2, weights)
}

// weight of the validators observing at least s
func supportOf(obsOfV []int64, weights []uint64, s int64) uint64 {
	w := uint64(0)
	for i, o := range obsOfV {
		if o >= s {
			w += weights[i]
		}
	}
	return w
}

type diffSpec struct {
	Mode int
	Salt uint64
}

func (d diffSpec) fn(m, c, u uint32, v int) uint64 {
	switch d.Mode {
	case 0:
		// position-sensitive hash (wrapping)
		const p = 0x100000001b3
		h := d.Salt | 1
		h = (h ^ uint64(m)) * p
		h = (h ^ uint64(c)) * p
		h = (h ^ uint64(u)) * p
		h = (h ^ uint64(v)) * p
		return h
	case 1:
		// linear with different coefficients (wrapping, may be "negative")
		return (uint64(u)-uint64(m))*3 + (uint64(u)-uint64(c))*1000003 + uint64(v+1)*d.Salt
	default:
		// the shape used by the repo's own test: capped progress over the median
		capFn := func(x uint32) uint64 {
			if x > 2 {
				return 2 * uint64(v+1)
			}
			return uint64(x) * uint64(v+1)
		}
		if u <= m || u <= c {
			return 0
		}
		if m < c {
			return capFn(u-m) - capFn(c-m)
		}
		return capFn(u - m)
	}
}

func (d diffSpec) metricFn() ancestor.DiffMetricFn {
	return func(median, current, update idx.Event, validatorIdx idx.Validator) ancestor.Metric {
		return ancestor.Metric(d.fn(uint32(median), uint32(current), uint32(update), int(validatorIdx)))
	}
}

// refMetric: "the sum over validators of the diff function applied to that median, the node's own
// latest observation, and the candidate's observation"
func refMetric(d diffSpec, medians, selfObs, candObs []int64) uint64 {
	sum := uint64(0)
	for v := range medians {
		sum += d.fn(reported(medians[v]), reported(selfObs[v]), reported(candObs[v]), v)
	}
	return sum
}

// ---------------------------------------------------------------------------------------------
// validators

type valSet struct {
	vals    *pos.Validators
	ids     []idx.ValidatorID // by validator index
	weights []uint64          // by validator index
	class   string
}

func genValidators(t *rapid.T, minN, maxN int) valSet {
	n := uni.Range(t, "nValidators", minN, maxN)
	ws := make([]uint64, n)
	cls := ""
	switch k := uni.Pct(t, "weightClass"); {
	case k < 30:
		cls = "w_equal"
		for i := range ws {
			ws[i] = 1
		}
	case k < 70:
		cls = "w_small"
		for i := range ws {
			ws[i] = uint64(uni.Range(t, fmt.Sprintf("w%d", i), 1, 5))
		}
	case k < 85:
		cls = "w_skewed"
		for i := range ws {
			ws[i] = uint64(uni.Range(t, fmt.Sprintf("w%d", i), 1, 3))
		}
		ws[0] = uint64(uni.Range(t, "wBig", 5, 40))
	default:
		cls = "w_huge"
		// sum close to the allowed maximum 2^31-1
		rest := uint64(math.MaxUint32 / 2)
		for i := range ws {
			share := rest / uint64(n-i)
			if i < n-1 {
				d := uint64(uni.Int(t, fmt.Sprintf("w%d", i), 1000))
				if share > d+1 {
					share -= d
				}
			}
			ws[i] = share
			rest -= share
		}
	}
	perm := rapid.Permutation([]int{1, 2, 3, 4, 5, 6, 7, 8, 9, 10, 11, 12}).Draw(t, "validatorIDs")
	b := pos.NewBuilder()
	for i := 0; i < n; i++ {
		b.Set(idx.ValidatorID(perm[i]), pos.Weight(ws[i]))
	}
	vs := valSet{vals: b.Build(), ids: make([]idx.ValidatorID, n), weights: make([]uint64, n), class: cls}
	for i := 0; i < n; i++ {
		id := idx.ValidatorID(perm[i])
		k := vs.vals.GetIdx(id)
		vs.ids[k] = id
		vs.weights[k] = ws[i]
	}
	return vs
}

// ---------------------------------------------------------------------------------------------
// comparison of one query against the oracle (shared by both domains)

type queryStats struct {
	medianIsFork, forkChangesMedian, unprocessed, exactQuorum bool
}

// obs[i] = observation vector of validator i's latest processed event (nil if none)
func checkQuery(t *rapid.T, qi *ancestor.QuorumIndexer, vs valSet, d diffSpec, obs [][]int64, selfObs []int64,
	cands []hash.Event, candObs func(hash.Event) []int64, describe func() string) queryStats {
	n := len(vs.ids)
	var qs queryStats
	zero := make([]int64, n)
	medians := make([]int64, n)
	total := uint64(0)
	for _, w := range vs.weights {
		total += w
	}
	for v := 0; v < n; v++ {
		col := make([]int64, n)
		for i := 0; i < n; i++ {
			if obs[i] == nil {
				qs.unprocessed = true
				continue
			}
			col[i] = obs[i][v]
		}
		medians[v] = refMedian(col, vs.weights)
		if medians[v] == forkObs {
			qs.medianIsFork = true
		}
		if refMedianForkAsZero(col, vs.weights) != medians[v] {
			qs.forkChangesMedian = true
		}
		// the median's supporters are only just a quorum: without the lightest of them it is lost
		if w := supportOf(col, vs.weights, medians[v]); medians[v] > 0 && 3*(w-minWeightAt(col, vs.weights, medians[v])) <= 2*total {
			qs.exactQuorum = true
		}
	}
	got := append([]idx.Event{}, qi.GetGlobalMedianSeqs()...)
	if len(got) != n {
		t.Fatalf("GetGlobalMedianSeqs returned %d entries for %d validators\n%s", len(got), n, describe())
	}
	for v := 0; v < n; v++ {
		if uint32(got[v]) != reported(medians[v]) {
			t.Fatalf("median of validator index %d: indexer reports %d, definition gives %d\nweights(by index)=%v observations[observer][observed]=%v\n%s",
				v, got[v], reported(medians[v]), vs.weights, fmtObs(obs), describe())
		}
	}
	so := selfObs
	if so == nil {
		so = zero
	}
	for _, c := range cands {
		co := candObs(c)
		want := refMetric(d, medians, so, co)
		if m := qi.GetMetricOf(c); uint64(m) != want {
			t.Fatalf("GetMetricOf(candidate %s) = %d, definition gives %d\nmedians=%v self=%v candidate=%v diff=%+v weights=%v observations=%v\n%s",
				c.String(), uint64(m), want, fmtVec(medians), fmtVec(so), fmtVec(co), d, vs.weights, fmtObs(obs), describe())
		}
	}
	return qs
}

// smallest weight among the validators observing at least s (used for the "median support is
// only just a quorum" class: removing that validator would lose the quorum)
func minWeightAt(col []int64, weights []uint64, s int64) uint64 {
	min := uint64(math.MaxUint64)
	for i, o := range col {
		if o >= s && weights[i] < min {
			min = weights[i]
		}
	}
	if min == math.MaxUint64 {
		return 0
	}
	return min
}

func fmtVec(v []int64) string {
	s := "["
	for i, o := range v {
		if i > 0 {
			s += " "
		}
		if o == forkObs {
			s += "fork"
		} else {
			s += fmt.Sprint(o)
		}
	}
	return s + "]"
}

func fmtObs(obs [][]int64) string {
	s := ""
	for i, o := range obs {
		if o == nil {
			s += fmt.Sprintf(" %d:none", i)
		} else {
			s += fmt.Sprintf(" %d:%s", i, fmtVec(o))
		}
	}
	return s
}

func classesOf(qs queryStats, extra ...string) []string {
	cl := append([]string{}, extra...)
	if qs.medianIsFork {
		cl = append(cl, "median_is_fork")
	}
	if qs.forkChangesMedian {
		cl = append(cl, "fork_observation_decides_median")
	}
	if qs.unprocessed {
		cl = append(cl, "validator_without_processed_event")
	}
	if qs.exactQuorum {
		cl = append(cl, "median_support_just_a_quorum")
	}
	return cl
}

func (a *queryStats) merge(b queryStats) {
	a.medianIsFork = a.medianIsFork || b.medianIsFork
	a.forkChangesMedian = a.forkChangesMedian || b.forkChangesMedian
	a.unprocessed = a.unprocessed || b.unprocessed
	a.exactQuorum = a.exactQuorum || b.exactQuorum
}

// ---------------------------------------------------------------------------------------------
// (a) fake index

type fakeSeq struct {
	seq  idx.Event
	fork bool
}

func (s fakeSeq) Seq() idx.Event       { return s.seq }
func (s fakeSeq) IsForkDetected() bool { return s.fork }

type fakeVec []fakeSeq

func (v fakeVec) Size() int                      { return len(v) }
func (v fakeVec) Get(i idx.Validator) dagidx.Seq { return v[i] }

type fakeIndex struct {
	vecs    map[hash.Event]fakeVec
	lookups int
}

func (f *fakeIndex) GetMergedHighestBefore(id hash.Event) dagidx.HighestBeforeSeq {
	f.lookups++
	v, ok := f.vecs[id]
	if !ok {
		panic("fake index asked for an unknown event " + id.String())
	}
	return v
}

func fakeID(k int) hash.Event {
	var h hash.Event
	h[3] = 1 // epoch 1
	h[7] = 1 // Lamport 1
	h[8] = byte(k)
	h[9] = byte(k >> 8)
	h[31] = 0x5a
	return h
}

// genObsVector draws one observation vector; pool holds earlier values to produce equal observations
func genObsVector(t *rapid.T, label string, n int, pool *[]int64) ([]int64, fakeVec) {
	obs := make([]int64, n)
	vec := make(fakeVec, n)
	for v := 0; v < n; v++ {
		l := fmt.Sprintf("%s.%d", label, v)
		var o int64
		switch k := uni.Pct(t, l); {
		case k < 14:
			o = 0
		case k < 50:
			o = int64(uni.Range(t, l+".small", 1, 4))
		case k < 66:
			o = forkObs
		case k < 76 && len(*pool) > 0:
			o = (*pool)[uni.Int(t, l+".same", len(*pool))]
		case k < 86:
			o = int64(rapid.Uint32Range(5, maxSeq).Draw(t, l+".mid"))
		default:
			o = int64(maxSeq) - int64(uni.Int(t, l+".large", 3))
		}
		obs[v] = o
		*pool = append(*pool, o)
		if o == forkObs {
			// the sequence number next to a fork marker is meaningless; vecfc reports 0
			g := idx.Event(0)
			if uni.Chance(t, l+".forkSeqGarbage", 30) {
				g = idx.Event(rapid.Uint32Range(0, maxSeq).Draw(t, l+".garbage"))
			}
			vec[v] = fakeSeq{seq: g, fork: true}
		} else {
			vec[v] = fakeSeq{seq: idx.Event(o)}
		}
	}
	return obs, vec
}

var stFake = stats.New("fake_index")

func TestC20FakeIndex(t *testing.T) {
	rapid.Check(t, func(t *rapid.T) {
		vs := genValidators(t, 1, 6)
		n := len(vs.ids)
		d := diffSpec{Mode: uni.Int(t, "diffMode", 3), Salt: rapid.Uint64().Draw(t, "diffSalt")}
		me := uni.Int(t, "me", n)
		freeFlags := uni.Chance(t, "freeSelfFlags", 15)

		fi := &fakeIndex{vecs: map[hash.Event]fakeVec{}}
		qi := ancestor.NewQuorumIndexer(vs.vals, fi, d.metricFn())

		var pool []int64
		obsByID := map[hash.Event][]int64{}
		var known []hash.Event
		nextID := 0
		newEvent := func(label string) hash.Event {
			id := fakeID(nextID)
			nextID++
			o, vec := genObsVector(t, label, n, &pool)
			fi.vecs[id] = vec
			obsByID[id] = o
			known = append(known, id)
			return id
		}
		// candidates that are never processed
		for i, k := 0, uni.Int(t, "nPureCandidates", 3); i < k; i++ {
			newEvent(fmt.Sprintf("cand%d", i))
		}

		latest := make([][]int64, n)
		var selfObs []int64
		var log []string
		describe := func() string { return fmt.Sprintf("me=index %d history=%v", me, log) }
		var agg queryStats
		queries, requery := 0, false
		processedSinceQuery := false

		query := func(label string) {
			var cands []hash.Event
			if len(known) > 0 {
				for i, k := 0, 1+uni.Int(t, label+".nCands", 2); i < k; i++ {
					cands = append(cands, known[uni.Int(t, fmt.Sprintf("%s.cand%d", label, i), len(known))])
				}
			}
			qs := checkQuery(t, qi, vs, d, latest, selfObs, cands, func(id hash.Event) []int64 { return obsByID[id] }, describe)
			agg.merge(qs)
			if queries > 0 && processedSinceQuery {
				requery = true
			}
			queries++
			processedSinceQuery = false
			log = append(log, "query")
		}

		if uni.Chance(t, "queryFirst", 25) {
			query("q0")
		}
		nOps := uni.Int(t, "nEvents", 13)
		for op := 0; op < nOps; op++ {
			lbl := fmt.Sprintf("e%d", op)
			id := newEvent(lbl)
			c := uni.Int(t, lbl+".creator", n)
			self := c == me
			if freeFlags {
				self = rapid.Bool().Draw(t, lbl+".self")
			}
			ev := &tdag.TestEvent{}
			ev.SetCreator(vs.ids[c])
			ev.SetSeq(1)
			ev.SetEpoch(1)
			ev.SetLamport(1)
			ev.SetParents(hash.Events{})
			var raw [24]byte
			copy(raw[:], id[8:])
			ev.SetID(raw)
			if ev.ID() != id {
				t.Fatalf("harness: event id mismatch %s vs %s", ev.ID().String(), id.String())
			}
			qi.ProcessEvent(ev, self)
			latest[c] = obsByID[id]
			if self {
				selfObs = obsByID[id]
			}
			processedSinceQuery = true
			log = append(log, fmt.Sprintf("process(creator index %d, self=%v, obs=%s)", c, self, fmtVec(obsByID[id])))
			if uni.Chance(t, lbl+".query", 35) {
				query(lbl + ".q")
			}
		}
		// a long-lived indexer: now and then thousands of events (2^8, 2^16, 2^16+1, 2^17 of them - two events of one
		// creator in turn) are processed between two queries
		longBatch := 0
		if uni.Int(t, "longBatchBetweenQueries", 1500) == 7 {
			query("preBatch")
			c := uni.Int(t, "batch.creator", n)
			self := c == me
			var evs [2]*tdag.TestEvent
			var ids [2]hash.Event
			for k := range evs {
				ids[k] = newEvent(fmt.Sprintf("batch%d", k))
				ev := &tdag.TestEvent{}
				ev.SetCreator(vs.ids[c])
				ev.SetSeq(1)
				ev.SetEpoch(1)
				ev.SetLamport(1)
				ev.SetParents(hash.Events{})
				var raw [24]byte
				copy(raw[:], ids[k][8:])
				ev.SetID(raw)
				evs[k] = ev
			}
			longBatch = rapid.SampledFrom([]int{256, 65536, 65536, 65537}).Draw(t, "batch.events")
			for i := 0; i < longBatch; i++ {
				qi.ProcessEvent(evs[i%2], self)
			}
			last := ids[(longBatch-1)%2]
			latest[c] = obsByID[last]
			if self {
				selfObs = obsByID[last]
			}
			processedSinceQuery = true
			log = append(log, fmt.Sprintf("process x%d (creator index %d, self=%v, two events in turn, last obs=%s)", longBatch, c, self, fmtVec(obsByID[last])))
		}
		query("final")

		nontrivial := agg.forkChangesMedian || agg.medianIsFork || agg.unprocessed
		extra := []string{vs.class}
		if longBatch > 0 {
			extra = append(extra, "thousands_of_events_between_two_queries")
		}
		if requery {
			extra = append(extra, "requery_after_process")
		}
		if freeFlags {
			extra = append(extra, "free_self_flags")
		}
		stFake.Case(stats.Hash(vs.weights, me, d, log), nontrivial, classesOf(agg, extra...)...)
		stFake.Class("queries", int64(queries))
		stFake.Sample(func() interface{} {
			return map[string]interface{}{"weights": vs.weights, "me": me, "history": log}
		})
	})
}

// ---------------------------------------------------------------------------------------------
// (b) real vecfc index over drawn DAGs with forks

type gEvent struct {
	creator int // validator index
	seq     uint32
	lamport uint32
	parents []int // event numbers; self-parent first
	ev      *tdag.TestEvent
	anc     uint64 // bitset of ancestors-or-self (event numbers < 64)
}

// refMerged: observation of validator v by event A from the graph definition: fork if two
// different events of v with the same sequence number are ancestors of A, else the highest
// sequence number of v's events among A's ancestors (0 if none).
func refMerged(evs []*gEvent, a int, n int) []int64 {
	res := make([]int64, n)
	for v := 0; v < n; v++ {
		seen := map[uint32]bool{}
		max := int64(0)
		for k, e := range evs {
			if evs[a].anc&(1<<uint(k)) == 0 || e.creator != v {
				continue
			}
			if seen[e.seq] {
				max = forkObs
				break
			}
			seen[e.seq] = true
			if int64(e.seq) > max {
				max = int64(e.seq)
			}
		}
		res[v] = max
	}
	return res
}

var stReal = stats.New("vecfc_index")

func TestC20VecfcIndex(t *testing.T) {
	rapid.Check(t, func(t *rapid.T) {
		vs := genValidators(t, 1, 5)
		n := len(vs.ids)
		d := diffSpec{Mode: uni.Int(t, "diffMode", 3), Salt: rapid.Uint64().Draw(t, "diffSalt")}
		me := uni.Int(t, "me", n)
		forker := make([]bool, n)
		anyForker := false
		for i := range forker {
			forker[i] = uni.Chance(t, fmt.Sprintf("forker%d", i), 35)
			anyForker = anyForker || forker[i]
		}
		linkPct := uni.Range(t, "linkPct", 25, 90)
		nEvents := uni.Range(t, "nEvents", 1, 24)

		events := map[hash.Event]dag.Event{}
		index := vecfc.NewIndex(func(err error) { panic(err) }, vecfc.LiteConfig())
		index.Reset(vs.vals, memorydb.New(), func(id hash.Event) dag.Event { return events[id] })
		qi := ancestor.NewQuorumIndexer(vs.vals, &adapters.VectorToDagIndexer{Index: index}, d.metricFn())

		var evs []*gEvent
		own := make([][]int, n) // events by creator, in creation order
		latest := make([]int, n)
		for i := range latest {
			latest[i] = -1
		}
		latestSelf := -1
		var log []string
		describe := func() string {
			s := fmt.Sprintf("me=index %d forkers=%v\n", me, forker)
			for k, e := range evs {
				s += fmt.Sprintf("  event %d: creator index %d seq %d parents %v\n", k, e.creator, e.seq, e.parents)
			}
			return s + fmt.Sprintf("history=%v", log)
		}
		obsOf := func(k int) []int64 { return refMerged(evs, k, n) }
		var agg queryStats
		queries, requery, processedSinceQuery, forkCreated := 0, false, false, false

		query := func(label string) {
			obs := make([][]int64, n)
			for i := 0; i < n; i++ {
				if latest[i] >= 0 {
					obs[i] = obsOf(latest[i])
				}
			}
			var selfObs []int64
			if latestSelf >= 0 {
				selfObs = obsOf(latestSelf)
			}
			var cands []hash.Event
			candNo := map[hash.Event]int{}
			if len(evs) > 0 {
				for i, k := 0, 1+uni.Int(t, label+".nCands", 2); i < k; i++ {
					c := uni.Int(t, fmt.Sprintf("%s.cand%d", label, i), len(evs))
					cands = append(cands, evs[c].ev.ID())
					candNo[evs[c].ev.ID()] = c
				}
			}
			qs := checkQuery(t, qi, vs, d, obs, selfObs, cands, func(id hash.Event) []int64 { return obsOf(candNo[id]) }, describe)
			agg.merge(qs)
			if queries > 0 && processedSinceQuery {
				requery = true
			}
			queries++
			processedSinceQuery = false
			log = append(log, "query")
		}
		process := func(k int) {
			e := evs[k]
			self := e.creator == me
			qi.ProcessEvent(e.ev, self)
			latest[e.creator] = k
			if self {
				latestSelf = k
			}
			processedSinceQuery = true
			log = append(log, fmt.Sprintf("process(%d)", k))
		}

		if uni.Chance(t, "queryFirst", 15) {
			query("q0")
		}
		for k := 0; k < nEvents; k++ {
			lbl := fmt.Sprintf("e%d", k)
			c := uni.Int(t, lbl+".creator", n)
			ge := &gEvent{creator: c}
			// self-parent: the creator's tip, or for forkers any own event / none
			sp := -1
			if len(own[c]) > 0 {
				sp = own[c][len(own[c])-1]
				if forker[c] && uni.Chance(t, lbl+".fork", 40) {
					j := uni.Int(t, lbl+".forkFrom", len(own[c])+1)
					if j == len(own[c]) {
						sp = -1
					} else {
						sp = own[c][j]
					}
				}
			}
			if sp >= 0 {
				ge.parents = append(ge.parents, sp)
				ge.seq = evs[sp].seq + 1
			} else {
				ge.seq = 1
			}
			// other parents: tips (sometimes older events) of other validators
			for j := 0; j < n && len(ge.parents) < 4; j++ {
				if j == c || len(own[j]) == 0 || !uni.Chance(t, fmt.Sprintf("%s.link%d", lbl, j), linkPct) {
					continue
				}
				p := own[j][len(own[j])-1]
				if len(own[j]) > 1 && uni.Chance(t, fmt.Sprintf("%s.old%d", lbl, j), 20) {
					p = own[j][uni.Int(t, fmt.Sprintf("%s.oldIdx%d", lbl, j), len(own[j]))]
				}
				ge.parents = append(ge.parents, p)
			}
			ge.anc = 1 << uint(k)
			ids := hash.Events{}
			for _, p := range ge.parents {
				ge.anc |= evs[p].anc
				if evs[p].lamport > ge.lamport {
					ge.lamport = evs[p].lamport
				}
				ids = append(ids, evs[p].ev.ID())
			}
			ge.lamport++
			ev := &tdag.TestEvent{}
			ev.SetEpoch(1)
			ev.SetFrame(1)
			ev.SetCreator(vs.ids[c])
			ev.SetSeq(idx.Event(ge.seq))
			ev.SetLamport(idx.Lamport(ge.lamport))
			ev.SetParents(ids)
			var raw [24]byte
			raw[0], raw[1], raw[23] = byte(k), byte(c), 0xc2
			ev.SetID(raw)
			ev.Name = fmt.Sprintf("e%d", k)
			ge.ev = ev
			evs = append(evs, ge)
			own[c] = append(own[c], k)

			events[ev.ID()] = ev
			if err := index.Add(ev); err != nil {
				t.Fatalf("vecfc index rejected a parents-first event: %v\n%s", err, describe())
			}
			if uni.Chance(t, lbl+".process", 85) {
				process(k)
			}
			if uni.Chance(t, lbl+".reprocess", 8) {
				process(uni.Int(t, lbl+".reprocessWhich", len(evs)))
			}
			if uni.Chance(t, lbl+".query", 25) {
				query(lbl + ".q")
			}
		}
		query("final")

		for c := range own {
			seqs := map[uint32]bool{}
			for _, k := range own[c] {
				if seqs[evs[k].seq] {
					forkCreated = true
				}
				seqs[evs[k].seq] = true
			}
		}
		nontrivial := agg.forkChangesMedian || agg.medianIsFork || agg.unprocessed
		extra := []string{vs.class}
		if requery {
			extra = append(extra, "requery_after_process")
		}
		if forkCreated {
			extra = append(extra, "dag_with_fork")
		}
		stReal.Case(stats.Hash(vs.weights, me, d, describe()), nontrivial, classesOf(agg, extra...)...)
		stReal.Class("queries", int64(queries))
		stReal.Class("events", int64(len(evs)))
		stReal.Sample(func() interface{} {
			return map[string]interface{}{"weights": vs.weights, "case": describe()}
		})
	})
}
