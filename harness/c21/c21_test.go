// C21: the double-sign guard never permits emission too early.
//
// Oracle: math/big arithmetic on the *true* nanosecond differences between Now and each
// timestamp (computed from Unix seconds + nanoseconds, never from time.Time.Sub, which
// saturates at +-2^63 ns).
package c21

import (
	"fmt"
	"math"
	"math/big"
	"os"
	"testing"
	"time"

	"github.com/Fantom-foundation/lachesis-base/emitter/doublesign"
	"pgregory.net/rapid"

	"verif/harness/internal/stats"
)

func TestMain(m *testing.M) {
	code := m.Run()
	stats.Flush()
	os.Exit(code)
}

// ---------------------------------------------------------------------------------------
// time points with an exact integer reading

// stamp is a point in time as Unix seconds + nanoseconds in [0, 1e9).
type stamp struct {
	Sec  int64
	Nsec int64
}

var (
	bigE9   = big.NewInt(1000000000)
	bigMaxD = big.NewInt(math.MaxInt64)
	bigMinD = big.NewInt(math.MinInt64)
	// the zero time.Time is January 1, year 1, 00:00:00 UTC
	zeroStamp = stamp{Sec: -62135596800, Nsec: 0}
)

const (
	secLimit = int64(1) << 55 // domain of absolute timestamps: +-2^55 s
	// Now is kept 2^36 s inside the domain so that every relative offset (< 2^34 s) stays inside
	nowLimit = secLimit - (int64(1) << 36)
)

func (s stamp) nanos() *big.Int {
	n := new(big.Int).Mul(big.NewInt(s.Sec), bigE9)
	return n.Add(n, big.NewInt(s.Nsec))
}

// timeRepr selects how an instant is represented as a time.Time (drawn per case): the same instant can carry
// different locations, and the zero instant has several representations besides the literal time.Time{}.
// The property speaks about instants, so the representation must not matter.
var timeRepr int

var fixedZone = time.FixedZone("verif+0130", 90*60)

func (s stamp) time() time.Time {
	var tm time.Time
	if s == zeroStamp && timeRepr != 3 {
		tm = time.Time{}
	} else {
		tm = time.Unix(s.Sec, s.Nsec)
	}
	switch timeRepr {
	case 1:
		return tm.Local()
	case 2:
		return tm.In(fixedZone)
	case 3:
		return tm.UTC().In(fixedZone)
	}
	return tm
}

func (s stamp) String() string { return fmt.Sprintf("(%ds,%dns)", s.Sec, s.Nsec) }

func stampFromNanos(n *big.Int) stamp {
	sec, nsec := new(big.Int).DivMod(n, bigE9, new(big.Int)) // Euclidean: 0 <= nsec < 1e9
	if !sec.IsInt64() {
		panic("harness: stamp out of range")
	}
	return stamp{Sec: sec.Int64(), Nsec: nsec.Int64()}
}

// diff returns the true value of a - b in nanoseconds.
func diff(a, b stamp) *big.Int { return new(big.Int).Sub(a.nanos(), b.nanos()) }

func saturates(d *big.Int) bool { return d.Cmp(bigMaxD) > 0 || d.Cmp(bigMinD) < 0 }

func clampDur(d *big.Int) *big.Int {
	if d.Cmp(bigMaxD) > 0 {
		return new(big.Int).Set(bigMaxD)
	}
	if d.Cmp(bigMinD) < 0 {
		return new(big.Int).Set(bigMinD)
	}
	return d
}

// ---------------------------------------------------------------------------------------
// generators

func genNow() *rapid.Generator[stamp] {
	return rapid.Custom(func(t *rapid.T) stamp {
		var sec int64
		switch rapid.IntRange(0, 5).Draw(t, "nowClass") {
		case 0: // around the present
			sec = rapid.Int64Range(1500000000, 1900000000).Draw(t, "nowSec")
		case 1: // around the Unix epoch
			sec = rapid.Int64Range(-1000, 1000).Draw(t, "nowSec")
		case 2: // the zero time and its neighbourhood
			sec = zeroStamp.Sec + rapid.Int64Range(0, 20).Draw(t, "nowSec")
		case 3:
			sec = rapid.SampledFrom([]int64{nowLimit, -nowLimit, nowLimit - 1, -nowLimit + 1}).Draw(t, "nowSec")
		default:
			sec = rapid.Int64Range(-nowLimit, nowLimit).Draw(t, "nowSec")
		}
		nsec := rapid.OneOf(rapid.SampledFrom([]int64{0, 1, 999999999, 500000000}), rapid.Int64Range(0, 999999999)).Draw(t, "nowNsec")
		return stamp{Sec: sec, Nsec: nsec}
	})
}

func genThreshold(negative bool) *rapid.Generator[int64] {
	if negative {
		return rapid.OneOf(
			rapid.SampledFrom([]int64{-1, -2, -1000, -1000000000, -3600000000000, math.MinInt64, math.MinInt64 + 1}),
			rapid.Int64Range(-10000000000000, -1),
			rapid.Int64Range(math.MinInt64, -1),
		)
	}
	return rapid.OneOf(
		rapid.SampledFrom([]int64{0, 1, 2, 999, 1000, 1000000, 1000000000, 60000000000, 3600000000000, 86400000000000,
			math.MaxInt64, math.MaxInt64 - 1}),
		rapid.Int64Range(0, 10000000000000),
		rapid.Int64Range(0, math.MaxInt64),
	)
}

// genStamp draws a timestamp relative to now and the threshold. With allowSat == false the true
// difference now - t is kept inside the int64 range (so that Sub does not saturate).
// It returns the stamp and the label of the class it was drawn from.
func genStamp(t *rapid.T, label string, now stamp, threshold int64, allowSat bool, oldBias bool) (stamp, string) {
	thr := big.NewInt(threshold)
	var d *big.Int // now - t
	class := ""
	k := rapid.IntRange(0, 9).Draw(t, label+".class")
	if oldBias && rapid.IntRange(0, 3).Draw(t, label+".old") != 0 {
		k = 10
	}
	switch k {
	case 0:
		class, d = "equal_now", big.NewInt(0)
	case 1: // at the threshold +-3 ns
		class = "at_threshold"
		d = new(big.Int).Add(thr, big.NewInt(rapid.Int64Range(-3, 3).Draw(t, label+".delta")))
	case 2: // nanoseconds .. hours around now (past and future)
		class = "near_now"
		d = big.NewInt(rapid.OneOf(rapid.Int64Range(-1000, 1000), rapid.Int64Range(-10000000000000, 10000000000000)).Draw(t, label+".off"))
	case 3: // where Sub starts to saturate
		class = "saturation_edge"
		e := new(big.Int).Lsh(big.NewInt(1), 63)
		if rapid.Bool().Draw(t, label+".future") {
			e.Neg(e)
		}
		d = e.Add(e, big.NewInt(rapid.Int64Range(-3, 3).Draw(t, label+".delta")))
	case 4:
		class, d = "zero_time", diff(now, zeroStamp)
	case 5:
		class = "absolute"
		abs := stamp{Sec: rapid.Int64Range(-secLimit, secLimit).Draw(t, label+".sec"), Nsec: rapid.Int64Range(0, 999999999).Draw(t, label+".nsec")}
		d = diff(now, abs)
	case 6:
		class = "uniform_offset"
		d = big.NewInt(rapid.Int64().Draw(t, label+".off"))
	case 7: // violating, with a chosen remaining time
		class = "remaining"
		r := rapid.OneOf(rapid.Int64Range(1, 1000), rapid.Int64Range(1, 1000000000000), rapid.Int64Range(1, math.MaxInt64)).Draw(t, label+".rem")
		d = new(big.Int).Sub(thr, big.NewInt(r))
	case 8: // far beyond the saturation point
		class = "far"
		e := new(big.Int).Lsh(big.NewInt(1), 63)
		e.Add(e, big.NewInt(rapid.Int64Range(0, int64(1)<<62).Draw(t, label+".beyond")))
		if rapid.Bool().Draw(t, label+".future") {
			e.Neg(e)
		}
		d = e
	case 9: // exactly the extreme representable differences
		class = "extreme_exact"
		d = big.NewInt(rapid.SampledFrom([]int64{math.MaxInt64, math.MinInt64, math.MaxInt64 - 1, math.MinInt64 + 1}).Draw(t, label+".ext"))
	default: // old enough: threshold + something non-negative
		class = "old"
		r := rapid.OneOf(rapid.Int64Range(0, 1000), rapid.Int64Range(0, 1000000000000), rapid.Int64Range(0, math.MaxInt64)).Draw(t, label+".age")
		d = new(big.Int).Add(thr, big.NewInt(r))
	}
	if !allowSat {
		d = clampDur(d)
	}
	s := stampFromNanos(new(big.Int).Sub(now.nanos(), d))
	if s.Sec > secLimit || s.Sec < -secLimit {
		panic("harness: generated stamp outside the domain")
	}
	return s, class
}

type syncCase struct {
	Peers     int
	Threshold int64
	Now       stamp
	Startup   stamp
	LastConn  stamp
	P2PSynced stamp
	BecameVal stamp
	ExtCreat  stamp
	ExtDetect stamp
}

func (c syncCase) status() doublesign.SyncStatus {
	return doublesign.SyncStatus{
		PeersNum:                  c.Peers,
		Now:                       c.Now.time(),
		Startup:                   c.Startup.time(),
		LastConnected:             c.LastConn.time(),
		P2PSynced:                 c.P2PSynced.time(),
		BecameValidator:           c.BecameVal.time(),
		ExternalSelfEventCreated:  c.ExtCreat.time(),
		ExternalSelfEventDetected: c.ExtDetect.time(),
	}
}

func (c syncCase) String() string {
	return fmt.Sprintf("peers=%d threshold=%d now=%v startup=%v lastConnected=%v p2pSynced=%v becameValidator=%v extCreated=%v extDetected=%v",
		c.Peers, c.Threshold, c.Now, c.Startup, c.LastConn, c.P2PSynced, c.BecameVal, c.ExtCreat, c.ExtDetect)
}

// ---------------------------------------------------------------------------------------
// SyncedToEmit

var stSync = stats.New("synced_to_emit")

func propSyncedToEmit(t *rapid.T) {
	timeRepr = rapid.IntRange(0, 3).Draw(t, "timeRepresentation")
	var c syncCase
	c.Now = genNow().Draw(t, "now")
	negative := rapid.IntRange(0, 4).Draw(t, "negativeThreshold") == 0
	c.Threshold = genThreshold(negative).Draw(t, "threshold")
	// sound restriction: a negative threshold is only combined with non-saturating differences
	allowSat := !negative
	c.Peers = rapid.SampledFrom([]int{1, 1, 1, 1, 1, 2, 50, 0}).Draw(t, "peers")
	classes := map[string]bool{}
	draw := func(label string) stamp {
		s, cl := genStamp(t, label, c.Now, c.Threshold, allowSat, true)
		classes["stamp_"+cl] = true
		return s
	}
	c.Startup = draw("startup")
	c.LastConn = draw("lastConnected")
	c.P2PSynced = draw("p2pSynced")
	if rapid.IntRange(0, 9).Draw(t, "notSynced") == 0 {
		c.P2PSynced = zeroStamp // P2P sync has not finished (exit taken before any difference is computed)
	}
	c.BecameVal = draw("becameValidator")
	c.ExtCreat = draw("extCreated")
	c.ExtDetect = draw("extDetected")

	// ---- oracle (math/big on true differences)
	thr := big.NewInt(c.Threshold)
	five := []stamp{c.LastConn, c.P2PSynced, c.BecameVal, c.ExtCreat, c.ExtDetect}
	maxRem := big.NewInt(0)
	violating := 0
	anySat := false
	remSet := map[string]bool{}
	for _, s := range five {
		d := diff(c.Now, s)
		if saturates(d) {
			anySat = true
		}
		if d.Cmp(thr) < 0 {
			rem := new(big.Int).Sub(thr, d) // > 0
			violating++
			remSet[rem.String()] = true
			if rem.Cmp(maxRem) > 0 {
				maxRem = rem
			}
		}
	}
	hasPeer := c.Peers != 0
	synced := c.P2PSynced != zeroStamp
	timestampPhase := hasPeer && synced
	if negative && anySat && timestampPhase {
		t.Fatalf("harness: negative threshold with a saturating difference: %v", c)
	}
	permitted := timestampPhase && violating == 0
	wantWait := int64(0)
	if violating > 0 {
		wantWait = clampDur(maxRem).Int64()
	}

	// ---- code under test
	wait, err := doublesign.SyncedToEmit(c.status(), time.Duration(c.Threshold))

	switch {
	case permitted:
		if err != nil {
			t.Fatalf("emission must be permitted but got (%d, %v) for %v", int64(wait), err, c)
		}
	case !timestampPhase:
		if err == nil {
			t.Fatalf("emission permitted (wait=%d) without a peer / before P2P sync finished: %v", int64(wait), c)
		}
	default:
		if err == nil {
			t.Fatalf("emission permitted (wait=%d, err=nil) although %d timestamp(s) are younger than the threshold (longest remaining %v ns): %v",
				int64(wait), violating, maxRem, c)
		}
		if int64(wait) != wantWait || wait <= 0 {
			t.Fatalf("wait=%d, want min(MaxInt64, longest remaining=%v)=%d (err=%v): %v", int64(wait), maxRem, wantWait, err, c)
		}
	}

	// ---- accounting
	twoDifferent := len(remSet) >= 2
	nontrivial := timestampPhase && (anySat || twoDifferent)
	cls := []string{}
	switch {
	case permitted:
		cls = append(cls, "permitted")
	case !hasPeer:
		cls = append(cls, "no_peer")
	case !synced:
		cls = append(cls, "not_synced")
	default:
		cls = append(cls, fmt.Sprintf("violating_%d", violating))
		if wantWait == math.MaxInt64 {
			cls = append(cls, "wait_capped")
		}
	}
	if anySat {
		cls = append(cls, "some_difference_saturates")
	}
	if twoDifferent {
		cls = append(cls, "two_different_remaining")
	}
	if negative {
		cls = append(cls, "negative_threshold")
	}
	if c.Threshold == 0 {
		cls = append(cls, "zero_threshold")
	}
	for k := range classes {
		cls = append(cls, k)
	}
	stSync.Case(stats.Hash(c), nontrivial, cls...)
	stSync.Sample(func() interface{} {
		return map[string]interface{}{"case": c.String(), "permitted": permitted, "want_wait": wantWait}
	})
}

func TestC21SyncedToEmit(t *testing.T) { rapid.Check(t, propSyncedToEmit) }

// ---------------------------------------------------------------------------------------
// DetectParallelInstance

var stPar = stats.New("parallel_instance")

func propParallelInstance(t *rapid.T) {
	timeRepr = rapid.IntRange(0, 3).Draw(t, "timeRepresentation")
	var c syncCase
	c.Now = genNow().Draw(t, "now")
	negative := rapid.IntRange(0, 4).Draw(t, "negativeThreshold") == 0
	c.Threshold = genThreshold(negative).Draw(t, "threshold")
	allowSat := !negative
	c.Peers = rapid.SampledFrom([]int{0, 1, 3}).Draw(t, "peers")
	var createdClass string
	c.ExtCreat, createdClass = genStamp(t, "extCreated", c.Now, c.Threshold, allowSat, false)
	// Startup: mostly placed relative to the creation time of the external event
	startupClass := ""
	switch rapid.IntRange(0, 6).Draw(t, "startupClass") {
	case 0:
		startupClass, c.Startup = "startup_equals_created", c.ExtCreat
	case 1:
		startupClass = "startup_1ns_from_created"
		n := c.ExtCreat.nanos()
		n.Add(n, big.NewInt(rapid.SampledFrom([]int64{-1, 1}).Draw(t, "startupDelta")))
		c.Startup = stampFromNanos(n)
	case 2:
		startupClass = "startup_near_created"
		n := c.ExtCreat.nanos()
		n.Add(n, big.NewInt(rapid.Int64Range(-10000000000000, 10000000000000).Draw(t, "startupDelta")))
		c.Startup = stampFromNanos(n)
	case 3:
		startupClass, c.Startup = "startup_zero_time", zeroStamp
	default:
		var cl string
		c.Startup, cl = genStamp(t, "startup", c.Now, c.Threshold, true, false)
		startupClass = "startup_" + cl
	}
	// the remaining fields do not take part
	c.LastConn, _ = genStamp(t, "lastConnected", c.Now, c.Threshold, true, false)
	c.P2PSynced, c.BecameVal = c.LastConn, c.LastConn
	c.ExtDetect, _ = genStamp(t, "extDetected", c.Now, c.Threshold, true, false)

	// ---- oracle
	d := diff(c.Now, c.ExtCreat)
	if negative && saturates(d) {
		t.Fatalf("harness: negative threshold with a saturating difference: %v", c)
	}
	notOlderThanStartup := c.ExtCreat.nanos().Cmp(c.Startup.nanos()) >= 0
	younger := d.Cmp(big.NewInt(c.Threshold)) < 0
	want := notOlderThanStartup && younger

	got := doublesign.DetectParallelInstance(c.status(), time.Duration(c.Threshold))
	if got != want {
		t.Fatalf("DetectParallelInstance=%v, want %v (created not older than startup: %v; now-created=%v ns, threshold=%d): %v",
			got, want, notOlderThanStartup, d, c.Threshold, c)
	}

	// ---- accounting
	ds := diff(c.ExtCreat, c.Startup)
	nearStartup := ds.CmpAbs(big.NewInt(1)) <= 0
	nearThreshold := new(big.Int).Sub(d, big.NewInt(c.Threshold)).CmpAbs(big.NewInt(3)) <= 0
	nontrivial := nearStartup || nearThreshold || saturates(d)
	cls := []string{"created_" + createdClass, startupClass}
	if want {
		cls = append(cls, "parallel_instance_reported")
	} else if !notOlderThanStartup {
		cls = append(cls, "created_before_startup")
	} else {
		cls = append(cls, "older_than_threshold")
	}
	if notOlderThanStartup && younger {
		cls = append(cls, "both_clauses_true")
	}
	if !notOlderThanStartup && younger {
		cls = append(cls, "only_startup_clause_blocks")
	}
	if saturates(d) {
		cls = append(cls, "difference_saturates")
	}
	if negative {
		cls = append(cls, "negative_threshold")
	}
	stPar.Case(stats.Hash(c), nontrivial, cls...)
	stPar.Sample(func() interface{} {
		return map[string]interface{}{"case": c.String(), "want": want}
	})
}

func TestC21ParallelInstance(t *testing.T) { rapid.Check(t, propParallelInstance) }

// TestC21Regression pins the witness of the repaired defect (DESIGN.md §5, F6) without rapid:
// a timestamp 2^63 ns or more ahead of Now must not permit emission.
func TestC21Regression(t *testing.T) {
	timeRepr = 0
	now := stamp{Sec: 1700000000}
	old := stampFromNanos(new(big.Int).Sub(now.nanos(), big.NewInt(7200000000000)))
	future := stamp{Sec: now.Sec + 9300000000} // ~294.7 years ahead
	c := syncCase{Peers: 1, Threshold: 3600000000000, Now: now, Startup: old, LastConn: old, P2PSynced: old,
		BecameVal: old, ExtCreat: old, ExtDetect: future}
	wait, err := doublesign.SyncedToEmit(c.status(), time.Duration(c.Threshold))
	if err == nil || wait != math.MaxInt64 {
		t.Fatalf("far-future timestamp: got (%d, %v), want (MaxInt64, error)", int64(wait), err)
	}
}
