// C22: a flushable store is its underlying store overlaid with the unflushed writes.
//
// Oracle: a two-layer model written from the property text (underlying map + overlay of puts
// and tombstones). The store under test is flushable.Wrap(memorydb) or flushable.NewLazy over a
// memorydb that is produced at the first flush.
//
// Iterator handles are part of the histories: iterators of the store, of its snapshots and of a
// second, independent flushable store (fixed content) are kept open, released when exhausted or
// early, and the released handles are released AGAIN at drawn later points (kvdb.Iterator: Release
// "can be called multiple times without causing error") while other iterators are open; those
// must go on enumerating what the model says.
package c22

import (
	"bytes"
	"fmt"
	"hash/fnv"
	"os"
	"runtime/debug"
	"sort"
	"strings"
	"testing"

	"github.com/Fantom-foundation/lachesis-base/kvdb"
	"github.com/Fantom-foundation/lachesis-base/kvdb/flushable"
	"github.com/Fantom-foundation/lachesis-base/kvdb/memorydb"
	"pgregory.net/rapid"

	"verif/harness/internal/kvmodel"
	"verif/harness/internal/stats"
)

func TestMain(m *testing.M) {
	// the histories allocate many tiny objects over a tiny live heap; collect less often
	debug.SetGCPercent(1000)
	code := m.Run()
	stats.Flush()
	os.Exit(code)
}

var st = stats.New("histories")

// overlay entry: a put value or a tombstone
type ovEntry struct {
	del bool
	val []byte
}

// one recorded value of a key in the *view* (absent == true: the key was not readable)
type version struct {
	step   int
	absent bool
	val    []byte
}

type mBatch struct {
	b kvdb.Batch
	m kvmodel.Batch
}

type mSnap struct {
	s       kvdb.Snapshot
	m       *kvmodel.Map
	flushes int // number of flushes at the time the snapshot was taken
	iters   int // open iterators on it
}

type mIter struct {
	it         kvdb.Iterator
	prefix     []byte
	start      []byte
	createStep int
	expect     []kvmodel.Pair // model iteration at creation time
	pos        int
	last       []byte
	frozen     bool   // iterator over a snapshot or over the second (unchanging) store: exact at any time
	snap       *mSnap // owner, when it iterates a snapshot
	kind       string // "live", "snap", "other": which store it iterates
	// number of Release calls made on ALREADY released iterators while this one was open
	reReleasedMeanwhile int
}

// an iterator that was released (after exhaustion or early); the Iterator contract allows to
// call Release again at any time ("can be called multiple times without causing error").
type oldIter struct {
	it       kvdb.Iterator
	name     string
	kind     string
	releases int
}

type machine struct {
	t *rapid.T

	bigValues bool // this case also writes values of 30-60 KiB (a flush then carries more than one batch worth of data)
	bigPuts   int

	lazy       bool
	lazyInited bool
	und        *memorydb.Database
	fl         kvdb.FlushableKVStore
	lz         *flushable.LazyFlushable

	real    *kvmodel.Map // expected content of the real underlying store
	base    *kvmodel.Map // what the flushable reads underneath (empty until a lazy store is initialised)
	overlay map[string]ovEntry
	view    *kvmodel.Map

	step     int // counts state-changing operations (writes, flushes, drops, underlying writes)
	flushes  int
	versions map[string][]version

	batches []*mBatch
	snaps   []*mSnap
	iters   []*mIter

	// a second, independent flushable store (own memorydb) with content that never changes
	// after construction: part of it flushed, part of it in the overlay
	fl2   kvdb.FlushableKVStore
	view2 *kvmodel.Map

	released []*oldIter // released iterators that may be released again
	nIter    int        // running number for iterator names

	hash  uint64
	trace []string

	// coverage
	ntTombstoneIter  bool
	ntSnapAfterFlush bool
	cls              map[string]bool
	nOps             int
}

func (m *machine) logf(format string, a ...interface{}) {
	s := fmt.Sprintf(format, a...)
	h := fnv.New64a()
	fmt.Fprintf(h, "%d|%s", m.hash, s)
	m.hash = h.Sum64()
	m.trace = append(m.trace, s)
	m.nOps++
}

func (m *machine) failf(format string, a ...interface{}) {
	tr := m.trace
	if len(tr) > 80 {
		tr = tr[len(tr)-80:]
	}
	m.t.Fatalf("%s\n  mode: lazy=%v inited=%v\n  model underlying: %s\n  model overlay: %s\n  history (last %d ops):\n    %s",
		fmt.Sprintf(format, a...), m.lazy, m.lazyInited, m.base, m.overlayString(), len(tr), strings.Join(tr, "\n    "))
}

func (m *machine) overlayString() string {
	ks := make([]string, 0, len(m.overlay))
	for k := range m.overlay {
		ks = append(ks, k)
	}
	sort.Strings(ks)
	var sb strings.Builder
	sb.WriteString("{")
	for i, k := range ks {
		if i > 0 {
			sb.WriteString(" ")
		}
		if e := m.overlay[k]; e.del {
			fmt.Fprintf(&sb, "%x=<deleted>", k)
		} else {
			fmt.Fprintf(&sb, "%x=%x", k, e.val)
		}
	}
	sb.WriteString("}")
	return sb.String()
}

// computeView applies the overlay to the underlying model.
func (m *machine) computeView() *kvmodel.Map {
	v := m.base.Clone()
	for k, e := range m.overlay {
		if e.del {
			v.Delete([]byte(k))
		} else {
			v.Put([]byte(k), e.val)
		}
	}
	return v
}

// changed must be called after every state-changing operation: it advances the step counter
// and records which keys changed their readable value (needed for iterators kept open).
func (m *machine) changed() {
	m.step++
	nv := m.computeView()
	for _, k := range m.view.Keys() {
		ov, _ := m.view.Get([]byte(k))
		if v, ok := nv.Get([]byte(k)); !ok {
			m.versions[k] = append(m.versions[k], version{step: m.step, absent: true})
		} else if !bytes.Equal(v, ov) {
			m.versions[k] = append(m.versions[k], version{step: m.step, val: v})
		}
	}
	for _, k := range nv.Keys() {
		if !m.view.Has([]byte(k)) {
			v, _ := nv.Get([]byte(k))
			m.versions[k] = append(m.versions[k], version{step: m.step, val: v})
		}
	}
	m.view = nv
}

// wasValueSince reports whether v was the readable value of k at step `since` or at any later time.
func (m *machine) wasValueSince(k, v []byte, since int) bool {
	vs := m.versions[string(k)]
	// value at step `since` = last version with step <= since (none: absent)
	cur := version{absent: true}
	for _, x := range vs {
		if x.step <= since {
			cur = x
		}
	}
	if !cur.absent && bytes.Equal(cur.val, v) {
		return true
	}
	for _, x := range vs {
		if x.step > since && !x.absent && bytes.Equal(x.val, v) {
			return true
		}
	}
	return false
}

func (m *machine) existing() []string {
	// keys that matter for collisions: readable keys, overlay keys (incl. tombstones), underlying keys
	set := map[string]struct{}{}
	for _, k := range m.view.Keys() {
		set[k] = struct{}{}
	}
	for k := range m.overlay {
		set[k] = struct{}{}
	}
	for _, k := range m.real.Keys() {
		set[k] = struct{}{}
	}
	ks := make([]string, 0, len(set))
	for k := range set {
		ks = append(ks, k)
	}
	sort.Strings(ks)
	return ks
}

func (m *machine) modelPut(k, v []byte) {
	m.overlay[string(k)] = ovEntry{val: append([]byte{}, v...)}
}
func (m *machine) modelDelete(k []byte) { m.overlay[string(k)] = ovEntry{del: true} }

func (m *machine) class(c string) { m.cls[c] = true }

// ---------------------------------------------------------------------------------------------

func newMachine(t *rapid.T) *machine {
	m := &machine{t: t, overlay: map[string]ovEntry{}, versions: map[string][]version{}, cls: map[string]bool{}}
	m.lazy = rapid.Bool().Draw(t, "lazy")
	m.bigValues = rapid.IntRange(0, 39).Draw(t, "bigValues") == 0
	m.und = memorydb.New()
	m.real = kvmodel.New()
	// real DB empty or initialised first
	nInit := 0
	if rapid.Bool().Draw(t, "initialised") {
		nInit = rapid.IntRange(1, 8).Draw(t, "ninit")
	}
	for i := 0; i < nInit; i++ {
		k := kvmodel.KeyNear(t, "init.k", m.real.Keys())
		v := kvmodel.Value(t, "init.v")
		if err := m.und.Put(k, v); err != nil {
			t.Fatalf("underlying Put: %v", err)
		}
		m.real.Put(k, v)
		m.logf("init underlying put(%x,%x)", k, v)
	}
	if nInit > 0 {
		m.class("underlying_initialised")
	}
	if m.lazy {
		m.class("lazy")
		m.base = kvmodel.New()
		m.lz = flushable.NewLazy(func() (kvdb.Store, error) { return m.und, nil }, nil)
		m.fl = m.lz
	} else {
		m.class("wrap")
		m.base = m.real
		m.fl = flushable.Wrap(m.und)
	}
	m.view = kvmodel.New()
	m.step = -1
	m.changed() // records the initial readable values at step 0
	m.newSecondStore(t)
	return m
}

// newSecondStore builds an independent flushable store over its own memorydb: a few pairs
// flushed, then a few puts and deletes left in the overlay. It is only iterated afterwards.
func (m *machine) newSecondStore(t *rapid.T) {
	m.fl2 = flushable.Wrap(memorydb.New())
	m.view2 = kvmodel.New()
	n := rapid.IntRange(0, 6).Draw(t, "other.n")
	flushAt := rapid.IntRange(0, n).Draw(t, "other.flushAt")
	for i := 0; i < n; i++ {
		if i == flushAt {
			if err := m.fl2.Flush(); err != nil {
				t.Fatalf("second store Flush: %v", err)
			}
		}
		k := kvmodel.KeyNear(t, "other.k", m.view2.Keys())
		if i > flushAt && rapid.IntRange(0, 3).Draw(t, "other.del") == 0 {
			if err := m.fl2.Delete(k); err != nil {
				t.Fatalf("second store Delete: %v", err)
			}
			m.view2.Delete(k)
			continue
		}
		v := kvmodel.Value(t, "other.v")
		if err := m.fl2.Put(k, v); err != nil {
			t.Fatalf("second store Put: %v", err)
		}
		m.view2.Put(k, v)
	}
}

// lazyInit models the moment a lazy store gets its real underlying database.
func (m *machine) lazyInit() {
	if m.lazy && !m.lazyInited {
		m.lazyInited = true
		m.base = m.real
	}
}

// check is run after every action.
func (m *machine) check(t *rapid.T) {
	if got, want := m.fl.NotFlushedPairs(), len(m.overlay); got != want {
		m.failf("NotFlushedPairs() = %d, but %d distinct keys were written since the last flush/drop", got, want)
	}
	if err := kvmodel.CheckAll(m.fl, m.view); err != nil {
		m.failf("flushable store: %v", err)
	}
	if err := kvmodel.CheckAll(m.und, m.real); err != nil {
		m.failf("underlying store (must change only on Flush): %v", err)
	}
	probes := append(m.existing(), "", "\x00", "\xff", "\xff\xff", "\xff\xff\xff", "\x7f")
	for _, k := range probes {
		if err := kvmodel.CheckGetHas(m.fl, m.view, []byte(k)); err != nil {
			m.failf("flushable store: %v", err)
		}
	}
}

func (m *machine) actPut(t *rapid.T) {
	n := rapid.IntRange(1, 2).Draw(t, "n")
	if m.bigValues {
		n = rapid.IntRange(1, 5).Draw(t, "nBig")
	}
	for i := 0; i < n; i++ {
		k := kvmodel.KeyNear(t, "k", m.existing())
		v := kvmodel.Value(t, "v")
		if m.bigValues && rapid.IntRange(0, 2).Draw(t, "big") != 0 {
			fill := byte(rapid.IntRange(0, 255).Draw(t, "fill"))
			v = bytes.Repeat([]byte{fill}, rapid.IntRange(30<<10, 60<<10).Draw(t, "bigLen"))
			m.bigPuts++
			m.logf("put(%x, %d bytes of %02x)", k, len(v), fill)
		} else {
			m.logf("put(%x,%x)", k, v)
		}
		if err := m.fl.Put(k, v); err != nil {
			m.failf("Put(%x,%x) error: %v", k, v, err)
		}
		m.modelPut(k, v)
		m.changed()
	}
}

func (m *machine) actDelete(t *rapid.T) {
	n := rapid.IntRange(1, 2).Draw(t, "n")
	for i := 0; i < n; i++ {
		k := kvmodel.KeyNear(t, "k", m.existing())
		m.logf("delete(%x)", k)
		if err := m.fl.Delete(k); err != nil {
			m.failf("Delete(%x) error: %v", k, err)
		}
		m.modelDelete(k)
		m.changed()
	}
}

func (m *machine) actBatch(t *rapid.T) {
	if len(m.batches) == 0 || (len(m.batches) < 3 && rapid.IntRange(0, 5).Draw(t, "new") == 0) {
		m.batches = append(m.batches, &mBatch{b: m.fl.NewBatch()})
		m.logf("batch#%d = NewBatch()", len(m.batches)-1)
	}
	i := rapid.IntRange(0, len(m.batches)-1).Draw(t, "batch")
	b := m.batches[i]
	switch op := rapid.SampledFrom([]string{"put", "put", "put", "delete", "delete", "write", "write", "write", "reset", "replay"}).Draw(t, "bop"); op {
	case "put":
		k := kvmodel.KeyNear(t, "k", m.existing())
		v := kvmodel.Value(t, "v")
		m.logf("batch#%d.put(%x,%x)", i, k, v)
		if err := b.b.Put(k, v); err != nil {
			m.failf("batch Put error: %v", err)
		}
		b.m.Put(k, v)
	case "delete":
		k := kvmodel.KeyNear(t, "k", m.existing())
		m.logf("batch#%d.delete(%x)", i, k)
		if err := b.b.Delete(k); err != nil {
			m.failf("batch Delete error: %v", err)
		}
		b.m.Delete(k)
	case "write":
		m.logf("batch#%d.write() %v", i, b.m.Ops)
		if err := b.b.Write(); err != nil {
			m.failf("batch Write error: %v", err)
		}
		for _, o := range b.m.Ops {
			if o.Del {
				m.modelDelete(o.K)
			} else {
				m.modelPut(o.K, o.V)
			}
		}
		if len(b.m.Ops) > 0 {
			m.class("batch_write")
		}
		m.changed()
		if rapid.Bool().Draw(t, "resetAfterWrite") {
			m.logf("batch#%d.reset()", i)
			b.b.Reset()
			b.m.Reset()
		}
	case "reset":
		m.logf("batch#%d.reset()", i)
		b.b.Reset()
		b.m.Reset()
	case "replay":
		m.logf("batch#%d.replay()", i)
		if err := kvmodel.CheckReplay(b.b, &b.m); err != nil {
			m.failf("batch#%d: %v", i, err)
		}
		if len(b.m.Ops) > 0 {
			m.class("batch_replay")
		}
	}
}

func (m *machine) actGet(t *rapid.T) {
	n := rapid.IntRange(1, 3).Draw(t, "n")
	for i := 0; i < n; i++ {
		k := kvmodel.KeyNear(t, "k", m.existing())
		m.logf("get/has(%x)", k)
		if err := kvmodel.CheckGetHas(m.fl, m.view, k); err != nil {
			m.failf("flushable store: %v", err)
		}
	}
}

// classifyIter records the coverage classes of one iteration request against the live store.
func (m *machine) classifyIter(prefix, start []byte, n int) {
	switch {
	case prefix == nil:
		m.class("iter_prefix_nil")
	case len(prefix) == 0:
		m.class("iter_prefix_empty")
	case kvmodel.EndsFF(prefix):
		m.class("iter_prefix_ends_ff")
	default:
		m.class("iter_prefix_other")
	}
	switch {
	case start == nil:
		m.class("iter_start_nil")
	case len(start) == 0:
		m.class("iter_start_empty")
	default:
		m.class("iter_start_nonempty")
	}
	if n > 0 {
		m.class("iter_result_nonempty")
		if len(start) > 0 && len(prefix) > 0 {
			m.class("iter_prefix_and_start_nonempty_result")
		}
	}
	// non-trivial: a tombstone shadows an underlying key inside the requested range
	lo := string(prefix) + string(start)
	for k, e := range m.overlay {
		if e.del && m.base.Has([]byte(k)) && strings.HasPrefix(k, string(prefix)) && k >= lo {
			m.ntTombstoneIter = true
			m.class("iter_over_tombstone_shadowing_underlying")
			break
		}
	}
	for k, e := range m.overlay {
		if !e.del && m.base.Has([]byte(k)) && strings.HasPrefix(k, string(prefix)) && k >= lo {
			m.class("iter_over_put_shadowing_underlying")
			break
		}
	}
}

func (m *machine) drawRange(t *rapid.T) (prefix, start []byte) {
	ex := m.existing()
	if rapid.IntRange(0, 4).Draw(t, "ffrange") == 0 {
		if p, s, ok := kvmodel.RangeFF(t, "ff", ex); ok {
			return p, s
		}
	}
	prefix = kvmodel.PrefixNear(t, "prefix", ex)
	start = kvmodel.StartNear(t, "start", prefix, ex)
	return
}

func (m *machine) actIterate(t *rapid.T) {
	n := rapid.IntRange(1, 3).Draw(t, "n")
	for i := 0; i < n; i++ {
		prefix, start := m.drawRange(t)
		m.logf("iterate(%s,%s)", kvmodel.FormatBytes(prefix), kvmodel.FormatBytes(start))
		m.classifyIter(prefix, start, len(m.view.Iterate(prefix, start)))
		if err := kvmodel.CheckIterate(m.fl, m.view, prefix, start); err != nil {
			m.failf("flushable store: %v", err)
		}
	}
}

func (m *machine) actSnapshot(t *rapid.T) {
	op := "take"
	if len(m.snaps) > 0 {
		op = rapid.SampledFrom([]string{"take", "read", "read", "read", "iter", "release"}).Draw(t, "sop")
	}
	if op == "take" && len(m.snaps) >= 3 {
		op = "read"
	}
	if op == "take" {
		s, err := m.fl.GetSnapshot()
		if err != nil {
			m.failf("GetSnapshot error: %v", err)
		}
		m.logf("snap#%d = GetSnapshot()", len(m.snaps))
		m.snaps = append(m.snaps, &mSnap{s: s, m: m.view.Clone(), flushes: m.flushes})
		return
	}
	i := rapid.IntRange(0, len(m.snaps)-1).Draw(t, "snap")
	s := m.snaps[i]
	switch op {
	case "read":
		m.logf("snap#%d.read", i)
		if m.flushes > s.flushes {
			m.ntSnapAfterFlush = true
			m.class("snapshot_read_after_flush")
		}
		if !s.m.Equal(m.view) {
			m.class("snapshot_read_differs_from_live")
		}
		if err := kvmodel.CheckAll(s.s, s.m); err != nil {
			m.failf("snapshot#%d (taken before later writes/flushes/drops): %v", i, err)
		}
		keys := append(s.m.Keys(), m.existing()...)
		for _, k := range keys {
			if err := kvmodel.CheckGetHas(s.s, s.m, []byte(k)); err != nil {
				m.failf("snapshot#%d: %v", i, err)
			}
		}
		ex := append(s.m.Keys(), m.existing()...)
		prefix := kvmodel.PrefixNear(t, "prefix", ex)
		start := kvmodel.StartNear(t, "start", prefix, ex)
		m.logf("snap#%d.iterate(%s,%s)", i, kvmodel.FormatBytes(prefix), kvmodel.FormatBytes(start))
		if err := kvmodel.CheckIterate(s.s, s.m, prefix, start); err != nil {
			m.failf("snapshot#%d: %v", i, err)
		}
	case "iter":
		if m.nOpen(false) >= 4 {
			return
		}
		ex := s.m.Keys()
		prefix := kvmodel.PrefixNear(t, "prefix", ex)
		start := kvmodel.StartNear(t, "start", prefix, ex)
		m.logf("iter#%d = snap#%d.NewIterator(%s,%s)", len(m.iters), i, kvmodel.FormatBytes(prefix), kvmodel.FormatBytes(start))
		it := &mIter{it: s.s.NewIterator(prefix, start), prefix: prefix, start: start, createStep: m.step,
			expect: s.m.Iterate(prefix, start), frozen: true, snap: s, kind: "snap"}
		s.iters++
		m.iters = append(m.iters, it)
	case "release":
		if s.iters > 0 {
			return // release the snapshot's iterators first, as callers do
		}
		m.logf("snap#%d.release", i)
		s.s.Release()
		m.snaps = append(m.snaps[:i], m.snaps[i+1:]...)
	}
}

// advance reads up to n pairs from a kept iterator and checks them: exactly against the model
// while nothing changed since its creation (or for ever, for snapshot iterators), and against
// the weak contract otherwise: strictly ascending keys inside prefix/start, each value was the
// key's readable value at some time since the iterator was created.
func (m *machine) advance(idx, n int) {
	it := m.iters[idx]
	for c := 0; n < 0 || c < n; c++ {
		ok := it.it.Next()
		exact := it.frozen || m.step == it.createStep
		if it.reReleasedMeanwhile > 0 {
			m.class("rerelease_of_old_iterator_while_another_is_live_and_later_stepped")
			m.class("rerelease_then_stepped_" + it.kind + "_iterator")
			if exact {
				m.class("rerelease_then_stepped_exactly_checked_iterator")
			}
		}
		if !ok {
			if err := it.it.Error(); err != nil {
				m.failf("iter#%d error: %v", idx, err)
			}
			if exact && it.pos != len(it.expect) {
				m.failf("iter#%d (%s,%s) ended after %d pairs, model says %s", idx, kvmodel.FormatBytes(it.prefix), kvmodel.FormatBytes(it.start), it.pos, kvmodel.FormatPairs(it.expect))
			}
			m.releaseIter(idx)
			return
		}
		k, v := append([]byte{}, it.it.Key()...), append([]byte{}, it.it.Value()...)
		if exact {
			if it.pos >= len(it.expect) || !bytes.Equal(it.expect[it.pos].K, k) || !bytes.Equal(it.expect[it.pos].V, v) {
				m.failf("iter#%d (%s,%s) pair %d is %x=%x, model says %s", idx, kvmodel.FormatBytes(it.prefix), kvmodel.FormatBytes(it.start), it.pos, k, v, kvmodel.FormatPairs(it.expect))
			}
		} else {
			m.class("stale_iterator_pair_read")
			if it.pos > 0 && bytes.Compare(k, it.last) <= 0 {
				m.failf("iter#%d kept open across writes: key %x after %x is not strictly ascending", idx, k, it.last)
			}
			if !bytes.HasPrefix(k, it.prefix) || bytes.Compare(k, append(append([]byte{}, it.prefix...), it.start...)) < 0 {
				m.failf("iter#%d kept open across writes: key %x outside prefix %s / start %s", idx, k, kvmodel.FormatBytes(it.prefix), kvmodel.FormatBytes(it.start))
			}
			if !m.wasValueSince(k, v, it.createStep) {
				m.failf("iter#%d kept open across writes: pair %x=%x was never the readable value of the key since the iterator was created (versions %v, created at step %d)", idx, k, v, m.versions[string(k)], it.createStep)
			}
		}
		it.pos++
		it.last = k
	}
}

func (m *machine) releaseIter(idx int) {
	it := m.iters[idx]
	it.it.Release()
	if it.snap != nil {
		it.snap.iters--
	}
	m.iters = append(m.iters[:idx], m.iters[idx+1:]...)
	// keep the released handle: it may be released again later (explicit + deferred Release)
	m.nIter++
	m.released = append(m.released, &oldIter{it: it.it, name: fmt.Sprintf("old#%d(%s)", m.nIter, it.kind), kind: it.kind, releases: 1})
	if len(m.released) > 6 {
		m.released = m.released[1:]
	}
}

// reRelease calls Release on an iterator that was released before. Nothing readable may change.
func (m *machine) reRelease(t *rapid.T) {
	i := rapid.IntRange(0, len(m.released)-1).Draw(t, "old")
	o := m.released[i]
	m.logf("%s.Release() again (release #%d, %d other iterators open)", o.name, o.releases+1, len(m.iters))
	o.it.Release()
	o.releases++
	m.class("rerelease_of_old_iterator")
	if o.releases > 2 {
		m.class("rerelease_third_or_later")
	}
	if len(m.iters) > 0 {
		m.class("rerelease_while_another_iterator_live")
	}
	for _, it := range m.iters {
		it.reReleasedMeanwhile++
		if it.kind != o.kind {
			m.class("rerelease_while_iterator_of_other_store_kind_live")
		}
	}
}

// nOpen counts the open iterators of the second store (other == true) or of the store under
// test and its snapshots.
func (m *machine) nOpen(other bool) int {
	n := 0
	for _, it := range m.iters {
		if (it.kind == "other") == other {
			n++
		}
	}
	return n
}

// pickIter draws an open iterator of the second store (other) or of the store under test and
// its snapshots; there must be one.
func (m *machine) pickIter(t *rapid.T, other bool) int {
	var idx []int
	for i, it := range m.iters {
		if (it.kind == "other") == other {
			idx = append(idx, i)
		}
	}
	return idx[rapid.IntRange(0, len(idx)-1).Draw(t, "iter")]
}

func (m *machine) actStale(t *rapid.T) {
	op := "open"
	if len(m.iters) > 0 {
		op = rapid.SampledFrom([]string{"open", "advance", "advance", "advance", "drain"}).Draw(t, "iop")
	}
	if op == "open" && m.nOpen(false) >= 4 {
		op = "advance"
	}
	if op != "open" && m.nOpen(false) == 0 {
		op = "open" // only iterators of the second store are open; those are stepped by actHandles
	}
	if op == "open" {
		prefix, start := m.drawRange(t)
		m.logf("iter#%d = NewIterator(%s,%s)", len(m.iters), kvmodel.FormatBytes(prefix), kvmodel.FormatBytes(start))
		m.iters = append(m.iters, &mIter{it: m.fl.NewIterator(prefix, start), prefix: prefix, start: start,
			createStep: m.step, expect: m.view.Iterate(prefix, start), kind: "live"})
		m.classifyIter(prefix, start, len(m.view.Iterate(prefix, start)))
		if k := rapid.IntRange(0, 2).Draw(t, "readNow"); k > 0 {
			m.logf("iter#%d.next x%d", len(m.iters)-1, k)
			m.advance(len(m.iters)-1, k)
		}
		return
	}
	i := m.pickIter(t, false)
	if m.step != m.iters[i].createStep && !m.iters[i].frozen {
		m.class("stale_iterator_used_after_change")
	}
	if op == "drain" {
		m.logf("iter#%d.drain", i)
		m.advance(i, -1)
		return
	}
	k := rapid.IntRange(1, 3).Draw(t, "count")
	m.logf("iter#%d.next x%d", i, k)
	m.advance(i, k)
}

// actHandles: iterator handles beyond "open, read to the end, release once": iterators of the
// second store, iterators released before they are exhausted, repeated Release of old handles.
func (m *machine) actHandles(t *rapid.T) {
	ops := []string{"openOther", "openOther"}
	if len(m.iters) > 0 {
		ops = append(ops, "releaseEarly")
	}
	if len(m.released) > 0 {
		ops = append(ops, "rerelease", "rerelease", "rerelease", "rerelease")
	}
	if m.nOpen(true) > 0 {
		ops = append(ops, "stepOther", "stepOther", "stepOther")
	}
	switch op := rapid.SampledFrom(ops).Draw(t, "hop"); op {
	case "openOther":
		if m.nOpen(true) >= 2 {
			t.Skip("enough open iterators of the second store")
		}
		ex := m.view2.Keys()
		prefix := kvmodel.PrefixNear(t, "prefix", ex)
		start := kvmodel.StartNear(t, "start", prefix, ex)
		m.logf("iter#%d = other.NewIterator(%s,%s)", len(m.iters), kvmodel.FormatBytes(prefix), kvmodel.FormatBytes(start))
		m.iters = append(m.iters, &mIter{it: m.fl2.NewIterator(prefix, start), prefix: prefix, start: start,
			createStep: m.step, expect: m.view2.Iterate(prefix, start), frozen: true, kind: "other"})
		m.class("iterator_of_second_store")
	case "releaseEarly":
		i := rapid.IntRange(0, len(m.iters)-1).Draw(t, "iter")
		m.logf("iter#%d.release (early, after %d pairs)", i, m.iters[i].pos)
		m.class("iterator_released_early")
		m.releaseIter(i)
	case "rerelease":
		m.reRelease(t)
	case "stepOther":
		i := m.pickIter(t, true)
		k := rapid.IntRange(1, 3).Draw(t, "count")
		m.logf("iter#%d.next x%d", i, k)
		m.advance(i, k)
	}
}

func (m *machine) actMaintain(t *rapid.T) {
	switch op := rapid.SampledFrom([]string{"flush", "flush", "flush", "drop", "drop", "underlying", "underlying", "lazyinit"}).Draw(t, "mop"); op {
	case "flush":
		m.logf("flush()")
		if sz := m.fl.NotFlushedSizeEst(); sz > 100*1024 {
			m.class("flush_of_more_than_100_KiB")
		}
		if err := m.fl.Flush(); err != nil {
			m.failf("Flush error: %v", err)
		}
		m.lazyInit()
		nv := m.computeView()
		if len(m.overlay) > 0 {
			m.class("flush_nonempty")
		}
		// flushing makes the underlying store equal to the view and empties the overlay
		*m.real = *nv
		m.overlay = map[string]ovEntry{}
		m.flushes++
		m.changed()
		if got := m.fl.NotFlushedPairs(); got != 0 {
			m.failf("NotFlushedPairs() = %d right after Flush", got)
		}
		if err := kvmodel.CheckAll(m.und, nv); err != nil {
			m.failf("underlying store after Flush must equal the flushed view: %v", err)
		}
	case "drop":
		m.logf("dropNotFlushed()")
		if len(m.overlay) > 0 {
			m.class("drop_nonempty")
		}
		m.fl.DropNotFlushed()
		m.overlay = map[string]ovEntry{}
		m.changed()
		if err := kvmodel.CheckAll(m.fl, m.base); err != nil {
			m.failf("after DropNotFlushed the store must read as its underlying store: %v", err)
		}
	case "underlying":
		// the underlying store changes below the flushable (another writer, or a lazy store's
		// real database being filled before it is attached). Not while an iterator of the live
		// store is open: a value written underneath a tombstone was never readable, and nothing
		// in the property says what such an iterator may report for it.
		for _, it := range m.iters {
			if !it.frozen {
				t.Skip("live iterator open")
			}
		}
		k := kvmodel.KeyNear(t, "k", m.existing())
		if rapid.Bool().Draw(t, "del") {
			m.logf("underlying.delete(%x)", k)
			if err := m.und.Delete(k); err != nil {
				m.failf("underlying Delete error: %v", err)
			}
			m.real.Delete(k)
		} else {
			v := kvmodel.Value(t, "v")
			m.logf("underlying.put(%x,%x)", k, v)
			if err := m.und.Put(k, v); err != nil {
				m.failf("underlying Put error: %v", err)
			}
			m.real.Put(k, v)
		}
		m.class("underlying_written_directly")
		m.changed()
	case "lazyinit":
		if !m.lazy || m.lazyInited {
			t.Skip("not a lazy store waiting for its database")
		}
		m.logf("InitUnderlyingDb()")
		if _, err := m.lz.InitUnderlyingDb(); err != nil {
			m.failf("InitUnderlyingDb error: %v", err)
		}
		m.lazyInit()
		m.class("lazy_init_explicit")
		m.changed()
	}
}

func (m *machine) finish() {
	for len(m.iters) > 0 {
		m.logf("iter#0.drain (end)")
		m.advance(0, -1)
	}
	for i, s := range m.snaps {
		if err := kvmodel.CheckAll(s.s, s.m); err != nil {
			m.failf("snapshot#%d at end of history: %v", i, err)
		}
		if m.flushes > s.flushes {
			m.ntSnapAfterFlush = true
			m.class("snapshot_read_after_flush")
		}
		s.s.Release()
	}
	m.snaps = nil
	// every kept handle once more, then the stores must still read as their models
	for _, o := range m.released {
		o.it.Release()
	}
	if err := kvmodel.CheckAll(m.fl, m.view); err != nil {
		m.failf("flushable store at end of history: %v", err)
	}
	if err := kvmodel.CheckAll(m.fl2, m.view2); err != nil {
		m.failf("second (independent, unchanged) flushable store at end of history: %v", err)
	}
	_ = m.fl.Close()
	_ = m.fl2.Close()
}

// prop is the C22 property: one operation history against the two-layer model.
func prop(t *rapid.T) {
	m := newMachine(t)
	t.Repeat(map[string]func(*rapid.T){
		"":         m.check,
		"put":      m.actPut,
		"delete":   m.actDelete,
		"batch":    m.actBatch,
		"get":      m.actGet,
		"iterate":  m.actIterate,
		"snapshot": m.actSnapshot,
		"stale":    m.actStale,
		"handles":  m.actHandles,
		"maintain": m.actMaintain,
	})
	m.finish()
	classes := make([]string, 0, len(m.cls)+2)
	for c := range m.cls {
		classes = append(classes, c)
	}
	sort.Strings(classes)
	if m.ntTombstoneIter {
		classes = append(classes, "nontrivial_tombstone_iteration")
	}
	if m.ntSnapAfterFlush {
		classes = append(classes, "nontrivial_snapshot_after_flush")
	}
	st.Case(m.hash, m.ntTombstoneIter || m.ntSnapAfterFlush, classes...)
	st.Class("operations", int64(m.nOps))
	st.Sample(func() interface{} {
		tr := m.trace
		if len(tr) > 40 {
			tr = tr[:40]
		}
		return map[string]interface{}{"lazy": m.lazy, "ops": m.nOps, "history_head": tr}
	})
}

func TestC22(t *testing.T) {
	rapid.Check(t, prop)
}

func FuzzC22(f *testing.F) {
	kvmodel.SeedCorpus(f)
	f.Fuzz(rapid.MakeFuzz(prop))
}
