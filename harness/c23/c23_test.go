// C23: the memory, LevelDB and Pebble backends and the table / flushable / synced wrappers over
// them all behave as one ordered byte-string map.
//
// Oracle: kvmodel.Map (written from the property text). Every history runs on one or two
// backend/wrapper stackings side by side; each is compared with the model after every action.
package c23

import (
	"bytes"
	"fmt"
	"hash/fnv"
	"os"
	"path/filepath"
	"runtime/debug"
	"sort"
	"strings"
	"sync"
	"testing"
	"time"

	"github.com/Fantom-foundation/lachesis-base/kvdb"
	"github.com/Fantom-foundation/lachesis-base/kvdb/flushable"
	"github.com/Fantom-foundation/lachesis-base/kvdb/leveldb"
	"github.com/Fantom-foundation/lachesis-base/kvdb/memorydb"
	"github.com/Fantom-foundation/lachesis-base/kvdb/pebble"
	"github.com/Fantom-foundation/lachesis-base/kvdb/synced"
	"github.com/Fantom-foundation/lachesis-base/kvdb/table"
	"pgregory.net/rapid"

	"verif/harness/internal/kvmodel"
	"verif/harness/internal/stats"
)

const dirPattern = "verif-c23-"

func tmpRoot() string {
	if fi, err := os.Stat("/dev/shm"); err == nil && fi.IsDir() {
		return "/dev/shm"
	}
	return os.TempDir()
}

func TestMain(m *testing.M) {
	debug.SetGCPercent(400)
	// a killed fuzz worker cannot remove its directory: sweep leftovers of earlier runs
	if old, err := filepath.Glob(filepath.Join(tmpRoot(), dirPattern+"*")); err == nil {
		for _, d := range old {
			if fi, err := os.Stat(d); err == nil && time.Since(fi.ModTime()) > 15*time.Minute {
				_ = os.RemoveAll(d)
			}
		}
	}
	code := m.Run()
	stats.Flush()
	os.Exit(code)
}

const (
	bkMemory  = "memorydb"
	bkLevelDB = "leveldb"
	bkPebble  = "pebble"
)

type layer struct {
	kind   string // "table", "flushable", "synced"
	prefix []byte
}

func (l layer) String() string {
	if l.kind == "table" {
		return fmt.Sprintf("table(%x)", l.prefix)
	}
	return l.kind
}

// stack is one backend with its wrappers.
type stack struct {
	backend string
	dir     string
	layers  []layer // bottom-up
	raw     kvdb.Store
	top     kvdb.Store
	flush   []*flushable.Flushable // outermost first
	eff     []byte                 // the prefix all keys of the top store carry in the backend
	rawWant *kvmodel.Map           // noise keys written to the backend outside eff

	batches []kvdb.Batch
	snaps   []kvdb.Snapshot
	decoys  []kvdb.Store // sibling tables created after the real ones, never used
}

func (s *stack) String() string {
	parts := []string{s.backend}
	for _, l := range s.layers {
		parts = append(parts, l.String())
	}
	return strings.Join(parts, " <- ")
}

func (s *stack) disk() bool { return s.backend != bkMemory }

func (s *stack) openRaw() error {
	var err error
	switch s.backend {
	case bkMemory:
		if s.raw == nil {
			s.raw = memorydb.New()
		}
	case bkLevelDB:
		s.raw, err = leveldb.New(s.dir, 0, 0, nil, nil)
	case bkPebble:
		s.raw, err = pebble.New(s.dir, 0, 16, nil, nil)
	}
	return err
}

func (s *stack) wrap() {
	s.flush = nil
	cur := s.raw
	for _, l := range s.layers {
		switch l.kind {
		case "table":
			// prefixes are handed over as slices with spare capacity (as table.MigrateTables does), and a sibling
			// view of the same parent is created afterwards and never used: neither may disturb this table
			pfx := make([]byte, len(l.prefix), len(l.prefix)+8)
			copy(pfx, l.prefix)
			parent := cur
			cur = table.New(parent, pfx)
			dp := make([]byte, len(l.prefix), len(l.prefix)+8)
			for i, b := range l.prefix {
				dp[i] = ^b
			}
			if len(dp) == 0 {
				dp = append(dp, 0x5a)
			}
			s.decoys = append(s.decoys, table.New(parent, dp))
		case "flushable":
			f := flushable.Wrap(cur)
			s.flush = append([]*flushable.Flushable{f}, s.flush...)
			cur = f
		case "synced":
			cur = synced.WrapStore(cur, new(sync.RWMutex))
		}
	}
	s.top = cur
}

// flushAll pushes the content of every flushable layer down to the backend.
func (s *stack) flushAll() error {
	for _, f := range s.flush {
		if err := f.Flush(); err != nil {
			return err
		}
	}
	return nil
}

type snapSet struct {
	m       *kvmodel.Map
	snaps   []kvdb.Snapshot // one per stack
	reopens int
}

type batchSet struct {
	m  kvmodel.Batch
	bs []kvdb.Batch // one per stack
}

type machine struct {
	t      *rapid.T
	stacks []*stack
	model  *kvmodel.Map

	batches []*batchSet
	snaps   []*snapSet

	hash  uint64
	trace []string
	nOps  int
	cls   map[string]bool
	nt    bool
}

func (m *machine) logf(format string, a ...interface{}) {
	s := fmt.Sprintf(format, a...)
	h := fnv.New64a()
	fmt.Fprintf(h, "%d|%s", m.hash, s)
	m.hash = h.Sum64()
	m.trace = append(m.trace, s)
	m.nOps++
}

func (m *machine) class(c string) { m.cls[c] = true }

func (m *machine) failf(s *stack, format string, a ...interface{}) {
	tr := m.trace
	if len(tr) > 80 {
		tr = tr[len(tr)-80:]
	}
	m.t.Fatalf("[%s] %s\n  model: %s\n  history (last %d ops):\n    %s", s, fmt.Sprintf(format, a...), m.model, len(tr), strings.Join(tr, "\n    "))
}

func drawLayers(t *rapid.T, label string) []layer {
	n := rapid.SampledFrom([]int{0, 1, 1, 2, 2, 3}).Draw(t, label+".nlayers")
	ls := make([]layer, 0, n)
	for i := 0; i < n; i++ {
		k := rapid.SampledFrom([]string{"table", "table", "flushable", "flushable", "synced"}).Draw(t, label+".layer")
		l := layer{kind: k}
		if k == "table" {
			l.prefix = kvmodel.KeyLen(t, label+".tprefix", 0, 2)
		}
		ls = append(ls, l)
	}
	return ls
}

func newStack(m *machine, t *rapid.T, backend, label string) *stack {
	s := &stack{backend: backend, layers: drawLayers(t, label), rawWant: kvmodel.New()}
	for _, l := range s.layers {
		if l.kind == "table" {
			s.eff = append(s.eff, l.prefix...)
		}
	}
	m.stacks = append(m.stacks, s) // from here on cleanup() takes care of it
	if s.disk() {
		d, err := os.MkdirTemp(tmpRoot(), dirPattern)
		if err != nil {
			t.Fatalf("INFRA: MkdirTemp: %v", err)
		}
		s.dir = d
	}
	if err := s.openRaw(); err != nil {
		t.Fatalf("[%s] open: %v", s, err)
	}
	// neighbours of the table key space that must stay invisible through the tables
	if len(s.eff) > 0 {
		n := rapid.IntRange(0, 4).Draw(t, label+".nnoise")
		for i := 0; i < n; i++ {
			k := kvmodel.KeyLen(t, label+".noise.k", 0, len(s.eff)+1)
			if rapid.Bool().Draw(t, label+".noise.near") && len(k) > 0 {
				// same length as the prefix region, differing in the last byte only
				k = append(append([]byte{}, s.eff[:len(s.eff)-1]...), k[0])
			}
			if bytes.HasPrefix(k, s.eff) {
				continue
			}
			v := kvmodel.Value(t, label+".noise.v")
			if err := s.raw.Put(k, v); err != nil {
				t.Fatalf("[%s] noise Put: %v", s, err)
			}
			s.rawWant.Put(k, v)
		}
	}
	s.wrap()
	return s
}

func (m *machine) cleanup() {
	for _, sn := range m.snaps {
		for _, x := range sn.snaps {
			func() {
				defer func() { _ = recover() }()
				x.Release()
			}()
		}
	}
	m.snaps = nil
	for _, s := range m.stacks {
		func() {
			defer func() { _ = recover() }()
			if s.raw != nil {
				_ = s.raw.Close()
				s.raw = nil
			}
		}()
		if s.dir != "" {
			_ = os.RemoveAll(s.dir)
		}
	}
}

func (m *machine) existing() []string { return m.model.Keys() }

// expected backend content of a stack once everything is flushed down
func (m *machine) rawExpect(s *stack) *kvmodel.Map {
	w := s.rawWant.Clone()
	for _, p := range m.model.All() {
		w.Put(append(append([]byte{}, s.eff...), p.K...), p.V)
	}
	return w
}

func (m *machine) check(t *rapid.T) {
	probes := append(m.existing(), "", "\x00", "\xff", "\xff\xff", "\x7f")
	for _, s := range m.stacks {
		if err := kvmodel.CheckAll(s.top, m.model); err != nil {
			m.failf(s, "%v", err)
		}
		for _, k := range probes {
			if err := kvmodel.CheckGetHas(s.top, m.model, []byte(k)); err != nil {
				m.failf(s, "%v", err)
			}
		}
	}
}

func (m *machine) actPut(t *rapid.T) {
	n := rapid.IntRange(1, 2).Draw(t, "n")
	for i := 0; i < n; i++ {
		k := kvmodel.KeyNear(t, "k", m.existing())
		v := kvmodel.Value(t, "v")
		m.logf("put(%x,%x)", k, v)
		if len(k) == 0 {
			m.class("empty_key_written")
		}
		if len(v) == 0 {
			m.class("empty_value_written")
		}
		for _, s := range m.stacks {
			if err := s.top.Put(append([]byte{}, k...), append([]byte{}, v...)); err != nil {
				m.failf(s, "Put(%x,%x) error: %v", k, v, err)
			}
		}
		m.model.Put(k, v)
	}
}

func (m *machine) actDelete(t *rapid.T) {
	n := rapid.IntRange(1, 2).Draw(t, "n")
	for i := 0; i < n; i++ {
		k := kvmodel.KeyNear(t, "k", m.existing())
		m.logf("delete(%x)", k)
		if m.model.Has(k) {
			m.class("delete_present_key")
		}
		for _, s := range m.stacks {
			if err := s.top.Delete(append([]byte{}, k...)); err != nil {
				m.failf(s, "Delete(%x) error: %v", k, err)
			}
		}
		m.model.Delete(k)
	}
}

func (m *machine) actBatch(t *rapid.T) {
	if len(m.batches) == 0 || (len(m.batches) < 2 && rapid.IntRange(0, 5).Draw(t, "new") == 0) {
		bs := &batchSet{}
		for _, s := range m.stacks {
			bs.bs = append(bs.bs, s.top.NewBatch())
		}
		m.batches = append(m.batches, bs)
		m.logf("batch#%d = NewBatch()", len(m.batches)-1)
	}
	i := rapid.IntRange(0, len(m.batches)-1).Draw(t, "batch")
	b := m.batches[i]
	switch op := rapid.SampledFrom([]string{"put", "put", "put", "delete", "delete", "write", "write", "write", "reset", "replay", "replay"}).Draw(t, "bop"); op {
	case "put":
		k := kvmodel.KeyNear(t, "k", m.existing())
		v := kvmodel.Value(t, "v")
		m.logf("batch#%d.put(%x,%x)", i, k, v)
		for j, s := range m.stacks {
			if err := b.bs[j].Put(append([]byte{}, k...), append([]byte{}, v...)); err != nil {
				m.failf(s, "batch Put error: %v", err)
			}
		}
		b.m.Put(k, v)
	case "delete":
		k := kvmodel.KeyNear(t, "k", m.existing())
		m.logf("batch#%d.delete(%x)", i, k)
		for j, s := range m.stacks {
			if err := b.bs[j].Delete(append([]byte{}, k...)); err != nil {
				m.failf(s, "batch Delete error: %v", err)
			}
		}
		b.m.Delete(k)
	case "write":
		// documented reuse protocol: Write, then Reset before the batch is used again
		m.logf("batch#%d.write()+reset() %v", i, b.m.Ops)
		for j, s := range m.stacks {
			if err := b.bs[j].Write(); err != nil {
				m.failf(s, "batch Write error: %v", err)
			}
			b.bs[j].Reset()
		}
		if len(b.m.Ops) > 0 {
			m.class("batch_write")
		}
		b.m.Apply(m.model)
		b.m.Reset()
	case "reset":
		m.logf("batch#%d.reset()", i)
		for j := range m.stacks {
			b.bs[j].Reset()
		}
		b.m.Reset()
	case "replay":
		m.logf("batch#%d.replay()", i)
		for j, s := range m.stacks {
			if err := kvmodel.CheckReplay(b.bs[j], &b.m); err != nil {
				m.failf(s, "batch#%d: %v", i, err)
			}
		}
		if len(b.m.Ops) > 0 {
			m.class("batch_replay")
			for _, o := range b.m.Ops {
				if o.Del {
					m.class("batch_replay_with_delete")
				}
			}
		}
	}
}

func (m *machine) actGet(t *rapid.T) {
	n := rapid.IntRange(1, 3).Draw(t, "n")
	for i := 0; i < n; i++ {
		k := kvmodel.KeyNear(t, "k", m.existing())
		m.logf("get/has(%x)", k)
		if v, ok := m.model.Get(k); ok && len(v) == 0 {
			m.class("get_empty_value")
		}
		for _, s := range m.stacks {
			if err := kvmodel.CheckGetHas(s.top, m.model, k); err != nil {
				m.failf(s, "%v", err)
			}
		}
	}
}

func (m *machine) classifyIter(prefix, start []byte, n int) {
	switch {
	case prefix == nil:
		m.class("iter_prefix_nil")
	case len(prefix) == 0:
		m.class("iter_prefix_empty")
	case kvmodel.EndsFF(prefix):
		m.class("iter_prefix_ends_ff")
	default:
		m.class("iter_prefix_other")
	}
	switch {
	case start == nil:
		m.class("iter_start_nil")
	case len(start) == 0:
		m.class("iter_start_empty")
	default:
		m.class("iter_start_nonempty")
	}
	if n > 0 {
		m.class("iter_result_nonempty")
	}
	if len(start) > 0 {
		for _, s := range m.stacks {
			// non-trivial rule of DESIGN §4 C23: the prefix the disk backend gets to see (table
			// prefixes included) ends in 0xff and the start key is non-empty
			if s.disk() && kvmodel.EndsFF(append(append([]byte{}, s.eff...), prefix...)) {
				m.nt = true
				m.class("iter_ff_prefix_nonempty_start_on_disk_" + s.backend)
				if n > 0 {
					m.class("iter_ff_prefix_nonempty_start_on_disk_nonempty_result")
				}
			}
		}
	}
}

func (m *machine) drawRange(t *rapid.T, ex []string) (prefix, start []byte) {
	if rapid.IntRange(0, 3).Draw(t, "ffrange") == 0 {
		if p, s, ok := kvmodel.RangeFF(t, "ff", ex); ok {
			return p, s
		}
	}
	prefix = kvmodel.PrefixNear(t, "prefix", ex)
	start = kvmodel.StartNear(t, "start", prefix, ex)
	return
}

func (m *machine) actIterate(t *rapid.T) {
	n := rapid.IntRange(1, 3).Draw(t, "n")
	for i := 0; i < n; i++ {
		prefix, start := m.drawRange(t, m.existing())
		m.logf("iterate(%s,%s)", kvmodel.FormatBytes(prefix), kvmodel.FormatBytes(start))
		m.classifyIter(prefix, start, len(m.model.Iterate(prefix, start)))
		for _, s := range m.stacks {
			if err := kvmodel.CheckIterate(s.top, m.model, prefix, start); err != nil {
				m.failf(s, "%v", err)
			}
		}
	}
}

// actInterleaved advances two iterators of the same store alternately, with reads in between.
func (m *machine) actInterleaved(t *rapid.T) {
	p1, s1 := m.drawRange(t, m.existing())
	p2, s2 := m.drawRange(t, m.existing())
	m.logf("interleaved iterate(%s,%s) / iterate(%s,%s)", kvmodel.FormatBytes(p1), kvmodel.FormatBytes(s1), kvmodel.FormatBytes(p2), kvmodel.FormatBytes(s2))
	m.classifyIter(p1, s1, len(m.model.Iterate(p1, s1)))
	m.classifyIter(p2, s2, len(m.model.Iterate(p2, s2)))
	e1, e2 := m.model.Iterate(p1, s1), m.model.Iterate(p2, s2)
	for _, s := range m.stacks {
		i1 := s.top.NewIterator(p1, s1)
		i2 := s.top.NewIterator(p2, s2)
		var g1, g2 []kvmodel.Pair
		d1, d2 := false, false
		for !d1 || !d2 {
			if !d1 {
				ps, done, err := kvmodel.Drain(i1, 1)
				if err != nil {
					m.failf(s, "iterator error: %v", err)
				}
				g1, d1 = append(g1, ps...), done
			}
			if len(e1) > 0 {
				if err := kvmodel.CheckGetHas(s.top, m.model, e1[0].K); err != nil {
					m.failf(s, "%v", err)
				}
			}
			if !d2 {
				ps, done, err := kvmodel.Drain(i2, 2)
				if err != nil {
					m.failf(s, "iterator error: %v", err)
				}
				g2, d2 = append(g2, ps...), done
			}
		}
		i1.Release()
		i2.Release()
		if !kvmodel.EqualPairs(g1, e1) {
			m.failf(s, "interleaved iterate(%s,%s) = %s, model says %s", kvmodel.FormatBytes(p1), kvmodel.FormatBytes(s1), kvmodel.FormatPairs(g1), kvmodel.FormatPairs(e1))
		}
		if !kvmodel.EqualPairs(g2, e2) {
			m.failf(s, "interleaved iterate(%s,%s) = %s, model says %s", kvmodel.FormatBytes(p2), kvmodel.FormatBytes(s2), kvmodel.FormatPairs(g2), kvmodel.FormatPairs(e2))
		}
	}
	m.class("interleaved_iterators")
}

func (m *machine) releaseSnap(i int) {
	for _, x := range m.snaps[i].snaps {
		x.Release()
	}
	m.snaps = append(m.snaps[:i], m.snaps[i+1:]...)
}

func (m *machine) actSnapshot(t *rapid.T) {
	op := "take"
	if len(m.snaps) > 0 {
		op = rapid.SampledFrom([]string{"take", "read", "read", "read", "release"}).Draw(t, "sop")
	}
	if op == "take" && len(m.snaps) >= 2 {
		op = "read"
	}
	if op == "take" {
		ss := &snapSet{m: m.model.Clone()}
		for _, s := range m.stacks {
			x, err := s.top.GetSnapshot()
			if err != nil {
				m.failf(s, "GetSnapshot error: %v", err)
			}
			ss.snaps = append(ss.snaps, x)
		}
		m.logf("snap#%d = GetSnapshot()", len(m.snaps))
		m.snaps = append(m.snaps, ss)
		return
	}
	i := rapid.IntRange(0, len(m.snaps)-1).Draw(t, "snap")
	ss := m.snaps[i]
	if op == "release" {
		m.logf("snap#%d.release", i)
		m.releaseSnap(i)
		return
	}
	m.logf("snap#%d.read", i)
	if !ss.m.Equal(m.model) {
		m.class("snapshot_read_after_later_writes")
	}
	ex := append(ss.m.Keys(), m.existing()...)
	prefix, start := m.drawRange(t, ex)
	m.logf("snap#%d.iterate(%s,%s)", i, kvmodel.FormatBytes(prefix), kvmodel.FormatBytes(start))
	for j, s := range m.stacks {
		if err := kvmodel.CheckAll(ss.snaps[j], ss.m); err != nil {
			m.failf(s, "snapshot#%d: %v", i, err)
		}
		for _, k := range ex {
			if err := kvmodel.CheckGetHas(ss.snaps[j], ss.m, []byte(k)); err != nil {
				m.failf(s, "snapshot#%d: %v", i, err)
			}
		}
		if err := kvmodel.CheckIterate(ss.snaps[j], ss.m, prefix, start); err != nil {
			m.failf(s, "snapshot#%d: %v", i, err)
		}
	}
}

func (m *machine) actMaintain(t *rapid.T) {
	switch op := rapid.SampledFrom([]string{"flush", "flush", "reopen"}).Draw(t, "mop"); op {
	case "flush":
		any := false
		for _, s := range m.stacks {
			if len(s.flush) > 0 {
				any = true
			}
		}
		if !any {
			t.Skip("no flushable layer")
		}
		m.logf("flush()")
		for _, s := range m.stacks {
			if err := s.flushAll(); err != nil {
				m.failf(s, "Flush error: %v", err)
			}
			if len(s.flush) > 0 {
				if err := kvmodel.CheckAll(s.raw, m.rawExpect(s)); err != nil {
					m.failf(s, "backend content after flushing every layer: %v", err)
				}
			}
		}
		m.class("flush_layers")
	case "reopen":
		any := false
		for _, s := range m.stacks {
			if s.disk() {
				any = true
			}
		}
		if !any {
			t.Skip("no disk backend")
		}
		m.logf("close+reopen")
		// snapshots and batches belong to the open database
		for len(m.snaps) > 0 {
			m.releaseSnap(0)
		}
		m.batches = nil
		for _, s := range m.stacks {
			if !s.disk() {
				continue
			}
			if err := s.flushAll(); err != nil {
				m.failf(s, "Flush error: %v", err)
			}
			if err := s.raw.Close(); err != nil {
				m.failf(s, "Close error: %v", err)
			}
			s.raw = nil
			if err := s.openRaw(); err != nil {
				m.failf(s, "reopen error: %v", err)
			}
			s.wrap()
			if err := kvmodel.CheckAll(s.raw, m.rawExpect(s)); err != nil {
				m.failf(s, "backend content after close+reopen: %v", err)
			}
		}
		// batches of the memory stacks stay usable, but the sets are per history: start afresh
		if m.model.Len() > 0 {
			m.class("reopen_nonempty")
		}
	}
}

func (m *machine) finish() {
	for len(m.snaps) > 0 {
		ss := m.snaps[0]
		for j, s := range m.stacks {
			if err := kvmodel.CheckAll(ss.snaps[j], ss.m); err != nil {
				m.failf(s, "snapshot at end of history: %v", err)
			}
		}
		m.releaseSnap(0)
	}
	for _, s := range m.stacks {
		if err := s.flushAll(); err != nil {
			m.failf(s, "Flush error: %v", err)
		}
		if err := kvmodel.CheckAll(s.raw, m.rawExpect(s)); err != nil {
			m.failf(s, "backend content at end of history: %v", err)
		}
	}
}

// prop runs one history on a primary stack of the given backend ("" = drawn) and, for about
// half of the cases, on a second stack of a drawn backend side by side.
func prop(primary string, col *stats.Collector) func(t *rapid.T) {
	return func(t *rapid.T) {
		m := &machine{t: t, model: kvmodel.New(), cls: map[string]bool{}}
		defer m.cleanup()
		all := []string{bkMemory, bkLevelDB, bkPebble}
		b1 := primary
		if b1 == "" {
			b1 = rapid.SampledFrom(all).Draw(t, "backend")
		}
		newStack(m, t, b1, "A")
		if rapid.Bool().Draw(t, "sideBySide") {
			b2 := rapid.SampledFrom(all).Draw(t, "backendB")
			newStack(m, t, b2, "B")
			m.class("side_by_side")
			if b2 != b1 {
				m.class("side_by_side_different_backends")
			}
		}
		for _, s := range m.stacks {
			m.logf("stack %s", s)
			m.class("backend_" + s.backend)
			kinds := map[string]bool{}
			for _, l := range s.layers {
				m.class("layer_" + l.kind)
				kinds[l.kind] = true
			}
			if len(s.layers) == 0 {
				m.class("no_wrapper")
			}
			if len(kinds) > 1 {
				m.class("mixed_wrappers")
			}
			if s.rawWant.Len() > 0 {
				m.class("neighbour_keys_outside_table")
			}
		}
		t.Repeat(map[string]func(*rapid.T){
			"":            m.check,
			"put":         m.actPut,
			"delete":      m.actDelete,
			"batch":       m.actBatch,
			"get":         m.actGet,
			"iterate":     m.actIterate,
			"interleaved": m.actInterleaved,
			"snapshot":    m.actSnapshot,
			"maintain":    m.actMaintain,
		})
		m.finish()
		classes := make([]string, 0, len(m.cls))
		for c := range m.cls {
			classes = append(classes, c)
		}
		sort.Strings(classes)
		col.Case(m.hash, m.nt, classes...)
		col.Class("operations", int64(m.nOps))
		col.Sample(func() interface{} {
			tr := m.trace
			if len(tr) > 40 {
				tr = tr[:40]
			}
			return map[string]interface{}{"ops": m.nOps, "history_head": tr}
		})
	}
}

var (
	stMem = stats.New("memorydb")
	stLdb = stats.New("leveldb")
	stPbl = stats.New("pebble")
	stFuz = stats.New("fuzz")
)

func TestC23Memory(t *testing.T)  { rapid.Check(t, prop(bkMemory, stMem)) }
func TestC23LevelDB(t *testing.T) { rapid.Check(t, prop(bkLevelDB, stLdb)) }
func TestC23Pebble(t *testing.T)  { rapid.Check(t, prop(bkPebble, stPbl)) }

func FuzzC23(f *testing.F) {
	kvmodel.SeedCorpus(f)
	f.Fuzz(rapid.MakeFuzz(prop("", stFuz)))
}
