// C24: tables isolate their key spaces.
//
// Oracle: one kvmodel.Map for the underlying store; a table with (effective) prefix p must read
// as {k[len(p):] : k in underlying, HasPrefix(k, p)} and write only underlying key p+k. The
// underlying store records Compact calls so that the requested range can be judged.
package c24

import (
	"bytes"
	"fmt"
	"hash/fnv"
	"os"
	"runtime/debug"
	"sort"
	"strings"
	"testing"

	"github.com/Fantom-foundation/lachesis-base/kvdb"
	"github.com/Fantom-foundation/lachesis-base/kvdb/memorydb"
	"github.com/Fantom-foundation/lachesis-base/kvdb/table"
	"pgregory.net/rapid"

	"verif/harness/internal/kvmodel"
	"verif/harness/internal/stats"
)

func TestMain(m *testing.M) {
	debug.SetGCPercent(1000)
	code := m.Run()
	stats.Flush()
	os.Exit(code)
}

var st = stats.New("histories")

type compactCall struct {
	start, limit []byte
}

func (c compactCall) String() string {
	return fmt.Sprintf("Compact(%s,%s)", kvmodel.FormatBytes(c.start), kvmodel.FormatBytes(c.limit))
}

func cpNil(b []byte) []byte {
	if b == nil {
		return nil
	}
	return append([]byte{}, b...)
}

// recStore is the underlying store: a memorydb that records the compaction ranges it is asked for.
type recStore struct {
	kvdb.Store
	compacts []compactCall
}

func (r *recStore) Compact(start, limit []byte) error {
	r.compacts = append(r.compacts, compactCall{cpNil(start), cpNil(limit)})
	return r.Store.Compact(start, limit)
}

type tbl struct {
	t      *table.Table
	own    []byte
	eff    []byte
	parent int // -1: directly over the underlying store
	name   string
}

type mBatch struct {
	tb int
	b  kvdb.Batch
	m  kvmodel.Batch
	// written: Write() was called since the last Reset() while operations were queued (they stay
	// queued: a kvdb batch keeps its operations until Reset and every Write re-applies all of them)
	written bool
}

type mSnap struct {
	tb int
	s  kvdb.Snapshot
	m  *kvmodel.Map // frozen underlying content
}

type machine struct {
	t      *rapid.T
	und    *recStore
	model  *kvmodel.Map // underlying content
	tables []*tbl

	batches []*mBatch
	snaps   []*mSnap

	long bool // this case also uses long prefixes and long keys (prefix+key around 32/64/128 bytes)

	hash  uint64
	trace []string
	nOps  int
	cls   map[string]bool
	nt    bool
}

func (m *machine) logf(format string, a ...interface{}) {
	s := fmt.Sprintf(format, a...)
	h := fnv.New64a()
	fmt.Fprintf(h, "%d|%s", m.hash, s)
	m.hash = h.Sum64()
	m.trace = append(m.trace, s)
	m.nOps++
}

func (m *machine) class(c string) { m.cls[c] = true }

func (m *machine) failf(format string, a ...interface{}) {
	tr := m.trace
	if len(tr) > 80 {
		tr = tr[len(tr)-80:]
	}
	var ts []string
	for _, tb := range m.tables {
		ts = append(ts, fmt.Sprintf("%s: own prefix %x, effective prefix %x", tb.name, tb.own, tb.eff))
	}
	m.t.Fatalf("%s\n  tables: %s\n  model of underlying store: %s\n  history (last %d ops):\n    %s",
		fmt.Sprintf(format, a...), strings.Join(ts, "; "), m.model, len(tr), strings.Join(tr, "\n    "))
}

// inc returns p+1 as a big-endian number of the same length (nil on overflow / empty p): the
// smallest same-length string above every key that has prefix p.
func inc(p []byte) []byte {
	r := append([]byte{}, p...)
	for i := len(r) - 1; i >= 0; i-- {
		r[i]++
		if r[i] != 0 {
			return r
		}
	}
	return nil
}

// dec returns p-1 as a big-endian number of the same length (nil when p is empty or all zero).
func dec(p []byte) []byte {
	r := append([]byte{}, p...)
	for i := len(r) - 1; i >= 0; i-- {
		r[i]--
		if r[i] != 0xff {
			return r
		}
	}
	return nil
}

func cat(a, b []byte) []byte { return append(append([]byte{}, a...), b...) }

func related(a, b []byte) bool { return bytes.HasPrefix(a, b) || bytes.HasPrefix(b, a) }

// drawPrefix draws a table prefix with the boundary shapes the property names.
func drawPrefix(t *rapid.T, label string) []byte {
	switch rapid.IntRange(0, 9).Draw(t, label+".shape") {
	case 0:
		return []byte{}
	case 1:
		return bytes.Repeat([]byte{0xff}, rapid.IntRange(1, 3).Draw(t, label+".n"))
	case 2:
		return bytes.Repeat([]byte{0x00}, rapid.IntRange(1, 3).Draw(t, label+".n"))
	case 3, 4:
		// ends in 0xff with something to carry into
		p := kvmodel.KeyLen(t, label, 1, 2)
		return append(p, 0xff)
	}
	return kvmodel.KeyLen(t, label, 1, 3)
}

// lenNear draws a length in [min,max], half of the time right at a buffer-size boundary.
func lenNear(t *rapid.T, label string, min, max int, marks []int) int {
	var in []int
	for _, x := range marks {
		if x >= min && x <= max {
			in = append(in, x)
		}
	}
	if len(in) > 0 && rapid.Bool().Draw(t, label+".atmark") {
		return rapid.SampledFrom(in).Draw(t, label+".mark")
	}
	return rapid.IntRange(min, max).Draw(t, label+".len")
}

// padded returns a string of n bytes (or tail, when it is longer) that ends in tail: one repeated
// alphabet byte in front keeps long keys and prefixes colliding on long common prefixes.
func padded(t *rapid.T, label string, n int, tail []byte) []byte {
	if n <= len(tail) {
		return tail
	}
	pad := rapid.SampledFrom(kvmodel.Alphabet).Draw(t, label+".pad")
	return append(bytes.Repeat([]byte{pad}, n-len(tail)), tail...)
}

// prefix draws a table prefix: one of the boundary shapes, in long cases half of the time padded
// to 4..40 bytes (same endings, so the 0xff / 0x00 shapes stay).
func (m *machine) prefix(t *rapid.T, label string) []byte {
	p := drawPrefix(t, label)
	if m.long && rapid.Bool().Draw(t, label+".long") {
		n := lenNear(t, label+".longlen", 4, 40, []int{7, 8, 9, 16, 24, 31, 32, 33, 40})
		p = padded(t, label, n, p)
	}
	return p
}

// longKey draws a key of 30..70 bytes for a table with effective prefix eff, half of the time
// such that prefix+key ends right at / around 32, 64 or 128 bytes.
func longKey(t *rapid.T, label string, eff []byte) []byte {
	var marks []int
	for _, total := range []int{31, 32, 33, 63, 64, 65, 66, 96, 127, 128, 129} {
		marks = append(marks, total-len(eff))
	}
	marks = append(marks, 63, 64, 65) // the key alone at the boundary
	n := lenNear(t, label+".longlen", 30, 70, marks)
	return padded(t, label, n, kvmodel.Key(t, label))
}

// key draws a key for an operation through tb: near the existing ones (existing, neighbour,
// fresh short) or, in long cases, a fresh long one.
func (m *machine) key(t *rapid.T, label string, tb *tbl, existing []string) []byte {
	var k []byte
	if m.long && rapid.IntRange(0, 3).Draw(t, label+".long") == 0 {
		k = longKey(t, label, tb.eff)
	} else {
		k = kvmodel.KeyNear(t, label, existing)
	}
	m.noteKey(tb, k)
	return k
}

// noteKey records the length classes of a key that goes through a table.
func (m *machine) noteKey(tb *tbl, k []byte) {
	if len(k) >= 30 {
		m.class("long_key")
	}
	if len(tb.eff) >= 8 {
		m.class("long_prefix_used")
	}
	for _, n := range []int{32, 64, 128} {
		if len(k) <= n && len(tb.eff)+len(k) > n {
			m.class(fmt.Sprintf("key_le_%d_prefixed_key_gt_%d", n, n))
			if tb.parent >= 0 {
				m.class(fmt.Sprintf("key_le_%d_prefixed_key_gt_%d_nested", n, n))
			}
		}
	}
}

func (m *machine) addTable(t *rapid.T, i int) {
	label := fmt.Sprintf("T%d", i)
	tb := &tbl{parent: -1, name: label}
	how := "fresh"
	if i > 0 {
		how = rapid.SampledFrom([]string{"nested", "nested", "nested", "extends", "shortens", "sibling", "sibling", "sibling", "same", "fresh", "fresh"}).Draw(t, label+".how")
	}
	o := m.tables
	switch how {
	case "nested":
		tb.parent = rapid.IntRange(0, i-1).Draw(t, label+".parent")
		tb.own = m.prefix(t, label+".prefix")
		tb.eff = cat(o[tb.parent].eff, tb.own)
		tb.t = o[tb.parent].t.NewTable(tb.own)
		m.class("nested_table")
	case "extends": // a root-level table whose prefix extends another table's prefix
		b := o[rapid.IntRange(0, i-1).Draw(t, label+".of")]
		tb.own = cat(b.eff, kvmodel.KeyLen(t, label+".ext", 1, 2))
	case "shortens":
		b := o[rapid.IntRange(0, i-1).Draw(t, label+".of")]
		tb.own = append([]byte{}, b.eff[:rapid.IntRange(0, len(b.eff)).Draw(t, label+".cut")]...)
	case "sibling": // same length, last byte differs: incomparable neighbour
		b := o[rapid.IntRange(0, i-1).Draw(t, label+".of")]
		tb.own = append([]byte{}, b.eff...)
		if len(tb.own) > 0 {
			switch rapid.IntRange(0, 2).Draw(t, label+".sib") {
			case 0:
				if x := inc(tb.own); x != nil {
					tb.own = x
				}
			case 1:
				if x := dec(tb.own); x != nil {
					tb.own = x
				}
			default:
				tb.own[len(tb.own)-1] = rapid.SampledFrom(kvmodel.Alphabet).Draw(t, label+".b")
			}
		}
	case "same":
		b := o[rapid.IntRange(0, i-1).Draw(t, label+".of")]
		tb.own = append([]byte{}, b.eff...)
	default:
		tb.own = m.prefix(t, label+".prefix")
	}
	if tb.t == nil {
		tb.eff = append([]byte{}, tb.own...)
		tb.t = table.New(m.und, tb.own)
	}
	m.tables = append(m.tables, tb)
	m.logf("%s: %s table, own prefix %x, effective prefix %x", label, how, tb.own, tb.eff)
}

// seed fills the underlying store with the neighbours of every table's key space before the
// tables are used (a table must show the keys already present under its prefix, and only those).
func (m *machine) seed(t *rapid.T) {
	put := func(k []byte, why string) {
		if k == nil || !rapid.Bool().Draw(t, "seed."+why) {
			return
		}
		v := kvmodel.Value(t, "seed.v")
		if err := m.und.Put(k, v); err != nil {
			m.failf("underlying Put: %v", err)
		}
		m.model.Put(k, v)
		m.logf("seed %s: underlying.put(%x,%x)", why, k, v)
	}
	for _, tb := range m.tables {
		p := tb.eff
		put(dec(p), "p-1")
		put(inc(p), "p+1")
		if x := dec(p); x != nil {
			put(cat(x, []byte{0xff}), "p-1,ff")
		}
		if x := inc(p); x != nil {
			put(cat(x, []byte{0x00}), "p+1,00")
		}
		if len(p) > 0 {
			put(append([]byte{}, p[:len(p)-1]...), "shorter")
		}
		put(append([]byte{}, p...), "p")
		put(cat(p, []byte{0x00}), "p,00")
		put(cat(p, []byte{0xff}), "p,ff")
		put(cat(p, kvmodel.KeyLen(t, "seed.in", 1, 2)), "inside")
		if m.long {
			put(cat(p, longKey(t, "seed.long", p)), "inside,long")
		}
	}
	n := rapid.IntRange(0, 4).Draw(t, "seed.nrandom")
	for i := 0; i < n; i++ {
		k := kvmodel.Key(t, "seed.k")
		v := kvmodel.Value(t, "seed.v")
		if err := m.und.Put(k, v); err != nil {
			m.failf("underlying Put: %v", err)
		}
		m.model.Put(k, v)
		m.logf("seed random: underlying.put(%x,%x)", k, v)
	}
}

func (m *machine) view(tb *tbl) *kvmodel.Map { return m.model.SubView(tb.eff) }

// neighboursPresent: is there an underlying key right outside the table's key space?
func (m *machine) neighboursPresent(tb *tbl) bool {
	for _, x := range [][]byte{dec(tb.eff), inc(tb.eff)} {
		if x == nil {
			continue
		}
		for _, k := range m.model.Keys() {
			if strings.HasPrefix(k, string(x)) {
				return true
			}
		}
	}
	return false
}

// used records the coverage classes of an operation through a table.
func (m *machine) used(tb *tbl) {
	nb := m.neighboursPresent(tb)
	if nb {
		m.class("neighbour_keys_present")
	}
	if kvmodel.EndsFF(tb.eff) {
		m.class("prefix_ends_ff")
		if nb {
			m.nt = true
			m.class("nontrivial_ff_prefix_with_neighbours")
		}
	}
	if tb.parent >= 0 {
		if nb {
			m.nt = true
			m.class("nontrivial_nested_with_neighbours")
		}
		if kvmodel.EndsFF(tb.own) {
			m.class("nested_own_prefix_ends_ff")
		}
	}
	if len(tb.eff) == 0 {
		m.class("prefix_empty")
	} else if tb.eff[0] == 0x00 {
		m.class("prefix_starts_00")
	}
}

func (m *machine) pick(t *rapid.T) (int, *tbl) {
	i := rapid.IntRange(0, len(m.tables)-1).Draw(t, "table")
	return i, m.tables[i]
}

func (m *machine) check(t *rapid.T) {
	if err := kvmodel.CheckAll(m.und, m.model); err != nil {
		m.failf("underlying store (a table write must change only key prefix+k): %v", err)
	}
	for _, tb := range m.tables {
		v := m.view(tb)
		if err := kvmodel.CheckAll(tb.t, v); err != nil {
			m.failf("%s: %v", tb.name, err)
		}
		probes := append(v.Keys(), "", "\x00", "\xff")
		for _, k := range probes {
			if err := kvmodel.CheckGetHas(tb.t, v, []byte(k)); err != nil {
				m.failf("%s: %v", tb.name, err)
			}
		}
	}
}

// noteIsolation records which kind of other tables exist when a table is written.
func (m *machine) noteIsolation(i int) {
	for j, o := range m.tables {
		if j == i {
			continue
		}
		if related(o.eff, m.tables[i].eff) {
			m.class("write_with_comparable_other_table")
		} else {
			m.class("write_with_incomparable_other_table")
		}
	}
}

func (m *machine) actPut(t *rapid.T) {
	i, tb := m.pick(t)
	k := m.key(t, "k", tb, m.hot(tb, m.view(tb).Keys()))
	v := kvmodel.Value(t, "v")
	m.logf("%s.put(%x,%x)", tb.name, k, v)
	m.used(tb)
	m.noteIsolation(i)
	if err := tb.t.Put(k, v); err != nil {
		m.failf("%s.Put error: %v", tb.name, err)
	}
	m.model.Put(cat(tb.eff, k), v)
}

func (m *machine) actDelete(t *rapid.T) {
	i, tb := m.pick(t)
	k := m.key(t, "k", tb, m.hot(tb, m.view(tb).Keys()))
	m.logf("%s.delete(%x)", tb.name, k)
	m.used(tb)
	m.noteIsolation(i)
	if err := tb.t.Delete(k); err != nil {
		m.failf("%s.Delete error: %v", tb.name, err)
	}
	m.model.Delete(cat(tb.eff, k))
}

func (m *machine) actDirect(t *rapid.T) {
	k := kvmodel.KeyNear(t, "k", m.hotUnd(m.model.Keys()))
	if rapid.Bool().Draw(t, "del") {
		m.logf("underlying.delete(%x)", k)
		if err := m.und.Delete(k); err != nil {
			m.failf("underlying Delete error: %v", err)
		}
		m.model.Delete(k)
	} else {
		v := kvmodel.Value(t, "v")
		m.logf("underlying.put(%x,%x)", k, v)
		if err := m.und.Put(k, v); err != nil {
			m.failf("underlying Put error: %v", err)
		}
		m.model.Put(k, v)
	}
	m.class("direct_underlying_write")
}

// hotUnd returns existing plus the underlying keys of the operations that sit in batches which
// were written and not reset (twice, as a bias): a later Write of such a batch re-applies them, so
// writes to these keys by other paths in between are what the re-application must override.
func (m *machine) hotUnd(existing []string) []string {
	out := existing
	for _, b := range m.batches {
		if !b.written {
			continue
		}
		for _, o := range b.m.Ops {
			k := string(cat(m.tables[b.tb].eff, o.K))
			out = append(out, k, k)
		}
	}
	return out
}

// hot is hotUnd restricted to the key space of tb (prefix removed).
func (m *machine) hot(tb *tbl, existing []string) []string {
	out := existing
	for _, k := range m.hotUnd(nil) {
		if strings.HasPrefix(k, string(tb.eff)) {
			out = append(out, k[len(tb.eff):])
		}
	}
	return out
}

// writeBatch calls Write() (and Reset() if asked) and applies to the model what a batch of the
// underlying store restricted to the prefix does: every operation queued since the last Reset is
// applied (again), in order.
func (m *machine) writeBatch(bi int, reset bool) {
	b := m.batches[bi]
	tb := m.tables[b.tb]
	how := "write()"
	if reset {
		how = "write()+reset()"
	}
	if b.written {
		how = "again without reset: " + how
	}
	m.logf("batch#%d(%s).%s %v", bi, tb.name, how, b.m.Ops)
	m.used(tb)
	m.noteIsolation(b.tb)
	var before *kvmodel.Map
	if b.written {
		before = m.model.Clone()
	}
	if err := b.b.Write(); err != nil {
		m.failf("batch Write error: %v", err)
	}
	for _, o := range b.m.Ops {
		if o.Del {
			m.model.Delete(cat(tb.eff, o.K))
		} else {
			m.model.Put(cat(tb.eff, o.K), o.V)
		}
	}
	if len(b.m.Ops) > 0 {
		m.class("batch_write")
		if b.written {
			m.class("batch_written_again_without_reset")
			if !before.Equal(m.model) {
				m.class("batch_written_again_overrides_writes_in_between")
			}
		}
		b.written = true
	}
	if reset {
		b.b.Reset()
		b.m.Reset()
		b.written = false
	}
}

func (m *machine) actBatch(t *rapid.T) {
	if len(m.batches) == 0 || (len(m.batches) < 3 && rapid.IntRange(0, 3).Draw(t, "new") == 0) {
		i, tb := m.pick(t)
		m.batches = append(m.batches, &mBatch{tb: i, b: tb.t.NewBatch()})
		m.logf("batch#%d = %s.NewBatch()", len(m.batches)-1, tb.name)
	}
	bi := rapid.IntRange(0, len(m.batches)-1).Draw(t, "batch")
	b := m.batches[bi]
	tb := m.tables[b.tb]
	op := rapid.SampledFrom([]string{"put", "put", "put", "delete", "delete", "write", "write", "write", "reset", "replay", "replay",
		"write_keep", "write_keep", "rewrite"}).Draw(t, "bop")
	if op == "rewrite" && len(b.m.Ops) == 0 {
		op = "put"
	}
	switch op {
	case "put":
		k := m.key(t, "k", tb, m.view(tb).Keys())
		v := kvmodel.Value(t, "v")
		m.logf("batch#%d(%s).put(%x,%x)", bi, tb.name, k, v)
		if err := b.b.Put(k, v); err != nil {
			m.failf("batch Put error: %v", err)
		}
		b.m.Put(k, v)
	case "delete":
		k := m.key(t, "k", tb, m.view(tb).Keys())
		m.logf("batch#%d(%s).delete(%x)", bi, tb.name, k)
		if err := b.b.Delete(k); err != nil {
			m.failf("batch Delete error: %v", err)
		}
		b.m.Delete(k)
	case "write":
		m.writeBatch(bi, true)
	case "write_keep":
		m.writeBatch(bi, false)
	case "rewrite":
		// Write, change one of the batch's keys by another path, Write again without Reset
		m.writeBatch(bi, false)
		m.check(t)
		o := b.m.Ops[rapid.IntRange(0, len(b.m.Ops)-1).Draw(t, "rewrite.op")]
		uk := cat(tb.eff, o.K)
		var err error
		switch path := rapid.IntRange(0, 3).Draw(t, "rewrite.path"); {
		case path == 0 || (path == 2 && !o.Del):
			// make sure the state differs from what the batch leaves
			if o.Del {
				v := kvmodel.Value(t, "v")
				m.logf("%s.put(%x,%x)", tb.name, o.K, v)
				err = tb.t.Put(o.K, v)
				m.model.Put(uk, v)
			} else {
				m.logf("%s.delete(%x)", tb.name, o.K)
				err = tb.t.Delete(o.K)
				m.model.Delete(uk)
			}
		case path == 1:
			v := kvmodel.Value(t, "v")
			m.logf("%s.put(%x,%x)", tb.name, o.K, v)
			err = tb.t.Put(o.K, v)
			m.model.Put(uk, v)
		case path == 2:
			v := kvmodel.Value(t, "v")
			m.logf("underlying.put(%x,%x)", uk, v)
			err = m.und.Put(uk, v)
			m.model.Put(uk, v)
		default:
			m.logf("underlying.delete(%x)", uk)
			err = m.und.Delete(uk)
			m.model.Delete(uk)
		}
		if err != nil {
			m.failf("write between two Write() calls: %v", err)
		}
		m.check(t)
		m.writeBatch(bi, rapid.Bool().Draw(t, "rewrite.reset"))
	case "reset":
		m.logf("batch#%d(%s).reset()", bi, tb.name)
		b.b.Reset()
		b.m.Reset()
		b.written = false
	case "replay":
		m.logf("batch#%d(%s).replay() %v", bi, tb.name, b.m.Ops)
		if err := kvmodel.CheckReplay(b.b, &b.m); err != nil {
			m.failf("batch#%d of %s: %v", bi, tb.name, err)
		}
		if len(b.m.Ops) > 0 {
			m.class("batch_replay")
			if tb.parent >= 0 {
				m.class("batch_replay_nested")
			}
			if b.written {
				m.class("batch_replay_after_write_without_reset")
			}
		}
	}
}

func (m *machine) actGet(t *rapid.T) {
	_, tb := m.pick(t)
	v := m.view(tb)
	// also probe with keys of the whole underlying store (stripped or not): they must not leak in
	ex := append(v.Keys(), m.model.Keys()...)
	n := rapid.IntRange(1, 3).Draw(t, "n")
	for i := 0; i < n; i++ {
		k := m.key(t, "k", tb, ex)
		m.logf("%s.get/has(%x)", tb.name, k)
		if err := kvmodel.CheckGetHas(tb.t, v, k); err != nil {
			m.failf("%s: %v", tb.name, err)
		}
	}
}

func drawRange(t *rapid.T, ex []string) (prefix, start []byte) {
	if rapid.IntRange(0, 4).Draw(t, "ffrange") == 0 {
		if p, s, ok := kvmodel.RangeFF(t, "ff", ex); ok {
			return p, s
		}
	}
	prefix = kvmodel.PrefixNear(t, "prefix", ex)
	start = kvmodel.StartNear(t, "start", prefix, ex)
	return
}

func (m *machine) actIterate(t *rapid.T) {
	_, tb := m.pick(t)
	v := m.view(tb)
	n := rapid.IntRange(1, 3).Draw(t, "n")
	for i := 0; i < n; i++ {
		prefix, start := drawRange(t, v.Keys())
		m.logf("%s.iterate(%s,%s)", tb.name, kvmodel.FormatBytes(prefix), kvmodel.FormatBytes(start))
		m.used(tb)
		if len(v.Iterate(prefix, start)) > 0 {
			m.class("iter_result_nonempty")
			if len(prefix) > 0 {
				m.class("iter_inner_prefix_nonempty_result")
			}
			if len(start) > 0 {
				m.class("iter_start_nonempty_result")
			}
		}
		if err := kvmodel.CheckIterate(tb.t, v, prefix, start); err != nil {
			m.failf("%s: %v", tb.name, err)
		}
	}
}

func (m *machine) actSnapshot(t *rapid.T) {
	op := "take"
	if len(m.snaps) > 0 {
		op = rapid.SampledFrom([]string{"take", "read", "read", "read", "release"}).Draw(t, "sop")
	}
	if op == "take" && len(m.snaps) >= 3 {
		op = "read"
	}
	if op == "take" {
		i, tb := m.pick(t)
		s, err := tb.t.GetSnapshot()
		if err != nil {
			m.failf("%s.GetSnapshot error: %v", tb.name, err)
		}
		m.logf("snap#%d = %s.GetSnapshot()", len(m.snaps), tb.name)
		m.snaps = append(m.snaps, &mSnap{tb: i, s: s, m: m.model.Clone()})
		return
	}
	si := rapid.IntRange(0, len(m.snaps)-1).Draw(t, "snap")
	s := m.snaps[si]
	tb := m.tables[s.tb]
	if op == "release" {
		m.logf("snap#%d.release", si)
		s.s.Release()
		m.snaps = append(m.snaps[:si], m.snaps[si+1:]...)
		return
	}
	v := s.m.SubView(tb.eff)
	if !v.Equal(m.view(tb)) {
		m.class("snapshot_read_after_later_writes")
	}
	prefix, start := drawRange(t, v.Keys())
	m.logf("snap#%d(%s).read + iterate(%s,%s)", si, tb.name, kvmodel.FormatBytes(prefix), kvmodel.FormatBytes(start))
	if err := kvmodel.CheckAll(s.s, v); err != nil {
		m.failf("snapshot#%d of %s: %v", si, tb.name, err)
	}
	for _, k := range append(v.Keys(), m.view(tb).Keys()...) {
		if err := kvmodel.CheckGetHas(s.s, v, []byte(k)); err != nil {
			m.failf("snapshot#%d of %s: %v", si, tb.name, err)
		}
	}
	if err := kvmodel.CheckIterate(s.s, v, prefix, start); err != nil {
		m.failf("snapshot#%d of %s: %v", si, tb.name, err)
	}
}

func (m *machine) actCompact(t *rapid.T) {
	_, tb := m.pick(t)
	var start, limit []byte
	whole := rapid.IntRange(0, 2).Draw(t, "whole") > 0
	if !whole {
		start = kvmodel.Bound(t, "cstart", 2)
		limit = kvmodel.Bound(t, "climit", 2)
	}
	m.logf("%s.compact(%s,%s)", tb.name, kvmodel.FormatBytes(start), kvmodel.FormatBytes(limit))
	m.used(tb)
	before := len(m.und.compacts)
	if err := tb.t.Compact(start, limit); err != nil {
		m.failf("%s.Compact error: %v", tb.name, err)
	}
	if len(m.und.compacts) != before+1 {
		m.failf("%s.Compact(%s,%s) reached the underlying store %d times", tb.name, kvmodel.FormatBytes(start), kvmodel.FormatBytes(limit), len(m.und.compacts)-before)
	}
	c := m.und.compacts[before]
	p := tb.eff
	lo := cat(p, start)
	// s <= p+start (nil start of the underlying call means "before all keys")
	if c.start != nil && bytes.Compare(c.start, lo) > 0 {
		m.failf("%s.Compact(%s,%s) asked the underlying store for %v: range starts after %x", tb.name, kvmodel.FormatBytes(start), kvmodel.FormatBytes(limit), c, lo)
	}
	if limit == nil {
		// no upper limit inside the table: the range must cover every key with prefix p, i.e. the
		// limit is absent or lies above p and outside p's key space
		if c.limit != nil && !(bytes.Compare(c.limit, p) > 0 && !bytes.HasPrefix(c.limit, p)) {
			m.failf("%s.Compact(%s,nil) asked the underlying store for %v: the limit does not lie above every key with prefix %x", tb.name, kvmodel.FormatBytes(start), c, p)
		}
		if start == nil {
			m.class("compact_whole_table")
			if kvmodel.EndsFF(p) {
				m.class("compact_whole_table_prefix_ends_ff")
			}
			if tb.parent >= 0 && kvmodel.EndsFF(tb.own) {
				m.class("compact_whole_nested_table_own_prefix_ends_ff")
			}
			if c.limit == nil {
				m.class("compact_whole_table_limit_nil")
			}
		}
	} else {
		hi := cat(p, limit)
		if c.limit != nil && bytes.Compare(c.limit, hi) < 0 {
			m.failf("%s.Compact(%s,%s) asked the underlying store for %v: range ends before %x", tb.name, kvmodel.FormatBytes(start), kvmodel.FormatBytes(limit), c, hi)
		}
		m.class("compact_sub_range")
	}
}

func (m *machine) finish() {
	for i, s := range m.snaps {
		tb := m.tables[s.tb]
		if err := kvmodel.CheckAll(s.s, s.m.SubView(tb.eff)); err != nil {
			m.failf("snapshot#%d of %s at end of history: %v", i, tb.name, err)
		}
		s.s.Release()
	}
	m.snaps = nil
	_ = m.und.Close()
}

func prop(t *rapid.T) {
	m := &machine{t: t, und: &recStore{Store: memorydb.New()}, model: kvmodel.New(), cls: map[string]bool{}}
	m.long = rapid.IntRange(0, 2).Draw(t, "long") == 0
	if m.long {
		m.class("long_case")
	}
	n := rapid.SampledFrom([]int{1, 2, 2, 3, 3, 3}).Draw(t, "ntables")
	for i := 0; i < n; i++ {
		m.addTable(t, i)
	}
	m.seed(t)
	incomparable := false
	for i := range m.tables {
		for j := 0; j < i; j++ {
			if !related(m.tables[i].eff, m.tables[j].eff) {
				incomparable = true
			}
		}
	}
	if incomparable {
		m.class("has_incomparable_tables")
	}
	t.Repeat(map[string]func(*rapid.T){
		"":         m.check,
		"put":      m.actPut,
		"delete":   m.actDelete,
		"direct":   m.actDirect,
		"batch":    m.actBatch,
		"get":      m.actGet,
		"iterate":  m.actIterate,
		"snapshot": m.actSnapshot,
		"compact":  m.actCompact,
	})
	m.finish()
	classes := make([]string, 0, len(m.cls))
	for c := range m.cls {
		classes = append(classes, c)
	}
	sort.Strings(classes)
	st.Case(m.hash, m.nt, classes...)
	st.Class("operations", int64(m.nOps))
	st.Sample(func() interface{} {
		tr := m.trace
		if len(tr) > 40 {
			tr = tr[:40]
		}
		return map[string]interface{}{"ops": m.nOps, "history_head": tr}
	})
}

func TestC24(t *testing.T) {
	rapid.Check(t, prop)
}

// TestC24CompactPrefixes enumerates every table prefix of length 0..3 over the full byte
// alphabet at the carry boundaries ({00,01,7f,fe,ff} plus all bytes for length 1), directly
// and nested in a second table, and checks the range a whole-table Compact asks for.
func TestC24CompactPrefixes(t *testing.T) {
	stc := stats.New("compact_prefixes")
	var prefixes [][]byte
	prefixes = append(prefixes, []byte{})
	for b := 0; b < 256; b++ {
		prefixes = append(prefixes, []byte{byte(b)})
	}
	al := kvmodel.Alphabet
	for _, a := range al {
		for _, b := range al {
			prefixes = append(prefixes, []byte{a, b})
			for _, c := range al {
				prefixes = append(prefixes, []byte{a, b, c})
			}
		}
	}
	// offered first: the driver needs a sample list even when the enumeration fails early
	stc.Sample(func() interface{} {
		return map[string]interface{}{"prefixes": len(prefixes), "domain": "all prefixes of length 0-1, length 2-3 over {00,01,7f,fe,ff}; root tables and nested pairs; 0xff runs of length 4-17 with optional head/tail byte, root and nested under 5 parents"}
	})
	covers := func(c compactCall, p []byte) bool {
		if c.start != nil && bytes.Compare(c.start, p) > 0 {
			return false
		}
		return c.limit == nil || (bytes.Compare(c.limit, p) > 0 && !bytes.HasPrefix(c.limit, p))
	}
	for _, p := range prefixes {
		und := &recStore{Store: memorydb.New()}
		if err := table.New(und, p).Compact(nil, nil); err != nil {
			t.Fatalf("Compact error: %v", err)
		}
		if len(und.compacts) != 1 || !covers(und.compacts[0], p) {
			t.Fatalf("table(%x).Compact(nil,nil) asked the underlying store for %v, which does not cover every key with prefix %x", p, und.compacts, p)
		}
		stc.Case(stats.Hash("root", p), kvmodel.EndsFF(p), "root_table")
		for _, q := range prefixes {
			if len(q) > 2 && len(p) > 1 {
				continue
			}
			und := &recStore{Store: memorydb.New()}
			if err := table.New(und, p).NewTable(q).Compact(nil, nil); err != nil {
				t.Fatalf("Compact error: %v", err)
			}
			eff := cat(p, q)
			if len(und.compacts) != 1 || !covers(und.compacts[0], eff) {
				t.Fatalf("table(%x).NewTable(%x).Compact(nil,nil) asked the underlying store for %v, which does not cover every key with prefix %x", p, q, und.compacts, eff)
			}
			stc.Case(stats.Hash("nested", p, "/", q), kvmodel.EndsFF(q) || kvmodel.EndsFF(p), "nested_table")
		}
	}
	// long prefixes around machine-word sizes: runs of 0xff of length 4..17, alone, after a head byte and
	// before a tail byte (carry through the whole run), as root tables and nested under short parents
	var long [][]byte
	for n := 4; n <= 17; n++ {
		run := bytes.Repeat([]byte{0xff}, n)
		long = append(long, run)
		for _, h := range al {
			long = append(long, cat([]byte{h}, run))
			long = append(long, cat(run, []byte{h}))
		}
	}
	parents := [][]byte{{}, {0x01}, {0xff}, {0xff, 0xff}, {0x00, 0xff}}
	for _, q := range long {
		for _, p := range parents {
			und := &recStore{Store: memorydb.New()}
			var tb *table.Table
			if len(p) == 0 {
				tb = table.New(und, q)
			} else {
				tb = table.New(und, p).NewTable(q)
			}
			if err := tb.Compact(nil, nil); err != nil {
				t.Fatalf("Compact error: %v", err)
			}
			eff := cat(p, q)
			if len(und.compacts) != 1 || !covers(und.compacts[0], eff) {
				t.Fatalf("table(%x).NewTable(%x).Compact(nil,nil) asked the underlying store for %v, which does not cover every key with prefix %x", p, q, und.compacts, eff)
			}
			stc.Case(stats.Hash("long", p, "/", q), true, "long_ff_run")
		}
	}
	stc.Exhaustive(true)
}

func FuzzC24(f *testing.F) {
	kvmodel.SeedCorpus(f)
	f.Fuzz(rapid.MakeFuzz(prop))
}
