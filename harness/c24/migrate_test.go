package c24

import (
	"bytes"
	"fmt"
	"reflect"
	"testing"

	"github.com/Fantom-foundation/lachesis-base/kvdb"
	"github.com/Fantom-foundation/lachesis-base/kvdb/memorydb"
	"github.com/Fantom-foundation/lachesis-base/kvdb/table"
	"pgregory.net/rapid"

	"verif/harness/internal/stats"
)

var stMig = stats.New("migrate")

// The structs that receive tables come in every flavour a program has: anonymous struct types (what the
// repository itself uses), struct types made at run time with drawn tags, and named types - among them
// function-local types of the same name in different functions, which print alike ("c24.tables") although they are
// different types with different tags.

func localA() interface{} {
	type tables struct {
		Main kvdb.Store `table:"a"`
		Aux  kvdb.Store `table:"b"`
	}
	return &tables{}
}

func localB() interface{} {
	type tables struct {
		Main kvdb.Store `table:"p"`
		Aux  kvdb.Store `table:"q"`
	}
	return &tables{}
}

func localC() interface{} {
	type tables struct {
		Skip  int
		Other kvdb.Store `table:"zz"`
		Main  kvdb.Store `table:"a"`
		None  kvdb.Store `table:"-"`
	}
	return &tables{}
}

func localD() interface{} {
	type tables struct {
		Main kvdb.Store `table:"A"`
		Aux  kvdb.Store `table:"P"`
	}
	return &tables{}
}

type namedTables struct {
	Main kvdb.Store `table:"n"`
	Aux  kvdb.Store `table:"m"`
}

var storeType = reflect.TypeOf((*kvdb.Store)(nil)).Elem()

// TestC24Migrate: tables handed out by MigrateTables are views with exactly the prefix of the field's tag,
// whatever structs were migrated before in the same process.
func TestC24Migrate(t *testing.T) {
	rapid.Check(t, func(t *rapid.T) {
		// every case starts from the same process history: all the fixed struct types have been migrated once (so
		// that a failing case replays alone in a fresh process)
		for _, s := range []interface{}{localA(), localB(), localC(), localD(), &namedTables{}} {
			table.MigrateTables(s, memorydb.New())
		}
		db := memorydb.New()
		n := rapid.IntRange(1, 6).Draw(t, "structs")
		var kinds []string
		for k := 0; k < n; k++ {
			var s interface{}
			kind := rapid.SampledFrom([]string{"localA", "localB", "localC", "localD", "named", "anonymous", "runtime", "runtime"}).Draw(t, "kind")
			switch kind {
			case "localA":
				s = localA()
			case "localB":
				s = localB()
			case "localC":
				s = localC()
			case "localD":
				s = localD()
			case "named":
				s = &namedTables{}
			case "anonymous":
				s = &struct {
					X kvdb.Store `table:"x"`
					Y kvdb.Store `table:"y"`
				}{}
			default:
				nf := rapid.IntRange(1, 4).Draw(t, "fields")
				used := map[string]bool{}
				var fs []reflect.StructField
				for i := 0; i < nf; i++ {
					p := rapid.SampledFrom([]string{"a", "b", "p", "q", "x", "ab", "zz", "n", "r", "s"}).Draw(t, "tag")
					if used[p] {
						continue
					}
					used[p] = true
					fs = append(fs, reflect.StructField{Name: fmt.Sprintf("F%d", i), Type: storeType, Tag: reflect.StructTag(fmt.Sprintf(`table:%q`, p))})
				}
				s = reflect.New(reflect.StructOf(fs)).Interface()
			}
			kinds = append(kinds, kind)
			table.MigrateTables(s, db)
			v := reflect.ValueOf(s).Elem()
			for i := 0; i < v.NumField(); i++ {
				tag := v.Type().Field(i).Tag.Get("table")
				if tag == "" || tag == "-" || v.Type().Field(i).Type != storeType {
					continue
				}
				if v.Field(i).IsNil() {
					t.Fatalf("after %v: field %s (table %q) was left nil", kinds, v.Type().Field(i).Name, tag)
				}
				tb := v.Field(i).Interface().(kvdb.Store)
				key := []byte(fmt.Sprintf("k%d.%d", k, i))
				val := []byte(fmt.Sprintf("v%d.%d", k, i))
				if err := tb.Put(key, val); err != nil {
					t.Fatalf("Put: %v", err)
				}
				raw := append([]byte(tag), key...)
				if got, _ := db.Get(raw); !bytes.Equal(got, val) {
					t.Fatalf("after migrating %v: a write of key %q through field %s (tag table:%q) is not at %q in the underlying store; the store holds %v",
						kinds, key, v.Type().Field(i).Name, tag, raw, dump(db))
				}
				// a key written under the prefix directly is seen through the table with the prefix removed
				direct := append([]byte(tag), []byte(fmt.Sprintf("d%d.%d", k, i))...)
				if err := db.Put(direct, []byte{1}); err != nil {
					t.Fatalf("Put: %v", err)
				}
				if ok, _ := tb.Has(direct[len(tag):]); !ok {
					t.Fatalf("after migrating %v: the table of field %s (tag table:%q) does not see the underlying key %q", kinds, v.Type().Field(i).Name, tag, direct)
				}
				// and everything it lists starts with its prefix in the underlying store
				it := tb.NewIterator(nil, nil)
				for it.Next() {
					if ok, _ := db.Has(append([]byte(tag), it.Key()...)); !ok {
						it.Release()
						t.Fatalf("after migrating %v: the table of field %s (tag table:%q) lists key %q, which is not under its prefix in the underlying store",
							kinds, v.Type().Field(i).Name, tag, it.Key())
					}
				}
				it.Release()
			}
		}
		sameName := 0
		for _, k := range kinds {
			if len(k) == 6 && k[:5] == "local" {
				sameName++
			}
		}
		cls := []string{fmt.Sprintf("structs_%d", n)}
		if sameName >= 2 {
			cls = append(cls, "several_local_types_of_one_name")
		}
		stMig.Case(stats.Hash(kinds), n >= 2, cls...)
		stMig.Sample(func() interface{} { return kinds })
	})
}

func dump(db kvdb.Store) []string {
	var out []string
	it := db.NewIterator(nil, nil)
	defer it.Release()
	for it.Next() {
		out = append(out, fmt.Sprintf("%q", it.Key()))
	}
	return out
}
