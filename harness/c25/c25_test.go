// C25: multi-database flushes are crash consistent.
//
// Sessions of opens, writes, batches, drops and flushes are run through flushable.SyncedPool and
// through flaggedproducer.Wrap, both over the crashlog producer, which records every durable
// operation (create/put/del/batch/drop) in one ordered log. EVERY prefix of that log is a crash
// point: a fresh producer stack is started over crashlog's StateAt(p), Initialize(surviving names,
// nil) is called the way a node does at start-up, and the oracle of DESIGN.md §4 C25 is applied.
//
// Pool histories also contain steps "Flush || (puts; Drop of an open database) by a second
// goroutine": Drop() of a pool database only takes the mutex of the drop queue and is legal while a
// Flush runs. The harness owns the schedule through gate_test.go (the k-th operation of the flush on
// the underlying store of another database waits until the second goroutine is done). A drop that
// overlaps Flush(N) may take effect at N or at N+1 (the calls are concurrent); independently of
// the snapshots, every database whose Drop() returned before Flush(N) was CALLED (and that was
// not opened again) must be absent or empty whenever a restart reports N.
//
// Raw contents are compared INCLUDING the marker key (flush-id key): the snapshot S_N taken when
// Flush(N) returned contains the clean mark of N in every store, and so must the restarted stores.
//
// Flush ids are opaque byte strings and need not be unique (the repository's own pool test calls
// Flush(nil) twice). The unit TestC25RepeatedFlushIDs draws them from a tiny alphabet (nil, empty,
// "A", "B", the id of the previous flush, a unique one), so that consecutive flushes often carry
// equal ids and the marker alone does not tell two flushes apart. The oracle therefore never looks a
// flush up by its id alone: at crash point p the only flushes a restart may report are the latest
// flush that had completed at p and the flush that was running at p (see candidates), the reported
// id must be the id of one of them, and the contents of ALL databases must equal the snapshot of
// ONE of them that carries the reported id.
package c25

import (
	"bytes"
	"fmt"
	"os"
	"strings"
	"testing"

	"github.com/Fantom-foundation/lachesis-base/kvdb"
	"github.com/Fantom-foundation/lachesis-base/kvdb/flaggedproducer"
	"github.com/Fantom-foundation/lachesis-base/kvdb/flushable"
	"pgregory.net/rapid"

	"verif/harness/internal/crashlog"
	"verif/harness/internal/stats"
)

func TestMain(m *testing.M) {
	code := m.Run()
	stats.Flush()
	os.Exit(code)
}

// flushIDKey is the marker key; user keys are drawn from an alphabet that cannot produce it.
var flushIDKey = []byte("flushID")

// stack is what a node uses of either producer.
type stack interface {
	OpenDB(name string) (kvdb.Store, error)
	Initialize(dbNames []string, flushID []byte) ([]byte, error)
	Flush(id []byte) error
	Close() error
}

var (
	_ stack = (*flushable.SyncedPool)(nil)
	_ stack = (*flaggedproducer.Producer)(nil)
)

const (
	variantPool    = "pool"
	variantFlagged = "flagged"
)

func newStack(variant string, backend kvdb.IterableDBProducer) stack {
	if variant == variantPool {
		return flushable.NewSyncedPool(backend, flushIDKey)
	}
	return flaggedproducer.Wrap(backend, flushIDKey)
}

// flushInfo is what the harness remembers about one completed Flush(N).
type flushInfo struct {
	id        []byte
	start     int            // log length when Flush was called
	end       int            // log length when Flush returned
	snap      crashlog.State // S_N: raw contents of all stores when Flush returned
	firstMark int            // index of the first marker record written by this flush (-1: none)
	lastMark  int            // index of the last marker record written by this flush
	markedDBs int            // number of distinct databases that got marker records
	// mustBeAbsent: names whose Drop() had returned before this Flush was CALLED and that were not
	// opened again since (model of the caller, independent of what the stack did). A Drop() that was
	// issued by another goroutine while this Flush was running is not in the set of this flush (the
	// two calls are concurrent, either order is a legal outcome) but in the set of the next one.
	mustBeAbsent map[string]bool
	racingDrop   string // name dropped by another goroutine while this flush was running ("" = none)
	// relation to the previous completed flush of the history (coverage accounting only)
	sameIDAsPrev bool // carries the same id (byte-wise; nil and empty are the same id)
	touchedDBs   int  // distinct databases with durable records of this flush
	changedDBs   int  // databases whose contents without the marker differ from the previous flush's snapshot
}

type history struct {
	variant         string
	log             *crashlog.Log
	flushes         []flushInfo
	trace           []string
	sessions        int
	drops           int
	reopens         int
	deferredBatches int
	bigPuts         int
	// drops issued by a second goroutine
	raceSteps      int // generated "Flush || (puts; Drop)" steps
	raceInDropLoop int // ... that landed inside the close-and-drop loop of the flush
	raceInMarks    int // ... that landed between marker/data writes of the flush
	raceAfter      int // ... whose gate did not fire: the drop was issued right after the flush
	raceBefore     int // ... drawn to be issued right before the flush
	raceWithPuts   int // ... with puts of the second goroutine before its Drop
	flushAfterRace int // completed flushes of the same session after a racing drop
}

// genOpts selects the generated history space of a unit.
type genOpts struct {
	poolOnly bool     // only the pool variant
	ops      []string // operation alphabet (with weights by repetition)
	// repeatIDs: flush ids come from a tiny alphabet (nil, empty, "A", "B", the previous id, a unique
	// id) instead of being unique
	repeatIDs bool
}

// Operation alphabets (weights by repetition). rapid.SampledFrom favours the ends of the list; the
// new step sits in the middle so that the distribution of the other operations stays as measured before.
var (
	mainOps = []string{
		"put", "put", "put", "put", "del", "batch", "batch", "open", "open", "reopen", "drop", "raceflush", "flush", "flush", "flush",
		"batchPrepare", "batchWrite", "batchWrite", "bigput",
	}
	raceOps = []string{
		"put", "put", "put", "put", "del", "batch", "batch", "open", "open", "reopen", "drop", "drop",
		"raceflush", "raceflush", "raceflush", "raceflush", "flush", "flush", "flush",
		"batchPrepare", "batchWrite", "batchWrite", "bigput",
	}
	// repeated-id unit: more writes and flushes, so that two consecutive flushes with >= 2 changed
	// databases each are frequent
	repeatOps = []string{
		"put", "put", "put", "put", "put", "del", "batch", "batch", "open", "open", "reopen", "drop", "raceflush",
		"putall", "putall", "flush", "flush", "flush", "flush", "batchPrepare", "batchWrite", "bigput", "put",
	}
	// flush id alphabet of the repeated-id unit (weights by repetition)
	idAlphabet = []string{"unique", "nil", "empty", "A", "A", "B", "previous", "previous"}
)

// fmtID renders a flush id (nil and empty are told apart in traces, although they produce the same mark).
func fmtID(id []byte) string {
	switch {
	case id == nil:
		return "nil"
	case len(id) == 0:
		return `""`
	}
	return fmt.Sprintf("%x", id)
}

func (h *history) tracef(format string, a ...interface{}) {
	h.trace = append(h.trace, fmt.Sprintf("@%d ", h.log.Len())+fmt.Sprintf(format, a...))
}

var (
	keyBytes = []byte{0x00, 0x01, 0x7f, 0xfe, 0xff}
	valBytes = []byte{0x00, 0x01, 0xde, 0xff}
	dbNames  = []string{"a", "b", "c"}
)

func genKey(t *rapid.T) []byte {
	k := rapid.SliceOfN(rapid.SampledFrom(keyBytes), 0, 2).Draw(t, "key")
	return append([]byte{}, k...)
}

func genVal(t *rapid.T) []byte {
	v := rapid.SliceOfN(rapid.SampledFrom(valBytes), 0, 2).Draw(t, "val")
	return append([]byte{}, v...)
}

func sortedNames(m map[string]kvdb.Store) []string {
	res := []string{}
	for _, n := range dbNames {
		if _, ok := m[n]; ok {
			res = append(res, n)
		}
	}
	return res
}

// runHistory generates and executes one history (unexpected errors of the stack while the
// history is executed are reported through t.Fatalf). Trace lines carry the log position reached
// after the step.
func runHistory(t *rapid.T, opts genOpts) *history {
	h := &history{
		variant: variantPool,
		log:     crashlog.NewLog(),
	}
	if !opts.poolOnly {
		h.variant = rapid.SampledFrom([]string{variantPool, variantFlagged}).Draw(t, "variant")
	}
	disk := crashlog.NewProducer(h.log)
	backend := newGated(disk)
	nSessions := rapid.IntRange(1, 3).Draw(t, "sessions")
	flushSeq := 0

	for s := 0; s < nSessions; s++ {
		stk := newStack(h.variant, backend)
		names := backend.Names()
		ret, err := stk.Initialize(names, nil)
		h.tracef("session %d: Initialize(%v, nil) = (%x, %v)", s, names, ret, err)
		if err != nil {
			// dirty / not synced: the node refuses to start, the history ends here
			break
		}
		h.sessions++
		handles := map[string]kvdb.Store{}
		pendingDrop := map[string]bool{} // pool: drop is queued until the next flush
		// absent: names dropped in this session (Drop() returned) and not opened again. Starts empty in
		// every session: a drop that was only queued when the previous session ended is lost like any
		// other unflushed change, and Initialize registers every surviving database again.
		absent := map[string]bool{}
		racedInSession := false

		open := func(name string) {
			db, err := stk.OpenDB(name)
			if err != nil {
				t.Fatalf("OpenDB(%s) failed: %v", name, err)
			}
			handles[name] = db
			delete(absent, name)
			h.tracef("open %s", name)
		}
		doFlush := func() {
			flushSeq++
			kind := "unique"
			if opts.repeatIDs {
				kind = rapid.SampledFrom(idAlphabet).Draw(t, "flushID")
			}
			var id []byte
			switch kind {
			case "nil":
			case "empty":
				id = []byte{}
			case "A", "B":
				id = []byte(kind)
			case "previous":
				if len(h.flushes) > 0 {
					if prev := h.flushes[len(h.flushes)-1].id; prev != nil {
						id = append([]byte{}, prev...)
					}
				} else {
					id = []byte("A")
				}
			default:
				id = []byte{byte(flushSeq)}
				id = append(id, rapid.SliceOfN(rapid.SampledFrom([]byte{0x00, 0xde, 0xff}), 0, 2).Draw(t, "idtail")...)
			}
			fi := flushInfo{id: id, start: h.log.Len(), firstMark: -1, lastMark: -1, mustBeAbsent: map[string]bool{}}
			for n := range absent {
				fi.mustBeAbsent[n] = true
			}
			h.tracef("Flush(%s) begins", fmtID(id))
			if err := stk.Flush(id); err != nil {
				t.Fatalf("Flush(%s) failed: %v", fmtID(id), err)
			}
			fi.end = h.log.Len()
			fi.snap = disk.State()
			if racedInSession {
				h.flushAfterRace++
			}
			marked, touched := map[string]bool{}, map[string]bool{}
			for i, r := range h.log.Records()[fi.start:fi.end] {
				touched[r.DB] = true
				if r.Kind == crashlog.Put && bytes.Equal(r.Key, flushIDKey) {
					if fi.firstMark < 0 {
						fi.firstMark = fi.start + i
					}
					fi.lastMark = fi.start + i
					marked[r.DB] = true
				}
			}
			fi.markedDBs = len(marked)
			fi.touchedDBs = len(touched)
			if len(h.flushes) > 0 {
				prev := h.flushes[len(h.flushes)-1]
				fi.sameIDAsPrev = bytes.Equal(prev.id, fi.id)
				for name, now := range fi.snap {
					if before, ok := prev.snap[name]; ok && !crashlog.EqualDB(withoutMark(before), withoutMark(now)) {
						fi.changedDBs++
					}
				}
			}
			h.flushes = append(h.flushes, fi)
			h.tracef("Flush(%s) completed", fmtID(id))
			for n := range pendingDrop {
				delete(pendingDrop, n)
			}
		}
		available := func() []string { // names that may be opened now
			res := []string{}
			for _, n := range dbNames {
				if !pendingDrop[n] {
					res = append(res, n)
				}
			}
			return res
		}

		// open 1-3 databases first
		first := rapid.IntRange(1, 3).Draw(t, "firstOpens")
		for i := 0; i < first; i++ {
			open(rapid.SampledFrom(dbNames).Draw(t, "db"))
		}

		pendingBatch := map[string][]kvdb.Batch{}
		pendingDescr := map[string][]string{}
		nOps := rapid.IntRange(3, 28).Draw(t, "ops")
		for i := 0; i < nOps; i++ {
			op := rapid.SampledFrom(opts.ops).Draw(t, "op")
			if op == "raceflush" && h.variant != variantPool {
				// only the pool allows Drop() while Flush runs (separate mutex of the drop queue);
				// the dirty-flag producer executes a drop at once, under the caller's own ordering
				op = "flush"
			}
			opened := sortedNames(handles)
			if len(opened) == 0 && op != "flush" {
				op = "open"
			}
			switch op {
			case "open":
				av := available()
				if len(av) == 0 {
					doFlush()
					continue
				}
				open(rapid.SampledFrom(av).Draw(t, "db"))
			case "reopen":
				name := rapid.SampledFrom(opened).Draw(t, "db")
				delete(pendingBatch, name)
				delete(pendingDescr, name)
				if err := handles[name].Close(); err != nil {
					t.Fatalf("Close(%s) failed: %v", name, err)
				}
				h.reopens++
				open(name)
			case "put":
				name := rapid.SampledFrom(opened).Draw(t, "db")
				k, v := genKey(t), genVal(t)
				if err := handles[name].Put(k, v); err != nil {
					t.Fatalf("Put(%s) failed: %v", name, err)
				}
				h.tracef("put %s %x=%x", name, k, v)
			case "putall":
				// one logical update that spans every open database (what a node does per block)
				for _, name := range opened {
					k, v := genKey(t), genVal(t)
					if err := handles[name].Put(k, v); err != nil {
						t.Fatalf("Put(%s) failed: %v", name, err)
					}
					h.tracef("put %s %x=%x", name, k, v)
				}
			case "del":
				name := rapid.SampledFrom(opened).Draw(t, "db")
				k := genKey(t)
				if err := handles[name].Delete(k); err != nil {
					t.Fatalf("Delete(%s) failed: %v", name, err)
				}
				h.tracef("del %s %x", name, k)
			case "batch":
				name := rapid.SampledFrom(opened).Draw(t, "db")
				b := handles[name].NewBatch()
				n := rapid.IntRange(1, 4).Draw(t, "batchLen")
				descr := []string{}
				for j := 0; j < n; j++ {
					k := genKey(t)
					if rapid.IntRange(0, 3).Draw(t, "batchDel") == 0 {
						_ = b.Delete(k)
						descr = append(descr, fmt.Sprintf("del %x", k))
					} else {
						v := genVal(t)
						_ = b.Put(k, v)
						descr = append(descr, fmt.Sprintf("put %x=%x", k, v))
					}
				}
				if err := b.Write(); err != nil {
					t.Fatalf("batch Write(%s) failed: %v", name, err)
				}
				h.tracef("batch %s [%s]", name, strings.Join(descr, "; "))
			case "batchPrepare":
				// a batch that is filled now and written later, possibly after a Flush
				name := rapid.SampledFrom(opened).Draw(t, "db")
				b := handles[name].NewBatch()
				n := rapid.IntRange(1, 3).Draw(t, "batchLen")
				descr := []string{}
				for j := 0; j < n; j++ {
					k := genKey(t)
					if rapid.IntRange(0, 3).Draw(t, "batchDel") == 0 {
						_ = b.Delete(k)
						descr = append(descr, fmt.Sprintf("del %x", k))
					} else {
						v := genVal(t)
						_ = b.Put(k, v)
						descr = append(descr, fmt.Sprintf("put %x=%x", k, v))
					}
				}
				pendingBatch[name] = append(pendingBatch[name], b)
				pendingDescr[name] = append(pendingDescr[name], strings.Join(descr, "; "))
				h.tracef("batch prepared on %s [%s]", name, strings.Join(descr, "; "))
			case "batchWrite":
				var cands []string
				for _, n := range opened {
					if len(pendingBatch[n]) > 0 {
						cands = append(cands, n)
					}
				}
				if len(cands) == 0 {
					continue
				}
				name := rapid.SampledFrom(cands).Draw(t, "db")
				b, d := pendingBatch[name][0], pendingDescr[name][0]
				pendingBatch[name], pendingDescr[name] = pendingBatch[name][1:], pendingDescr[name][1:]
				if err := b.Write(); err != nil {
					t.Fatalf("deferred batch Write(%s) failed: %v", name, err)
				}
				h.deferredBatches++
				h.tracef("deferred batch written on %s [%s]", name, d)
			case "bigput":
				// a value large enough that two of them exceed the ideal batch size of one flush
				name := rapid.SampledFrom(opened).Draw(t, "db")
				k := genKey(t)
				v := bytes.Repeat([]byte{byte(rapid.IntRange(1, 255).Draw(t, "bigFill"))}, 60*1024)
				if err := handles[name].Put(k, v); err != nil {
					t.Fatalf("Put(%s) failed: %v", name, err)
				}
				h.bigPuts++
				h.tracef("put %s %x=<60 KiB of %02x>", name, k, v[0])
			case "drop":
				name := rapid.SampledFrom(opened).Draw(t, "db")
				delete(pendingBatch, name)
				delete(pendingDescr, name)
				_ = handles[name].Close()
				handles[name].Drop()
				delete(handles, name)
				if h.variant == variantPool {
					pendingDrop[name] = true
				}
				absent[name] = true
				h.drops++
				h.tracef("drop %s", name)
			case "raceflush":
				// Flush(N) || (puts on x; Close+Drop of x) with x an open pool database. Drop() of a pool
				// database only enqueues the name under the queue's own mutex and is legal while a Flush
				// runs. The harness owns the schedule: the k-th operation that the flush performs on the
				// underlying store of ANOTHER database (Close/Drop of a queued database, marker Put, data
				// batch) blocks on a gate until the second goroutine has finished.
				x := rapid.SampledFrom(opened).Draw(t, "raceDB")
				type kv struct{ k, v []byte }
				puts := make([]kv, rapid.IntRange(0, 2).Draw(t, "racePuts"))
				for j := range puts {
					puts[j] = kv{genKey(t), genVal(t)}
				}
				hx := handles[x]
				var actionErr error
				action := func(where string) {
					for _, e := range puts {
						if err := hx.Put(e.k, e.v); err != nil && actionErr == nil {
							actionErr = fmt.Errorf("Put(%s) by the second goroutine failed: %v", x, err)
						}
						h.tracef("[%s] put %s %x=%x", where, x, e.k, e.v)
					}
					_ = hx.Close()
					hx.Drop()
					h.tracef("[%s] drop %s", where, x)
				}
				dropped := func() {
					delete(pendingBatch, x)
					delete(pendingDescr, x)
					delete(handles, x)
					pendingDrop[x] = true
					absent[x] = true
					h.drops++
					h.raceSteps++
					if len(puts) > 0 {
						h.raceWithPuts++
					}
					racedInSession = true
				}
				switch rapid.SampledFrom([]string{"during", "during", "during", "during", "before", "after"}).Draw(t, "raceLanding") {
				case "before":
					action("before the flush")
					dropped()
					h.raceBefore++
					doFlush()
				case "after":
					doFlush()
					action("after the flush")
					dropped()
					h.raceAfter++
				default:
					// the close-and-drop loop only touches queued databases whose store exists; optionally
					// queue another one first, in the ordinary sequential way
					onDisk := map[string]bool{}
					for _, n := range disk.Names() {
						onDisk[n] = true
					}
					queued := 0
					for n := range pendingDrop {
						if onDisk[n] {
							queued++
						}
					}
					var others []string
					for _, n := range opened {
						if n != x && onDisk[n] {
							others = append(others, n)
						}
					}
					if len(others) > 0 && rapid.IntRange(0, 3).Draw(t, "queueAnotherFirst") > queued {
						y := rapid.SampledFrom(others).Draw(t, "queuedDB")
						delete(pendingBatch, y)
						delete(pendingDescr, y)
						_ = handles[y].Close()
						handles[y].Drop()
						delete(handles, y)
						pendingDrop[y] = true
						absent[y] = true
						h.drops++
						queued++
						h.tracef("drop %s", y)
					}
					live := 0
					for _, n := range disk.Names() {
						if !pendingDrop[n] && n != x {
							live++
						}
					}
					// events on other stores: 2 per queued database (Close, Drop), then about 3 per live one
					k := 0
					if queued > 0 && rapid.IntRange(0, 3).Draw(t, "raceInLoop") != 0 {
						k = rapid.IntRange(0, 2*queued-1).Draw(t, "raceEvent")
					} else {
						k = rapid.IntRange(0, 2*queued+3*live+1).Draw(t, "raceEvent")
					}
					afterOp := rapid.Bool().Draw(t, "raceAfterOp")
					backend.arm(x, k, afterOp, func(ev string) {
						done := make(chan struct{})
						go func() {
							defer close(done)
							action("second goroutine, flush is at: " + ev)
						}()
						<-done
					})
					doFlush()
					ev, kind := backend.disarm()
					if ev != "" {
						h.flushes[len(h.flushes)-1].racingDrop = x
					}
					switch {
					case ev == "":
						action("after the flush (gate not reached)")
						h.raceAfter++
					case kind == "close" || kind == "drop":
						h.raceInDropLoop++
					default:
						h.raceInMarks++
					}
					dropped()
				}
				if actionErr != nil {
					t.Fatalf("%v\n%s", actionErr, h.describe(-1))
				}
			case "flush":
				doFlush()
			}
		}

		switch rapid.SampledFrom([]string{"flush+close", "flush+close", "close", "abandon"}).Draw(t, "sessionEnd") {
		case "flush+close":
			doFlush()
			if err := stk.Close(); err != nil {
				t.Fatalf("Close failed: %v", err)
			}
			h.tracef("session %d closed after flush", s)
		case "close":
			if err := stk.Close(); err != nil {
				t.Fatalf("Close failed: %v", err)
			}
			h.tracef("session %d closed without flush", s)
		default:
			h.tracef("session %d abandoned (process killed)", s)
		}
	}
	return h
}

func (h *history) describe(p int) string {
	var sb strings.Builder
	fmt.Fprintf(&sb, "variant=%s crash point p=%d of %d\nharness trace (@log position):\n", h.variant, p, h.log.Len())
	for _, l := range h.trace {
		sb.WriteString("  " + l + "\n")
	}
	sb.WriteString("durable-operation log:\n")
	for i, r := range h.log.Records() {
		mark := "  "
		if i == p {
			mark = "->" // first record that is lost
		}
		fmt.Fprintf(&sb, " %s %3d %s\n", mark, i, r)
	}
	return sb.String()
}

// reportsID says whether an Initialize result names the flush id. The producers report the stored
// clean mark, i.e. CleanPrefix||id; the bare id is accepted too.
func reportsID(ret, id []byte) bool {
	if len(ret) == 0 {
		return false
	}
	return bytes.Equal(ret, id) || (ret[0] == flushable.CleanPrefix && bytes.Equal(ret[1:], id))
}

// withoutMark returns the contents of one database without the marker key.
func withoutMark(kv map[string][]byte) map[string][]byte {
	res := make(map[string][]byte, len(kv))
	for k, v := range kv {
		if k != string(flushIDKey) {
			res[k] = v
		}
	}
	return res
}

// candidates returns the flushes whose snapshot a restart at crash point p may legitimately report
// (indices into h.flushes, -1 = none):
//
//   - latest: the last flush that had returned at p (end <= p). Earlier flushes are superseded: the
//     caller was told that the latest one is complete, and every database that the stack knows -
//     Initialize registers all surviving ones - carries its mark.
//   - running: the flush that had been called but had not returned at p (start <= p < end). Its
//     snapshot is reportable only in the sense of the property itself: if ALL databases already hold
//     what they hold when it completes, the rest of the flush does not change anything (e.g. the
//     dirty-flag producer re-writing an equal clean mark). At p == start nothing of it is durable yet
//     and the restart still shows the latest completed flush.
//
// Flushes called after p do not exist in the crashed run and are never candidates, whatever their id.
func (h *history) candidates(p int) (latest, running int) {
	latest, running = -1, -1
	for i, f := range h.flushes {
		if f.end <= p {
			latest = i
		} else if f.start <= p {
			running = i
		}
	}
	return
}

// mismatch compares the restarted state with the snapshot of ONE flush; "" means that every
// database holds exactly what it held when that flush completed:
//   - every surviving database known to the snapshot equals it (marker included), every other
//     surviving database is empty;
//   - every database whose Drop() had returned before that flush was called (and that was not opened
//     again) is absent or empty - the caller's own record, independent of the snapshot;
//   - a database that held data at that flush may be missing only if it was dropped afterwards (a
//     drop record between the end of the flush and p): "a dropped database is not required to
//     reappear" (DESIGN.md section 4 C25), any other database is.
func (h *history) mismatch(f *flushInfo, p int, names []string, raw crashlog.State) string {
	for _, name := range names {
		if f.mustBeAbsent[name] && len(raw[name]) != 0 {
			return fmt.Sprintf("database %q, whose Drop() had returned before that Flush was called (and which was not opened again), "+
				"still exists and holds %s", name, crashlog.FormatDB(raw[name]))
		}
		want, known := f.snap[name]
		if !known {
			if len(raw[name]) != 0 {
				return fmt.Sprintf("store %q, absent at that flush, holds %s", name, crashlog.FormatDB(raw[name]))
			}
			continue
		}
		if !crashlog.EqualDB(raw[name], want) {
			return fmt.Sprintf("store %q holds %s, at completion of that flush it held %s",
				name, crashlog.FormatDB(raw[name]), crashlog.FormatDB(want))
		}
	}
	var recs []crashlog.Record
	if p > f.end {
		recs = h.log.Records()[f.end:p]
	}
	for _, name := range f.snap.Names() {
		if _, survives := raw[name]; survives || len(f.snap[name]) == 0 {
			continue
		}
		dropped := false
		for _, r := range recs {
			if r.Kind == crashlog.Drop && r.DB == name {
				dropped = true
				break
			}
		}
		if !dropped {
			return fmt.Sprintf("store %q, which held %s at completion of that flush and was not dropped since, does not exist",
				name, crashlog.FormatDB(f.snap[name]))
		}
	}
	return ""
}

var (
	st     = stats.New("crashpoints")
	stRace = stats.New("droprace")
	stIDs  = stats.New("repeatedids")
)

// checkAllPrefixes applies the oracle at every crash point of the history.
func checkAllPrefixes(t *rapid.T, h *history, st *stats.Collector) {
	n := h.log.Len()
	hkey := stats.Hash(h.variant, h.log.Records())
	anyNontrivial := false
	// offered before the crash points are counted, so that a collector with evaluations always has a sample
	st.Sample(func() interface{} {
		recs := []string{}
		for _, r := range h.log.Records() {
			recs = append(recs, r.String())
		}
		return map[string]interface{}{"variant": h.variant, "trace": h.trace, "log": recs, "crash_points": n + 1}
	})
	records := h.log.Records()
	repeatedPoints, betweenPoints, betweenChangedPoints := 0, 0, 0
	for p := 0; p <= n; p++ {
		state := h.log.StateAt(p)
		backend := crashlog.NewProducerOver(state, nil)
		stk := newStack(h.variant, backend)
		names := backend.Names()
		ret, err := stk.Initialize(names, nil)
		raw := backend.State() // raw database contents the restarted node sits on

		classes := []string{h.variant}

		// where is p relative to the flushes?
		inside, inside2 := false, false
		atCompleted := -1
		for i, f := range h.flushes {
			if f.firstMark >= 0 && p > f.firstMark && p <= f.lastMark {
				inside = true
				if f.markedDBs >= 2 {
					inside2 = true
				}
			}
			if f.end == p {
				atCompleted = i // the latest flush completed exactly here
			}
		}
		if inside {
			classes = append(classes, "inside_flush")
		}
		if inside2 {
			classes = append(classes, "inside_flush_2plus_dbs", h.variant+"_inside_flush_2plus_dbs")
			anyNontrivial = true
		}
		latest, running := h.candidates(p)
		if running >= 0 && p > h.flushes[running].start && h.flushes[running].sameIDAsPrev {
			// strictly inside a flush that carries the id of the flush before it: the marks of the two
			// flushes cannot be told apart
			f := h.flushes[running]
			classes = append(classes, "inside_flush_repeating_previous_id")
			repeatedPoints++
			if records[p-1].DB != records[p].DB {
				// the last durable record and the first lost one belong to different databases
				classes = append(classes, "between_dbs_of_flush_repeating_previous_id")
				betweenPoints++
				if f.changedDBs >= 2 {
					classes = append(classes, "between_dbs_of_flush_repeating_previous_id_2plus_dbs_changed",
						h.variant+"_between_dbs_of_flush_repeating_previous_id_2plus_dbs_changed")
					betweenChangedPoints++
				}
			}
		}

		if err != nil {
			classes = append(classes, "reported_dirty_or_unsynced")
			if atCompleted >= 0 && len(names) >= 1 {
				t.Fatalf("C25 sanity: restart exactly after completed Flush(%s) over %v reports an error: %v\n%s",
					fmtID(h.flushes[atCompleted].id), names, err, h.describe(p))
			}
		} else if ret == nil {
			classes = append(classes, "accepted_nil_id")
			for _, name := range names {
				if len(raw[name]) != 0 {
					t.Fatalf("C25: Initialize(%v, nil) returned a nil flush id without error but store %q is not empty: %s\n%s",
						names, name, crashlog.FormatDB(raw[name]), h.describe(p))
				}
			}
			if atCompleted >= 0 && len(names) >= 1 {
				t.Fatalf("C25 sanity: restart exactly after completed Flush(%s) over %v reports no flush id\n%s",
					fmtID(h.flushes[atCompleted].id), names, h.describe(p))
			}
		} else {
			classes = append(classes, "accepted_flush_id")
			// Only the latest completed flush and the running flush may be reported; with repeated ids both
			// may carry the reported id, then ALL databases must equal the snapshot of ONE of them.
			fi := -1
			var verdicts []string
			for _, c := range []int{latest, running} {
				if c < 0 {
					continue
				}
				f := &h.flushes[c]
				what := "latest completed"
				if c == running {
					what = "running"
				}
				if !reportsID(ret, f.id) {
					verdicts = append(verdicts, fmt.Sprintf("%s Flush(%s) [log %d..%d]: another id", what, fmtID(f.id), f.start, f.end))
					continue
				}
				why := h.mismatch(f, p, names, raw)
				if why == "" {
					if fi >= 0 {
						classes = append(classes, "accepted_equal_to_both_candidates")
					}
					fi = c
					continue
				}
				verdicts = append(verdicts, fmt.Sprintf("%s Flush(%s) [log %d..%d]: %s", what, fmtID(f.id), f.start, f.end, why))
			}
			if atCompleted >= 0 && len(names) >= 1 && !reportsID(ret, h.flushes[atCompleted].id) {
				t.Fatalf("C25 sanity: restart exactly after completed Flush(%s) reports %x\n%s",
					fmtID(h.flushes[atCompleted].id), ret, h.describe(p))
			}
			if fi < 0 {
				if len(verdicts) == 0 {
					verdicts = []string{"no flush had been called before the crash point"}
				}
				t.Fatalf("C25: Initialize(%v, nil) returned %x without error, but the databases do not hold the contents of a flush with that id "+
					"that is reportable at this crash point:\n    %s\n%s", names, ret, strings.Join(verdicts, "\n    "), h.describe(p))
			}
			f := h.flushes[fi]
			if fi == latest {
				classes = append(classes, "accepted_latest_completed_flush")
			}
			repeated := false
			for i, g := range h.flushes {
				if i != fi && g.start <= p && bytes.Equal(g.id, f.id) {
					repeated = true
				}
			}
			if repeated {
				classes = append(classes, "accepted_id_carried_by_2plus_flushes")
			}
			if len(names) < len(f.snap) {
				classes = append(classes, "accepted_with_dropped_db_absent")
			}
			if len(f.mustBeAbsent) > 0 {
				classes = append(classes, "accepted_flush_with_dropped_names")
			}
			if f.racingDrop != "" {
				classes = append(classes, "accepted_flush_overlapped_by_drop")
				if _, ok := raw[f.racingDrop]; ok {
					classes = append(classes, "accepted_flush_overlapped_by_drop_db_still_present")
				}
			}
			if fi > 0 && h.flushes[fi-1].racingDrop != "" && f.mustBeAbsent[h.flushes[fi-1].racingDrop] {
				classes = append(classes, "accepted_first_flush_after_overlapping_drop")
			}
			if p < f.end {
				classes = append(classes, "accepted_before_flush_end")
			}
		}
		if atCompleted >= 0 && len(names) >= 1 {
			classes = append(classes, "at_completed_flush")
		}
		st.Case(stats.Hash(hkey, p), inside2, classes...)
	}
	consecutiveEqual, consecutiveEqualChanged, nilOrEmpty := 0, 0, 0
	for _, f := range h.flushes {
		if f.sameIDAsPrev {
			consecutiveEqual++
			if f.changedDBs >= 2 {
				consecutiveEqualChanged++
			}
		}
		if len(f.id) == 0 {
			nilOrEmpty++
		}
	}
	st.Class("flushes", int64(len(h.flushes)))
	if consecutiveEqual > 0 {
		st.Class("histories_with_consecutive_equal_ids", 1)
		st.Class("flushes_repeating_previous_id", int64(consecutiveEqual))
	}
	if consecutiveEqualChanged > 0 {
		st.Class("histories_with_consecutive_equal_ids_2plus_dbs_changed", 1)
		st.Class("flushes_repeating_previous_id_2plus_dbs_changed", int64(consecutiveEqualChanged))
	}
	if nilOrEmpty > 0 {
		st.Class("flushes_with_nil_or_empty_id", int64(nilOrEmpty))
	}
	if repeatedPoints > 0 {
		st.Class("histories_with_point_inside_flush_repeating_previous_id", 1)
	}
	if betweenPoints > 0 {
		st.Class("histories_with_point_between_dbs_of_flush_repeating_previous_id", 1)
	}
	if betweenChangedPoints > 0 {
		st.Class("histories_with_point_between_dbs_of_flush_repeating_previous_id_2plus_dbs_changed", 1)
	}
	st.Class("histories", 1)
	st.Class("histories_"+h.variant, 1)
	if h.sessions >= 2 {
		st.Class("histories_2plus_sessions", 1)
	}
	if h.deferredBatches > 0 {
		st.Class("histories_with_deferred_batch", 1)
	}
	if h.bigPuts >= 2 {
		st.Class("histories_with_flush_split_into_batches", 1)
	}
	if h.drops > 0 {
		st.Class("histories_with_drop", 1)
	}
	if h.reopens > 0 {
		st.Class("histories_with_reopen", 1)
	}
	if anyNontrivial {
		st.Class("histories_with_nontrivial_point", 1)
	}
	if len(h.flushes) >= 2 {
		st.Class("histories_2plus_flushes", 1)
	}
	if h.raceSteps > 0 {
		st.Class("histories_with_flush_and_drop_step", 1)
		st.Class("drop_steps_before_flush", int64(h.raceBefore))
		st.Class("drop_steps_inside_close_and_drop_loop", int64(h.raceInDropLoop))
		st.Class("drop_steps_inside_marks_or_data_phase", int64(h.raceInMarks))
		st.Class("drop_steps_after_flush", int64(h.raceAfter))
		st.Class("drop_steps_with_puts_of_second_goroutine", int64(h.raceWithPuts))
	}
	if h.raceInDropLoop+h.raceInMarks > 0 {
		st.Class("histories_with_drop_overlapping_flush", 1)
		if h.flushAfterRace > 0 {
			st.Class("histories_with_flush_after_overlapping_drop", 1)
		}
	}
	if h.raceInDropLoop > 0 {
		st.Class("histories_with_drop_inside_close_and_drop_loop", 1)
	}
	st.Class("log_records", int64(n))
}

// TestC25CrashPoints: every prefix of the durable-operation log of generated histories.
func TestC25CrashPoints(t *testing.T) {
	st.Exhaustive(true)
	st.Set("exhaustive_scope", "every prefix of the durable-operation log of each generated history; the histories themselves are sampled")
	rapid.Check(t, func(t *rapid.T) {
		h := runHistory(t, genOpts{ops: mainOps})
		checkAllPrefixes(t, h, st)
	})
}

// TestC25DropRacesFlush: pool histories in which Drop() of a pool database is frequently issued by
// a second goroutine while Flush is running (at a drawn operation of the flush on the store of
// another database), right before or right after it; same oracle at every crash point.
func TestC25DropRacesFlush(t *testing.T) {
	stRace.Exhaustive(true)
	stRace.Set("exhaustive_scope", "every prefix of the durable-operation log of each generated history; the histories (and the point "+
		"of the flush at which the second goroutine runs) are sampled")
	rapid.Check(t, func(t *rapid.T) {
		h := runHistory(t, genOpts{poolOnly: true, ops: raceOps})
		checkAllPrefixes(t, h, stRace)
	})
}

// TestC25RepeatedFlushIDs: histories of both producers whose flush ids come from a tiny alphabet
// (nil, empty, "A", "B", the id of the previous flush, a unique id), so that consecutive flushes
// often carry equal ids and the marks of two flushes cannot be told apart; same oracle at every
// crash point (the reported id only selects among the flushes that are reportable at that point).
func TestC25RepeatedFlushIDs(t *testing.T) {
	stIDs.Exhaustive(true)
	stIDs.Set("exhaustive_scope", "every prefix of the durable-operation log of each generated history; the histories (and their flush ids) are sampled")
	rapid.Check(t, func(t *rapid.T) {
		h := runHistory(t, genOpts{ops: repeatOps, repeatIDs: true})
		checkAllPrefixes(t, h, stIDs)
	})
}
