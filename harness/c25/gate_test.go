package c25

import (
	"fmt"
	"sync"

	"github.com/Fantom-foundation/lachesis-base/kvdb"

	"verif/harness/internal/crashlog"
)

// gatedProducer is the crashlog producer with a schedule hook: while it is armed, the k-th
// operation (Close, Drop, Put, Delete, batch Write) performed on the store of any database other
// than `except` calls fire() - before or after the operation itself - and continues only when
// fire() has returned. The harness uses it to run a second goroutine at a chosen point inside
// SyncedPool.Flush; nothing depends on wall-clock time.
type gatedProducer struct {
	*crashlog.Producer

	mu        sync.Mutex
	armed     bool
	except    string
	countdown int
	afterOp   bool
	fire      func(ev string)
	firedAt   string
	firedKind string
}

func newGated(p *crashlog.Producer) *gatedProducer { return &gatedProducer{Producer: p} }

func (g *gatedProducer) OpenDB(name string) (kvdb.Store, error) {
	db, err := g.Producer.OpenDB(name)
	if err != nil {
		return nil, err
	}
	return &gatedStore{Store: db, g: g, name: name}, nil
}

// arm: the k-th (0-based) operation on a store other than except triggers fire once.
func (g *gatedProducer) arm(except string, k int, afterOp bool, fire func(ev string)) {
	g.mu.Lock()
	defer g.mu.Unlock()
	g.armed, g.except, g.countdown, g.afterOp, g.fire = true, except, k, afterOp, fire
	g.firedAt, g.firedKind = "", ""
}

// disarm returns the event at which the gate fired ("" if it did not) and its kind.
func (g *gatedProducer) disarm() (string, string) {
	g.mu.Lock()
	defer g.mu.Unlock()
	g.armed, g.fire = false, nil
	return g.firedAt, g.firedKind
}

func (g *gatedProducer) hit(kind, name string, afterOp bool) {
	g.mu.Lock()
	if !g.armed || name == g.except || afterOp != g.afterOp {
		g.mu.Unlock()
		return
	}
	if g.countdown > 0 {
		g.countdown--
		g.mu.Unlock()
		return
	}
	g.armed = false
	fire := g.fire
	when := "before"
	if afterOp {
		when = "after"
	}
	g.firedAt, g.firedKind = fmt.Sprintf("%s %s(%s) on the underlying store", when, kind, name), kind
	ev := g.firedAt
	g.mu.Unlock()
	fire(ev)
}

type gatedStore struct {
	kvdb.Store
	g    *gatedProducer
	name string
}

func (s *gatedStore) Close() error {
	s.g.hit("close", s.name, false)
	err := s.Store.Close()
	s.g.hit("close", s.name, true)
	return err
}

func (s *gatedStore) Drop() {
	s.g.hit("drop", s.name, false)
	s.Store.Drop()
	s.g.hit("drop", s.name, true)
}

func (s *gatedStore) Put(key, value []byte) error {
	s.g.hit("put", s.name, false)
	err := s.Store.Put(key, value)
	s.g.hit("put", s.name, true)
	return err
}

func (s *gatedStore) Delete(key []byte) error {
	s.g.hit("del", s.name, false)
	err := s.Store.Delete(key)
	s.g.hit("del", s.name, true)
	return err
}

func (s *gatedStore) NewBatch() kvdb.Batch {
	return &gatedBatch{Batch: s.Store.NewBatch(), s: s}
}

type gatedBatch struct {
	kvdb.Batch
	s *gatedStore
}

func (b *gatedBatch) Write() error {
	b.s.g.hit("batch", b.s.name, false)
	err := b.Batch.Write()
	b.s.g.hit("batch", b.s.name, true)
	return err
}
