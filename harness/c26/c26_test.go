// C26: multi-DB routing is deterministic and isolating.
//
// A case is a routing table (default route, exact routes with nested paths, pattern routes), a
// set of underlying producers, two histories of opens and database drops (before and after a
// restart) and mutated tables.
// Oracle (DESIGN.md §4 C26):
//   - RouteOf(req) is equal across repeated calls, before and after opens, and across >= 20
//     producers freshly constructed from the same table (map iteration order differs between
//     constructions);
//   - the model keeps the requests currently recorded per database: a successful open records the
//     request; Close()+Drop() of a store drops the whole (type, name) database unless the route of
//     that store has NoDrop, i.e. every request of that database loses its data and its record
//     (every handle of the database is closed first; Drop through a NoDrop route changes nothing);
//   - an open is refused exactly when the model holds, at that time, another request in the same
//     (type, name) whose table is prefix-related - so a request is accepted again in a re-created
//     database and starts with an empty store; stores of different requests never see each
//     other's marker keys (checked through the stores and in the raw backend databases);
//   - re-opening a request on the same producer and on a restarted producer (in an order that is
//     independent of the first history) reaches the same database and table (the marker written
//     when the request was recorded is read back);
//   - Verify() of a producer with a (mutated) table, right after the restart and at the end, fails
//     exactly when some currently recorded request is now routed to a different type, name or table;
//   - a producer routes by the configuration it was constructed with: at a drawn point of either
//     history the caller changes, in place, the map object it had passed to NewProducer (NewProducer
//     copies the routing table; the producers map and the records key are shared and not touched);
//     RouteOf of the running producer must not change and the history continues against the model
//     of the original table.
package c26

import (
	"bytes"
	"fmt"
	"os"
	"sort"
	"strings"
	"testing"

	"github.com/Fantom-foundation/lachesis-base/kvdb"
	"github.com/Fantom-foundation/lachesis-base/kvdb/flaggedproducer"
	"github.com/Fantom-foundation/lachesis-base/kvdb/memorydb"
	"github.com/Fantom-foundation/lachesis-base/kvdb/multidb"
	"github.com/Fantom-foundation/lachesis-base/utils/fmtfilter"
	"pgregory.net/rapid"

	"verif/harness/internal/crashlog"
	"verif/harness/internal/stats"
)

func TestMain(m *testing.M) {
	code := m.Run()
	stats.Flush()
	os.Exit(code)
}

// metadata keys; tables and request parts of the structured generator never contain '_'
var (
	recordsKey = []byte("_records")
	flushKey   = []byte("_flushID")
)

const nFresh = 24 // freshly constructed producers per table

// ---------------------------------------------------------------- routing table description

type routeSpec struct {
	Req   string
	Route multidb.Route
}

type tableSpec []routeSpec // at most one entry per Req

func (ts tableSpec) toMap() map[string]multidb.Route {
	m := make(map[string]multidb.Route, len(ts))
	for _, r := range ts {
		m[r.Req] = r.Route
	}
	return m
}

func (ts tableSpec) String() string {
	parts := make([]string, len(ts))
	for i, r := range ts {
		parts[i] = fmt.Sprintf("%q -> {Type:%s Name:%q Table:%q NoDrop:%v}", r.Req, r.Route.Type, r.Route.Name, r.Route.Table, r.Route.NoDrop)
	}
	return "routing table:\n    " + strings.Join(parts, "\n    ")
}

func (ts tableSpec) index(req string) int {
	for i, r := range ts {
		if r.Req == req {
			return i
		}
	}
	return -1
}

// with returns a copy with the route for req set.
func (ts tableSpec) with(req string, r multidb.Route) tableSpec {
	res := append(tableSpec{}, ts...)
	if i := res.index(req); i >= 0 {
		res[i].Route = r
		return res
	}
	return append(res, routeSpec{req, r})
}

func (ts tableSpec) without(i int) tableSpec {
	res := append(tableSpec{}, ts[:i]...)
	return append(res, ts[i+1:]...)
}

// ---------------------------------------------------------------- underlying producers

// plainFull turns a producer whose stores are durable on their own into a kvdb.FullDBProducer.
type plainFull struct{ kvdb.IterableDBProducer }

func (plainFull) NotFlushedSizeEst() int                           { return 0 }
func (plainFull) Flush([]byte) error                               { return nil }
func (plainFull) Initialize(_ []string, id []byte) ([]byte, error) { return id, nil }
func (plainFull) Close() error                                     { return nil }

var (
	_ kvdb.FullDBProducer = plainFull{}
	_ kvdb.FullDBProducer = (*flaggedproducer.Producer)(nil)
)

const (
	kindFlaggedMem   = "flagged_over_memorydb"
	kindFlaggedCrash = "flagged_over_crashlog"
	kindPlainCrash   = "plain_crashlog"
)

var liveTypes = []multidb.TypeName{"T1", "T2"}

// env owns the backends (the "disks"); producers() wraps them freshly, as a restarted node does.
type env struct {
	kind     string
	backends map[multidb.TypeName]kvdb.IterableDBProducer
}

func newEnv(kind string) *env {
	e := &env{kind: kind, backends: map[multidb.TypeName]kvdb.IterableDBProducer{}}
	for _, typ := range liveTypes {
		if kind == kindFlaggedMem {
			e.backends[typ] = memorydb.NewProducer("")
		} else {
			e.backends[typ] = crashlog.NewProducer(nil)
		}
	}
	return e
}

func (e *env) producers() map[multidb.TypeName]kvdb.FullDBProducer {
	res := map[multidb.TypeName]kvdb.FullDBProducer{}
	for _, typ := range liveTypes {
		if e.kind == kindPlainCrash {
			res[typ] = plainFull{e.backends[typ]}
		} else {
			res[typ] = flaggedproducer.Wrap(e.backends[typ], flushKey)
		}
	}
	return res
}

// raw returns the raw content of a backend database, or nil if it does not exist.
func (e *env) raw(typ multidb.TypeName, name string) map[string][]byte {
	b := e.backends[typ]
	if b == nil {
		return nil
	}
	exists := false
	for _, n := range b.Names() {
		if n == name {
			exists = true
		}
	}
	if !exists {
		return nil
	}
	db, err := b.OpenDB(name)
	if err != nil {
		return nil
	}
	res := map[string][]byte{}
	it := db.NewIterator(nil, nil)
	for it.Next() {
		res[string(it.Key())] = append([]byte{}, it.Value()...)
	}
	it.Release()
	if e.kind != kindFlaggedMem { // a memorydb loses its content on Close
		_ = db.Close()
	}
	return res
}

// cleanup releases the memory held by the process-global memorydb namespaces.
func (e *env) cleanup() {
	if e.kind != kindFlaggedMem {
		return
	}
	for _, b := range e.backends {
		for _, n := range b.Names() {
			if db, err := b.OpenDB(n); err == nil {
				_ = db.Close()
				db.Drop()
			}
		}
	}
}

// ---------------------------------------------------------------- generators

var (
	allTypes   = []multidb.TypeName{"T1", "T1", "T1", "T2", "T2", "T3"} // T3 has no producer
	tableNames = []string{"", "A", "B", "AB", "C", "a", "Aa"}
	exactNames = []string{"main", "main", "main", "main", "d", "e-1", "e-2", "s-1", ""}
	exactReqs  = []string{"a", "b", "c", "a/b", "a/c", "a/b/c", "b/a", "x-1", "g-1", "g-1/a", "e5", "main"}
	reqParts   = []string{"a", "b", "c", "x-1", "x-2", "x-a", "x-1-2", "x-1-a", "x-2-1", "g-1", "g-2", "l-1", "l-2", "e5", "e7", "ea", "7", "main"}
)

type patternSpec struct {
	scan  string
	names []string
}

var patterns = []patternSpec{
	{"x-%d", []string{"e-%d", "x%d", "fix"}},
	{"x-%s", []string{"s-%s", "e-%s", "fix"}},
	{"x-%d-%d", []string{"e-%d-%d", "e-%d"}},
	{"x-%d-%s", []string{"e-%d-%s", "e-%d"}},
	{"x-%s-%d", []string{"e-%s-%d"}},
	{"g-%d", []string{"e-%d", "g%d"}},
	{"l-%d", []string{"e-%d", "l%d"}},
	{"e%d", []string{"e-%d"}},
	{"e%s", []string{"e-%s", "s-%s"}},
	{"%s", []string{"any-%s", "e-%s", "fix"}},
	{"%d", []string{"e-%d", "n%d"}},
	{"%d%s", []string{"e-%d", "m%d%s"}},
	{"a/%d", []string{"e-%d", "sub%d"}},
	{"a/%s", []string{"s-%s"}},
	{"x-%d/b", []string{"e-%d"}},
}

func genRoute(t *rapid.T, names []string, label string) multidb.Route {
	return multidb.Route{
		Type:   rapid.SampledFrom(allTypes).Draw(t, label+".type"),
		Name:   rapid.SampledFrom(names).Draw(t, label+".name"),
		Table:  rapid.SampledFrom(tableNames).Draw(t, label+".table"),
		NoDrop: rapid.IntRange(0, 4).Draw(t, label+".nodrop") == 0,
	}
}

func genTable(t *rapid.T) tableSpec {
	def := genRoute(t, []string{"", "", "main", "d"}, "default")
	if def.Type == "T3" && rapid.Bool().Draw(t, "defaultLive") {
		def.Type = "T1"
	}
	ts := tableSpec{{"", def}}
	nExact := rapid.IntRange(0, 4).Draw(t, "nExact")
	for i := 0; i < nExact; i++ {
		req := rapid.SampledFrom(exactReqs).Draw(t, "exactReq")
		ts = ts.with(req, genRoute(t, exactNames, "exact"))
	}
	nPat := rapid.IntRange(0, 4).Draw(t, "nPatterns")
	for i := 0; i < nPat; i++ {
		p := rapid.SampledFrom(patterns).Draw(t, "pattern")
		ts = ts.with(p.scan, genRoute(t, p.names, "pat"))
	}
	return ts
}

func genRequest(t *rapid.T) string {
	depth := rapid.SampledFrom([]int{1, 1, 1, 2, 2, 3}).Draw(t, "depth")
	parts := make([]string, depth)
	for i := range parts {
		parts[i] = rapid.SampledFrom(reqParts).Draw(t, "part")
	}
	return strings.Join(parts, "/")
}

// instantiate fills the verbs of a scanf template with small values.
func instantiate(t *rapid.T, scan string) string {
	var sb strings.Builder
	for i := 0; i < len(scan); i++ {
		if scan[i] == '%' && i+1 < len(scan) {
			i++
			switch scan[i] {
			case 'd':
				sb.WriteString(rapid.SampledFrom([]string{"1", "2", "1", "12"}).Draw(t, "int"))
			case 's':
				sb.WriteString(rapid.SampledFrom([]string{"1", "2", "a", "1-2", "a-1"}).Draw(t, "str"))
			default:
				sb.WriteByte(scan[i])
			}
			continue
		}
		sb.WriteByte(scan[i])
	}
	return sb.String()
}

// genRequestFor draws a request that is aimed at the routes of the table: an exact route key,
// a path below one, an instance of a pattern route, or an unrelated path.
func genRequestFor(t *rapid.T, ts tableSpec) string {
	var exact, pats []string
	for _, r := range ts {
		if r.Req == "" {
			continue
		}
		if strings.ContainsRune(r.Req, '%') {
			pats = append(pats, r.Req)
		} else {
			exact = append(exact, r.Req)
		}
	}
	req := ""
	switch k := rapid.IntRange(0, 5).Draw(t, "reqKind"); {
	case k <= 1 && len(exact) > 0:
		req = rapid.SampledFrom(exact).Draw(t, "exactKey")
	case k <= 3 && len(pats) > 0:
		req = instantiate(t, rapid.SampledFrom(pats).Draw(t, "patKey"))
	default:
		return genRequest(t)
	}
	for rapid.IntRange(0, 2).Draw(t, "deeper") == 0 {
		req += "/" + rapid.SampledFrom(reqParts).Draw(t, "part")
	}
	return req
}

// wild generators (fuzz target): arbitrary short strings over an alphabet that produces format
// verbs, slashes, digits, blanks and the first characters of the metadata keys.
var wildTokens = []string{"%d", "%s", "%d", "%s", "%", "%%", "%5d", "%v", "x", "x", "-", "-", "/", "/", "a", "b", "1", "2", "12", "_", "_r", " ", ".", "e"}

func genWildString(t *rapid.T, max int, label string) string {
	toks := rapid.SliceOfN(rapid.SampledFrom(wildTokens), 0, max).Draw(t, label)
	return strings.Join(toks, "")
}

var wildLiterals = []string{"x", "x", "-", "-", "/", "a", "b", "1", "2", "_", " ", ".", "e", ""}

// genWildNoVerb draws a string without format verbs.
func genWildNoVerb(t *rapid.T, max int, label string) string {
	toks := rapid.SliceOfN(rapid.SampledFrom(wildLiterals), 0, max).Draw(t, label)
	return strings.Join(toks, "")
}

// verbsOf lists the %d/%s verbs of a template in order (harness view, for generating a name
// template that is likely to be accepted together with the request template).
func verbsOf(s string) []string {
	var res []string
	for i := 0; i+1 < len(s); i++ {
		if s[i] == '%' {
			if s[i+1] == 'd' || s[i+1] == 's' {
				res = append(res, s[i:i+2])
			}
			i++
		}
	}
	return res
}

func genWildTable(t *rapid.T) tableSpec {
	wr := func(req, label string) multidb.Route {
		r := multidb.Route{
			Type:   rapid.SampledFrom(allTypes).Draw(t, label+".type"),
			Table:  genWildNoVerb(t, 2, label+".table"),
			NoDrop: rapid.Bool().Draw(t, label+".nodrop"),
		}
		switch rapid.IntRange(0, 5).Draw(t, label+".nameKind") {
		case 0:
			r.Name = genWildString(t, 4, label+".name")
		case 1:
			r.Name = genWildNoVerb(t, 3, label+".name")
		default:
			// literals around a prefix of the verbs of the request template
			verbs := verbsOf(req)
			verbs = verbs[:rapid.IntRange(0, len(verbs)).Draw(t, label+".nVerbs")]
			r.Name = genWildNoVerb(t, 2, label+".name0")
			for _, v := range verbs {
				r.Name += v + genWildNoVerb(t, 1, label+".nameLit")
			}
		}
		return r
	}
	ts := tableSpec{}
	if rapid.IntRange(0, 19).Draw(t, "noDefault") != 0 {
		ts = append(ts, routeSpec{"", wr("", "default")})
	}
	n := rapid.IntRange(0, 5).Draw(t, "nRoutes")
	for i := 0; i < n; i++ {
		var req string
		if rapid.IntRange(0, 3).Draw(t, "reqKind") == 0 {
			req = genWildString(t, 4, "req")
		} else {
			// literals with up to two verbs
			req = genWildNoVerb(t, 2, "req0")
			for j := rapid.IntRange(0, 2).Draw(t, "reqVerbs"); j > 0; j-- {
				req += rapid.SampledFrom([]string{"%d", "%s"}).Draw(t, "verb") + genWildNoVerb(t, 1, "reqLit")
			}
		}
		ts = ts.with(req, wr(req, "route"))
	}
	return ts
}

// genWildRequest draws an arbitrary request string, often close to a template of the table.
func genWildRequest(t *rapid.T, ts tableSpec) string {
	if len(ts) > 0 && rapid.Bool().Draw(t, "fromTemplate") {
		req := instantiate(t, rapid.SampledFrom(ts).Draw(t, "template").Req)
		if rapid.IntRange(0, 2).Draw(t, "suffix") == 0 {
			req += genWildNoVerb(t, 3, "reqSuffix")
		}
		return req
	}
	return genWildString(t, 6, "request")
}

// ---------------------------------------------------------------- model

type dbLoc struct {
	Type multidb.TypeName
	Name string
}

type record struct {
	Req   string
	Loc   dbLoc
	Table string
	Idx   int // marker index
}

type model struct {
	records []record // requests currently recorded: successful opens, in order, minus those whose database was dropped since
	nextIdx int      // next marker index (never reused)
}

func (m *model) find(req string) *record {
	for i := range m.records {
		if m.records[i].Req == req {
			return &m.records[i]
		}
	}
	return nil
}

// prefixRelated is the overlap relation of the property: two tables of one database overlap
// when the key space of one contains the key space of the other.
func prefixRelated(a, b string) bool {
	short, long := a, b
	if len(short) > len(long) {
		short, long = long, short
	}
	return long[:len(short)] == short
}

const (
	expectOK      = "ok"
	expectRefused = "refused"
)

// expect computes the outcome of OpenDB(req) routed to r from the harness' own records.
func (m *model) expect(req string, r multidb.Route, live func(multidb.TypeName) bool) (string, string) {
	if !live(r.Type) {
		return expectRefused, "no producer for type " + string(r.Type)
	}
	loc := dbLoc{r.Type, r.Name}
	for _, old := range m.records {
		if old.Loc != loc {
			continue
		}
		if old.Req == req {
			if old.Table == r.Table {
				return expectOK, "recorded before with the same table"
			}
			return expectRefused, fmt.Sprintf("request recorded in this database with table %q", old.Table)
		}
	}
	for _, old := range m.records {
		if old.Loc == loc && prefixRelated(old.Table, r.Table) {
			return expectRefused, fmt.Sprintf("table %q overlaps table %q of request %q", r.Table, old.Table, old.Req)
		}
	}
	return expectOK, "no overlap"
}

func markerKey(i int) []byte { return []byte(fmt.Sprintf("k%d", i)) }
func markerVal(i int) []byte { return []byte(fmt.Sprintf("v%d", i)) }

func isMeta(k []byte) bool { return bytes.Equal(k, recordsKey) || bytes.Equal(k, flushKey) }

// excludedTable implements the precondition of the property: tables that are prefixes of a
// metadata key are excluded (the empty table is the whole database and is allowed).
func excludedTable(table string) bool {
	return table != "" && (strings.HasPrefix(string(recordsKey), table) || strings.HasPrefix(string(flushKey), table))
}

func sameTarget(r multidb.Route, rec record) bool {
	return r.Type == rec.Loc.Type && r.Name == rec.Loc.Name && r.Table == rec.Table
}

// ---------------------------------------------------------------- the property

type caseInfo struct {
	wild     bool
	kind     string
	table    tableSpec
	requests []string // requests of steps, in order
	steps    []step   // history of the first run of the node
	steps2   []step   // history after the restart
	log      []string
}

func (c *caseInfo) logf(format string, a ...interface{}) {
	c.log = append(c.log, fmt.Sprintf(format, a...))
}

func (c *caseInfo) String() string {
	return fmt.Sprintf("backends=%s\n%s\nhistory: %s\nhistory after restart: %s\nsteps:\n    %s", c.kind, c.table, fmtSteps(c.steps), fmtSteps(c.steps2), strings.Join(c.log, "\n    "))
}

// construct builds n producers from fresh maps of the same table. All constructions must agree
// on success/failure.
func construct(t *rapid.T, c *caseInfo, e *env, ts tableSpec, n int) []*multidb.Producer {
	ps, _ := constructKeep(t, c, e, ts, n)
	return ps
}

// constructKeep also returns, per producer, the map object that was handed to NewProducer (the
// caller's own configuration object, which the caller is free to change afterwards).
func constructKeep(t *rapid.T, c *caseInfo, e *env, ts tableSpec, n int) ([]*multidb.Producer, []map[string]multidb.Route) {
	var res []*multidb.Producer
	var maps []map[string]multidb.Route
	var firstErr error
	for i := 0; i < n; i++ {
		mp := ts.toMap()
		p, err := multidb.NewProducer(e.producers(), mp, recordsKey)
		if i == 0 {
			firstErr = err
		}
		if (err == nil) != (firstErr == nil) {
			t.Fatalf("C26: NewProducer is not deterministic for one table: construction 0 -> %v, construction %d -> %v\n%s\n%s", firstErr, i, err, ts, c)
		}
		if err == nil {
			res = append(res, p)
			maps = append(maps, mp)
		}
	}
	return res, maps
}

// checkRouteDeterminism compares RouteOf over all producers and over repeated calls.
func checkRouteDeterminism(t *rapid.T, c *caseInfo, ps []*multidb.Producer, ts tableSpec, reqs []string) map[string]multidb.Route {
	routes := map[string]multidb.Route{}
	for _, req := range reqs {
		r0 := ps[0].RouteOf(req)
		for i, p := range ps {
			if r := p.RouteOf(req); r != r0 {
				t.Fatalf("C26: RouteOf(%q) differs between identically configured producers: producer 0 -> %+v, producer %d -> %+v\n%s\n%s", req, r0, i, r, ts, c)
			}
		}
		if r := ps[0].RouteOf(req); r != r0 {
			t.Fatalf("C26: RouteOf(%q) differs between two calls: %+v then %+v\n%s\n%s", req, r0, r, ts, c)
		}
		routes[req] = r0
	}
	return routes
}

// patternMatches counts the pattern routes of the table that match req (classification only).
func patternMatches(ts tableSpec, req string) int {
	n := 0
	for _, r := range ts {
		if !strings.ContainsRune(r.Req, '%') && !strings.ContainsRune(r.Route.Name, '%') {
			continue
		}
		fn, err := fmtfilter.CompileFilter(r.Req, r.Route.Name)
		if err != nil {
			continue
		}
		if _, err := fn(req); err == nil {
			n++
		}
	}
	return n
}

var (
	stMain = stats.New("routing")
	stWild = stats.New("routing_wild")
)

func uniq(reqs []string) []string {
	seen := map[string]bool{}
	res := []string{}
	for _, r := range reqs {
		if !seen[r] {
			seen[r] = true
			res = append(res, r)
		}
	}
	return res
}

// step is one operation of a history: OpenDB(Req) and, when Drop is set and the open succeeded,
// Close of every handle of that database followed by Drop through the handle of Req.
type step struct {
	Req  string
	Drop bool
}

func genSteps(t *rapid.T, pool []string, min, max int, label string) []step {
	n := rapid.IntRange(min, max).Draw(t, label+".n")
	res := make([]step, n)
	for i := range res {
		res[i].Req = rapid.SampledFrom(pool).Draw(t, label+".next")
		res[i].Drop = rapid.IntRange(0, 4).Draw(t, label+".drop") == 0
	}
	return res
}

func fmtSteps(steps []step) string {
	parts := make([]string, len(steps))
	for i, s := range steps {
		parts[i] = fmt.Sprintf("%q", s.Req)
		if s.Drop {
			parts[i] += "+drop"
		}
	}
	return "[" + strings.Join(parts, " ") + "]"
}

// handle is one store returned by OpenDB of the current producer.
type handle struct {
	req    string
	loc    dbLoc
	db     kvdb.Store
	closed bool
}

func routingProperty(t *rapid.T, wild bool, st *stats.Collector) {
	c := &caseInfo{wild: wild}
	if wild {
		c.table = genWildTable(t)
	} else {
		c.table = genTable(t)
	}
	c.kind = rapid.SampledFrom([]string{kindFlaggedMem, kindFlaggedCrash, kindPlainCrash, kindPlainCrash}).Draw(t, "backends")
	// request pool (distinct requests) and two histories with repeats and drops (before / after the restart)
	nPool := rapid.IntRange(2, 6).Draw(t, "nPool")
	pool := make([]string, nPool)
	for i := range pool {
		if i > 0 && rapid.IntRange(0, 2).Draw(t, "related") == 0 {
			// sibling or child of an earlier request: same database, other table
			base := pool[rapid.IntRange(0, i-1).Draw(t, "base")]
			if j := strings.LastIndexByte(base, '/'); j >= 0 && rapid.Bool().Draw(t, "sibling") {
				base = base[:j]
			}
			pool[i] = base + "/" + rapid.SampledFrom(reqParts).Draw(t, "part")
			continue
		}
		if wild {
			pool[i] = genWildRequest(t, c.table)
		} else {
			pool[i] = genRequestFor(t, c.table)
		}
	}
	c.steps = genSteps(t, pool, 3, 10, "seq")
	c.steps2 = genSteps(t, pool, 2, 8, "seq2")
	for _, s := range c.steps {
		c.requests = append(c.requests, s.Req)
	}
	e := newEnv(c.kind)
	defer e.cleanup()
	live := func(typ multidb.TypeName) bool { return e.backends[typ] != nil }

	classes := []string{c.kind}
	nontrivial := false

	// ---- 1. construction and route determinism
	ps, psMaps := constructKeep(t, c, e, c.table, nFresh)
	if len(ps) == 0 {
		st.Case(stats.Hash(c.table.String(), fmtSteps(c.steps), fmtSteps(c.steps2)), false, "table_rejected")
		return
	}
	probes := uniq(append(append([]string{}, c.requests...), pool...))
	routes := checkRouteDeterminism(t, c, ps, c.table, probes)
	overlapHit := false
	for _, req := range probes {
		if c.table.index(req) < 0 || strings.ContainsRune(req, '%') {
			if patternMatches(c.table, req) >= 2 {
				overlapHit = true
			}
		}
	}
	if overlapHit {
		classes = append(classes, "request_matched_by_2plus_patterns")
		nontrivial = true
	}

	// ---- 2. histories against the model
	m := &model{}
	var (
		cur     *multidb.Producer      // the producer of the current run of the node
		handles []*handle              // every store the current producer returned
		stores  = map[string]*handle{} // latest open store per request
		dropped = map[string]record{}  // requests whose database was dropped since they were recorded (current producer)
		ghosts  []record               // every record removed by a drop
	)
	var (
		refusedOverlap, reopened, opensRecorded                      int
		shared, anyDrop, dropShared, noopDrop, reopenDropped         bool
		dropBeforeRestart, reopenDroppedBeforeRestart, acceptedGhost bool
	)
	closeHandle := func(h *handle) {
		if !h.closed {
			_ = h.db.Close()
			h.closed = true
		}
		if stores[h.req] == h {
			delete(stores, h.req)
		}
	}
	// open performs OpenDB(req) on the current producer and judges it against the model.
	open := func(req, phase string) *handle {
		r := cur.RouteOf(req)
		if r != routes[req] {
			t.Fatalf("C26: RouteOf(%q) changed from %+v to %+v (%s)\n%s", req, routes[req], r, phase, c)
		}
		if excludedTable(r.Table) {
			c.logf("%s: skip %q (table %q is a prefix of a metadata key: excluded by the property)", phase, req, r.Table)
			return nil
		}
		want, why := m.expect(req, r, live)
		db, err := cur.OpenDB(req)
		c.logf("%s: OpenDB(%q) -> route %+v, err=%v (expected %s: %s)", phase, req, r, err, want, why)
		if (err == nil) != (want == expectOK) {
			t.Fatalf("C26: OpenDB(%q) routed to %+v returned err=%v, expected %s (%s)\n%s", req, r, err, want, why, c)
		}
		if err != nil {
			if strings.Contains(why, "overlaps") {
				refusedOverlap++
			}
			return nil
		}
		loc := dbLoc{r.Type, r.Name}
		rec := m.find(req)
		if rec == nil {
			for _, g := range ghosts {
				if g.Loc == loc && g.Req != req && prefixRelated(g.Table, r.Table) {
					acceptedGhost = true // would have been refused before the drop
				}
			}
			for _, old := range m.records {
				if old.Loc == loc {
					shared = true
				}
			}
			if _, ok := dropped[req]; ok {
				reopenDropped = true
				delete(dropped, req)
			}
			m.records = append(m.records, record{Req: req, Loc: loc, Table: r.Table, Idx: m.nextIdx})
			m.nextIdx++
			opensRecorded++
			rec = &m.records[len(m.records)-1]
			// a newly recorded request starts with an empty store (also in a re-created database)
			it := db.NewIterator(nil, nil)
			for it.Next() {
				if r.Table == "" && isMeta(it.Key()) {
					continue
				}
				t.Fatalf("C26: store of the newly recorded request %q (db %s/%q table %q) already holds key %q (%s)\n%s",
					req, r.Type, r.Name, r.Table, it.Key(), phase, c)
			}
			it.Release()
			if err := db.Put(markerKey(rec.Idx), markerVal(rec.Idx)); err != nil {
				t.Fatalf("C26: Put through the store of %q failed: %v\n%s", req, err, c)
			}
			// the marker must be in the database and table RouteOf names
			raw := e.raw(r.Type, r.Name)
			if v, ok := raw[r.Table+string(markerKey(rec.Idx))]; !ok || !bytes.Equal(v, markerVal(rec.Idx)) {
				t.Fatalf("C26: marker of request %q not found in raw database %s/%q under table %q (raw: %s)\n%s",
					req, r.Type, r.Name, r.Table, crashlog.FormatDB(raw), c)
			}
		} else {
			reopened++
			v, err := db.Get(markerKey(rec.Idx))
			if err != nil || !bytes.Equal(v, markerVal(rec.Idx)) {
				t.Fatalf("C26: re-opened request %q (%s) does not reach its database/table: marker %s reads %q, %v\n%s",
					req, phase, markerKey(rec.Idx), v, err, c)
			}
		}
		h := &handle{req: req, loc: loc, db: db}
		handles = append(handles, h)
		stores[req] = h
		return h
	}
	// drop closes every handle of the database of h and drops it through h.
	drop := func(h *handle, phase string) {
		r := routes[h.req]
		for _, o := range handles {
			if o.loc == h.loc {
				closeHandle(o)
			}
		}
		h.db.Drop()
		if r.NoDrop {
			// Drop is a no-op for a NoDrop route: data and records stay (checked by the isolation checks)
			c.logf("%s: Close+Drop through %q (NoDrop route): database %s/%q stays", phase, h.req, h.loc.Type, h.loc.Name)
			noopDrop = true
			return
		}
		kept := m.records[:0:0]
		var gone []string
		for _, rec := range m.records {
			if rec.Loc == h.loc {
				ghosts = append(ghosts, rec)
				dropped[rec.Req] = rec
				gone = append(gone, rec.Req)
				continue
			}
			kept = append(kept, rec)
		}
		m.records = kept
		anyDrop = true
		if len(gone) >= 2 {
			dropShared = true
		}
		c.logf("%s: Close+Drop through %q: database %s/%q dropped, records of %q are gone", phase, h.req, h.loc.Type, h.loc.Name, gone)
		if raw := e.raw(h.loc.Type, h.loc.Name); len(raw) != 0 {
			t.Fatalf("C26: database %s/%q still holds keys after Close+Drop through the store of %q (%s): %s\n%s",
				h.loc.Type, h.loc.Name, h.req, phase, crashlog.FormatDB(raw), c)
		}
	}
	// mutateCallerMap changes, in place, the map object that was handed to NewProducer when the current
	// producer was built (NewProducer works on its own copy of the routing table: the running producer
	// must keep routing by the configuration it was constructed with). Only the routing-table map is
	// touched: the producers map and the records key are shared with the caller by the original, too.
	var callerMapMoves, callerMapInvalid, callerMapExactOnly bool
	mutateCallerMap := func(mp map[string]multidb.Route, phase string) {
		ts2 := c.table
		for i := rapid.IntRange(1, 3).Draw(t, "callerMapMutations"); i > 0; i-- {
			ts2 = mutateTable(t, ts2, m, true)
		}
		switch rapid.SampledFrom([]string{"apply", "apply", "apply", "apply", "retarget_all", "clear"}).Draw(t, "callerMapMode") {
		case "clear":
			ts2 = tableSpec{}
		case "retarget_all":
			ts2 = append(tableSpec{}, ts2...)
			for i := range ts2 {
				r := ts2[i].Route
				if r.Type == "T1" {
					r.Type = "T2"
				} else {
					r.Type = "T1"
				}
				r.Name += "z"
				r.Table += "Z"
				ts2[i].Route = r
			}
		}
		if ts2.index("") < 0 {
			// a default route always stays (with another target): a table without one is not a configuration
			// any producer can have, and route resolution over such a map need not terminate
			def := c.table[c.table.index("")].Route
			def.Name += "y"
			ts2 = ts2.with("", def)
		}
		for k := range mp {
			delete(mp, k)
		}
		for _, r := range ts2 {
			mp[r.Req] = r.Route
		}
		c.logf("%s: the caller changes the map it had passed to NewProducer, in place, to %s", phase, ts2)
		// classification: would the changed configuration route a request of this case differently?
		if p2, err := multidb.NewProducer(e.producers(), ts2.toMap(), recordsKey); err != nil {
			callerMapInvalid = true
		} else {
			for _, req := range probes {
				if p2.RouteOf(req) != routes[req] {
					callerMapMoves = true
				}
			}
		}
		exactOnly := true
		for _, r := range c.table {
			if strings.ContainsRune(r.Req, '%') || strings.ContainsRune(r.Route.Name, '%') {
				exactOnly = false
			}
		}
		callerMapExactOnly = callerMapExactOnly || exactOnly
		for _, req := range probes {
			if r := cur.RouteOf(req); r != routes[req] {
				t.Fatalf("C26: RouteOf(%q) of a running producer changed from %+v to %+v after the caller changed the map object it had "+
					"passed to NewProducer (%s); routing must depend on the configuration at construction only\n%s", req, routes[req], r, phase, c)
			}
		}
	}
	// runSteps executes a history; before step mutAt (after the last step if mutAt == len(steps)) the
	// caller's map mp is changed (mutAt < 0: never).
	runSteps := func(steps []step, phase string, mutAt int, mp map[string]multidb.Route) {
		for i, s := range steps {
			if i == mutAt {
				mutateCallerMap(mp, phase)
			}
			h := open(s.Req, phase)
			if h != nil && s.Drop {
				drop(h, phase)
			}
		}
		if mutAt == len(steps) {
			mutateCallerMap(mp, phase)
		}
	}
	drawMutAt := func(steps []step, label string) int {
		if !rapid.Bool().Draw(t, label) {
			return -1
		}
		return rapid.IntRange(0, len(steps)).Draw(t, label+".at")
	}
	checkIsolation := func(phase string) {
		for _, rec := range m.records {
			h := stores[rec.Req]
			if h == nil {
				// no open store (closed for a drop, or not yet opened after the restart): re-open
				if h = open(rec.Req, phase+", isolation check"); h == nil {
					t.Fatalf("C26: harness error: recorded request %q was skipped\n%s", rec.Req, c)
				}
			}
			s := h.db
			seen := []string{}
			it := s.NewIterator(nil, nil)
			for it.Next() {
				seen = append(seen, string(it.Key()))
			}
			it.Release()
			for _, k := range seen {
				if k == string(markerKey(rec.Idx)) {
					continue
				}
				if rec.Table == "" && isMeta([]byte(k)) {
					continue // a whole-database store sees the metadata keys
				}
				t.Fatalf("C26: store of request %q (db %s/%q table %q) sees foreign key %q (%s); all keys: %q\n%s",
					rec.Req, rec.Loc.Type, rec.Loc.Name, rec.Table, k, phase, seen, c)
			}
			found := false
			for _, k := range seen {
				found = found || k == string(markerKey(rec.Idx))
			}
			if !found {
				t.Fatalf("C26: store of request %q lost its own marker (%s); keys: %q\n%s", rec.Req, phase, seen, c)
			}
			for _, other := range m.records {
				if other.Req == rec.Req {
					continue
				}
				if v, _ := s.Get(markerKey(other.Idx)); v != nil {
					t.Fatalf("C26: store of request %q reads the marker of request %q (%s)\n%s", rec.Req, other.Req, phase, c)
				}
			}
		}
		// raw view: every database holds exactly the markers of its recorded requests (+ metadata)
		byLoc := map[dbLoc]map[string]bool{}
		for _, rec := range m.records {
			if byLoc[rec.Loc] == nil {
				byLoc[rec.Loc] = map[string]bool{}
			}
			byLoc[rec.Loc][rec.Table+string(markerKey(rec.Idx))] = true
		}
		for _, g := range ghosts {
			if byLoc[g.Loc] == nil {
				byLoc[g.Loc] = map[string]bool{} // dropped and not recorded again: no data keys
			}
		}
		for loc, want := range byLoc {
			raw := e.raw(loc.Type, loc.Name)
			for k := range raw {
				if !want[k] && !isMeta([]byte(k)) {
					t.Fatalf("C26: raw database %s/%q holds unexpected key %q (%s): %s\n%s", loc.Type, loc.Name, k, phase, crashlog.FormatDB(raw), c)
				}
			}
			for k := range want {
				if _, ok := raw[k]; !ok {
					t.Fatalf("C26: raw database %s/%q lost key %q (%s): %s\n%s", loc.Type, loc.Name, k, phase, crashlog.FormatDB(raw), c)
				}
			}
		}
	}
	// shutdown closes every handle and the producer (a node going down).
	shutdown := func() {
		for _, h := range handles {
			closeHandle(h)
		}
		handles, stores, dropped = nil, map[string]*handle{}, map[string]record{}
		if c.kind != kindFlaggedMem {
			// closes the handles flaggedproducer keeps; a memorydb would lose its content on Close
			_ = cur.Close()
		}
		cur = nil
	}
	// verifyProbe builds producers with a (mutated) table over the same databases and judges Verify()
	// against the requests currently recorded.
	verifyProbe := func(table2 tableSpec, phase string) (cls string, moved bool) {
		ps2 := construct(t, c, e, table2, 2)
		if len(ps2) == 0 {
			return "mutated_table_rejected", false
		}
		p2 := ps2[0]
		var movedReqs []string
		for _, rec := range m.records {
			r := p2.RouteOf(rec.Req)
			if r2 := ps2[1].RouteOf(rec.Req); r2 != r {
				t.Fatalf("C26: RouteOf(%q) differs between identically configured producers (mutated table): %+v vs %+v\n%s\n%s", rec.Req, r, r2, table2, c)
			}
			if !sameTarget(r, rec) {
				movedReqs = append(movedReqs, fmt.Sprintf("%q: %s/%q table %q -> %s/%q table %q", rec.Req, rec.Loc.Type, rec.Loc.Name, rec.Table, r.Type, r.Name, r.Table))
			}
		}
		err := p2.Verify()
		c.logf("%s: mutated %s\n    Verify() = %v; moved recorded requests: %v", phase, table2, err, movedReqs)
		if (err != nil) != (len(movedReqs) > 0) {
			recorded := []string{}
			for _, rec := range m.records {
				recorded = append(recorded, fmt.Sprintf("%q in %s/%q table %q", rec.Req, rec.Loc.Type, rec.Loc.Name, rec.Table))
			}
			t.Fatalf("C26: Verify() = %v (%s), but of the currently recorded requests %v the new table routes differently: %v\n%s\n%s",
				err, phase, recorded, movedReqs, table2, c)
		}
		if len(movedReqs) > 0 {
			cls, moved = "verify_detects_moved_request", true
		} else {
			cls = "verify_passes_on_mutated_table"
			// nothing moved: every recorded request is still reachable through the new table
			for _, rec := range m.records {
				db, err := p2.OpenDB(rec.Req)
				if err != nil {
					t.Fatalf("C26: Verify() passed but OpenDB(%q) fails with the new table (%s): %v\n%s", rec.Req, phase, err, c)
				}
				if v, err := db.Get(markerKey(rec.Idx)); err != nil || !bytes.Equal(v, markerVal(rec.Idx)) {
					t.Fatalf("C26: Verify() passed but request %q does not reach its marker with the new table (%s) (%q, %v)\n%s", rec.Req, phase, v, err, c)
				}
				_ = db.Close()
			}
		}
		if c.kind != kindFlaggedMem {
			_ = p2.Close()
			_ = ps2[1].Close()
		}
		return cls, moved
	}

	// ---- 2a. first run of the node
	cur = ps[0]
	mutAt1 := drawMutAt(c.steps, "callerMapChangedFirstRun")
	runSteps(c.steps, "first producer", mutAt1, psMaps[0])
	checkIsolation("first producer")
	checkRouteDeterminism(t, c, ps[:2], c.table, probes) // routing does not depend on what was opened
	if err := cur.Verify(); err != nil {
		t.Fatalf("C26: Verify() of the first producer (unchanged configuration) fails after its opens: %v\n%s", err, c)
	}
	dropBeforeRestart, reopenDroppedBeforeRestart = anyDrop, reopenDropped
	reopenedFirst := reopened
	recordedFirst := len(m.records)

	// ---- 3. restart over the same databases: mutated table first (Verify only), then the same table
	shutdown()
	tableR := mutateTable(t, c.table, m, wild)
	clsR, movedR := verifyProbe(tableR, "after restart")
	classes = append(classes, "restart_probe_"+clsR)
	if movedR {
		nontrivial = true
	}
	ps1, ps1Maps := constructKeep(t, c, e, c.table, 1)
	if len(ps1) != 1 {
		t.Fatalf("C26: the table was accepted before the restart and is rejected after it\n%s", c)
	}
	cur = ps1[0]
	if err := cur.Verify(); err != nil {
		t.Fatalf("C26: Verify() of a restarted producer with the unchanged table fails: %v\n%s", err, c)
	}
	dropsBefore := len(ghosts)
	mutAt2 := drawMutAt(c.steps2, "callerMapChangedAfterRestart")
	runSteps(c.steps2, "restarted producer", mutAt2, ps1Maps[0])
	checkIsolation("restarted producer") // re-opens every recorded request that steps2 did not open
	for _, req := range probes {
		if r := cur.RouteOf(req); r != routes[req] {
			t.Fatalf("C26: RouteOf(%q) of the restarted producer is %+v, the same configuration routed it to %+v before\n%s", req, r, routes[req], c)
		}
	}
	if recordedFirst > 0 {
		classes = append(classes, "reopen_after_restart")
	}
	if err := cur.Verify(); err != nil {
		t.Fatalf("C26: Verify() of the restarted producer with the unchanged table fails after its opens: %v\n%s", err, c)
	}

	if shared {
		classes = append(classes, "two_requests_share_db")
		nontrivial = true
	}
	if refusedOverlap > 0 {
		classes = append(classes, "overlap_refused")
	}
	if reopenedFirst > 0 {
		classes = append(classes, "reopen_same_producer")
	}
	if opensRecorded == 0 {
		classes = append(classes, "nothing_opened")
	}
	if anyDrop {
		classes = append(classes, "history_with_drop")
	}
	if noopDrop {
		classes = append(classes, "drop_on_nodrop_route_is_noop")
	}
	if dropShared {
		classes = append(classes, "drop_removes_records_of_2plus_requests")
	}
	if reopenDropped {
		classes = append(classes, "drop_then_reopen_same_producer")
	}
	if acceptedGhost {
		classes = append(classes, "overlap_with_dropped_record_accepted")
	}
	if dropBeforeRestart {
		classes = append(classes, "restart_after_drop")
	}
	if reopenDroppedBeforeRestart {
		classes = append(classes, "restart_after_drop_and_reopen")
	}
	if len(ghosts) > dropsBefore {
		classes = append(classes, "drop_after_restart")
	}
	if mutAt1 >= 0 {
		classes = append(classes, "caller_map_changed_first_run")
		if mutAt1 < len(c.steps) {
			classes = append(classes, "caller_map_changed_first_run_before_last_step")
		}
	}
	if mutAt2 >= 0 {
		classes = append(classes, "caller_map_changed_after_restart")
	}
	if mutAt1 >= 0 || mutAt2 >= 0 {
		if callerMapMoves {
			classes = append(classes, "caller_map_change_would_move_a_request")
			nontrivial = true
			if callerMapExactOnly {
				classes = append(classes, "caller_map_change_would_move_a_request_exact_only_table")
			}
		}
		if callerMapInvalid {
			classes = append(classes, "caller_map_changed_to_invalid_table")
		}
	}

	// ---- 4. another restart with a mutated table and Verify
	shutdown()
	table2 := c.table
	nMut := rapid.IntRange(1, 2).Draw(t, "nMutations")
	for i := 0; i < nMut; i++ {
		table2 = mutateTable(t, table2, m, wild)
	}
	cls2, moved2 := verifyProbe(table2, "final")
	classes = append(classes, cls2)
	if moved2 {
		nontrivial = true
	}

	sort.Strings(classes)
	st.Case(stats.Hash(c.table.String(), fmtSteps(c.steps), fmtSteps(c.steps2), c.kind, tableR.String(), table2.String(), mutAt1, mutAt2, strings.Join(c.log, "|")), nontrivial, classes...)
	st.Class("opens_recorded", int64(opensRecorded))
	st.Class("databases_dropped", int64(len(ghosts)))
	st.Sample(func() interface{} {
		return map[string]interface{}{"table": c.table.String(), "history": fmtSteps(c.steps), "history_after_restart": fmtSteps(c.steps2), "backends": c.kind, "steps": c.log}
	})
}

// mutateTable changes one thing in the table; mutations aim at the routes recorded requests use.
func mutateTable(t *rapid.T, ts tableSpec, m *model, wild bool) tableSpec {
	kind := rapid.SampledFrom([]string{"type", "name", "table", "remove", "add_exact", "add_pattern", "nodrop", "none"}).Draw(t, "mutation")
	pick := func() int { return rapid.IntRange(0, len(ts)-1).Draw(t, "route") }
	if len(ts) == 0 {
		return ts
	}
	switch kind {
	case "type":
		i := pick()
		r := ts[i].Route
		r.Type = rapid.SampledFrom([]multidb.TypeName{"T1", "T2", "T3"}).Draw(t, "newType")
		return ts.with(ts[i].Req, r)
	case "name":
		i := pick()
		r := ts[i].Route
		if strings.ContainsRune(r.Name, '%') {
			r.Name = "q" + r.Name
		} else {
			r.Name = rapid.SampledFrom(exactNames).Draw(t, "newName")
		}
		return ts.with(ts[i].Req, r)
	case "table":
		i := pick()
		r := ts[i].Route
		r.Table = rapid.SampledFrom(tableNames).Draw(t, "newTable")
		return ts.with(ts[i].Req, r)
	case "nodrop":
		i := pick()
		r := ts[i].Route
		r.NoDrop = !r.NoDrop
		return ts.with(ts[i].Req, r)
	case "remove":
		i := pick()
		if ts[i].Req == "" && !wild {
			return ts
		}
		return ts.without(i)
	case "add_exact":
		// an exact route for a recorded request, for its parent path, or for a fresh one
		req := rapid.SampledFrom(exactReqs).Draw(t, "addReq")
		if len(m.records) > 0 && rapid.Bool().Draw(t, "targetRecorded") {
			req = rapid.SampledFrom(m.records).Draw(t, "recorded").Req
			if j := strings.LastIndexByte(req, '/'); j >= 0 && rapid.Bool().Draw(t, "parent") {
				req = req[:j]
			}
		}
		if strings.ContainsRune(req, '%') {
			return ts
		}
		return ts.with(req, genRoute(t, exactNames, "added"))
	case "add_pattern":
		p := rapid.SampledFrom(patterns).Draw(t, "addPattern")
		return ts.with(p.scan, genRoute(t, p.names, "addedPat"))
	}
	return ts
}

// TestC26Routing: structured routing tables and request sequences.
func TestC26Routing(t *testing.T) {
	rapid.Check(t, func(t *rapid.T) { routingProperty(t, false, stMain) })
}

// TestC26RoutingWild: the same property over arbitrary template and request strings (the
// generator that FuzzC26 drives with coverage guidance).
func TestC26RoutingWild(t *testing.T) {
	rapid.Check(t, func(t *rapid.T) { routingProperty(t, true, stWild) })
}

// FuzzC26: native fuzzing over template/request strings.
func FuzzC26(f *testing.F) {
	f.Fuzz(rapid.MakeFuzz(func(t *rapid.T) { routingProperty(t, true, stWild) }))
}
