// C27: the caching producers reference-count opens.
//
// A t.Repeat state machine drives open / close / drop (and a small read-write probe) over 1-3
// names through cachedproducer.Wrap or cachedproducer.WrapAll on top of a counting fake producer.
// Oracle: the reference-counter model of the property text.
package c27

import (
	"errors"
	"fmt"
	"os"
	"sort"
	"strings"
	"testing"

	"github.com/Fantom-foundation/lachesis-base/kvdb"
	"github.com/Fantom-foundation/lachesis-base/kvdb/cachedproducer"
	"github.com/Fantom-foundation/lachesis-base/kvdb/memorydb"
	"pgregory.net/rapid"

	"verif/harness/internal/stats"
)

func TestMain(m *testing.M) {
	code := m.Run()
	stats.Flush()
	os.Exit(code)
}

// ---------------------------------------------------------------------------------------
// counting fake producer (the "underlying" side)

// fakeStore is one underlying database instance: a memorydb store that counts Close / Drop.
type fakeStore struct {
	kvdb.Store
	p           *fakeProducer
	name        string
	serial      int
	closeCalls  int
	dropCalls   int
	closed      bool
	closeFailed bool
}

func (s *fakeStore) Close() error {
	s.closeCalls++
	s.p.closeCalls[s.name]++
	if s.closed {
		return errors.New("fake store: already closed")
	}
	s.closed = true
	err := s.Store.Close()
	if s.p.failCloseNext[s.name] {
		// injected fault: the one and only Close call of this database reports an error (a failed final flush).
		// It still is the close of this database: nobody may call Close on it again.
		delete(s.p.failCloseNext, s.name)
		s.closeFailed = true
		return errInjectedClose
	}
	return err
}

var errInjectedClose = errors.New("fake store: injected failure of the underlying Close")

func (s *fakeStore) Drop() {
	s.dropCalls++
	s.p.dropCalls[s.name]++
	// like the flushable / leveldb / pebble stores, memorydb panics when dropped before Close
	s.Store.Drop()
}

// fakeProducer implements kvdb.DBProducer and kvdb.FullDBProducer. Like a real backend it refuses
// to open a database that is already open (LevelDB / Pebble hold a file lock).
type fakeProducer struct {
	stores        map[string][]*fakeStore // every underlying store ever opened, per name
	openCalls     map[string]int
	closeCalls    map[string]int
	dropCalls     map[string]int
	failNext      map[string]bool // the next OpenDB of the name fails (injected fault)
	failCloseNext map[string]bool // the next underlying Close of a database of the name returns an error (injected fault)
}

func newFakeProducer() *fakeProducer {
	return &fakeProducer{
		stores:        map[string][]*fakeStore{},
		openCalls:     map[string]int{},
		closeCalls:    map[string]int{},
		dropCalls:     map[string]int{},
		failNext:      map[string]bool{},
		failCloseNext: map[string]bool{},
	}
}

func (p *fakeProducer) live(name string) []*fakeStore {
	var res []*fakeStore
	for _, s := range p.stores[name] {
		if !s.closed {
			res = append(res, s)
		}
	}
	return res
}

func (p *fakeProducer) OpenDB(name string) (kvdb.Store, error) {
	p.openCalls[name]++
	if p.failNext[name] {
		delete(p.failNext, name)
		return nil, fmt.Errorf("fake producer: injected failure opening %q", name)
	}
	if len(p.live(name)) != 0 {
		return nil, fmt.Errorf("fake producer: database %q is already open", name)
	}
	s := &fakeStore{Store: memorydb.New(), p: p, name: name, serial: len(p.stores[name]) + 1}
	p.stores[name] = append(p.stores[name], s)
	return s, nil
}

func (p *fakeProducer) Names() []string {
	var res []string
	for n := range p.stores {
		res = append(res, n)
	}
	sort.Strings(res)
	return res
}
func (p *fakeProducer) NotFlushedSizeEst() int                               { return 0 }
func (p *fakeProducer) Flush(id []byte) error                                { return nil }
func (p *fakeProducer) Initialize(names []string, id []byte) ([]byte, error) { return id, nil }
func (p *fakeProducer) Close() error                                         { return nil }

var (
	_ kvdb.DBProducer     = (*fakeProducer)(nil)
	_ kvdb.FullDBProducer = (*fakeProducer)(nil)
)

// ---------------------------------------------------------------------------------------
// reference-counter model

type nameModel struct {
	count      int        // opens not yet closed
	handle     kvdb.Store // store returned by the current (latest) group of opens
	opens      int        // OpenDB calls through the wrapper
	dropBase   int        // underlying Drop calls seen when the name was last opened
	peak       int        // largest count of the current group of opens
	overlapped bool       // some group of opens reached count >= 2
	kv         map[string]string
}

var st = stats.New("refcount_machine")

func propC27(t *rapid.T) {
	fake := newFakeProducer()
	useAll := rapid.Bool().Draw(t, "wrapAll")
	var prod kvdb.DBProducer
	if useAll {
		prod = cachedproducer.WrapAll(fake)
	} else {
		prod = cachedproducer.Wrap(fake)
	}
	nNames := rapid.IntRange(1, 3).Draw(t, "names")
	names := []string{"a", "b", "c"}[:nNames]
	model := map[string]*nameModel{}
	for _, n := range names {
		model[n] = &nameModel{kv: map[string]string{}}
	}
	var history []string
	overCloses, overClosesAfterOverlap, dropsIssued, dropsReached, reopenings, sharedOpens := 0, 0, 0, 0, 0, 0
	failedOpens, failedCloses, failedClosesReported := 0, 0, 0
	hist := func() string { return strings.Join(history, " ") }

	pick := func(t *rapid.T, ok func(m *nameModel) bool) string {
		var el []string
		for _, n := range names {
			if ok(model[n]) {
				el = append(el, n)
			}
		}
		if len(el) == 0 {
			t.Skip("no eligible name")
		}
		return rapid.SampledFrom(el).Draw(t, "name")
	}

	checkInvariants := func(t *rapid.T) {
		for _, n := range names {
			m := model[n]
			live := fake.live(n)
			want := 0
			if m.count > 0 {
				want = 1
			}
			if len(live) != want {
				t.Fatalf("name %q has %d open handle(s) but %d open underlying database(s); history: %s", n, m.count, len(live), hist())
			}
			for _, s := range fake.stores[n] {
				if s.closeCalls > 1 {
					t.Fatalf("underlying database %q#%d was closed %d times; history: %s", n, s.serial, s.closeCalls, hist())
				}
			}
			if d := fake.dropCalls[n] - m.dropBase; d > 1 {
				t.Fatalf("underlying drop of %q ran %d times since the last open; history: %s", n, d, hist())
			}
			if fake.dropCalls[n] > m.opens {
				t.Fatalf("underlying drop of %q ran %d times for %d opens; history: %s", n, fake.dropCalls[n], m.opens, hist())
			}
		}
	}

	doOpen := func(t *rapid.T, n string) {
		m := model[n]
		history = append(history, "open("+n+")")
		h, err := prod.OpenDB(n)
		if err != nil {
			t.Fatalf("OpenDB(%q) failed: %v; history: %s", n, err, hist())
		}
		if h == nil {
			t.Fatalf("OpenDB(%q) returned a nil store; history: %s", n, hist())
		}
		if m.count > 0 {
			sharedOpens++
			if h != m.handle {
				t.Fatalf("OpenDB(%q) returned a different store while %d earlier open(s) are not closed; history: %s", n, m.count, hist())
			}
		} else {
			if m.handle != nil {
				reopenings++
			}
			m.kv = map[string]string{} // a fresh fake database
			m.peak = 0
		}
		m.handle = h
		m.count++
		m.opens++
		if m.count > m.peak {
			m.peak = m.count
		}
		if m.count >= 2 {
			m.overlapped = true
		}
		m.dropBase = fake.dropCalls[n]
	}

	// failing: the underlying Close call this Close leads to (if any) returns an injected error
	doClose := func(t *rapid.T, n string, failing bool) {
		m := model[n]
		before := fake.closeCalls[n]
		if m.count == 0 {
			history = append(history, "overclose("+n+")")
			overCloses++
			if m.peak >= 2 {
				overClosesAfterOverlap++
			}
			err := m.handle.Close()
			if err == nil {
				t.Fatalf("Close of %q beyond the number of opens returned no error; history: %s", n, hist())
			}
			if fake.closeCalls[n] != before {
				t.Fatalf("Close of %q beyond the number of opens reached the underlying database; history: %s", n, hist())
			}
			return
		}
		var err error
		if failing {
			// The open is consumed whatever the underlying Close answers: the property counts Close calls against
			// opens, and the underlying database is closed exactly once (the failed call is that one close, the
			// text knows no retry). Whether the underlying error is handed to the caller is not in the text: both
			// answers are accepted here (the code returns it).
			history = append(history, "close("+n+") with injected underlying Close failure")
			fake.failCloseNext[n] = true
			err = m.handle.Close()
			delete(fake.failCloseNext, n)
			failedCloses++
			if err != nil {
				failedClosesReported++
			}
		} else {
			history = append(history, "close("+n+")")
			err = m.handle.Close()
			if err != nil {
				t.Fatalf("Close of %q (open count %d) returned %v; history: %s", n, m.count, err, hist())
			}
		}
		m.count--
		got := fake.closeCalls[n] - before
		if m.count == 0 && got != 1 {
			t.Fatalf("last Close of %q made %d underlying Close calls, want 1; history: %s", n, got, hist())
		}
		if m.count > 0 && got != 0 {
			t.Fatalf("Close of %q with %d open(s) remaining made %d underlying Close call(s); history: %s", n, m.count, got, hist())
		}
	}

	actions := map[string]func(*rapid.T){
		"open": func(t *rapid.T) {
			doOpen(t, rapid.SampledFrom(names).Draw(t, "name"))
		},
		// the underlying producer fails to open the database (only reachable while no open of the name is held):
		// the failed call is not an open, so nothing may be counted for it
		"openFails": func(t *rapid.T) {
			n := pick(t, func(m *nameModel) bool { return m.count == 0 })
			history = append(history, "open("+n+") with injected underlying failure")
			fake.failNext[n] = true
			h, err := prod.OpenDB(n)
			if err == nil {
				t.Fatalf("OpenDB(%q) returned %v, nil although the underlying open failed; history: %s", n, h, hist())
			}
			delete(fake.failNext, n)
			failedOpens++
			// "at most one underlying drop per open": a failed attempt is counted as an open for this bound only
			// (the wrapper re-arms its drop guard at the start of every OpenDB call; the text does not say whether
			// a failed attempt is "an open", so the weaker reading is used)
			m := model[n]
			m.opens++
			m.dropBase = fake.dropCalls[n]
		},
		// opening again a name that is open: the cached path
		"openShared": func(t *rapid.T) {
			doOpen(t, pick(t, func(m *nameModel) bool { return m.count > 0 }))
		},
		"close": func(t *rapid.T) {
			doClose(t, pick(t, func(m *nameModel) bool { return m.count > 0 }), false)
		},
		// the last Close of a name reaches the underlying database and that Close call fails (injected fault)
		"closeFails": func(t *rapid.T) {
			doClose(t, pick(t, func(m *nameModel) bool { return m.count == 1 }), true)
		},
		// closing more often than opening (only on the latest handle of a name that was not re-opened since)
		"overclose": func(t *rapid.T) {
			doClose(t, pick(t, func(m *nameModel) bool { return m.count == 0 && m.handle != nil }), false)
		},
		// Drop is only issued as the stores allow it: after every open of the name has been closed
		"drop": func(t *rapid.T) {
			n := pick(t, func(m *nameModel) bool { return m.count == 0 && m.handle != nil })
			m := model[n]
			history = append(history, "drop("+n+")")
			before := fake.dropCalls[n]
			m.handle.Drop()
			dropsIssued++
			dropsReached += fake.dropCalls[n] - before
		},
		// the handle of an open name is a working store, shared by all its holders
		"use": func(t *rapid.T) {
			n := pick(t, func(m *nameModel) bool { return m.count > 0 })
			m := model[n]
			k := rapid.SampledFrom([]string{"k1", "k2", "k3"}).Draw(t, "key")
			v := rapid.StringMatching(`[a-z]{1,3}`).Draw(t, "val")
			history = append(history, fmt.Sprintf("put(%s,%s=%s)", n, k, v))
			if err := m.handle.Put([]byte(k), []byte(v)); err != nil {
				t.Fatalf("Put through the handle of %q failed: %v; history: %s", n, err, hist())
			}
			m.kv[k] = v
			for key, want := range m.kv {
				got, err := m.handle.Get([]byte(key))
				if err != nil || string(got) != want {
					t.Fatalf("Get(%q) through the handle of %q = %q, %v; want %q; history: %s", key, n, got, err, want, hist())
				}
			}
		},
		"": checkInvariants,
	}
	t.Repeat(actions)

	// wind down: close what is still open
	for _, n := range names {
		for model[n].count > 0 {
			doClose(t, n, false)
		}
	}
	checkInvariants(t)
	// and, drawn, one more Close on each fully closed name
	for _, n := range names {
		if model[n].handle != nil && rapid.Bool().Draw(t, "finalOverclose") {
			doClose(t, n, false)
			checkInvariants(t)
		}
	}

	anyOverlapThenOverclose := overClosesAfterOverlap > 0
	cls := []string{"wrap"}
	if useAll {
		cls = []string{"wrap_all"}
	}
	cls = append(cls, fmt.Sprintf("names_%d", nNames))
	if overCloses > 0 {
		cls = append(cls, "with_overclose")
	}
	if anyOverlapThenOverclose {
		cls = append(cls, "overlap_then_overclose")
	}
	if sharedOpens > 0 {
		cls = append(cls, "with_shared_open")
	}
	if reopenings > 0 {
		cls = append(cls, "with_reopen_after_full_close")
	}
	if failedCloses > 0 {
		cls = append(cls, "with_failed_underlying_close")
	}
	if dropsIssued > 0 {
		cls = append(cls, "with_drop")
	}
	if dropsIssued > dropsReached {
		cls = append(cls, "with_repeated_drop_suppressed")
	}
	for _, n := range names {
		if model[n].overlapped {
			cls = append(cls, "with_overlap")
			break
		}
	}
	st.Case(stats.Hash(useAll, nNames, hist()), anyOverlapThenOverclose, cls...)
	st.Class("ops", int64(len(history)))
	st.Class("overcloses", int64(overCloses))
	st.Class("drops_issued", int64(dropsIssued))
	st.Class("injected_open_failures", int64(failedOpens))
	st.Class("injected_close_failures", int64(failedCloses))
	st.Class("injected_close_failures_reported_to_caller", int64(failedClosesReported))
	st.Class("drops_reaching_underlying", int64(dropsReached))
	st.Sample(func() interface{} {
		return map[string]interface{}{"wrap_all": useAll, "names": nNames, "history": hist()}
	})
}

func TestC27(t *testing.T) { rapid.Check(t, propC27) }

// TestC27Regression pins the witness of the repaired defect (DESIGN.md §5, F8) without rapid:
// the first OpenDB through cachedproducer.Wrap must not panic.
func TestC27Regression(t *testing.T) {
	for _, all := range []bool{false, true} {
		fake := newFakeProducer()
		var prod kvdb.DBProducer
		if all {
			prod = cachedproducer.WrapAll(fake)
		} else {
			prod = cachedproducer.Wrap(fake)
		}
		a, err := prod.OpenDB("a")
		if err != nil {
			t.Fatal(err)
		}
		b, err := prod.OpenDB("a")
		if err != nil || a != b {
			t.Fatalf("second open: same=%v err=%v", a == b, err)
		}
		if err := a.Close(); err != nil || fake.closeCalls["a"] != 0 {
			t.Fatalf("first close: err=%v underlying closes=%d", err, fake.closeCalls["a"])
		}
		if err := b.Close(); err != nil || fake.closeCalls["a"] != 1 {
			t.Fatalf("last close: err=%v underlying closes=%d", err, fake.closeCalls["a"])
		}
		if err := b.Close(); err == nil || fake.closeCalls["a"] != 1 {
			t.Fatalf("over-close: err=%v underlying closes=%d", err, fake.closeCalls["a"])
		}
		a.Drop()
		b.Drop()
		if fake.dropCalls["a"] > 1 {
			t.Fatalf("underlying drops = %d, want at most 1", fake.dropCalls["a"])
		}
	}
}
