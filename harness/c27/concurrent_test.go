package c27

import (
	"fmt"
	"sync"
	"sync/atomic"
	"testing"
	"time"

	"github.com/Fantom-foundation/lachesis-base/kvdb"
	"github.com/Fantom-foundation/lachesis-base/kvdb/cachedproducer"
	"github.com/Fantom-foundation/lachesis-base/kvdb/memorydb"
	"pgregory.net/rapid"

	"verif/harness/internal/stats"
)

var stConcDrop = stats.New("concurrent_drops")

// slowDropStore is an underlying store whose Drop takes a little while (like removing a directory), with
// atomic call counters (it is used from several goroutines).
type slowDropStore struct {
	kvdb.Store
	closes, drops atomic.Int32
	dropDelay     time.Duration
}

func (s *slowDropStore) Close() error {
	s.closes.Add(1)
	return nil
}

func (s *slowDropStore) Drop() {
	s.drops.Add(1)
	time.Sleep(s.dropDelay)
}

type slowProducer struct {
	mu     sync.Mutex
	stores []*slowDropStore
	delay  time.Duration
}

func (p *slowProducer) OpenDB(name string) (kvdb.Store, error) {
	p.mu.Lock()
	defer p.mu.Unlock()
	s := &slowDropStore{Store: memorydb.New(), dropDelay: p.delay}
	p.stores = append(p.stores, s)
	return s, nil
}
func (p *slowProducer) Names() []string                                  { return nil }
func (p *slowProducer) NotFlushedSizeEst() int                           { return 0 }
func (p *slowProducer) Flush([]byte) error                               { return nil }
func (p *slowProducer) Initialize(_ []string, id []byte) ([]byte, error) { return id, nil }
func (p *slowProducer) Close() error                                     { return nil }

// TestC27ConcurrentDrops: every holder of a shared store closes it, then several of them drop it at the same
// time (each cleaning up after itself). The underlying drop must still run at most once for that open, and the
// underlying close exactly once.
func TestC27ConcurrentDrops(t *testing.T) {
	rapid.Check(t, func(t *rapid.T) {
		all := rapid.Bool().Draw(t, "wrapAll")
		holders := rapid.IntRange(2, 4).Draw(t, "holders")
		droppers := rapid.IntRange(2, holders).Draw(t, "droppers")
		delay := time.Duration(rapid.IntRange(50, 400).Draw(t, "dropMicros")) * time.Microsecond
		for rep := 0; rep < 10; rep++ {
			under := &slowProducer{delay: delay}
			var prod kvdb.DBProducer
			if all {
				prod = cachedproducer.WrapAll(under)
			} else {
				prod = cachedproducer.Wrap(under)
			}
			hs := make([]kvdb.Store, holders)
			for i := range hs {
				h, err := prod.OpenDB("shared")
				if err != nil {
					t.Fatalf("OpenDB: %v", err)
				}
				hs[i] = h
			}
			for i, h := range hs {
				if err := h.Close(); err != nil {
					t.Fatalf("Close #%d of %d: %v", i+1, holders, err)
				}
			}
			var wg sync.WaitGroup
			start := make(chan struct{})
			for i := 0; i < droppers; i++ {
				wg.Add(1)
				go func(h kvdb.Store) {
					defer wg.Done()
					<-start
					h.Drop()
				}(hs[i])
			}
			close(start)
			wg.Wait()
			if len(under.stores) != 1 {
				t.Fatalf("%d opens of one name reached the underlying producer %d times", holders, len(under.stores))
			}
			s := under.stores[0]
			if c := s.closes.Load(); c != 1 {
				t.Fatalf("the underlying store was closed %d times for %d opens that were all closed", c, holders)
			}
			if d := s.drops.Load(); d > 1 {
				t.Fatalf("the underlying drop ran %d times for one open of the database (%d holders closed it, %d of them dropped it at the same time, run %d of 10)", d, holders, droppers, rep+1)
			}
		}
		stConcDrop.Case(stats.Hash(all, holders, droppers, delay), true, fmt.Sprintf("droppers_%d", droppers))
		stConcDrop.Sample(func() interface{} {
			return map[string]interface{}{"wrapAll": all, "holders": holders, "concurrent_droppers": droppers, "underlying_drop_takes": delay.String()}
		})
	})
}
