package c27

import (
	"fmt"
	"sync"
	"sync/atomic"
	"testing"
	"time"

	"github.com/Fantom-foundation/lachesis-base/kvdb"
	"github.com/Fantom-foundation/lachesis-base/kvdb/cachedproducer"
	"github.com/Fantom-foundation/lachesis-base/kvdb/memorydb"
	"pgregory.net/rapid"

	"verif/harness/internal/stats"
)

var stFirst = stats.New("concurrent_first_opens")

// heldStore is an underlying store with atomic counters; it notes writes that arrive after its Close.
type heldStore struct {
	kvdb.Store
	p                      *heldProducer
	closes, usedAfterClose atomic.Int32
	closed                 atomic.Bool
}

func (s *heldStore) Close() error {
	s.closes.Add(1)
	s.p.closeCalls.Add(1)
	s.closed.Store(true)
	return nil
}
func (s *heldStore) Drop() {}
func (s *heldStore) Put(k, v []byte) error {
	if s.closed.Load() {
		s.usedAfterClose.Add(1)
	}
	return s.Store.Put(k, v)
}

// heldProducer is an underlying producer whose OpenDB is slow: while `holding` is set every OpenDB call announces
// itself and then waits until the harness lets it go (opening a database file takes a while). `exclusive` makes it
// refuse a database that is open already, like the backends that hold a file lock.
type heldProducer struct {
	mu         sync.Mutex
	stores     []*heldStore
	holding    bool
	exclusive  bool
	arrived    chan chan struct{} // one release channel per OpenDB call that is waiting inside
	closeCalls atomic.Int32
}

func (p *heldProducer) OpenDB(name string) (kvdb.Store, error) {
	p.mu.Lock()
	holding := p.holding
	p.mu.Unlock()
	if holding {
		release := make(chan struct{})
		p.arrived <- release
		<-release
	}
	p.mu.Lock()
	defer p.mu.Unlock()
	if p.exclusive {
		for _, s := range p.stores {
			if !s.closed.Load() {
				return nil, fmt.Errorf("held producer: database %q is already open", name)
			}
		}
	}
	s := &heldStore{Store: memorydb.New(), p: p}
	p.stores = append(p.stores, s)
	return s, nil
}
func (p *heldProducer) setHolding(v bool) {
	p.mu.Lock()
	p.holding = v
	p.mu.Unlock()
}
func (p *heldProducer) Names() []string                                  { return nil }
func (p *heldProducer) NotFlushedSizeEst() int                           { return 0 }
func (p *heldProducer) Flush([]byte) error                               { return nil }
func (p *heldProducer) Initialize(_ []string, id []byte) ([]byte, error) { return id, nil }
func (p *heldProducer) Close() error                                     { return nil }

// TestC27ConcurrentFirstOpens: the harness owns the schedule. 2-3 callers open the same name while it is not cached
// (the very first open, or the first open after the name was fully closed; drawn) and are all held inside the slow
// underlying OpenDB at the same time; they are then let go one after the other. Afterwards 0-2 more opens of the name
// follow, and every open is closed, in a drawn order, plus (drawn) one Close too many.
//
// What is claimed is what the property text says for any group of opens, however they were scheduled: each open
// that returned a store may be closed once without error; no underlying database is closed before the last of the
// opens is closed (so no holder ever works on a closed database); the last Close makes exactly one underlying Close
// call and no underlying database is closed twice; one Close more is an error and reaches no underlying database.
// Not claimed: that racing first opens get the identical store, nor that every underlying database the racing
// opens created gets closed (the code opens one per racing caller when the backend lets it and keeps closing only
// one of them; with an exclusive backend the losers' OpenDB fails instead, and a failed OpenDB is not an open).
func TestC27ConcurrentFirstOpens(t *testing.T) {
	rapid.Check(t, func(t *rapid.T) {
		all := rapid.Bool().Draw(t, "wrapAll")
		racers := rapid.IntRange(2, 3).Draw(t, "concurrentFirstOpens")
		afterFullClose := rapid.Bool().Draw(t, "nameWasOpenedAndFullyClosedBefore")
		exclusive := rapid.Bool().Draw(t, "underlyingRefusesSecondOpen")
		extra := rapid.IntRange(0, 2).Draw(t, "laterOpens")
		under := &heldProducer{exclusive: exclusive, arrived: make(chan chan struct{}, racers)}
		var prod kvdb.DBProducer
		if all {
			prod = cachedproducer.WrapAll(under)
		} else {
			prod = cachedproducer.Wrap(under)
		}
		desc := fmt.Sprintf("wrapAll=%v racers=%d afterFullClose=%v exclusiveBackend=%v laterOpens=%d", all, racers, afterFullClose, exclusive, extra)
		if afterFullClose {
			n := rapid.IntRange(1, 2).Draw(t, "earlierOpens")
			var hs []kvdb.Store
			for i := 0; i < n; i++ {
				h, err := prod.OpenDB("shared")
				if err != nil {
					t.Fatalf("earlier OpenDB: %v (%s)", err, desc)
				}
				hs = append(hs, h)
			}
			for _, h := range hs {
				if err := h.Close(); err != nil {
					t.Fatalf("earlier Close: %v (%s)", err, desc)
				}
			}
		}
		baseStores := len(under.stores)
		baseCloses := under.closeCalls.Load()

		// the racing first opens
		type res struct {
			h   kvdb.Store
			err error
		}
		results := make(chan res, racers)
		under.setHolding(true)
		for i := 0; i < racers; i++ {
			go func() {
				h, err := prod.OpenDB("shared")
				results <- res{h, err}
			}()
		}
		// Wait until all of them are inside the underlying OpenDB. The bound only shapes the schedule: if a producer
		// serialises first opens, fewer arrive; the claims below do not depend on how many overlapped.
		var releases []chan struct{}
		var early []res
		timeout := time.After(5 * time.Second)
	wait:
		for len(releases)+len(early) < racers {
			select {
			case r := <-under.arrived:
				releases = append(releases, r)
			case r := <-results:
				early = append(early, r) // answered without reaching the underlying producer
			case <-timeout:
				break wait
			}
		}
		overlapped := len(releases)
		under.setHolding(false) // whoever arrives from now on is not held
		var handles []kvdb.Store
		failed := 0
		take := func(r res) {
			if r.err != nil {
				failed++
				return
			}
			if r.h == nil {
				t.Fatalf("OpenDB returned nil, nil (%s)", desc)
			}
			handles = append(handles, r.h)
		}
		for _, r := range early {
			take(r)
		}
		got := len(early)
		for _, r := range releases { // let them go one after the other
			close(r)
			take(<-results)
			got++
		}
	drain:
		for got < racers {
			select {
			case r := <-under.arrived: // arrived after the bound but before holding was switched off
				close(r)
			case r := <-results:
				take(r)
				got++
			}
			continue drain
		}
		if !exclusive && failed != 0 {
			t.Fatalf("%d of %d concurrent first opens failed although the underlying producer opened every database (%s)", failed, racers, desc)
		}
		if len(handles) == 0 {
			t.Fatalf("none of %d concurrent first opens succeeded (%s)", racers, desc)
		}
		if c := under.closeCalls.Load() - baseCloses; c != 0 {
			t.Fatalf("%d underlying Close call(s) during the opens (%s)", c, desc)
		}
		// later opens: the name is open, they overlap with each other and with the first ones
		var later []kvdb.Store
		for i := 0; i < extra; i++ {
			h, err := prod.OpenDB("shared")
			if err != nil {
				t.Fatalf("OpenDB of the name while %d open(s) of it are held: %v (%s)", len(handles), err, desc)
			}
			later = append(later, h)
			if h != later[0] {
				t.Fatalf("two later opens of the name (both still open) returned different stores (%s)", desc)
			}
			handles = append(handles, h)
		}
		// (with one single successful first open everything that follows must be that same store)
		if len(handles)-extra == 1 && extra > 0 && later[0] != handles[0] {
			t.Fatalf("an open of the name returned a different store than the only earlier open, which is not closed (%s)", desc)
		}

		// close every open, in a drawn order
		order := rapid.Permutation(seq(len(handles))).Draw(t, "closeOrder")
		usedAfterClose := func() int32 {
			var u int32
			for _, s := range under.stores[baseStores:] {
				u += s.usedAfterClose.Load()
			}
			return u
		}
		for k, idx := range order {
			h := handles[idx]
			if err := h.Put([]byte{byte(idx)}, []byte{byte(k)}); err != nil {
				t.Fatalf("Put through open #%d, not closed yet: %v (%s, close order %v)", idx+1, err, desc, order)
			}
			if u := usedAfterClose(); u != 0 {
				t.Fatalf("open #%d is not closed yet but its underlying database is closed already (after %d of %d closes; %s, close order %v)", idx+1, k, len(handles), desc, order)
			}
			before := under.closeCalls.Load()
			if err := h.Close(); err != nil {
				t.Fatalf("Close #%d of %d successful opens (open #%d) returned: %v (%s, close order %v)", k+1, len(handles), idx+1, err, desc, order)
			}
			d := under.closeCalls.Load() - before
			if k < len(order)-1 && d != 0 {
				t.Fatalf("Close #%d of %d made %d underlying Close call(s) while %d open(s) are not closed (%s, close order %v)", k+1, len(handles), d, len(handles)-k-1, desc, order)
			}
			if k == len(order)-1 && d != 1 {
				t.Fatalf("the last Close (%d opens) made %d underlying Close calls, want 1 (%s, close order %v)", len(handles), d, desc, order)
			}
		}
		over := rapid.Bool().Draw(t, "oneCloseTooMany")
		if over {
			idx := rapid.IntRange(0, len(handles)-1).Draw(t, "overClosedHandle")
			before := under.closeCalls.Load()
			if err := handles[idx].Close(); err == nil {
				t.Fatalf("Close #%d for %d opens returned no error (%s, close order %v)", len(handles)+1, len(handles), desc, order)
			}
			if d := under.closeCalls.Load() - before; d != 0 {
				t.Fatalf("Close #%d for %d opens made %d underlying Close call(s) (%s)", len(handles)+1, len(handles), d, desc)
			}
		}
		for i, s := range under.stores {
			if c := s.closes.Load(); c > 1 {
				t.Fatalf("underlying database #%d of %d was closed %d times (%s, close order %v)", i+1, len(under.stores), c, desc, order)
			}
		}
		stFirst.Case(stats.Hash(desc, order, over), overlapped >= 2,
			fmt.Sprintf("inside_underlying_open_at_once_%d", overlapped),
			fmt.Sprintf("successful_first_opens_%d", len(handles)-extra),
			fmt.Sprintf("underlying_dbs_opened_%d", len(under.stores)-baseStores),
			fmt.Sprintf("later_opens_%d", extra),
			map[bool]string{true: "exclusive_backend", false: "permissive_backend"}[exclusive],
			map[bool]string{true: "reopen_after_full_close", false: "very_first_open"}[afterFullClose],
			map[bool]string{true: "with_overclose", false: "without_overclose"}[over])
		stFirst.Sample(func() interface{} {
			return map[string]interface{}{"case": desc, "close_order": order, "one_close_too_many": over, "inside_underlying_open_at_once": overlapped}
		})
	})
}

func seq(n int) []int {
	r := make([]int, n)
	for i := range r {
		r[i] = i
	}
	return r
}
