package c27

import (
	"fmt"
	"sync"
	"sync/atomic"
	"testing"

	"github.com/Fantom-foundation/lachesis-base/kvdb"
	"github.com/Fantom-foundation/lachesis-base/kvdb/cachedproducer"
	"github.com/Fantom-foundation/lachesis-base/kvdb/memorydb"
	"pgregory.net/rapid"

	"verif/harness/internal/stats"
)

var stGated = stats.New("open_during_slow_close")

// gatedStore is an underlying store whose Close can be held at a gate (a slow close: flushing files, releasing a
// lock), with atomic counters.
type gatedStore struct {
	kvdb.Store
	closes, drops, usedAfterClose atomic.Int32
	closed                        atomic.Bool
	gate                          chan struct{} // nil = Close returns at once
	entered                       chan struct{}
}

func (s *gatedStore) Close() error {
	if s.closes.Add(1) == 1 && s.gate != nil { // only the first Close call is slow
		s.entered <- struct{}{}
		<-s.gate
	}
	s.closed.Store(true)
	return nil
}
func (s *gatedStore) Drop() { s.drops.Add(1) }
func (s *gatedStore) Put(k, v []byte) error {
	if s.closed.Load() {
		s.usedAfterClose.Add(1)
	}
	return s.Store.Put(k, v)
}

type gatedProducer struct {
	mu       sync.Mutex
	stores   []*gatedStore
	gateNext bool
}

func (p *gatedProducer) OpenDB(name string) (kvdb.Store, error) {
	p.mu.Lock()
	defer p.mu.Unlock()
	s := &gatedStore{Store: memorydb.New()}
	if p.gateNext {
		s.gate, s.entered = make(chan struct{}), make(chan struct{}, 1)
		p.gateNext = false
	}
	p.stores = append(p.stores, s)
	return s, nil
}
func (p *gatedProducer) Names() []string                                  { return nil }
func (p *gatedProducer) NotFlushedSizeEst() int                           { return 0 }
func (p *gatedProducer) Flush([]byte) error                               { return nil }
func (p *gatedProducer) Initialize(_ []string, id []byte) ([]byte, error) { return id, nil }
func (p *gatedProducer) Close() error                                     { return nil }

// TestC27OpenDuringSlowClose: the harness owns the schedule. The last holder of a shared store closes it and the
// underlying Close is slow (held at a gate); meanwhile other callers open the same name, use what they got and
// close it, before or after the slow Close finishes (drawn). Whatever the caching producer hands out must be backed
// by a database that is not closed before the last of its holders closed it, and every underlying database is
// closed exactly once.
func TestC27OpenDuringSlowClose(t *testing.T) {
	rapid.Check(t, func(t *rapid.T) {
		all := rapid.Bool().Draw(t, "wrapAll")
		holders := rapid.IntRange(1, 3).Draw(t, "holders")
		late := rapid.IntRange(1, 3).Draw(t, "opensDuringClose")
		closeLateBeforeGate := rapid.Bool().Draw(t, "lateHoldersCloseBeforeTheSlowCloseEnds")
		under := &gatedProducer{gateNext: true}
		var prod kvdb.DBProducer
		if all {
			prod = cachedproducer.WrapAll(under)
		} else {
			prod = cachedproducer.Wrap(under)
		}
		hs := make([]kvdb.Store, holders)
		for i := range hs {
			h, err := prod.OpenDB("shared")
			if err != nil {
				t.Fatalf("OpenDB: %v", err)
			}
			hs[i] = h
		}
		for _, h := range hs[:holders-1] {
			if err := h.Close(); err != nil {
				t.Fatalf("Close: %v", err)
			}
		}
		first := under.stores[0]
		done := make(chan error, 1)
		go func() { done <- hs[holders-1].Close() }()
		<-first.entered // the last Close is now inside the underlying Close
		lateStores := make([]kvdb.Store, late)
		for i := range lateStores {
			h, err := prod.OpenDB("shared")
			if err != nil {
				t.Fatalf("OpenDB during the slow close: %v", err)
			}
			lateStores[i] = h
			if err := h.Put([]byte{byte(i)}, []byte{1}); err != nil {
				t.Fatalf("Put on a store opened during the slow close: %v", err)
			}
		}
		for i := 1; i < late; i++ {
			if lateStores[i] != lateStores[0] {
				t.Fatalf("opens #1 and #%d of the same name (both still open) returned different stores", i+1)
			}
		}
		closeLate := func() {
			for i, h := range lateStores {
				if err := h.Put([]byte{0xf0, byte(i)}, []byte{2}); err != nil {
					t.Fatalf("Put on a store that its holder has not closed yet: %v", err)
				}
				if err := h.Close(); err != nil {
					t.Fatalf("Close of late open #%d: %v", i+1, err)
				}
			}
		}
		if closeLateBeforeGate {
			closeLate()
		}
		close(first.gate)
		if err := <-done; err != nil {
			t.Fatalf("the last Close of the first holders: %v", err)
		}
		if !closeLateBeforeGate {
			closeLate()
		}
		for i, s := range under.stores {
			if c := s.closes.Load(); c != 1 {
				t.Fatalf("underlying database #%d of %d was closed %d times (holders %d, opens during the slow close %d, closed before it ended: %v)",
					i+1, len(under.stores), c, holders, late, closeLateBeforeGate)
			}
			if u := s.usedAfterClose.Load(); u != 0 {
				t.Fatalf("underlying database #%d was written %d times after it had been closed although a holder of it had not closed it yet", i+1, u)
			}
		}
		stGated.Case(stats.Hash(all, holders, late, closeLateBeforeGate), true, fmt.Sprintf("opens_during_close_%d", late), fmt.Sprintf("underlying_dbs_%d", len(under.stores)))
		stGated.Sample(func() interface{} {
			return map[string]interface{}{"wrapAll": all, "holders": holders, "opens_during_slow_close": late, "late_holders_close_before_it_ends": closeLateBeforeGate}
		})
	})
}
