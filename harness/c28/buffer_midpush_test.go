package c28

import (
	"fmt"
	"strings"
	"testing"

	"github.com/Fantom-foundation/lachesis-base/gossip/dagordering"
	"github.com/Fantom-foundation/lachesis-base/hash"
	"github.com/Fantom-foundation/lachesis-base/inter/dag"
	"github.com/Fantom-foundation/lachesis-base/inter/idx"
	"github.com/anishathalye/porcupine"
	"pgregory.net/rapid"

	"verif/harness/internal/stats"
)

// knownBufKey: EventsBuffer.Total()/IsBuffered() read the cache of incomplete events without the
// buffer mutex; a call that overlaps PushEvent/Clear can see a state between the two linearization
// points of that call (recorded known finding, see /verif/known_findings.txt).
const knownBufKey = "C28:buffer-total-isbuffered-overlap-push"

var stMid = stats.New("buffer_midpush")

// TestC28BufferMidPushRead builds the schedule deterministically instead of waiting for the
// scheduler: children of e0 are buffered, goroutine A pushes e0, and from inside the j-th Process
// callback (a point strictly inside A's PushEvent) goroutine B is released, performs Total() /
// IsBuffered() calls and finishes before the callback returns. B's calls are ordinary concurrent
// calls whose intervals lie inside the PushEvent interval; the history must be linearizable
// against the sequential buffer model (every read sees the state before or after the push).
func TestC28BufferMidPushRead(t *testing.T) {
	rapid.Check(t, func(t *rapid.T) {
		w := &bWorld{n: rapid.IntRange(2, 5).Draw(t, "events")}
		for i := 0; i < w.n; i++ {
			w.size[i] = 1 << uint(i)
			var ps hash.Events
			if i > 0 {
				// every later event descends from e0: nothing completes before e0 arrives
				for _, p := range rapid.SliceOfNDistinct(rapid.IntRange(0, i-1), 1, 2, rapid.ID[int]).Draw(t, "parents") {
					w.parents[i] |= 1 << uint(p)
					ps = append(ps, w.events[p].ID())
				}
				if rapid.IntRange(0, 7).Draw(t, "phantom") == 0 {
					w.phantom[i] = true
					var ph tEvent
					ph.SetEpoch(1)
					ph.SetLamport(1000)
					ph.SetID([24]byte{0xee, byte(i)})
					ps = append(ps, ph.ID())
				}
			}
			e := &tEvent{size: w.size[i], i: i}
			e.SetEpoch(1)
			e.SetSeq(idx.Event(i + 1))
			e.SetLamport(idx.Lamport(i + 1))
			e.SetParents(ps)
			e.SetID([24]byte{byte(i + 1)})
			w.events[i] = e
		}
		w.limN, w.limS = w.n, 1<<uint(w.n)
		order := rapid.Permutation(seq(1, w.n-1)).Draw(t, "arrival")
		trigger := rapid.IntRange(0, w.n-1).Draw(t, "observeDuringProcessCall")
		var reads []bIn
		for i, n := 0, rapid.IntRange(1, 3).Draw(t, "nreads"); i < n; i++ {
			if rapid.Bool().Draw(t, "total") {
				reads = append(reads, bIn{Op: bTotal})
			} else {
				reads = append(reads, bIn{Op: bIsBuffered, Ev: rapid.IntRange(1, w.n-1).Draw(t, "ev")})
			}
		}

		h := &bHarness{w: w, ctx: &runCtx{}, conn: map[hash.Event]dag.Event{}, relCount: map[string]int{},
			cur: 0, proc: make([][]string, 1), rel: make([][]string, 1)}
		cbs := h.callbacks(false)
		process := cbs.Process
		calls := 0
		during := ""
		release, done := make(chan struct{}), make(chan struct{})
		triggered := false
		cbs.Process = func(e dag.Event) error {
			err := process(e)
			if calls == trigger {
				triggered = true
				during = fmt.Sprintf("Process(e%d)", e.(*tEvent).i)
				close(release) // B runs now ...
				<-done         // ... and has returned from all its calls before PushEvent continues
			}
			calls++
			return err
		}
		h.buf = dagordering.New(dag.Metric{Num: idx.Event(w.limN), Size: uint64(w.limS)}, cbs)

		state := bState{}
		tag := 0
		for _, ev := range order {
			tag++
			in := bIn{Op: bPush, Ev: ev, Tag: tag}
			got := h.exec(0, in)
			var want bOut
			state, want = w.step(state, in)
			if got != want {
				t.Fatalf("sequential setup: %s returned %s, model %s", in, got, want)
			}
		}
		init := state
		calls = 0

		// goroutine B
		type rd struct {
			out       bOut
			call, ret int64
		}
		obs := make([]rd, len(reads))
		go func() {
			<-release
			for i, in := range reads {
				obs[i].call = now()
				switch in.Op {
				case bTotal:
					m := h.buf.Total()
					obs[i].out.Num, obs[i].out.Size = int(m.Num), int(m.Size)
				case bIsBuffered:
					obs[i].out.OK = h.buf.IsBuffered(w.events[in.Ev].ID())
				}
				obs[i].ret = now()
			}
			close(done)
		}()
		// goroutine A (this one)
		tag++
		push := bIn{Op: bPush, Ev: 0, Tag: tag}
		pc := now()
		pout := h.exec(0, push)
		pr := now()
		if !triggered {
			close(release) // fewer Process calls than drawn: B reads after the push
			<-done
		}

		var hops []hop
		ops := []porcupine.Operation{{ClientId: 0, Input: push, Output: pout, Call: pc, Return: pr}}
		hops = append(hops, hop{G: 0, I: 0, Kind: "PushEvent", Res: "*", Desc: push.String(), Out: pout.String(), Call: pc, Ret: pr})
		for i, in := range reads {
			ops = append(ops, porcupine.Operation{ClientId: 1, Input: in, Output: obs[i].out, Call: obs[i].call, Return: obs[i].ret})
			hops = append(hops, hop{G: 1, I: i, Kind: bNames[in.Op], Res: "*", Desc: in.String(), Out: obs[i].out.String(), Call: obs[i].call, Ret: obs[i].ret})
		}
		// final read-out
		for _, in := range []bIn{{Op: bTotal}, {Op: bClear}, {Op: bTotal}} {
			c := now()
			out := h.exec(0, in)
			r := now()
			ops = append(ops, porcupine.Operation{ClientId: 2, Input: in, Output: out, Call: c, Return: r})
			hops = append(hops, hop{G: -1, Kind: "final", Res: "-", Desc: in.String(), Out: out.String(), Call: c, Ret: r})
		}
		describe := func() string {
			var sb strings.Builder
			for i := 0; i < w.n; i++ {
				fmt.Fprintf(&sb, "  e%d: size=%d parents=%b phantomParent=%v\n", i, w.size[i], w.parents[i], w.phantom[i])
			}
			return formatHistory(fmt.Sprintf("ordering buffer, reads of goroutine g1 made during %s inside g0's PushEvent(e0); buffered before the push (arrival order) %v\n%s",
				during, order, sb.String()), [][]string{{push.String()}, {fmt.Sprint(reads)}}, hops, "")
		}
		if len(h.viol) > 0 {
			failHistory(t, "ordering contract violated: "+strings.Join(h.viol, "; ")+"\n"+describe())
		}
		model := porcupine.Model{
			Init: func() interface{} { return init },
			Step: func(st, in, out interface{}) (bool, interface{}) {
				ns, want := w.step(st.(bState), in.(bIn))
				return want == out.(bOut), ns
			},
		}
		cls := []string{"reads_after_push"}
		if triggered {
			cls = []string{"reads_inside_push"}
		}
		switch porcupine.CheckOperationsTimeout(model, ops, linTimeout) {
		case porcupine.Ok:
		case porcupine.Unknown:
			stMid.Inconclusive()
		default:
			bn, bs := w.total(init)
			var got []string
			for i, in := range reads {
				got = append(got, in.String()+"="+strings.TrimSpace(obs[i].out.String()))
			}
			witness := fmt.Sprintf("%d events buffered (Total {%d,%d}), PushEvent(e0) completes them; a concurrent goroutine calling during %s got %s; no order of the atomic calls explains it",
				int(init.N), bn, bs, during, strings.Join(got, ", "))
			if !stMid.Known(knownBufKey, witness) {
				failHistory(t, "history is NOT linearizable (Total/IsBuffered overlapping PushEvent)\n"+describe())
			}
			cls = append(cls, "intermediate_state_observed")
		}
		stMid.Case(stats.Hash(w.n, w.parents, w.phantom, order, trigger, reads), triggered, cls...)
		stMid.Sample(func() interface{} {
			return map[string]interface{}{"events": w.n, "parents": w.parents[:w.n], "arrival": order, "observe_during_process_call": trigger, "reads": fmt.Sprint(reads)}
		})
	})
}

func seq(lo, hi int) []int {
	var s []int
	for i := lo; i <= hi; i++ {
		s = append(s, i)
	}
	return s
}
