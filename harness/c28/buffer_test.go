package c28

import (
	"fmt"
	"math/bits"
	"sort"
	"strings"
	"sync"
	"testing"

	"github.com/Fantom-foundation/lachesis-base/eventcheck"
	"github.com/Fantom-foundation/lachesis-base/gossip/dagordering"
	"github.com/Fantom-foundation/lachesis-base/hash"
	"github.com/Fantom-foundation/lachesis-base/inter/dag"
	"github.com/Fantom-foundation/lachesis-base/inter/idx"
	"github.com/anishathalye/porcupine"
	"pgregory.net/rapid"

	"verif/harness/internal/stats"
)

// ---------------------------------------------------------------------------------------------
// sequential contract of the ordering buffer with Process always succeeding (from the C14
// statement): a pushed event whose parents are all connected is processed at once, and then every
// buffered event whose parents became connected (transitively); a copy of a buffered event is
// released as duplicate, a copy of a connected event as already connected; otherwise the event is
// buffered and the oldest buffered events are spilled until both limits hold; Clear spills all.
// Every copy is released exactly once, tagged by its peer string.

const bMaxEv = 8

type tEvent struct {
	dag.MutableBaseEvent
	size int
	i    int
}

func (e *tEvent) Size() int { return e.size }

type bEnt struct {
	Ev  int8
	Tag int16
}

type bState struct {
	Conn uint16
	N    int8
	Buf  [bMaxEv]bEnt // oldest first
}

type bWorld struct {
	n       int
	parents [bMaxEv]uint16 // bitmask of parent events
	phantom [bMaxEv]bool   // has a parent that never arrives
	size    [bMaxEv]int
	limN    int
	limS    int
	events  [bMaxEv]*tEvent
}

const (
	bPush = iota
	bClear
	bIsBuffered
	bTotal
)

var bNames = [...]string{"PushEvent", "Clear", "IsBuffered", "Total"}

type bIn struct {
	Op  int
	Ev  int
	Tag int
}

func (in bIn) String() string {
	switch in.Op {
	case bPush:
		return fmt.Sprintf("PushEvent(e%d,peer=t%d)", in.Ev, in.Tag)
	case bIsBuffered:
		return fmt.Sprintf("IsBuffered(e%d)", in.Ev)
	}
	return bNames[in.Op] + "()"
}

type bOut struct {
	OK        bool   // complete / buffered
	Processed string // sorted event indexes processed during the call
	Released  string // sorted "t<tag>:<class>" released during the call
	Num       int
	Size      int
}

func (o bOut) String() string {
	return fmt.Sprintf("{ok=%v processed=[%s] released=[%s] total={%d,%d}}", o.OK, o.Processed, o.Released, o.Num, o.Size)
}

func (s bState) find(ev int) int {
	for i := 0; i < int(s.N); i++ {
		if int(s.Buf[i].Ev) == ev {
			return i
		}
	}
	return -1
}

func (s *bState) removeAt(i int) bEnt {
	e := s.Buf[i]
	copy(s.Buf[i:], s.Buf[i+1:int(s.N)])
	s.N--
	s.Buf[s.N] = bEnt{}
	return e
}

func (w *bWorld) total(s bState) (int, int) {
	sz := 0
	for i := 0; i < int(s.N); i++ {
		sz += w.size[s.Buf[i].Ev]
	}
	return int(s.N), sz
}

func (w *bWorld) complete(s bState, ev int) bool {
	return !w.phantom[ev] && w.parents[ev]&^s.Conn == 0
}

func relStr(tag int, class string) string { return fmt.Sprintf("t%d:%s", tag, class) }

func (w *bWorld) step(s bState, in bIn) (bState, bOut) {
	var out bOut
	var processed, released []string
	switch in.Op {
	case bPush:
		switch {
		case s.find(in.Ev) >= 0:
			released = append(released, relStr(in.Tag, "dup"))
		case s.Conn&(1<<uint(in.Ev)) != 0:
			released = append(released, relStr(in.Tag, "connected"))
		case w.complete(s, in.Ev):
			out.OK = true
			s.Conn |= 1 << uint(in.Ev)
			processed = append(processed, fmt.Sprint(in.Ev))
			released = append(released, relStr(in.Tag, "ok"))
			for again := true; again; {
				again = false
				for i := 0; i < int(s.N); i++ {
					if w.complete(s, int(s.Buf[i].Ev)) {
						e := s.removeAt(i)
						s.Conn |= 1 << uint(e.Ev)
						processed = append(processed, fmt.Sprint(e.Ev))
						released = append(released, relStr(int(e.Tag), "ok"))
						again = true
						break
					}
				}
			}
		default:
			s.Buf[s.N] = bEnt{Ev: int8(in.Ev), Tag: int16(in.Tag)}
			s.N++
			for {
				n, sz := w.total(s)
				if n <= w.limN && sz <= w.limS {
					break
				}
				e := s.removeAt(0)
				released = append(released, relStr(int(e.Tag), "spilled"))
			}
		}
	case bClear:
		for s.N > 0 {
			e := s.removeAt(0)
			released = append(released, relStr(int(e.Tag), "spilled"))
		}
	case bIsBuffered:
		out.OK = s.find(in.Ev) >= 0
	case bTotal:
		out.Num, out.Size = w.total(s)
	}
	sort.Strings(processed)
	sort.Strings(released)
	out.Processed, out.Released = strings.Join(processed, " "), strings.Join(released, " ")
	return s, out
}

// bHarness owns the "connected events" store behind the buffer's callbacks.
type bHarness struct {
	w    *bWorld
	ctx  *runCtx
	buf  *dagordering.EventsBuffer
	mu   sync.Mutex
	conn map[hash.Event]dag.Event
	viol []string

	concurrent bool
	cur        int
	proc       [][]string
	rel        [][]string
	relCount   map[string]int // peer -> releases (under mu)
}

func (h *bHarness) slot() int {
	if h.concurrent {
		return h.ctx.who()
	}
	return h.cur
}

func errClass(err error) string {
	switch err {
	case nil:
		return "ok"
	case eventcheck.ErrDuplicateEvent:
		return "dup"
	case eventcheck.ErrAlreadyConnectedEvent:
		return "connected"
	case eventcheck.ErrSpilledEvent:
		return "spilled"
	}
	return "error(" + err.Error() + ")"
}

func (h *bHarness) callbacks(withCheck bool) dagordering.Callback {
	cb := dagordering.Callback{
		Process: func(e dag.Event) error {
			h.mu.Lock()
			if _, ok := h.conn[e.ID()]; ok {
				h.viol = append(h.viol, fmt.Sprintf("e%d processed twice", e.(*tEvent).i))
			}
			for _, p := range e.Parents() {
				if _, ok := h.conn[p]; !ok {
					h.viol = append(h.viol, fmt.Sprintf("e%d processed before its parent %s is connected", e.(*tEvent).i, p.String()))
				}
			}
			h.conn[e.ID()] = e
			h.mu.Unlock()
			if g := h.slot(); g >= 0 {
				h.proc[g] = append(h.proc[g], fmt.Sprint(e.(*tEvent).i))
			}
			return nil
		},
		Released: func(e dag.Event, peer string, err error) {
			h.mu.Lock()
			h.relCount[peer]++
			h.mu.Unlock()
			if g := h.slot(); g >= 0 {
				h.rel[g] = append(h.rel[g], peer+":"+errClass(err))
			}
		},
		Exists: func(id hash.Event) bool {
			h.mu.Lock()
			defer h.mu.Unlock()
			_, ok := h.conn[id]
			return ok
		},
		Get: func(id hash.Event) dag.Event {
			h.mu.Lock()
			defer h.mu.Unlock()
			if e, ok := h.conn[id]; ok {
				return e
			}
			return nil
		},
	}
	if withCheck {
		cb.Check = func(e dag.Event, parents dag.Events) error {
			ps := e.Parents()
			if len(ps) != len(parents) {
				h.mu.Lock()
				h.viol = append(h.viol, fmt.Sprintf("Check(e%d) got %d parents, want %d", e.(*tEvent).i, len(parents), len(ps)))
				h.mu.Unlock()
				return nil
			}
			for i := range ps {
				if parents[i] == nil || parents[i].ID() != ps[i] {
					h.mu.Lock()
					h.viol = append(h.viol, fmt.Sprintf("Check(e%d) parent %d is wrong", e.(*tEvent).i, i))
					h.mu.Unlock()
				}
			}
			return nil
		}
	}
	return cb
}

func (h *bHarness) exec(g int, in bIn) bOut {
	var out bOut
	h.proc[g] = h.proc[g][:0]
	h.rel[g] = h.rel[g][:0]
	switch in.Op {
	case bPush:
		out.OK = h.buf.PushEvent(h.w.events[in.Ev], fmt.Sprintf("t%d", in.Tag))
	case bClear:
		h.buf.Clear()
	case bIsBuffered:
		out.OK = h.buf.IsBuffered(h.w.events[in.Ev].ID())
	case bTotal:
		m := h.buf.Total()
		out.Num, out.Size = int(m.Num), int(m.Size)
	}
	p := append([]string(nil), h.proc[g]...)
	r := append([]string(nil), h.rel[g]...)
	sort.Strings(p)
	sort.Strings(r)
	out.Processed, out.Released = strings.Join(p, " "), strings.Join(r, " ")
	return out
}

func genWorld(t *rapid.T) *bWorld {
	w := &bWorld{n: rapid.IntRange(3, bMaxEv).Draw(t, "events")}
	for i := 0; i < w.n; i++ {
		w.size[i] = 1 << uint(i) // powers of two: a Total() size identifies the buffered set
		np := 0
		if i > 0 {
			np = rapid.IntRange(0, 2).Draw(t, "nparents")
		}
		var ps hash.Events
		for j := 0; j < np; j++ {
			p := rapid.IntRange(0, i-1).Draw(t, "parent")
			if w.parents[i]&(1<<uint(p)) == 0 {
				w.parents[i] |= 1 << uint(p)
				ps = append(ps, w.events[p].ID())
			}
		}
		if rapid.IntRange(0, 9).Draw(t, "phantom") == 0 {
			w.phantom[i] = true
			var ph tEvent
			ph.SetEpoch(1)
			ph.SetLamport(1000)
			ph.SetID([24]byte{0xee, byte(i)})
			ps = append(ps, ph.ID())
		}
		e := &tEvent{size: w.size[i], i: i}
		e.SetEpoch(1)
		e.SetSeq(idx.Event(i + 1))
		e.SetLamport(idx.Lamport(i + 1))
		e.SetCreator(idx.ValidatorID(i%3 + 1))
		e.SetParents(ps)
		e.SetID([24]byte{byte(i + 1)})
		w.events[i] = e
	}
	all := 0
	for i := 0; i < w.n; i++ {
		all += w.size[i]
	}
	w.limN = rapid.SampledFrom([]int{0, 1, 2, 3, w.n, w.n}).Draw(t, "limitNum")
	w.limS = rapid.SampledFrom([]int{all, all, all, all / 2, all / 4, 5}).Draw(t, "limitSize")
	return w
}

var stBuf = stats.New("buffer")

// TestC28Buffer. Linearizability-checked set: PushEvent and Clear (return value, the events
// processed and the copies released during the call, attributed to the call through the goroutine
// the callbacks run on), IsBuffered and Total. Known finding C28:buffer-total-isbuffered-overlap-push
// (see TestC28BufferMidPushRead): IsBuffered/Total are lock-free reads of the thread-safe cache and
// are not linearizable when they overlap a PushEvent/Clear. While that key is listed in
// known_findings.txt this witness class is excluded by construction: an IsBuffered/Total call
// that overlaps a PushEvent/Clear of another goroutine is taken out of the porcupine history and
// only a weaker contract is checked for it (the pair returned by Total is one consistent snapshot
// of a set of events that were pushed and are not yet connected; IsBuffered(x)=true only for a
// pushed, not yet connected x). When the key is not listed every call is in the porcupine history. Global invariants of C14
// are asserted on the callback log whatever the schedule: parents first, processed at most once,
// every copy released exactly once after the final Clear.
func TestC28Buffer(t *testing.T) {
	rapid.Check(t, func(t *rapid.T) {
		w := genWorld(t)
		withCheck := rapid.Bool().Draw(t, "withCheck")
		tag := 0
		var setup []bIn
		for i, n := 0, rapid.IntRange(0, 4).Draw(t, "ninit"); i < n; i++ {
			tag++
			setup = append(setup, bIn{Op: bPush, Ev: rapid.IntRange(0, w.n-1).Draw(t, "iev"), Tag: tag})
		}
		lens, maxprocs := drawShape(t, 40)
		perts := drawPerts(t, lens)
		bOps := []int{bPush, bPush, bPush, bPush, bPush, bPush, bPush, bIsBuffered, bIsBuffered, bTotal, bTotal, bClear}
		focus := drawFocus(t, bOps)
		progs := make([][]bIn, len(lens))
		descr := make([][]string, len(lens))
		for g := range progs {
			for i := 0; i < lens[g]; i++ {
				in := bIn{Op: pickOp(t, bOps, focus)}
				switch in.Op {
				case bPush:
					tag++
					in.Ev, in.Tag = rapid.IntRange(0, w.n-1).Draw(t, "ev"), tag
				case bIsBuffered:
					in.Ev = rapid.IntRange(0, w.n-1).Draw(t, "ev")
				}
				progs[g] = append(progs[g], in)
				descr[g] = append(descr[g], perts[g][i].String()+" "+in.String())
			}
		}

		h := &bHarness{w: w, ctx: &runCtx{}, conn: map[hash.Event]dag.Event{}, relCount: map[string]int{},
			cur: len(lens), proc: make([][]string, len(lens)+1), rel: make([][]string, len(lens)+1)}
		h.buf = dagordering.New(dag.Metric{Num: idx.Event(w.limN), Size: uint64(w.limS)}, h.callbacks(withCheck))

		state := bState{}
		for _, in := range setup {
			got := h.exec(h.cur, in)
			var want bOut
			state, want = w.step(state, in)
			if got != want {
				t.Fatalf("sequential setup: %s returned %s, model %s", in, got, want)
			}
		}
		init := state

		h.concurrent = true
		res := runConcurrent(h.ctx, maxprocs, lens, perts, func(g, i int) interface{} {
			return h.exec(g, progs[g][i])
		})
		h.concurrent = false

		type mut struct {
			g         int
			call, ret int64
		}
		var muts []mut
		// per event: earliest start of a push; connected-at (return time of the op that processed it)
		firstPush := [bMaxEv]int64{}
		connAt := [bMaxEv]int64{}
		for i := range firstPush {
			firstPush[i], connAt[i] = 1<<62, 1<<62
			if init.find(i) >= 0 {
				firstPush[i] = -1
			}
			if init.Conn&(1<<uint(i)) != 0 {
				connAt[i] = -1
			}
		}
		var hops []hop
		for g := range progs {
			for i, in := range progs[g] {
				s := res.stamps[g][i]
				if s.Out == nil {
					continue
				}
				out := s.Out.(bOut)
				rs := "*"
				if in.Op == bIsBuffered {
					rs = fmt.Sprintf("e%d", in.Ev)
				}
				hops = append(hops, hop{G: g, I: i, Kind: bNames[in.Op], Res: rs, Desc: in.String(), Out: out.String(), Call: s.Call, Ret: s.Ret})
				if in.Op == bPush || in.Op == bClear {
					muts = append(muts, mut{g, s.Call, s.Ret})
				}
				if in.Op == bPush && s.Call < firstPush[in.Ev] {
					firstPush[in.Ev] = s.Call
				}
				for _, p := range strings.Fields(out.Processed) {
					var e int
					fmt.Sscan(p, &e)
					if s.Ret < connAt[e] {
						connAt[e] = s.Ret
					}
				}
			}
		}
		var ops []porcupine.Operation
		weak, weakProblem := 0, ""
		for g := range progs {
			for i, in := range progs[g] {
				s := res.stamps[g][i]
				if s.Out == nil {
					continue
				}
				out := s.Out.(bOut)
				if in.Op == bIsBuffered || in.Op == bTotal {
					overl := false
					for _, m := range muts {
						if m.g != g && m.call <= s.Ret && s.Call <= m.ret {
							overl = true
						}
					}
					if overl && stBuf.Known(knownBufKey, "a Total()/IsBuffered() call overlapping PushEvent/Clear is kept out of the linearizability-checked set (weaker snapshot contract applied instead)") {
						weak++
						switch in.Op {
						case bIsBuffered:
							if out.OK && (firstPush[in.Ev] > s.Ret || connAt[in.Ev] < s.Call) {
								weakProblem = fmt.Sprintf("g%d#%d %s = true, but the event was not pushed before the call returned or was connected before the call", g, i, in)
							}
						case bTotal:
							if out.Size < 0 || out.Size >= 1<<uint(w.n) || bits.OnesCount(uint(out.Size)) != out.Num {
								weakProblem = fmt.Sprintf("g%d#%d Total() = {%d,%d} is not the (count, size) of any set of events", g, i, out.Num, out.Size)
								break
							}
							for e := 0; e < w.n; e++ {
								if out.Size&(1<<uint(e)) != 0 && (firstPush[e] > s.Ret || connAt[e] < s.Call) {
									weakProblem = fmt.Sprintf("g%d#%d Total() = {%d,%d} counts e%d which was not pushed yet or was connected before the call", g, i, out.Num, out.Size, e)
								}
							}
						}
						continue
					}
				}
				ops = append(ops, porcupine.Operation{ClientId: g, Input: in, Output: out, Call: s.Call, Return: s.Ret})
			}
		}
		// final sequential phase
		final := []bIn{{Op: bTotal}}
		for e := 0; e < w.n; e++ {
			final = append(final, bIn{Op: bIsBuffered, Ev: e})
		}
		final = append(final, bIn{Op: bClear}, bIn{Op: bTotal})
		var finalTotal bOut
		if len(res.panics) == 0 {
			for j, in := range final {
				c := now()
				out := h.exec(h.cur, in)
				r := now()
				if j == 0 {
					finalTotal = out
				}
				hops = append(hops, hop{G: -1, Kind: "final", Res: "-", Desc: in.String(), Out: out.String(), Call: c, Ret: r})
				ops = append(ops, porcupine.Operation{ClientId: len(lens), Input: in, Output: out, Call: c, Return: r})
			}
		}
		describe := func() string {
			var sb strings.Builder
			for i := 0; i < w.n; i++ {
				fmt.Fprintf(&sb, "  e%d: size=%d parents=%b phantomParent=%v\n", i, w.size[i], w.parents[i], w.phantom[i])
			}
			return formatHistory(fmt.Sprintf("ordering buffer limit={%d,%d} check=%v GOMAXPROCS=%d initial=%+v\n%s", w.limN, w.limS, withCheck, maxprocs, init, sb.String()), descr, hops, "")
		}
		if len(res.panics) > 0 {
			failHistory(t, "panic in a concurrent program: "+strings.Join(res.panics, "\n")+"\n"+describe())
		}
		if h.ctx.foreign > 0 {
			failHistory(t, "callback on a foreign goroutine\n"+describe())
		}
		if len(h.viol) > 0 {
			failHistory(t, "ordering contract violated: "+strings.Join(h.viol, "; ")+"\n"+describe())
		}
		if weakProblem != "" {
			failHistory(t, "lock-free accessor contract violated: "+weakProblem+"\n"+describe())
		}
		if finalTotal.Num > w.limN || finalTotal.Size > w.limS {
			failHistory(t, fmt.Sprintf("buffer holds %d events / %d bytes at rest, above its limits\n%s", finalTotal.Num, finalTotal.Size, describe()))
		}
		for tg := 1; tg <= tag; tg++ {
			if n := h.relCount[fmt.Sprintf("t%d", tg)]; n != 1 {
				failHistory(t, fmt.Sprintf("copy t%d released %d times by the final Clear\n%s", tg, n, describe()))
			}
		}
		model := porcupine.Model{
			Init: func() interface{} { return init },
			Step: func(st, in, out interface{}) (bool, interface{}) {
				ns, want := w.step(st.(bState), in.(bIn))
				return want == out.(bOut), ns
			},
		}
		checkLin(t, stBuf, model, ops, describe)

		nt, nov := analyse(stBuf, "buffer", hops)
		cls := []string{fmt.Sprintf("goroutines_%d", len(lens)), fmt.Sprintf("gomaxprocs_%d", maxprocs)}
		if nt {
			cls = append(cls, "overlapping", fmt.Sprintf("overlapping_mp%d", maxprocs))
		}
		if nov >= 5 {
			cls = append(cls, "overlaps_ge5")
		}
		if weak > 0 {
			cls = append(cls, "accessor_overlapping_mutator")
		}
		cascade, spilled := false, false
		for _, o := range hops {
			if strings.Contains(o.Out, "spilled") && o.Kind == "PushEvent" {
				spilled = true
			}
			if o.Kind == "PushEvent" && strings.Count(o.Out[strings.Index(o.Out, "processed=["):strings.Index(o.Out, "] released")], " ") >= 1 {
				cascade = true
			}
		}
		if cascade {
			cls = append(cls, "cascade")
		}
		if spilled {
			cls = append(cls, "spill_on_push")
		}
		stBuf.Case(stats.Hash(w.n, w.parents, w.phantom, w.limN, w.limS, withCheck, setup, progs), nt, cls...)
		stBuf.Sample(func() interface{} {
			return map[string]interface{}{"events": w.n, "limit": []int{w.limN, w.limS}, "gomaxprocs": maxprocs, "programs": descr, "overlapping_pairs": nov}
		})
	})
}
