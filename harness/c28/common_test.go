// C28: thread-safe components are race free and linearizable.
//
// Shared machinery: concurrent program runner with call/return stamps, scheduler perturbation,
// goroutine attribution of callbacks, overlap statistics and the porcupine check.
package c28

import (
	"fmt"
	"os"
	"runtime"
	"sort"
	"strings"
	"sync"
	"sync/atomic"
	"testing"
	"time"

	"github.com/anishathalye/porcupine"
	"pgregory.net/rapid"

	"verif/harness/internal/stats"
)

func TestMain(m *testing.M) {
	code := m.Run()
	flushPairs()
	stats.Flush()
	os.Exit(code)
}

// ---------------------------------------------------------------------------------------------
// time stamps: CLOCK_MONOTONIC readings. Deliberately NOT an atomic counter: an atomic shared by
// all goroutines would add happens-before edges between the end of one operation and the start
// of the next one on another goroutine and hide unlocked accesses from the race detector.

var base = time.Now()

func now() int64 { return int64(time.Since(base)) }

// ---------------------------------------------------------------------------------------------
// scheduler perturbation

type pert struct {
	Kind int // 0 none, 1 Gosched, 2 spin N, 3 sleep N microseconds
	N    int
}

func (p pert) String() string {
	switch p.Kind {
	case 1:
		return "yield"
	case 2:
		return fmt.Sprintf("spin%d", p.N)
	case 3:
		return fmt.Sprintf("sleep%dus", p.N)
	}
	return "-"
}

func genPert() *rapid.Generator[pert] {
	return rapid.Custom(func(t *rapid.T) pert {
		switch rapid.IntRange(0, 9).Draw(t, "pert") {
		case 0, 1, 2, 3:
			return pert{}
		case 4, 5, 6:
			return pert{Kind: 1}
		case 7, 8:
			return pert{Kind: 2, N: rapid.IntRange(1, 3000).Draw(t, "spin")}
		default:
			// a real sleep costs about 1 ms on this platform whatever its nominal length: keep it rare
			if rapid.IntRange(0, 5).Draw(t, "sleep") == 0 {
				return pert{Kind: 3, N: rapid.IntRange(1, 30).Draw(t, "us")}
			}
			return pert{Kind: 2, N: rapid.IntRange(1000, 30000).Draw(t, "longspin")}
		}
	})
}

func (p pert) do(sink *uint64) {
	switch p.Kind {
	case 1:
		runtime.Gosched()
	case 2:
		x := *sink
		for i := 0; i < p.N; i++ {
			x = x*6364136223846793005 + 1442695040888963407
		}
		*sink = x
	case 3:
		time.Sleep(time.Duration(p.N) * time.Microsecond)
	}
}

// ---------------------------------------------------------------------------------------------
// goroutine identity (to attribute callbacks, which the components invoke synchronously on the
// calling goroutine, to the operation that triggered them)

func curGID() uint64 {
	var b [64]byte
	n := runtime.Stack(b[:], false)
	// "goroutine 123 [running]:..."
	s := b[:n]
	const p = len("goroutine ")
	var id uint64
	for i := p; i < len(s) && s[i] >= '0' && s[i] <= '9'; i++ {
		id = id*10 + uint64(s[i]-'0')
	}
	return id
}

// ---------------------------------------------------------------------------------------------
// runner

type stamp struct {
	Call, Ret int64
	Out       interface{}
}

type runCtx struct {
	gidOf   map[uint64]int // read-only while the programs run
	foreign int32          // callbacks seen on an unknown goroutine
}

// who returns the index of the program goroutine we are on, or -1.
func (c *runCtx) who() int {
	if g, ok := c.gidOf[curGID()]; ok {
		return g
	}
	atomic.AddInt32(&c.foreign, 1)
	return -1
}

type runResult struct {
	stamps [][]stamp
	panics []string
}

// persistent worker goroutines: creating goroutines under the race detector is expensive, and fixed
// workers give fixed goroutine ids for the attribution of callbacks
const maxWorkers = 8

var (
	workerOnce sync.Once
	workerCh   [maxWorkers]chan func()
	workerGID  [maxWorkers]uint64
	workerMap  map[uint64]int
)

func startWorkers() {
	var ready sync.WaitGroup
	ready.Add(maxWorkers)
	for w := 0; w < maxWorkers; w++ {
		workerCh[w] = make(chan func())
		go func(w int) {
			workerGID[w] = curGID()
			ready.Done()
			for f := range workerCh[w] {
				f()
			}
		}(w)
	}
	ready.Wait()
	workerMap = make(map[uint64]int, maxWorkers)
	for w, id := range workerGID {
		workerMap[id] = w
	}
}

// runConcurrent runs len(lens) goroutines; goroutine g executes exec(g, i) for i < lens[g] with
// perts[g][i] before each operation. All goroutines are released together (barrier).
func runConcurrent(ctx *runCtx, maxprocs int, lens []int, perts [][]pert, exec func(g, i int) interface{}) runResult {
	workerOnce.Do(startWorkers)
	if old := runtime.GOMAXPROCS(0); old != maxprocs {
		runtime.GOMAXPROCS(maxprocs)
	}
	n := len(lens)
	res := runResult{stamps: make([][]stamp, n)}
	sinks := make([]uint64, n*8)
	var done sync.WaitGroup
	done.Add(n)
	var arrived int32
	var pmu sync.Mutex
	ctx.gidOf = workerMap
	for g := 0; g < n; g++ {
		res.stamps[g] = make([]stamp, lens[g])
		g := g
		workerCh[g] <- func() {
			defer done.Done()
			// barrier: start the programs together (measured: a tighter clock-based barrier does
			// not increase the overlap; OS scheduling dominates)
			atomic.AddInt32(&arrived, 1)
			for atomic.LoadInt32(&arrived) < int32(n) {
				runtime.Gosched()
			}
			defer func() {
				if r := recover(); r != nil {
					buf := make([]byte, 4096)
					buf = buf[:runtime.Stack(buf, false)]
					pmu.Lock()
					res.panics = append(res.panics, fmt.Sprintf("goroutine %d panicked: %v\n%s", g, r, buf))
					pmu.Unlock()
				}
			}()
			my := res.stamps[g]
			for i := range my {
				perts[g][i].do(&sinks[g*8])
				my[i].Call = now()
				out := exec(g, i)
				my[i].Ret = now()
				my[i].Out = out
			}
		}
	}
	done.Wait()
	return res
}

// drawShape draws the number of goroutines (2-8), the operations per goroutine (total <= maxOps)
// and GOMAXPROCS.
func drawShape(t *rapid.T, maxOps int) (lens []int, maxprocs int) {
	n := rapid.IntRange(2, 8).Draw(t, "goroutines")
	per := maxOps / n
	if per > 8 {
		per = 8
	}
	lens = make([]int, n)
	for g := range lens {
		lens[g] = rapid.IntRange(1, per).Draw(t, "nops")
	}
	maxprocs = rapid.SampledFrom([]int{2, 4, 16}).Draw(t, "gomaxprocs")
	return
}

// drawPerts draws the perturbation points. Three styles per case: burst (no perturbation at all:
// maximal contention on the component's lock), yields only, and the full mix.
func drawPerts(t *rapid.T, lens []int) [][]pert {
	style := rapid.SampledFrom([]int{0, 0, 0, 1, 1, 2, 2, 2, 2}).Draw(t, "pertStyle")
	res := make([][]pert, len(lens))
	for g, n := range lens {
		res[g] = make([]pert, n)
		for i := range res[g] {
			switch style {
			case 0:
			case 1:
				if rapid.Bool().Draw(t, "yield") {
					res[g][i] = pert{Kind: 1}
				}
			default:
				res[g][i] = genPert().Draw(t, "p")
			}
		}
	}
	return res
}

// drawFocus picks 0-3 operation kinds that the programs of this case use most of the time, so that
// many goroutines run the same few operations against each other.
func drawFocus(t *rapid.T, ops []int) []int {
	n := rapid.SampledFrom([]int{0, 0, 1, 2, 2, 3}).Draw(t, "nfocus")
	var f []int
	for i := 0; i < n; i++ {
		f = append(f, rapid.SampledFrom(ops).Draw(t, "focus"))
	}
	return f
}

// pickOp draws an operation kind: three times out of four from the focus set when there is one.
func pickOp(t *rapid.T, ops, focus []int) int {
	if len(focus) > 0 && rapid.IntRange(0, 3).Draw(t, "focused") > 0 {
		return rapid.SampledFrom(focus).Draw(t, "op")
	}
	return rapid.SampledFrom(ops).Draw(t, "op")
}

// ---------------------------------------------------------------------------------------------
// history records

// hop is one public call as it was executed (before the expansion into model operations).
type hop struct {
	G, I      int
	Kind      string // operation name (coverage matrix)
	Res       string // resource touched: a key, or "*" for whole-component operations
	Desc      string // printable input
	Out       string // printable output
	Call, Ret int64
}

func overlap(a, b hop) bool { return a.G != b.G && a.Call <= b.Ret && b.Call <= a.Ret }

func conflict(a, b hop) bool { return a.Res == "*" || b.Res == "*" || a.Res == b.Res }

var (
	pairMu  sync.Mutex
	pairCnt = map[string]map[string]int64{} // unit -> "A|B" -> count
	pairCol = map[string]*stats.Collector{}
)

// analyse computes the non-triviality flag (>= 2 overlapping operations on the same resource) and
// feeds the op-pair coverage matrix.
func analyse(st *stats.Collector, unit string, ops []hop) (nontrivial bool, overlaps int) {
	local := map[string]int64{}
	for i := 0; i < len(ops); i++ {
		for j := i + 1; j < len(ops); j++ {
			if overlap(ops[i], ops[j]) && conflict(ops[i], ops[j]) {
				nontrivial = true
				overlaps++
				a, b := ops[i].Kind, ops[j].Kind
				if a > b {
					a, b = b, a
				}
				local[a+"|"+b]++
			}
		}
	}
	pairMu.Lock()
	m := pairCnt[unit]
	if m == nil {
		m = map[string]int64{}
		pairCnt[unit] = m
		pairCol[unit] = st
	}
	for k, v := range local {
		m[k] += v
	}
	pairMu.Unlock()
	return
}

func flushPairs() {
	pairMu.Lock()
	defer pairMu.Unlock()
	for unit, m := range pairCnt {
		st := pairCol[unit]
		for k, v := range m {
			st.Set("overlap:"+k, v)
		}
	}
}

func formatHistory(title string, progs [][]string, ops []hop, extra string) string {
	var sb strings.Builder
	fmt.Fprintf(&sb, "%s\nPROGRAMS:\n", title)
	for g, p := range progs {
		fmt.Fprintf(&sb, "  g%d: %s\n", g, strings.Join(p, " ; "))
	}
	sorted := append([]hop(nil), ops...)
	sort.SliceStable(sorted, func(a, b int) bool { return sorted[a].Call < sorted[b].Call })
	sb.WriteString("HISTORY (ns since start; sorted by call):\n")
	for _, o := range sorted {
		who := fmt.Sprintf("g%d#%d", o.G, o.I)
		if o.G < 0 {
			who = "final"
		}
		fmt.Fprintf(&sb, "  [%-6s] call=%-10d ret=%-10d %s -> %s\n", who, o.Call, o.Ret, o.Desc, o.Out)
	}
	if extra != "" {
		sb.WriteString(extra)
		sb.WriteString("\n")
	}
	return sb.String()
}

var printed int32

// failHistory reports a violation; the history is also written to stdout directly because a
// schedule-dependent failure is reported by rapid as "flaky" without the original message.
func failHistory(t *rapid.T, msg string) {
	if atomic.AddInt32(&printed, 1) <= 2 {
		fmt.Fprintf(os.Stdout, "C28-VIOLATION-HISTORY-BEGIN\n%s\nC28-VIOLATION-HISTORY-END\n", msg)
	}
	t.Fatalf("%s", msg)
}

const linTimeout = 60 * time.Second

// checkLin runs porcupine; Unknown (timeout) is inconclusive, never a violation.
func checkLin(t *rapid.T, st *stats.Collector, model porcupine.Model, ops []porcupine.Operation, describe func() string) bool {
	switch porcupine.CheckOperationsTimeout(model, ops, linTimeout) {
	case porcupine.Ok:
		return true
	case porcupine.Unknown:
		st.Inconclusive()
		return false
	default:
		failHistory(t, "history is NOT linearizable\n"+describe())
		return false
	}
}

func b2s(b bool) string {
	if b {
		return "true"
	}
	return "false"
}
