package c28

import (
	"bytes"
	"fmt"
	"os"
	"strconv"
	"strings"
	"testing"

	"github.com/Fantom-foundation/lachesis-base/kvdb"
	"github.com/Fantom-foundation/lachesis-base/kvdb/flushable"
	"github.com/Fantom-foundation/lachesis-base/kvdb/leveldb"
	"github.com/Fantom-foundation/lachesis-base/kvdb/memorydb"
	"github.com/anishathalye/porcupine"
	"pgregory.net/rapid"

	"verif/harness/internal/stats"
)

// ---------------------------------------------------------------------------------------------
// two-layer KV model of the flushable store: flushed layer (parent), not-flushed overlay with
// deletion markers, size estimation, closed flag.

var fKeys = [...]string{"a", "ab", "b", "ba"}

const (
	fNK    = len(fKeys)
	vEmpty = 30000 // value id of the empty (non-nil) value
	vDel   = -1    // overlay deletion marker
)

func valBytes(id int) []byte {
	if id == vEmpty {
		return []byte{}
	}
	return []byte(strconv.Itoa(id) + strings.Repeat("x", id%3))
}

func valID(b []byte) int {
	if b == nil {
		return 0
	}
	if len(b) == 0 {
		return vEmpty
	}
	n, err := strconv.Atoi(strings.TrimRight(string(b), "x"))
	if err != nil || n <= 0 || !bytes.Equal(valBytes(n), b) {
		return -999 // a value nobody wrote
	}
	return n
}

type fState struct {
	Fl     [fNK]int16 // flushed layer: 0 = absent, else value id
	Nf     [fNK]int16 // overlay: 0 = no entry, vDel = deleted, else value id
	Size   int32
	Closed bool
}

func (s fState) logical(k int) int {
	if s.Nf[k] == vDel {
		return 0
	}
	if s.Nf[k] != 0 {
		return int(s.Nf[k])
	}
	return int(s.Fl[k])
}

func (s fState) content() string {
	var sb strings.Builder
	for k := range fKeys {
		fmt.Fprintf(&sb, "%s=%d ", fKeys[k], s.logical(k))
	}
	return sb.String()
}

const (
	fPut = iota
	fPutNil
	fDelete
	fGet
	fHas
	fFlush
	fDropNF
	fPairs
	fSizeEst
	fBatch
	fBatchClosed // model operation only: a batch write refused with "closed"
	fSnapshot
	fIter
	fStat
	fCompact
	fClose
	fParentGet // model operation only (final phase): read of the parent store
)

var fNames = [...]string{"Put", "PutNil", "Delete", "Get", "Has", "Flush", "DropNotFlushed", "NotFlushedPairs",
	"NotFlushedSizeEst", "Batch.Write", "Batch.Write", "GetSnapshot", "NewIterator", "Stat", "Compact", "Close", "parent.Get"}

type fEntry struct {
	K, V int // V == vDel: delete
}

type fIn struct {
	Op     int
	K, V   int
	NilKey bool     // PutNil: nil key instead of nil value
	Batch  []fEntry // distinct keys
	Prefix string
	Start  string
}

func (in fIn) String() string {
	switch in.Op {
	case fPut:
		return fmt.Sprintf("Put(%s,v%d)", fKeys[in.K], in.V)
	case fPutNil:
		if in.NilKey {
			return "Put(nil,v)"
		}
		return fmt.Sprintf("Put(%s,nil)", fKeys[in.K])
	case fDelete, fGet, fHas, fParentGet:
		return fmt.Sprintf("%s(%s)", fNames[in.Op], fKeys[in.K])
	case fBatch, fBatchClosed:
		var es []string
		for _, e := range in.Batch {
			if e.V == vDel {
				es = append(es, "del "+fKeys[e.K])
			} else {
				es = append(es, fmt.Sprintf("put %s=v%d", fKeys[e.K], e.V))
			}
		}
		return "Batch.Write[" + strings.Join(es, ", ") + "]"
	case fIter:
		return fmt.Sprintf("NewIterator(prefix=%q,start=%q)", in.Prefix, in.Start)
	}
	return fNames[in.Op] + "()"
}

func (in fIn) res() string {
	switch in.Op {
	case fPut, fDelete, fGet, fHas:
		return fKeys[in.K]
	case fPutNil:
		return "-"
	}
	return "*"
}

type fOut struct {
	Err     string
	V       int
	OK      bool
	N       int
	Content string
}

func (o fOut) String() string {
	return fmt.Sprintf("{err=%q v=%d ok=%v n=%d content=%q}", o.Err, o.V, o.OK, o.N, o.Content)
}

const errClosedText = "database closed"

// fStep: (ok=false means the operation is impossible in this state, e.g. use after close that the
// real store does not support and the generator never produces)
func fStep(s fState, in fIn) (fState, fOut, bool) {
	var out fOut
	switch in.Op {
	case fPut:
		if s.Closed {
			return s, out, false
		}
		s.Nf[in.K] = int16(in.V)
		s.Size += int32(len(fKeys[in.K]) + len(valBytes(in.V)) + 128)
	case fPutNil:
		out.Err = "flushable: key or value is nil"
	case fDelete:
		if s.Closed {
			return s, out, false
		}
		s.Nf[in.K] = vDel
		s.Size += int32(len(fKeys[in.K]) + 128)
	case fGet:
		if s.Closed {
			out.Err = errClosedText
		} else {
			out.V = s.logical(in.K)
		}
	case fHas:
		if s.Closed {
			out.Err = errClosedText
		} else {
			out.OK = s.logical(in.K) != 0
		}
	case fFlush:
		if s.Closed {
			out.Err = errClosedText
			break
		}
		for k := range s.Nf {
			if s.Nf[k] == vDel {
				s.Fl[k] = 0
			} else if s.Nf[k] != 0 {
				s.Fl[k] = s.Nf[k]
			}
			s.Nf[k] = 0
		}
		s.Size = 0
	case fDropNF:
		if s.Closed {
			return s, out, false
		}
		s.Nf = [fNK]int16{}
		s.Size = 0
	case fPairs:
		if s.Closed {
			return s, out, false
		}
		for k := range s.Nf {
			if s.Nf[k] != 0 {
				out.N++
			}
		}
	case fSizeEst:
		out.N = int(s.Size)
	case fBatchClosed:
		if !s.Closed {
			return s, out, false
		}
		out.Err = errClosedText
	case fSnapshot:
		if s.Closed {
			return s, out, false
		}
		out.Content = s.content()
	case fIter:
		// creation reads the closed flag under the lock; the content is checked separately
		if s.Closed {
			out.Err = errClosedText
		}
	case fClose:
		if s.Closed {
			out.Err = errClosedText
		} else {
			s.Closed = true
			s.Nf = [fNK]int16{}
			s.Size = 0
		}
	case fParentGet:
		out.V = int(s.Fl[in.K])
	}
	return s, out, true
}

type kvPair struct {
	K string
	V []byte
}

type fRes struct {
	Out  fOut
	Iter []kvPair
}

func errText(err error) string {
	if err == nil {
		return ""
	}
	return err.Error()
}

func readAll(it kvdb.Iterator) (res []kvPair, err error) {
	defer it.Release()
	for it.Next() {
		res = append(res, kvPair{K: string(it.Key()), V: append([]byte{}, it.Value()...)})
	}
	return res, it.Error()
}

func fExec(db *flushable.Flushable, parent kvdb.Store, in fIn) fRes {
	var r fRes
	out := &r.Out
	switch in.Op {
	case fPut:
		out.Err = errText(db.Put([]byte(fKeys[in.K]), valBytes(in.V)))
	case fPutNil:
		if in.NilKey {
			out.Err = errText(db.Put(nil, []byte("v")))
		} else {
			out.Err = errText(db.Put([]byte(fKeys[in.K]), nil))
		}
	case fDelete:
		out.Err = errText(db.Delete([]byte(fKeys[in.K])))
	case fGet:
		v, err := db.Get([]byte(fKeys[in.K]))
		out.V, out.Err = valID(v), errText(err)
	case fHas:
		ok, err := db.Has([]byte(fKeys[in.K]))
		out.OK, out.Err = ok, errText(err)
	case fFlush:
		out.Err = errText(db.Flush())
	case fDropNF:
		db.DropNotFlushed()
	case fPairs:
		out.N = db.NotFlushedPairs()
	case fSizeEst:
		out.N = db.NotFlushedSizeEst()
	case fBatch:
		b := db.NewBatch()
		for _, e := range in.Batch {
			var err error
			if e.V == vDel {
				err = b.Delete([]byte(fKeys[e.K]))
			} else {
				err = b.Put([]byte(fKeys[e.K]), valBytes(e.V))
			}
			if err != nil {
				out.Err = "batch fill: " + err.Error()
			}
		}
		_ = b.ValueSize()
		if err := b.Write(); err != nil {
			out.Err = err.Error()
		}
		b.Reset()
	case fSnapshot:
		snap, err := db.GetSnapshot()
		if err != nil {
			out.Err = err.Error()
			break
		}
		var sb, sb2 strings.Builder
		for k := range fKeys {
			v, err := snap.Get([]byte(fKeys[k]))
			if err != nil {
				out.Err = "snapshot get: " + err.Error()
			}
			has, err := snap.Has([]byte(fKeys[k]))
			if err != nil || has != (v != nil) {
				out.Err = fmt.Sprintf("snapshot Has(%s)=%v,%v but Get=%x", fKeys[k], has, err, v)
			}
			fmt.Fprintf(&sb, "%s=%d ", fKeys[k], valID(v))
		}
		// the snapshot is immutable: its iterator must list exactly what its Get returns
		pairs, err := readAll(snap.NewIterator(nil, nil))
		if err != nil {
			out.Err = "snapshot iterator: " + err.Error()
		}
		m := map[string]int{}
		for _, p := range pairs {
			m[p.K] = valID(p.V)
		}
		for k := range fKeys {
			fmt.Fprintf(&sb2, "%s=%d ", fKeys[k], m[fKeys[k]])
		}
		out.Content = sb.String()
		if sb2.String() != out.Content || len(pairs) != len(m) {
			out.Err = fmt.Sprintf("snapshot iterator lists %q, snapshot gets %q", sb2.String(), out.Content)
		}
		snap.Release()
	case fIter:
		it := db.NewIterator([]byte(in.Prefix), []byte(in.Start))
		if err := it.Error(); err != nil {
			out.Err = err.Error()
			it.Release()
			break
		}
		pairs, err := readAll(it)
		r.Iter = pairs
		if err != nil {
			out.Content = "iteration error: " + err.Error()
		}
	case fStat:
		_, _ = db.Stat("leveldb.stats")
	case fCompact:
		_ = db.Compact(nil, nil)
	case fClose:
		out.Err = errText(db.Close())
	case fParentGet:
		v, err := parent.Get([]byte(fKeys[in.K]))
		out.V, out.Err = valID(v), errText(err)
	}
	return r
}

// checkIter: weak contract of an iterator that ran concurrently with writers. Returns "" if fine.
//   - keys strictly ascending, inside the universe, with the prefix, not below prefix+start;
//   - every value is one that was at some time stored under its key (initial or written by a program);
//   - a stable key (never written by any program, and whose visible value no DropNotFlushed can
//     change) is listed iff it has a value, with exactly that value.
func checkIter(in fIn, pairs []kvPair, init fState, possible [fNK]map[int]bool, stable [fNK]bool) string {
	prev := ""
	seen := map[int]bool{}
	lo := in.Prefix + in.Start
	for i, p := range pairs {
		k := -1
		for j := range fKeys {
			if fKeys[j] == p.K {
				k = j
			}
		}
		if k < 0 {
			return fmt.Sprintf("key %q was never written", p.K)
		}
		if i > 0 && p.K <= prev {
			return fmt.Sprintf("keys not strictly ascending: %q after %q", p.K, prev)
		}
		prev = p.K
		if !strings.HasPrefix(p.K, in.Prefix) || p.K < lo {
			return fmt.Sprintf("key %q outside prefix %q / start %q", p.K, in.Prefix, in.Start)
		}
		id := valID(p.V)
		if !possible[k][id] {
			return fmt.Sprintf("key %q listed with value %q that was never stored under it", p.K, p.V)
		}
		seen[k] = true
		if stable[k] && id != init.logical(k) {
			return fmt.Sprintf("stable key %q listed with value id %d, expected %d", p.K, id, init.logical(k))
		}
	}
	for k := range fKeys {
		inRange := strings.HasPrefix(fKeys[k], in.Prefix) && fKeys[k] >= lo
		if stable[k] && inRange && init.logical(k) != 0 && !seen[k] {
			return fmt.Sprintf("stable key %q (never written by any program) is missing", fKeys[k])
		}
	}
	return ""
}

var (
	// only operations that are defined on a closed store
	fOpsClosing = []int{fGet, fGet, fHas, fFlush, fIter, fBatch, fClose, fSizeEst}
	fOpsOpen    = []int{fPut, fPut, fPut, fPut, fDelete, fDelete, fGet, fGet, fGet, fHas, fFlush, fFlush, fDropNF, fPairs, fPairs,
		fSizeEst, fSizeEst, fBatch, fSnapshot, fIter, fPutNil, fStat, fCompact}
)

func genFIn(t *rapid.T, vid *int, closing, allowEmpty bool, maxBatch int, focus []int) fIn {
	ops := fOpsOpen
	if closing {
		ops = fOpsClosing
	}
	in := fIn{Op: pickOp(t, ops, focus)}
	newVal := func() int {
		if allowEmpty && rapid.IntRange(0, 9).Draw(t, "empty") == 0 {
			return vEmpty
		}
		*vid++
		return *vid
	}
	switch in.Op {
	case fPut:
		in.K = rapid.IntRange(0, fNK-1).Draw(t, "k")
		in.V = newVal()
	case fPutNil:
		in.K = rapid.IntRange(0, fNK-1).Draw(t, "k")
		in.NilKey = rapid.Bool().Draw(t, "nilkey")
	case fDelete, fGet, fHas:
		in.K = rapid.IntRange(0, fNK-1).Draw(t, "k")
	case fBatch:
		n := rapid.IntRange(1, 3).Draw(t, "nbatch")
		if n > maxBatch {
			n = maxBatch
		}
		keys := rapid.Permutation([]int{0, 1, 2, 3}).Draw(t, "bkeys")
		for i := 0; i < n; i++ {
			e := fEntry{K: keys[i], V: vDel}
			if rapid.IntRange(0, 3).Draw(t, "bput") > 0 {
				e.V = newVal()
			}
			in.Batch = append(in.Batch, e)
		}
	case fIter:
		in.Prefix = rapid.SampledFrom([]string{"", "", "a", "b"}).Draw(t, "prefix")
		in.Start = rapid.SampledFrom([]string{"", "", "a", "b"}).Draw(t, "start")
	}
	return in
}

func tmpDir() string {
	base := "/dev/shm"
	if st, err := os.Stat(base); err != nil || !st.IsDir() {
		base = os.TempDir()
	}
	d, err := os.MkdirTemp(base, "c28-")
	if err != nil {
		panic(err)
	}
	return d
}

var stFlush = stats.New("flushable")

// TestC28Flushable. Linearizability-checked set: Put (also with nil key/value), Delete, Get, Has, Flush,
// DropNotFlushed, NotFlushedPairs, NotFlushedSizeEst, Close (in "closing" cases, with the
// operations that are defined on a closed store), GetSnapshot (the snapshot's whole content is the
// output), NewIterator's closed check, and every entry of a Batch.Write as its own operation
// within the Write interval (the API documents Write as not atomic). Weaker contract only:
// content listed by an iterator that runs concurrently with writers (see checkIter). Race
// detection only: Stat, Compact.
func TestC28Flushable(t *testing.T) {
	rapid.Check(t, func(t *rapid.T) {
		vid := 0
		closing := rapid.IntRange(0, 6).Draw(t, "closing") == 0
		useLevelDB := !closing && rapid.IntRange(0, 9).Draw(t, "leveldb") == 0
		allowEmpty := !useLevelDB

		// initial content: some keys flushed, some in the overlay
		var setup []fIn
		for k := 0; k < fNK; k++ {
			if rapid.Bool().Draw(t, "initFlushed") {
				vid++
				setup = append(setup, fIn{Op: fPut, K: k, V: vid})
			}
		}
		setup = append(setup, fIn{Op: fFlush})
		for k := 0; k < fNK; k++ {
			switch rapid.IntRange(0, 3).Draw(t, "initOverlay") {
			case 0:
				vid++
				setup = append(setup, fIn{Op: fPut, K: k, V: vid})
			case 1:
				setup = append(setup, fIn{Op: fDelete, K: k})
			}
		}

		lens, maxprocs := drawShape(t, 40)
		perts := drawPerts(t, lens)
		var focus []int
		if closing {
			focus = drawFocus(t, fOpsClosing)
		} else {
			focus = drawFocus(t, fOpsOpen)
		}
		progs := make([][]fIn, len(lens))
		descr := make([][]string, len(lens))
		extra := 40 // model operations left for the additional entries of batches
		for _, n := range lens {
			extra -= n
		}
		for g := range progs {
			for i := 0; i < lens[g]; i++ {
				in := genFIn(t, &vid, closing, allowEmpty, 1+extra, focus)
				if in.Op == fBatch {
					extra -= len(in.Batch) - 1
				}
				progs[g] = append(progs[g], in)
				descr[g] = append(descr[g], perts[g][i].String()+" "+in.String())
			}
		}

		// the store
		var parent kvdb.Store
		dir := ""
		if useLevelDB {
			dir = tmpDir()
			defer os.RemoveAll(dir)
			ldb, err := leveldb.New(dir, 1<<20, 16, nil, nil)
			if err != nil {
				t.Skipf("INFRA: leveldb open: %v", err) // infrastructure, not a property failure: discard the case
			}
			parent = ldb
		} else {
			parent = memorydb.New()
		}
		drops := 0
		db := flushable.WrapWithDrop(parent, func() { drops++ })
		closed := false
		defer func() {
			if !closed {
				db.Close()
			}
		}()

		state := fState{}
		for _, in := range setup {
			got := fExec(db, parent, in).Out
			ns, want, ok := fStep(state, in)
			if !ok || got != want {
				t.Fatalf("sequential setup: %s returned %s, model %s", in, got, want)
			}
			state = ns
		}
		init := state

		// which values may an iterator show for a key; which keys are stable
		var possible [fNK]map[int]bool
		var stable [fNK]bool
		hasDrop := closing // Close drops the overlay as well
		for k := range possible {
			possible[k] = map[int]bool{int(init.Fl[k]): init.Fl[k] != 0}
			if init.Nf[k] > 0 {
				possible[k][int(init.Nf[k])] = true
			}
			stable[k] = true
		}
		for g := range progs {
			for _, in := range progs[g] {
				switch in.Op {
				case fPut:
					possible[in.K][in.V] = true
					stable[in.K] = false
				case fDelete:
					stable[in.K] = false
				case fBatch:
					for _, e := range in.Batch {
						stable[e.K] = false
						if e.V != vDel {
							possible[e.K][e.V] = true
						}
					}
				case fDropNF:
					hasDrop = true
				}
			}
		}
		for k := range stable {
			if hasDrop && init.Nf[k] != 0 {
				stable[k] = false
			}
		}

		ctx := &runCtx{}
		res := runConcurrent(ctx, maxprocs, lens, perts, func(g, i int) interface{} {
			return fExec(db, parent, progs[g][i])
		})

		var hops []hop
		var ops []porcupine.Operation
		iterProblem := ""
		nIter, nSnap, nBatch := 0, 0, 0
		for g := range progs {
			for i, in := range progs[g] {
				s := res.stamps[g][i]
				if s.Out == nil {
					continue
				}
				r := s.Out.(fRes)
				outText := r.Out.String()
				if in.Op == fIter {
					outText += fmt.Sprintf(" listed=%v", r.Iter)
				}
				hops = append(hops, hop{G: g, I: i, Kind: fNames[in.Op], Res: in.res(), Desc: in.String(), Out: outText, Call: s.Call, Ret: s.Ret})
				switch in.Op {
				case fStat, fCompact:
					// race detection only
				case fBatch:
					nBatch++
					if r.Out.Err != "" {
						ops = append(ops, porcupine.Operation{ClientId: g, Input: fIn{Op: fBatchClosed, Batch: in.Batch}, Output: r.Out, Call: s.Call, Return: s.Ret})
						break
					}
					for _, e := range in.Batch {
						sub := fIn{Op: fPut, K: e.K, V: e.V}
						if e.V == vDel {
							sub = fIn{Op: fDelete, K: e.K}
						}
						ops = append(ops, porcupine.Operation{ClientId: g, Input: sub, Output: fOut{}, Call: s.Call, Return: s.Ret})
					}
				case fIter:
					nIter++
					if r.Out.Content != "" {
						iterProblem = fmt.Sprintf("g%d#%d %s: %s", g, i, in, r.Out.Content)
					} else if r.Out.Err == "" {
						if p := checkIter(in, r.Iter, init, possible, stable); p != "" && iterProblem == "" {
							iterProblem = fmt.Sprintf("g%d#%d %s listed %v: %s", g, i, in, r.Iter, p)
						}
					}
					ops = append(ops, porcupine.Operation{ClientId: g, Input: in, Output: fOut{Err: r.Out.Err}, Call: s.Call, Return: s.Ret})
				default:
					if in.Op == fSnapshot {
						nSnap++
					}
					ops = append(ops, porcupine.Operation{ClientId: g, Input: in, Output: r.Out, Call: s.Call, Return: s.Ret})
				}
			}
		}

		// final sequential phase: read everything, flush, read the parent
		var final []fIn
		if closing {
			final = append(final, fIn{Op: fGet, K: 0}, fIn{Op: fClose})
		} else {
			for k := 0; k < fNK; k++ {
				final = append(final, fIn{Op: fGet, K: k})
			}
			final = append(final, fIn{Op: fPairs}, fIn{Op: fSizeEst}, fIn{Op: fFlush}, fIn{Op: fPairs})
			for k := 0; k < fNK; k++ {
				final = append(final, fIn{Op: fParentGet, K: k})
			}
		}
		if len(res.panics) == 0 {
			for _, in := range final {
				c := now()
				out := fExec(db, parent, in).Out
				r := now()
				hops = append(hops, hop{G: -1, Kind: "final", Res: "-", Desc: in.String(), Out: out.String(), Call: c, Ret: r})
				ops = append(ops, porcupine.Operation{ClientId: len(lens), Input: in, Output: out, Call: c, Return: r})
			}
		}
		backend := "memorydb"
		if useLevelDB {
			backend = "leveldb"
		}
		describe := func() string {
			return formatHistory(fmt.Sprintf("flushable over %s closing=%v GOMAXPROCS=%d initial=%+v", backend, closing, maxprocs, init), descr, hops, "")
		}
		if len(res.panics) > 0 {
			failHistory(t, "panic in a concurrent program: "+strings.Join(res.panics, "\n")+"\n"+describe())
		}
		if iterProblem != "" {
			failHistory(t, "iterator contract violated: "+iterProblem+"\n"+describe())
		}
		model := porcupine.Model{
			Init: func() interface{} { return init },
			Step: func(st, in, out interface{}) (bool, interface{}) {
				ns, want, ok := fStep(st.(fState), in.(fIn))
				return ok && want == out.(fOut), ns
			},
		}
		checkLin(t, stFlush, model, ops, describe)

		// life cycle end: Close, Drop -> the drop callback runs exactly once
		if !closing {
			if err := db.Close(); err != nil {
				failHistory(t, fmt.Sprintf("final Close: %v\n%s", err, describe()))
			}
		}
		closed = true
		db.Drop()
		if drops != 1 {
			failHistory(t, fmt.Sprintf("Drop ran the drop callback %d times\n%s", drops, describe()))
		}

		nt, nov := analyse(stFlush, "flushable", hops)
		cls := []string{fmt.Sprintf("goroutines_%d", len(lens)), fmt.Sprintf("gomaxprocs_%d", maxprocs), "backend_" + backend}
		if nt {
			cls = append(cls, "overlapping", fmt.Sprintf("overlapping_mp%d", maxprocs))
		}
		if nov >= 5 {
			cls = append(cls, "overlaps_ge5")
		}
		if closing {
			cls = append(cls, "closing")
		}
		if nIter > 0 {
			cls = append(cls, "with_iterator")
		}
		if nSnap > 0 {
			cls = append(cls, "with_snapshot")
		}
		if nBatch > 0 {
			cls = append(cls, "with_batch")
		}
		nStable := 0
		for k := range stable {
			if stable[k] && init.logical(k) != 0 {
				nStable++
			}
		}
		if nIter > 0 && nStable > 0 {
			cls = append(cls, "iterator_with_stable_key")
		}
		stFlush.Case(stats.Hash(closing, useLevelDB, setup, fmt.Sprint(progs)), nt, cls...)
		stFlush.Sample(func() interface{} {
			return map[string]interface{}{"backend": backend, "closing": closing, "gomaxprocs": maxprocs, "initial": fmt.Sprintf("%+v", init), "programs": descr, "overlapping_pairs": nov}
		})
	})
}
