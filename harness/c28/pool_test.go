package c28

import (
	"bytes"
	"fmt"
	"sort"
	"strings"
	"sync"
	"testing"

	"github.com/Fantom-foundation/lachesis-base/kvdb"
	"github.com/Fantom-foundation/lachesis-base/kvdb/flushable"
	"github.com/Fantom-foundation/lachesis-base/kvdb/memorydb"
	"github.com/anishathalye/porcupine"
	"pgregory.net/rapid"

	"verif/harness/internal/stats"
)

// ---------------------------------------------------------------------------------------------
// Model of the flush-buffering pool: per database a two-layer KV model (overlay of the handle
// returned by OpenDB, content of the produced store), the set of registered databases, queued drops.
//
// What the pool promises (locks in synced_pool.go, docs of Flush/GetUnderlying):
//   - OpenDB, Names, NotFlushedSizeEst, GetUnderlying and Flush exclude each other (pool mutex);
//   - operations on a handle are atomic per database (the store's own lock) and never wait for the pool;
//   - Flush processes the queued drops at once, then flushes every database; each database is flushed
//     atomically, the databases one after the other: the NotFlushed* accessors of the handles can see
//     one database flushed and another not yet. Flush is therefore modelled as a head operation plus
//     one flush operation per database, all inside the call's interval;
//   - reads through the read-only stores of GetUnderlying wait for a running Flush (the "flushing"
//     lock): they see the produced stores of ALL databases either before or after a Flush. In the
//     model they may not be ordered between the head and the last per-database part of a Flush;
//   - NotFlushedSizeEst adds up the databases one by one while handles may be written: head + one
//     part per database, the parts add up to the returned total.
// Lifecycle operations (Initialize at start-up, Close at shutdown) run single-threaded, like in every caller.

var pKeyNames = [...]string{"k0", "k1", "k2"}

const (
	pNK = len(pKeyNames)
	pND = 4 // up to 2 shared + 2 private names
)

var pFlushIDKey = []byte("\x01flush-id")

type pDBState struct {
	Present, Queued bool
	Fl, Nf          [pNK]int16
	Size            int32
}

func (d pDBState) logical(k int) int {
	if d.Nf[k] == vDel {
		return 0
	}
	if d.Nf[k] != 0 {
		return int(d.Nf[k])
	}
	return int(d.Fl[k])
}

type pState struct {
	DB   [pND]pDBState
	Lock int8 // 0 free, 1 Flush in progress, 2 NotFlushedSizeEst in progress
	Call int16
	Rem  uint8
	Acc  int32
}

const (
	pOpen = iota
	pNames
	pFlush
	pSizeEst
	pUGet
	pUHas
	pUIter
	hPut
	hDelete
	hGet
	hHas
	hDropNF
	hPairs
	hSize
	hFlush
	hClose
	hDrop
	hSnapshot
	hIter
	// model-only operations
	mFlushHead
	mFlushSub
	mSizeHead
	mSizeSub
)

var pNamesTab = [...]string{"OpenDB", "Names", "pool.Flush", "pool.NotFlushedSizeEst", "GetUnderlying.Get", "GetUnderlying.Has",
	"GetUnderlying.NewIterator", "Put", "Delete", "Get", "Has", "DropNotFlushed", "NotFlushedPairs", "NotFlushedSizeEst",
	"handle.Flush", "handle.Close", "handle.Drop", "GetSnapshot", "NewIterator", "flush:head", "flush:db", "sizeest:head", "sizeest:db"}

type pIn struct {
	Op    int
	D, K  int
	V     int
	Call  int // id of a Flush / NotFlushedSizeEst call
	Total int // observed result of NotFlushedSizeEst (model parts)
}

type pWorld struct {
	names []string // universe; index < nShared: shared
	nSh   int
}

func (w *pWorld) str(in pIn) string {
	n := func() string { return w.names[in.D] }
	switch in.Op {
	case pOpen:
		return fmt.Sprintf("OpenDB(%s)", n())
	case pFlush:
		return fmt.Sprintf("pool.Flush(id=%d)", in.Call)
	case pUGet, pUHas:
		return fmt.Sprintf("GetUnderlying(%s).%s(%s)", n(), strings.TrimPrefix(pNamesTab[in.Op], "GetUnderlying."), pKeyNames[in.K])
	case pUIter:
		return fmt.Sprintf("GetUnderlying(%s).NewIterator()", n())
	case hPut:
		return fmt.Sprintf("%s.Put(%s,v%d)", n(), pKeyNames[in.K], in.V)
	case hDelete, hGet, hHas:
		return fmt.Sprintf("%s.%s(%s)", n(), pNamesTab[in.Op], pKeyNames[in.K])
	case hDropNF, hPairs, hSize, hSnapshot, hIter:
		return fmt.Sprintf("%s.%s()", n(), pNamesTab[in.Op])
	case hFlush:
		return n() + ".Flush()"
	case hClose:
		return n() + ".Close()"
	case hDrop:
		return n() + ".Drop()"
	case mFlushHead, mSizeHead:
		return fmt.Sprintf("%s(call %d)", pNamesTab[in.Op], in.Call)
	case mFlushSub, mSizeSub:
		return fmt.Sprintf("%s(call %d, %s)", pNamesTab[in.Op], in.Call, n())
	}
	return pNamesTab[in.Op] + "()"
}

func (w *pWorld) res(in pIn) string {
	switch in.Op {
	case hPut, hDelete, hGet, hHas:
		return w.names[in.D] + "/" + pKeyNames[in.K]
	}
	return "*"
}

func (w *pWorld) step(s pState, in pIn) (pState, fOut, bool) {
	var out fOut
	d := &s.DB[in.D]
	all := uint8(1)<<uint(len(w.names)) - 1
	switch in.Op {
	case pOpen:
		if s.Lock != 0 {
			return s, out, false
		}
		out.OK = d.Present
		d.Present = true
	case pNames:
		if s.Lock != 0 {
			return s, out, false
		}
		var ns []string
		for i, n := range w.names {
			if s.DB[i].Present {
				ns = append(ns, n)
			}
		}
		sort.Strings(ns)
		out.Content = strings.Join(ns, ",")
	case mFlushHead:
		if s.Lock != 0 {
			return s, out, false
		}
		for i := range w.names {
			if s.DB[i].Queued {
				s.DB[i] = pDBState{} // unregistered; the handle is closed, the produced store dropped
			}
		}
		s.Lock, s.Call, s.Rem = 1, int16(in.Call), all
	case mFlushSub:
		if s.Lock != 1 || int(s.Call) != in.Call || s.Rem&(1<<uint(in.D)) == 0 {
			return s, out, false
		}
		if d.Present {
			flushLayer(d)
		}
		s.Rem &^= 1 << uint(in.D)
		if s.Rem == 0 {
			s.Lock, s.Call = 0, 0
		}
	case mSizeHead:
		if s.Lock != 0 {
			return s, out, false
		}
		s.Lock, s.Call, s.Rem, s.Acc = 2, int16(in.Call), all, 0
	case mSizeSub:
		if s.Lock != 2 || int(s.Call) != in.Call || s.Rem&(1<<uint(in.D)) == 0 {
			return s, out, false
		}
		if d.Present {
			s.Acc += d.Size
		}
		s.Rem &^= 1 << uint(in.D)
		if s.Rem == 0 {
			if int(s.Acc) != in.Total {
				return s, out, false
			}
			s.Lock, s.Call, s.Acc = 0, 0, 0
		}
	case pUGet:
		if s.Lock == 1 {
			return s, out, false
		}
		out.V = int(d.Fl[in.K])
	case pUHas:
		if s.Lock == 1 {
			return s, out, false
		}
		out.OK = d.Fl[in.K] != 0
	case hPut:
		d.Nf[in.K] = int16(in.V)
		d.Size += int32(len(pKeyNames[in.K]) + len(valBytes(in.V)) + 128)
	case hDelete:
		d.Nf[in.K] = vDel
		d.Size += int32(len(pKeyNames[in.K]) + 128)
	case hGet:
		out.V = d.logical(in.K)
	case hHas:
		out.OK = d.logical(in.K) != 0
	case hDropNF:
		d.Nf = [pNK]int16{}
		d.Size = 0
	case hPairs:
		for k := range d.Nf {
			if d.Nf[k] != 0 {
				out.N++
			}
		}
	case hSize:
		out.N = int(d.Size)
	case hFlush:
		flushLayer(d)
	case hClose:
		// a handle of the pool cannot be closed by its user: no effect
	case hDrop:
		d.Queued = true
	case hSnapshot:
		out.Content = d.content()
	}
	return s, out, true
}

func flushLayer(d *pDBState) {
	for k := range d.Nf {
		if d.Nf[k] == vDel {
			d.Fl[k] = 0
		} else if d.Nf[k] != 0 {
			d.Fl[k] = d.Nf[k]
		}
		d.Nf[k] = 0
	}
	d.Size = 0
}

func (d pDBState) content() string {
	var sb strings.Builder
	for k := range pKeyNames {
		fmt.Fprintf(&sb, "%s=%d ", pKeyNames[k], d.logical(k))
	}
	return sb.String()
}

// lockedProducer: memorydb stores in a map with a lock (memorydb's own fake file system deletes
// from its map without its lock when a store is dropped; that helper is not a C28 component).
type lockedProducer struct {
	mu    sync.Mutex
	dbs   map[string]kvdb.Store
	drops map[string]int
}

func (p *lockedProducer) OpenDB(name string) (kvdb.Store, error) {
	p.mu.Lock()
	defer p.mu.Unlock()
	if db, ok := p.dbs[name]; ok {
		return db, nil
	}
	db := memorydb.NewWithDrop(func() {
		p.mu.Lock()
		delete(p.dbs, name)
		p.drops[name]++
		p.mu.Unlock()
	})
	p.dbs[name] = db
	return db, nil
}

type flushableHandle interface {
	kvdb.FlushableKVStore
}

type pEnv struct {
	w       *pWorld
	pool    *flushable.SyncedPool
	handles [pND]kvdb.Store
	ro      [pND]kvdb.Store // read-only stores obtained from GetUnderlying beforehand (nil: ask every time)
}

func ascendingKnown(pairs []kvPair) string {
	prev := ""
	for i, p := range pairs {
		if i > 0 && p.K <= prev {
			return fmt.Sprintf("keys not strictly ascending: %q after %q", p.K, prev)
		}
		prev = p.K
		known := p.K == string(pFlushIDKey)
		for _, k := range pKeyNames {
			known = known || k == p.K
		}
		if !known {
			return fmt.Sprintf("key %q was never written", p.K)
		}
	}
	return ""
}

func (e *pEnv) exec(in pIn) fOut {
	var out fOut
	name := e.w.names[in.D]
	var key []byte
	if in.K < pNK {
		key = []byte(pKeyNames[in.K])
	}
	h, _ := e.handles[in.D].(flushableHandle)
	switch in.Op {
	case pOpen:
		db, err := e.pool.OpenDB(name)
		out.Err = errText(err)
		if e.handles[in.D] == nil {
			e.handles[in.D] = db
		} else {
			out.OK = db == e.handles[in.D]
		}
	case pNames:
		ns := e.pool.Names()
		sort.Strings(ns)
		out.Content = strings.Join(ns, ",")
	case pFlush:
		out.Err = errText(e.pool.Flush([]byte{byte(in.Call)}))
	case pSizeEst:
		out.N = e.pool.NotFlushedSizeEst()
	case pUGet, pUHas, pUIter:
		// a store obtained earlier only waits for the "flushing" lock; GetUnderlying itself also
		// waits for the pool mutex
		ro := e.ro[in.D]
		if ro == nil {
			var err error
			ro, err = e.pool.GetUnderlying(name)
			if err != nil {
				out.Err = err.Error()
				break
			}
		}
		switch in.Op {
		case pUGet:
			v, err := ro.Get(key)
			out.V, out.Err = valID(v), errText(err)
		case pUHas:
			ok, err := ro.Has(key)
			out.OK, out.Err = ok, errText(err)
		default:
			pairs, err := readAll(ro.NewIterator(nil, nil))
			out.Err = errText(err)
			out.Content = ascendingKnown(pairs)
		}
	case hPut:
		out.Err = errText(h.Put(key, valBytes(in.V)))
	case hDelete:
		out.Err = errText(h.Delete(key))
	case hGet:
		v, err := h.Get(key)
		out.V, out.Err = valID(v), errText(err)
	case hHas:
		ok, err := h.Has(key)
		out.OK, out.Err = ok, errText(err)
	case hDropNF:
		h.DropNotFlushed()
	case hPairs:
		out.N = h.NotFlushedPairs()
	case hSize:
		out.N = h.NotFlushedSizeEst()
	case hFlush:
		out.Err = errText(h.Flush())
	case hClose:
		out.Err = errText(h.Close())
	case hDrop:
		h.Drop()
	case hSnapshot:
		snap, err := h.GetSnapshot()
		if err != nil {
			out.Err = err.Error()
			break
		}
		var sb strings.Builder
		for k := range pKeyNames {
			v, err := snap.Get([]byte(pKeyNames[k]))
			if err != nil {
				out.Err = err.Error()
			}
			fmt.Fprintf(&sb, "%s=%d ", pKeyNames[k], valID(v))
		}
		out.Content = sb.String()
		snap.Release()
	case hIter:
		pairs, err := readAll(h.NewIterator(nil, nil))
		out.Err = errText(err)
		out.Content = ascendingKnown(pairs)
	}
	return out
}

// expand turns an executed call into model operations (all within the call's interval).
func (w *pWorld) expand(client int, in pIn, out fOut, call, ret int64) []porcupine.Operation {
	mk := func(i pIn, o fOut) porcupine.Operation {
		return porcupine.Operation{ClientId: client, Input: i, Output: o, Call: call, Return: ret}
	}
	switch in.Op {
	case pFlush:
		ops := []porcupine.Operation{mk(pIn{Op: mFlushHead, Call: in.Call}, fOut{})}
		for d := range w.names {
			ops = append(ops, mk(pIn{Op: mFlushSub, Call: in.Call, D: d}, fOut{}))
		}
		return ops
	case pSizeEst:
		ops := []porcupine.Operation{mk(pIn{Op: mSizeHead, Call: in.Call}, fOut{})}
		for d := range w.names {
			ops = append(ops, mk(pIn{Op: mSizeSub, Call: in.Call, D: d, Total: out.N}, fOut{}))
		}
		return ops
	case pUIter, hIter:
		return nil // weaker contract only (checked at execution), not in the model
	}
	return []porcupine.Operation{mk(in, out)}
}

var pOpsBase = []int{pOpen, pNames, pNames, pUGet, pUGet, pUGet, pUHas, pUIter, hPut, hPut, hPut, hPut, hDelete, hGet, hGet, hHas,
	hDropNF, hPairs, hPairs, hPairs, hSize, hSize, hFlush, hClose, hSnapshot, hIter}

var stPool = stats.New("pool")

// TestC28Pool. Linearizability-checked set (see the model comment above): OpenDB, Names, Flush,
// NotFlushedSizeEst, reads through GetUnderlying(name) (Get, Has), and on the handles Put, Delete, Get, Has,
// DropNotFlushed, NotFlushedPairs, NotFlushedSizeEst, Flush, Close, Drop, GetSnapshot. Iterators
// (handle and read-only store) concurrent with writers: ascending known keys only. Initialize and
// Close of the pool are life-cycle calls and run in the sequential phases.
func TestC28Pool(t *testing.T) {
	rapid.Check(t, func(t *rapid.T) {
		vid := 0
		callID := 0
		nSh := rapid.IntRange(1, 2).Draw(t, "shared")
		nPriv := rapid.IntRange(0, 2).Draw(t, "private")
		w := &pWorld{nSh: nSh}
		for i := 0; i < nSh; i++ {
			w.names = append(w.names, string(rune('a'+i)))
		}
		for i := 0; i < nPriv; i++ {
			w.names = append(w.names, fmt.Sprintf("p%d", i))
		}
		useInitialize := rapid.Bool().Draw(t, "initialize")
		cacheRO := rapid.IntRange(0, 2).Draw(t, "cacheReadOnlyStores") > 0
		initialFlush := rapid.IntRange(0, 2).Draw(t, "initialFlush") > 0

		// sequential setup
		var setup []pIn
		if initialFlush {
			for d := 0; d < nSh; d++ {
				for k := 0; k < pNK; k++ {
					if rapid.Bool().Draw(t, "initFlushed") {
						vid++
						setup = append(setup, pIn{Op: hPut, D: d, K: k, V: vid})
					}
				}
			}
			callID++
			setup = append(setup, pIn{Op: pFlush, Call: callID})
		}
		for d := 0; d < nSh; d++ {
			for k := 0; k < pNK; k++ {
				switch rapid.IntRange(0, 4).Draw(t, "initOverlay") {
				case 0:
					vid++
					setup = append(setup, pIn{Op: hPut, D: d, K: k, V: vid})
				case 1:
					setup = append(setup, pIn{Op: hDelete, D: d, K: k})
				}
			}
		}

		lens, maxprocs := drawShape(t, 40)
		perts := drawPerts(t, lens)
		focus := drawFocus(t, append([]int{pFlush, pFlush, pFlush, pSizeEst, pSizeEst}, pOpsBase...))
		// one case in five concentrates on the clause "reads through GetUnderlying stores see a whole
		// pool Flush or nothing of it": flushes against reads of the produced stores and of the
		// handles' NotFlushed* accessors, with fresh data put in between
		flushVsReads := rapid.IntRange(0, 4).Draw(t, "flushVsReads") == 0
		if flushVsReads {
			focus = []int{pFlush, pFlush, pUGet, pUGet, pUGet, pUHas, hPairs, hSize, hPut, hPut}
		}
		progs := make([][]pIn, len(lens))
		descr := make([][]string, len(lens))
		multi := 0 // Flush / NotFlushedSizeEst calls (each expands into 1+len(names) model operations)
		for g := range progs {
			priv := -1 // index of this goroutine's private database
			if g < nPriv {
				priv = nSh + g
			}
			privState := 0 // 0 unopened, 1 open, 2 dropped
			for i := 0; i < lens[g]; i++ {
				ops := append([]int(nil), pOpsBase...)
				fcs := focus
				if multi < 6 {
					ops = append(ops, pFlush, pFlush, pFlush, pSizeEst, pSizeEst)
				} else {
					fcs = nil
					for _, o := range focus {
						if o != pFlush && o != pSizeEst {
							fcs = append(fcs, o)
						}
					}
				}
				if priv >= 0 && privState == 1 {
					ops = append(ops, hDrop, hDrop, hDrop, hDrop)
				}
				in := pIn{Op: pickOp(t, ops, fcs)}
				if priv >= 0 && privState == 0 && i == 0 && rapid.IntRange(0, 9).Draw(t, "openPrivateFirst") < 7 {
					in = pIn{Op: pOpen}
				}
				// target database: a shared one, or the goroutine's own private one while it is open
				pickDB := func(allowPriv bool) int {
					n := nSh
					if allowPriv && priv >= 0 && privState == 1 {
						n++
					}
					j := rapid.IntRange(0, n-1).Draw(t, "db")
					if j >= nSh {
						return priv
					}
					return j
				}
				switch in.Op {
				case pOpen:
					if priv >= 0 && privState == 0 && (i == 0 || rapid.Bool().Draw(t, "openPrivate")) {
						in.D = priv
						privState = 1
					} else {
						in.D = rapid.IntRange(0, nSh-1).Draw(t, "db")
					}
				case pFlush, pSizeEst:
					multi++
					callID++
					in.Call = callID
				case pUGet, pUHas:
					in.D, in.K = pickDB(false), rapid.IntRange(0, pNK-1).Draw(t, "k")
				case pUIter:
					in.D = pickDB(false)
				case hPut:
					vid++
					in.D, in.K, in.V = pickDB(true), rapid.IntRange(0, pNK-1).Draw(t, "k"), vid
				case hDelete, hGet, hHas:
					in.D, in.K = pickDB(true), rapid.IntRange(0, pNK-1).Draw(t, "k")
				case hDropNF, hPairs, hSize, hFlush, hClose, hSnapshot, hIter:
					in.D = pickDB(true)
				case hDrop:
					in.D = priv
					privState = 2
				}
				progs[g] = append(progs[g], in)
				descr[g] = append(descr[g], perts[g][i].String()+" "+w.str(in))
			}
		}

		prod := &lockedProducer{dbs: map[string]kvdb.Store{}, drops: map[string]int{}}
		env := &pEnv{w: w, pool: flushable.NewSyncedPool(prod, pFlushIDKey)}
		if useInitialize {
			// start-up call of every real user: registers the shared databases
			if _, err := env.pool.Initialize(w.names[:nSh], nil); err != nil {
				t.Fatalf("Initialize: %v", err)
			}
		}
		state := pState{}
		for d := 0; d < nSh; d++ {
			h, err := env.pool.OpenDB(w.names[d])
			if err != nil || h == nil {
				t.Fatalf("OpenDB(%s): %v", w.names[d], err)
			}
			env.handles[d] = h
			state.DB[d].Present = true
		}
		cachedRO := func() {
			if !cacheRO {
				return
			}
			for d := 0; d < nSh; d++ {
				ro, err := env.pool.GetUnderlying(w.names[d])
				if err != nil || ro == nil {
					t.Fatalf("GetUnderlying(%s): %v", w.names[d], err)
				}
				env.ro[d] = ro
			}
		}
		applySeq := func(phase string, in pIn) fOut {
			got := env.exec(in)
			c := int64(0)
			for _, op := range w.expand(0, in, got, c, c) {
				ns, want, ok := w.step(state, op.Input.(pIn))
				if !ok || want != op.Output.(fOut) {
					t.Fatalf("%s: %s returned %s, model %s (possible=%v)", phase, w.str(in), got, want, ok)
				}
				state = ns
			}
			return got
		}
		for _, in := range setup {
			applySeq("sequential setup", in)
		}
		cachedRO()
		init := state

		ctx := &runCtx{}
		res := runConcurrent(ctx, maxprocs, lens, perts, func(g, i int) interface{} {
			return env.exec(progs[g][i])
		})

		var hops []hop
		var ops []porcupine.Operation
		weakProblem := ""
		lazyUnderlying, drops := false, 0
		for g := range progs {
			for i, in := range progs[g] {
				s := res.stamps[g][i]
				if s.Out == nil {
					continue
				}
				out := s.Out.(fOut)
				hops = append(hops, hop{G: g, I: i, Kind: pNamesTab[in.Op], Res: w.res(in), Desc: w.str(in), Out: out.String(), Call: s.Call, Ret: s.Ret})
				if (in.Op == pUIter || in.Op == hIter) && (out.Content != "" || out.Err != "") {
					weakProblem = fmt.Sprintf("g%d#%d %s: %s %s", g, i, w.str(in), out.Content, out.Err)
				}
				if (in.Op == pUGet || in.Op == pUHas || in.Op == pUIter) && !initialFlush && !useInitialize && !cacheRO {
					lazyUnderlying = true
				}
				if in.Op == hDrop {
					drops++
				}
				ops = append(ops, w.expand(g, in, out, s.Call, s.Ret)...)
			}
		}

		// final sequential phase
		var final []pIn
		callID++
		final = append(final, pIn{Op: pNames}, pIn{Op: pSizeEst, Call: callID})
		for d := 0; d < nSh; d++ {
			for k := 0; k < pNK; k++ {
				final = append(final, pIn{Op: hGet, D: d, K: k})
			}
			final = append(final, pIn{Op: hPairs, D: d})
		}
		callID++
		finalID := callID
		final = append(final, pIn{Op: pFlush, Call: finalID}, pIn{Op: pNames})
		for d := 0; d < nSh; d++ {
			for k := 0; k < pNK; k++ {
				final = append(final, pIn{Op: pUGet, D: d, K: k})
			}
			final = append(final, pIn{Op: hPairs, D: d})
		}
		lifecycle := ""
		if len(res.panics) == 0 {
			for _, in := range final {
				c := now()
				out := env.exec(in)
				r := now()
				hops = append(hops, hop{G: -1, Kind: "final", Res: "-", Desc: w.str(in), Out: out.String(), Call: c, Ret: r})
				ops = append(ops, w.expand(len(lens), in, out, c, r)...)
			}
			// every registered database carries the clean mark of the last flush
			for d := 0; d < nSh; d++ {
				ro, err := env.pool.GetUnderlying(w.names[d])
				if err != nil {
					lifecycle = fmt.Sprintf("GetUnderlying(%s): %v", w.names[d], err)
					continue
				}
				mark, err := ro.Get(pFlushIDKey)
				if err != nil || !bytes.Equal(mark, []byte{flushable.CleanPrefix, byte(finalID)}) {
					lifecycle = fmt.Sprintf("database %s has flush mark %x (err %v) after the final Flush(id=%d)", w.names[d], mark, err, finalID)
				}
			}
			if err := env.pool.Close(); err != nil {
				lifecycle = fmt.Sprintf("pool.Close: %v", err)
			}
		}
		describe := func() string {
			return formatHistory(fmt.Sprintf("synced pool names=%v (first %d shared) initialize=%v initialFlush=%v cachedReadOnlyStores=%v GOMAXPROCS=%d initial=%+v",
				w.names, nSh, useInitialize, initialFlush, cacheRO, maxprocs, init), descr, hops, "")
		}
		if len(res.panics) > 0 {
			failHistory(t, "panic in a concurrent program: "+strings.Join(res.panics, "\n")+"\n"+describe())
		}
		if weakProblem != "" {
			failHistory(t, "iterator contract violated: "+weakProblem+"\n"+describe())
		}
		if lifecycle != "" {
			failHistory(t, lifecycle+"\n"+describe())
		}
		model := porcupine.Model{
			Init: func() interface{} { return init },
			Step: func(st, in, out interface{}) (bool, interface{}) {
				ns, want, ok := w.step(st.(pState), in.(pIn))
				return ok && want == out.(fOut), ns
			},
		}
		checkLin(t, stPool, model, ops, describe)

		nt, nov := analyse(stPool, "pool", hops)
		cls := []string{fmt.Sprintf("goroutines_%d", len(lens)), fmt.Sprintf("gomaxprocs_%d", maxprocs), fmt.Sprintf("databases_%d", len(w.names))}
		if nt {
			cls = append(cls, "overlapping", fmt.Sprintf("overlapping_mp%d", maxprocs))
		}
		if nov >= 5 {
			cls = append(cls, "overlaps_ge5")
		}
		if lazyUnderlying {
			cls = append(cls, "getunderlying_lazy_init")
		}
		if drops > 0 {
			cls = append(cls, "with_drop")
		}
		if cacheRO {
			cls = append(cls, "readonly_stores_cached")
		}
		if flushVsReads {
			cls = append(cls, "focus_flush_vs_reads")
		}
		if multi > 0 {
			cls = append(cls, "with_pool_flush_or_sizeest")
		}
		stPool.Case(stats.Hash(w.names, useInitialize, cacheRO, setup, progs), nt, cls...)
		stPool.Sample(func() interface{} {
			return map[string]interface{}{"names": w.names, "shared": nSh, "gomaxprocs": maxprocs, "programs": descr, "overlapping_pairs": nov}
		})
	})
}
