package c28

import (
	"fmt"
	"strings"
	"testing"
	"time"

	"github.com/Fantom-foundation/lachesis-base/inter/dag"
	"github.com/Fantom-foundation/lachesis-base/inter/idx"
	"github.com/Fantom-foundation/lachesis-base/utils/datasemaphore"
	"github.com/anishathalye/porcupine"
	"pgregory.net/rapid"

	"verif/harness/internal/stats"
)

// ---------------------------------------------------------------------------------------------
// counter model of the events semaphore (from the C30 statement): held amount (num,size), capacity;
// a request is granted iff held+request fits in both dimensions; release subtracts, an over-release
// resets held to zero and is reported; terminate sets the capacity to zero.
//
// A blocking Acquire is, for linearizability, a TryAcquire that takes effect at the moment of its
// last attempt: true = granted then, false = did not fit then. No timing is asserted here (C30 does).

type sState struct {
	PN, MN uint32
	PS, MS uint64
}

const (
	sTry = iota
	sAcquire
	sRelease
	sProcessing
	sAvailable
	sTerminate
)

var sNames = [...]string{"TryAcquire", "Acquire", "Release", "Processing", "Available", "Terminate"}

type sIn struct {
	Op      int
	N       uint32
	S       uint64
	Timeout time.Duration
}

func (in sIn) String() string {
	switch in.Op {
	case sTry, sRelease:
		return fmt.Sprintf("%s({%d,%d})", sNames[in.Op], in.N, in.S)
	case sAcquire:
		return fmt.Sprintf("Acquire({%d,%d},%v)", in.N, in.S, in.Timeout)
	}
	return sNames[in.Op] + "()"
}

type sOut struct {
	OK   bool
	N    uint32
	S    uint64
	Warn string // warning callback arguments, "" if not called
}

func (o sOut) String() string { return fmt.Sprintf("{ok=%v metric={%d,%d} warn=%q}", o.OK, o.N, o.S, o.Warn) }

func fmtWarn(recvN uint32, recvS uint64, procN uint32, procS uint64, relN uint32, relS uint64) string {
	return fmt.Sprintf("received={%d,%d} processing={%d,%d} releasing={%d,%d}", recvN, recvS, procN, procS, relN, relS)
}

func sStep(s sState, in sIn) (sState, sOut) {
	var out sOut
	switch in.Op {
	case sTry, sAcquire:
		n, sz := s.PN+in.N, s.PS+in.S
		if n <= s.MN && sz <= s.MS {
			s.PN, s.PS = n, sz
			out.OK = true
		}
	case sRelease:
		if s.PN < in.N || s.PS < in.S {
			out.Warn = fmtWarn(s.PN, s.PS, s.PN, s.PS, in.N, in.S)
			s.PN, s.PS = 0, 0
		} else {
			s.PN -= in.N
			s.PS -= in.S
		}
	case sProcessing:
		out.N, out.S = s.PN, s.PS
	case sAvailable:
		// capacity minus held in the metric's own unsigned arithmetic (after Terminate the
		// capacity is zero and the difference wraps; C30 owns the meaning of that value)
		out.N, out.S = s.MN-s.PN, s.MS-s.PS
	case sTerminate:
		s.MN, s.MS = 0, 0
	}
	return s, out
}

func sExec(sem *datasemaphore.DataSemaphore, in sIn, warn *[]string) sOut {
	var out sOut
	*warn = (*warn)[:0]
	w := dag.Metric{Num: idx.Event(in.N), Size: in.S}
	switch in.Op {
	case sTry:
		out.OK = sem.TryAcquire(w)
	case sAcquire:
		out.OK = sem.Acquire(w, in.Timeout)
	case sRelease:
		sem.Release(w)
	case sProcessing:
		m := sem.Processing()
		out.N, out.S = uint32(m.Num), m.Size
	case sAvailable:
		m := sem.Available()
		out.N, out.S = uint32(m.Num), m.Size
	case sTerminate:
		sem.Terminate()
	}
	out.Warn = strings.Join(*warn, " && ")
	return out
}

var sOps = []int{sTry, sTry, sTry, sAcquire, sAcquire, sRelease, sRelease, sRelease, sProcessing, sProcessing, sAvailable, sAvailable}

func genSIn(t *rapid.T, allowTerminate bool, focus []int) sIn {
	ops := sOps
	if allowTerminate {
		ops = append(append([]int(nil), sOps...), sTerminate)
	}
	in := sIn{Op: pickOp(t, ops, focus)}
	switch in.Op {
	case sTry, sAcquire, sRelease:
		in.N = uint32(rapid.IntRange(0, 3).Draw(t, "num"))
		in.S = uint64(rapid.IntRange(0, 6).Draw(t, "size"))
	}
	if in.Op == sAcquire {
		// 0 = never blocks; the short real timeouts exercise the wait/broadcast/timer path.
		// The outcome is not asserted against the clock.
		in.Timeout = rapid.SampledFrom([]time.Duration{0, 0, 0, 200 * time.Microsecond, time.Millisecond, 3 * time.Millisecond}).Draw(t, "timeout")
	}
	return in
}

var stSema = stats.New("semaphore")

// TestC28Semaphore: TryAcquire, Acquire (timeout 0 and short real timeouts), Release, Processing,
// Available and Terminate are all in the linearizability-checked set.
func TestC28Semaphore(t *testing.T) {
	rapid.Check(t, func(t *rapid.T) {
		maxN := uint32(rapid.IntRange(1, 4).Draw(t, "maxNum"))
		maxS := uint64(rapid.IntRange(1, 10).Draw(t, "maxSize"))
		allowTerm := rapid.IntRange(0, 3).Draw(t, "terminate") == 0
		nInit := rapid.IntRange(0, 2).Draw(t, "ninit")
		var initOps []sIn
		for i := 0; i < nInit; i++ {
			initOps = append(initOps, sIn{Op: sTry, N: uint32(rapid.IntRange(0, 2).Draw(t, "in")), S: uint64(rapid.IntRange(0, 4).Draw(t, "is"))})
		}
		lens, maxprocs := drawShape(t, 40)
		perts := drawPerts(t, lens)
		focus := drawFocus(t, sOps)
		progs := make([][]sIn, len(lens))
		descr := make([][]string, len(lens))
		blocking := 0
		for g := range progs {
			for i := 0; i < lens[g]; i++ {
				in := genSIn(t, allowTerm, focus)
				if in.Op == sAcquire && in.Timeout > 0 {
					blocking++
				}
				progs[g] = append(progs[g], in)
				descr[g] = append(descr[g], perts[g][i].String()+" "+in.String())
			}
		}

		ctx := &runCtx{}
		warns := make([][]string, len(lens)+1)
		cur := len(lens)
		concurrent := false
		sem := datasemaphore.New(dag.Metric{Num: idx.Event(maxN), Size: maxS}, func(received, processing, releasing dag.Metric) {
			g := cur
			if concurrent {
				g = ctx.who()
				if g < 0 {
					return
				}
			}
			warns[g] = append(warns[g], fmtWarn(uint32(received.Num), received.Size, uint32(processing.Num), processing.Size, uint32(releasing.Num), releasing.Size))
		})
		state := sState{MN: maxN, MS: maxS}
		for _, in := range initOps {
			got := sExec(sem, in, &warns[cur])
			var want sOut
			state, want = sStep(state, in)
			if got != want {
				t.Fatalf("sequential setup: %s returned %s, model %s", in, got, want)
			}
		}
		init := state

		concurrent = true
		res := runConcurrent(ctx, maxprocs, lens, perts, func(g, i int) interface{} {
			return sExec(sem, progs[g][i], &warns[g])
		})
		concurrent = false

		var hops []hop
		var ops []porcupine.Operation
		for g := range progs {
			for i, in := range progs[g] {
				s := res.stamps[g][i]
				if s.Out == nil {
					continue
				}
				hops = append(hops, hop{G: g, I: i, Kind: sNames[in.Op], Res: "*", Desc: in.String(), Out: s.Out.(sOut).String(), Call: s.Call, Ret: s.Ret})
				ops = append(ops, porcupine.Operation{ClientId: g, Input: in, Output: s.Out, Call: s.Call, Return: s.Ret})
			}
		}
		for _, op := range []int{sProcessing, sAvailable} {
			in := sIn{Op: op}
			c := now()
			out := sExec(sem, in, &warns[cur])
			r := now()
			hops = append(hops, hop{G: -1, Kind: "final", Res: "-", Desc: in.String(), Out: out.String(), Call: c, Ret: r})
			ops = append(ops, porcupine.Operation{ClientId: len(lens), Input: in, Output: out, Call: c, Return: r})
		}
		describe := func() string {
			return formatHistory(fmt.Sprintf("semaphore capacity={%d,%d} GOMAXPROCS=%d initial=%+v", maxN, maxS, maxprocs, init), descr, hops, "")
		}
		if len(res.panics) > 0 {
			failHistory(t, "panic in a concurrent program: "+strings.Join(res.panics, "\n")+"\n"+describe())
		}
		if ctx.foreign > 0 {
			failHistory(t, "warning callback on a foreign goroutine\n"+describe())
		}
		model := porcupine.Model{
			Init: func() interface{} { return init },
			Step: func(st, in, out interface{}) (bool, interface{}) {
				ns, want := sStep(st.(sState), in.(sIn))
				return want == out.(sOut), ns
			},
		}
		checkLin(t, stSema, model, ops, describe)

		nt, nov := analyse(stSema, "semaphore", hops)
		cls := []string{fmt.Sprintf("goroutines_%d", len(lens)), fmt.Sprintf("gomaxprocs_%d", maxprocs)}
		if nt {
			cls = append(cls, "overlapping", fmt.Sprintf("overlapping_mp%d", maxprocs))
		}
		if nov >= 5 {
			cls = append(cls, "overlaps_ge5")
		}
		if allowTerm {
			cls = append(cls, "with_terminate")
		}
		if blocking > 0 {
			cls = append(cls, "with_blocking_acquire")
		}
		stSema.Case(stats.Hash(maxN, maxS, initOps, progs), nt, cls...)
		stSema.Sample(func() interface{} {
			return map[string]interface{}{"capacity": []uint64{uint64(maxN), maxS}, "gomaxprocs": maxprocs, "programs": descr, "overlapping_pairs": nov}
		})
	})
}
