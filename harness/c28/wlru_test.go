package c28

import (
	"fmt"
	"sort"
	"strings"
	"testing"

	"github.com/Fantom-foundation/lachesis-base/utils/wlru"
	"github.com/anishathalye/porcupine"
	"pgregory.net/rapid"

	"verif/harness/internal/stats"
)

// ---------------------------------------------------------------------------------------------
// sequential LRU model (written from the C29 statement): entries oldest -> newest, Add/Get refresh
// recency, Peek/Contains do not, evict oldest until within both bounds, every removal reported.

const wKeys = 4

type wEntry struct {
	K, W uint8
	V    int16
}

type wState struct {
	N    int8
	E    [wKeys]wEntry // oldest first
	MaxW uint16
	MaxS int8
}

const (
	wAdd = iota
	wGet
	wContains
	wPeek
	wContainsOrAdd
	wPeekOrAdd
	wRemove
	wResize
	wRemoveOldest
	wGetOldest
	wKeysOp
	wLen
	wWeight
	wTotal
	wPurge
	wNumOps
)

var wNames = [...]string{"Add", "Get", "Contains", "Peek", "ContainsOrAdd", "PeekOrAdd", "Remove", "Resize",
	"RemoveOldest", "GetOldest", "Keys", "Len", "Weight", "Total", "Purge"}

type wIn struct {
	Op   int
	K    int
	V    int
	W    uint
	MaxW uint
	MaxS int
}

func (in wIn) String() string {
	switch in.Op {
	case wAdd, wContainsOrAdd, wPeekOrAdd:
		return fmt.Sprintf("%s(k%d,v%d,w=%d)", wNames[in.Op], in.K, in.V, in.W)
	case wGet, wContains, wPeek, wRemove:
		return fmt.Sprintf("%s(k%d)", wNames[in.Op], in.K)
	case wResize:
		return fmt.Sprintf("Resize(maxWeight=%d,maxSize=%d)", in.MaxW, in.MaxS)
	}
	return wNames[in.Op] + "()"
}

func (in wIn) res() string {
	switch in.Op {
	case wGet, wContains, wPeek:
		return fmt.Sprintf("k%d", in.K)
	}
	// everything else can touch every entry (eviction) or reads the whole cache
	return "*"
}

// wOut is comparable. Unused fields stay zero.
type wOut struct {
	V       int    // value (0 = none)
	OK      bool   // found / present / ok
	K       int    // key for oldest (-1 none)
	Ev      int    // evicted count
	N       int    // len
	Wt      uint   // weight
	Keys    string // keys oldest -> newest
	Evicted string // eviction callback log "k:v k:v" in call order (sorted for Purge)
}

func (o wOut) String() string {
	return fmt.Sprintf("{v=%d ok=%v k=%d evicted=%d len=%d weight=%d keys=[%s] cb=[%s]}", o.V, o.OK, o.K, o.Ev, o.N, o.Wt, o.Keys, o.Evicted)
}

func (s wState) find(k int) int {
	for i := 0; i < int(s.N); i++ {
		if int(s.E[i].K) == k {
			return i
		}
	}
	return -1
}

func (s wState) weight() uint {
	var w uint
	for i := 0; i < int(s.N); i++ {
		w += uint(s.E[i].W)
	}
	return w
}

func (s *wState) removeAt(i int) wEntry {
	e := s.E[i]
	copy(s.E[i:], s.E[i+1:int(s.N)])
	s.N--
	s.E[s.N] = wEntry{}
	return e
}

func (s *wState) normalize(log *[]string) int {
	ev := 0
	for s.weight() > uint(s.MaxW) || int(s.N) > int(s.MaxS) {
		e := s.removeAt(0)
		*log = append(*log, fmt.Sprintf("%d:%d", e.K, e.V))
		ev++
	}
	return ev
}

func (s *wState) add(in wIn, log *[]string) int {
	if i := s.find(in.K); i >= 0 {
		s.removeAt(i)
	}
	s.E[s.N] = wEntry{K: uint8(in.K), W: uint8(in.W), V: int16(in.V)}
	s.N++
	return s.normalize(log)
}

func wStep(s wState, in wIn) (wState, wOut) {
	var out wOut
	var log []string
	switch in.Op {
	case wAdd:
		out.Ev = s.add(in, &log)
	case wGet:
		if i := s.find(in.K); i >= 0 {
			e := s.removeAt(i)
			s.E[s.N] = e
			s.N++
			out.V, out.OK = int(e.V), true
		}
	case wContains:
		out.OK = s.find(in.K) >= 0
	case wPeek:
		if i := s.find(in.K); i >= 0 {
			out.V, out.OK = int(s.E[i].V), true
		}
	case wContainsOrAdd:
		if s.find(in.K) >= 0 {
			out.OK = true
		} else {
			out.Ev = s.add(in, &log)
		}
	case wPeekOrAdd:
		if i := s.find(in.K); i >= 0 {
			out.V, out.OK = int(s.E[i].V), true
		} else {
			out.Ev = s.add(in, &log)
		}
	case wRemove:
		if i := s.find(in.K); i >= 0 {
			e := s.removeAt(i)
			log = append(log, fmt.Sprintf("%d:%d", e.K, e.V))
			out.OK = true
		}
	case wResize:
		s.MaxW, s.MaxS = uint16(in.MaxW), int8(in.MaxS)
		out.Ev = s.normalize(&log)
	case wRemoveOldest:
		out.K = -1
		if s.N > 0 {
			e := s.removeAt(0)
			log = append(log, fmt.Sprintf("%d:%d", e.K, e.V))
			out.K, out.V, out.OK = int(e.K), int(e.V), true
		}
	case wGetOldest:
		out.K = -1
		if s.N > 0 {
			out.K, out.V, out.OK = int(s.E[0].K), int(s.E[0].V), true
		}
	case wKeysOp:
		var ks []string
		for i := 0; i < int(s.N); i++ {
			ks = append(ks, fmt.Sprint(s.E[i].K))
		}
		out.Keys = strings.Join(ks, " ")
	case wLen:
		out.N = int(s.N)
	case wWeight:
		out.Wt = s.weight()
	case wTotal:
		out.N, out.Wt = int(s.N), s.weight()
	case wPurge:
		for s.N > 0 {
			e := s.removeAt(0)
			log = append(log, fmt.Sprintf("%d:%d", e.K, e.V))
		}
		sort.Strings(log)
	}
	out.Evicted = strings.Join(log, " ")
	return s, out
}

// wExec performs the operation on the real cache.
func wExec(c *wlru.Cache, in wIn, cb *[]string) wOut {
	var out wOut
	*cb = (*cb)[:0]
	val := func(v interface{}) int {
		if v == nil {
			return 0
		}
		return v.(int)
	}
	switch in.Op {
	case wAdd:
		out.Ev = c.Add(in.K, in.V, in.W)
	case wGet:
		v, ok := c.Get(in.K)
		out.V, out.OK = val(v), ok
	case wContains:
		out.OK = c.Contains(in.K)
	case wPeek:
		v, ok := c.Peek(in.K)
		out.V, out.OK = val(v), ok
	case wContainsOrAdd:
		out.OK, out.Ev = c.ContainsOrAdd(in.K, in.V, in.W)
	case wPeekOrAdd:
		var v interface{}
		v, out.OK, out.Ev = c.PeekOrAdd(in.K, in.V, in.W)
		out.V = val(v)
	case wRemove:
		out.OK = c.Remove(in.K)
	case wResize:
		out.Ev = c.Resize(in.MaxW, in.MaxS)
	case wRemoveOldest:
		k, v, ok := c.RemoveOldest()
		out.K, out.V, out.OK = -1, val(v), ok
		if k != nil {
			out.K = k.(int)
		}
	case wGetOldest:
		k, v, ok := c.GetOldest()
		out.K, out.V, out.OK = -1, val(v), ok
		if k != nil {
			out.K = k.(int)
		}
	case wKeysOp:
		var ks []string
		for _, k := range c.Keys() {
			ks = append(ks, fmt.Sprint(k))
		}
		out.Keys = strings.Join(ks, " ")
	case wLen:
		out.N = c.Len()
	case wWeight:
		out.Wt = c.Weight()
	case wTotal:
		out.Wt, out.N = c.Total()
	case wPurge:
		c.Purge()
		sort.Strings(*cb)
	}
	out.Evicted = strings.Join(*cb, " ")
	return out
}

// weighted choice: mutators and the compound operations more often than plain accessors
var wOps = []int{wAdd, wAdd, wAdd, wGet, wGet, wContains, wPeek, wContainsOrAdd, wContainsOrAdd,
	wPeekOrAdd, wPeekOrAdd, wRemove, wResize, wRemoveOldest, wGetOldest, wKeysOp, wKeysOp, wLen, wWeight, wTotal, wPurge}

func genWIn(t *rapid.T, vid *int, focus []int) wIn {
	in := wIn{}
	in.Op = pickOp(t, wOps, focus)
	switch in.Op {
	case wAdd, wContainsOrAdd, wPeekOrAdd:
		in.K = rapid.IntRange(0, wKeys-1).Draw(t, "k")
		in.W = uint(rapid.IntRange(0, 8).Draw(t, "w"))
		*vid++
		in.V = *vid
	case wGet, wContains, wPeek, wRemove:
		in.K = rapid.IntRange(0, wKeys-1).Draw(t, "k")
	case wResize:
		in.MaxW = uint(rapid.IntRange(0, 6).Draw(t, "maxw"))
		in.MaxS = rapid.IntRange(0, 4).Draw(t, "maxs")
	}
	return in
}

var stWlru = stats.New("wlru")

// TestC28Wlru: all 15 public operations of wlru.Cache are in the linearizability-checked set.
func TestC28Wlru(t *testing.T) {
	rapid.Check(t, func(t *rapid.T) {
		vid := 0
		maxW := uint(rapid.IntRange(0, 6).Draw(t, "maxWeight"))
		maxS := rapid.IntRange(0, 4).Draw(t, "maxSize")
		nInit := rapid.IntRange(0, 4).Draw(t, "ninit")
		var initOps []wIn
		for i := 0; i < nInit; i++ {
			vid++
			initOps = append(initOps, wIn{Op: wAdd, K: rapid.IntRange(0, wKeys-1).Draw(t, "ik"), W: uint(rapid.IntRange(0, 3).Draw(t, "iw")), V: vid})
		}
		lens, maxprocs := drawShape(t, 40)
		perts := drawPerts(t, lens)
		focus := drawFocus(t, wOps)
		progs := make([][]wIn, len(lens))
		descr := make([][]string, len(lens))
		for g := range progs {
			for i := 0; i < lens[g]; i++ {
				in := genWIn(t, &vid, focus)
				progs[g] = append(progs[g], in)
				descr[g] = append(descr[g], perts[g][i].String()+" "+in.String())
			}
		}

		ctx := &runCtx{}
		cbs := make([][]string, len(lens)+1) // last slot: sequential phases
		cur := len(lens)                     // goroutine slot used outside the concurrent phase
		concurrent := false
		cache, err := wlru.NewWithEvict(maxW, maxS, func(k, v interface{}) {
			g := cur
			if concurrent {
				g = ctx.who()
				if g < 0 {
					return
				}
			}
			cbs[g] = append(cbs[g], fmt.Sprintf("%d:%d", k.(int), v.(int)))
		})
		if err != nil {
			t.Fatalf("NewWithEvict: %v", err)
		}
		state := wState{MaxW: uint16(maxW), MaxS: int8(maxS)}
		for _, in := range initOps {
			got := wExec(cache, in, &cbs[cur])
			var want wOut
			state, want = wStep(state, in)
			if got != want {
				t.Fatalf("sequential setup: %s returned %s, model %s", in, got, want)
			}
		}
		init := state

		concurrent = true
		res := runConcurrent(ctx, maxprocs, lens, perts, func(g, i int) interface{} {
			return wExec(cache, progs[g][i], &cbs[g])
		})
		concurrent = false

		var hops []hop
		var ops []porcupine.Operation
		for g := range progs {
			for i, in := range progs[g] {
				s := res.stamps[g][i]
				if s.Out == nil {
					continue // goroutine panicked before this operation
				}
				hops = append(hops, hop{G: g, I: i, Kind: wNames[in.Op], Res: in.res(), Desc: in.String(), Out: s.Out.(wOut).String(), Call: s.Call, Ret: s.Ret})
				ops = append(ops, porcupine.Operation{ClientId: g, Input: in, Output: s.Out, Call: s.Call, Return: s.Ret})
			}
		}
		// final sequential reads
		for _, op := range []int{wKeysOp, wTotal} {
			in := wIn{Op: op}
			c := now()
			out := wExec(cache, in, &cbs[cur])
			r := now()
			hops = append(hops, hop{G: -1, Kind: "final", Res: "-", Desc: in.String(), Out: out.String(), Call: c, Ret: r})
			ops = append(ops, porcupine.Operation{ClientId: len(lens), Input: in, Output: out, Call: c, Return: r})
		}
		describe := func() string {
			return formatHistory(fmt.Sprintf("wlru maxWeight=%d maxSize=%d GOMAXPROCS=%d initial=%+v", maxW, maxS, maxprocs, init), descr, hops, "")
		}
		if len(res.panics) > 0 {
			failHistory(t, "panic in a concurrent program: "+strings.Join(res.panics, "\n")+"\n"+describe())
		}
		if ctx.foreign > 0 {
			failHistory(t, "eviction callback on a foreign goroutine\n"+describe())
		}
		model := porcupine.Model{
			Init: func() interface{} { return init },
			Step: func(st, in, out interface{}) (bool, interface{}) {
				ns, want := wStep(st.(wState), in.(wIn))
				return want == out.(wOut), ns
			},
		}
		checkLin(t, stWlru, model, ops, describe)

		nt, nov := analyse(stWlru, "wlru", hops)
		cls := []string{fmt.Sprintf("goroutines_%d", len(lens)), fmt.Sprintf("gomaxprocs_%d", maxprocs)}
		if nt {
			cls = append(cls, "overlapping", fmt.Sprintf("overlapping_mp%d", maxprocs))
		}
		if nov >= 5 {
			cls = append(cls, "overlaps_ge5")
		}
		stWlru.Case(stats.Hash(maxW, maxS, initOps, progs), nt, cls...)
		stWlru.Sample(func() interface{} {
			return map[string]interface{}{"maxWeight": maxW, "maxSize": maxS, "gomaxprocs": maxprocs, "programs": descr, "overlapping_pairs": nov}
		})
	})
}
