// C29: weighted LRU caches follow the LRU model.
//
// A rapid state machine drives simplewlru.Cache and wlru.Cache in lock step with a list model
// (oldest -> newest) written from the property text: bounds hold after every operation, the least
// recently used entries go first, gets and re-adds refresh recency, peeks/contains do not, every
// removed entry is reported to the eviction callback exactly once, Keys() lists oldest -> newest.
package c29

import (
	"fmt"
	"math"
	"os"
	"sort"
	"strings"
	"sync/atomic"
	"testing"
	"time"

	"github.com/Fantom-foundation/lachesis-base/utils/simplewlru"
	"github.com/Fantom-foundation/lachesis-base/utils/wlru"
	"pgregory.net/rapid"

	"verif/harness/internal/stats"
)

func TestMain(m *testing.M) {
	startHangWatchdog()
	code := m.Run()
	stats.Flush()
	os.Exit(code)
}

// ---------------------------------------------------------------------------------------------
// model (written from the property text)

type ent struct {
	key interface{}
	val interface{}
	w   uint
}

func (e ent) String() string { return fmt.Sprintf("%v(v=%v,w=%d)", e.key, e.val, e.w) }

type model struct {
	maxW  uint
	maxS  int
	items []ent // oldest -> newest
}

func (m *model) find(k interface{}) int {
	for i, e := range m.items {
		if e.key == k {
			return i
		}
	}
	return -1
}

func (m *model) weight() uint {
	var s uint
	for _, e := range m.items {
		s += e.w
	}
	return s
}

// shrink evicts the least recently used entries until both bounds hold.
func (m *model) shrink() (evicted []ent) {
	for len(m.items) > 0 && (len(m.items) > m.maxS || m.weight() > m.maxW) {
		evicted = append(evicted, m.items[0])
		m.items = m.items[1:]
	}
	return evicted
}

func (m *model) refresh(i int) {
	e := m.items[i]
	m.items = append(append(m.items[:i:i], m.items[i+1:]...), e)
}

func (m *model) add(k interface{}, v interface{}, w uint) []ent {
	if i := m.find(k); i >= 0 {
		m.items[i].val, m.items[i].w = v, w
		m.refresh(i)
	} else {
		m.items = append(m.items[:len(m.items):len(m.items)], ent{k, v, w})
	}
	return m.shrink()
}

func (m *model) removeAt(i int) ent {
	e := m.items[i]
	m.items = append(m.items[:i:i], m.items[i+1:]...)
	return e
}

// ---------------------------------------------------------------------------------------------
// implementations under test

type lru interface {
	Purge()
	Add(key, value interface{}, weight uint) int
	Get(key interface{}) (interface{}, bool)
	Contains(key interface{}) bool
	Peek(key interface{}) (interface{}, bool)
	Remove(key interface{}) bool
	RemoveOldest() (interface{}, interface{}, bool)
	GetOldest() (interface{}, interface{}, bool)
	Keys() []interface{}
	Len() int
	Weight() uint
	Total() (uint, int)
	Resize(maxWeight uint, maxSize int) int
}

type orAdder interface {
	ContainsOrAdd(key, value interface{}, weight uint) (bool, int)
	PeekOrAdd(key, value interface{}, weight uint) (interface{}, bool, int)
}

type kv struct {
	key interface{}
	val interface{}
}

type impl struct {
	name  string
	c     lru
	hasCB bool
	log   []kv // callback log of the current operation
}

// operation record (formatted only when a failure is reported)
type opRec struct {
	code    string
	key     interface{}
	val     interface{}
	w       uint
	mw      uint
	ms      int
	evicted int
}

func (o opRec) String() string {
	switch o.code {
	case "add", "coa", "poa":
		return fmt.Sprintf("%s(%v,v=%v,w=%d)", o.code, o.key, o.val, o.w)
	case "get", "peek", "contains", "remove":
		return fmt.Sprintf("%s(%v)", o.code, o.key)
	case "resize":
		return fmt.Sprintf("resize(maxWeight=%d,maxSize=%d)", o.mw, o.ms)
	}
	return o.code + "()"
}

var keySpace = []interface{}{0, 1, 2, "a", "b"}

// bounds 0-4 / 0-6, biased away from the degenerate zero bound so that caches fill up
// drawMaxWeight: small bounds, and - one case in eight - the values callers use for "no weight limit"
func drawMaxWeight(t *rapid.T) uint {
	if rapid.IntRange(0, 7).Draw(t, "noWeightLimit") == 0 {
		return rapid.SampledFrom([]uint{math.MaxUint64, 1 << 63, 1<<63 - 1, math.MaxUint32, math.MaxInt64}).Draw(t, "hugeMaxWeight")
	}
	return uint(rapid.SampledFrom(weightBounds).Draw(t, "maxWeight"))
}

var (
	sizeBounds   = []int{0, 1, 2, 2, 3, 3, 3, 4, 4, 4}
	weightBounds = []int{0, 1, 2, 3, 3, 4, 4, 5, 5, 6, 6, 6}
)

var stC29 = stats.New("lru-history")

// hang watchdog: an operation that never returns (e.g. an endless eviction loop) would otherwise
// only show as a go test timeout, which the driver treats as an infrastructure problem.
var (
	progress  atomic.Int64
	currentOp atomic.Pointer[string]
	inCase    atomic.Bool
)

func startHangWatchdog() {
	go func() {
		last := int64(-1)
		stuck := 0
		for {
			time.Sleep(5 * time.Second)
			p := progress.Load()
			if inCase.Load() && p == last {
				stuck++
			} else {
				stuck = 0
			}
			last = p
			if stuck >= 8 { // 40 s without a single finished operation
				op := "?"
				if s := currentOp.Load(); s != nil {
					op = *s
				}
				fmt.Printf("--- FAIL: TestC29 (hang)\n    C29: cache operation did not return within 40s (endless loop?), last started: %s\n", op)
				os.Exit(1)
			}
		}
	}()
}

func propC29(t *rapid.T) {
	inCase.Store(true)
	defer inCase.Store(false)

	m := &model{
		maxS: rapid.SampledFrom(sizeBounds).Draw(t, "maxSize"),
		maxW: drawMaxWeight(t),
	}
	cbMode := rapid.IntRange(0, 7).Draw(t, "callbacks") // 0: simple without, 1: wlru without, else both with

	impls := []*impl{{name: "simplewlru", hasCB: cbMode != 0}, {name: "wlru", hasCB: cbMode != 1}}
	for _, im := range impls {
		im := im
		cb := func(k, v interface{}) { im.log = append(im.log, kv{k, v}) }
		var err error
		switch {
		case im.name == "simplewlru" && im.hasCB:
			im.c, err = simplewlru.NewWithEvict(m.maxW, m.maxS, cb)
		case im.name == "simplewlru":
			im.c, err = simplewlru.New(m.maxW, m.maxS)
		case im.hasCB:
			im.c, err = wlru.NewWithEvict(m.maxW, m.maxS, cb)
		default:
			im.c, err = wlru.New(m.maxW, m.maxS)
		}
		if err != nil {
			t.Fatalf("%s: constructor failed for maxWeight=%d maxSize=%d: %v", im.name, m.maxW, m.maxS, err)
		}
	}

	var hist []opRec
	histStr := func() string {
		var sb strings.Builder
		for i, o := range hist {
			if i > 0 {
				sb.WriteString(" ")
			}
			sb.WriteString(o.String())
		}
		return sb.String()
	}
	fail := func(im *impl, format string, args ...interface{}) {
		t.Fatalf("C29 %s: %s\n  history: %s\n  model (oldest->newest): %v maxWeight=%d maxSize=%d",
			im.name, fmt.Sprintf(format, args...), histStr(), m.items, m.maxW, m.maxS)
	}

	// class bookkeeping
	var (
		multiEvict, selfEvict, resizeEvict, purgeNonEmpty, removeHit, removeOldestHit bool
		refreshPending, peekPending, refreshThenEvict, peekThenEvict, zeroBound       bool
		readdHit, weightEvict, sizeEvict                                              bool
		nilValues                                                                     int
		nEvicted                                                                      int
		full3                                                                         bool
	)
	noteEvictions := func(ev []ent) {
		if len(ev) == 0 {
			return
		}
		nEvicted += len(ev)
		if refreshPending {
			refreshThenEvict = true
		}
		if peekPending {
			peekThenEvict = true
		}
	}

	begin := func(o opRec) {
		hist = append(hist, o)
		for _, im := range impls {
			im.log = im.log[:0]
		}
		s := o.code
		currentOp.Store(&s)
	}
	// checkLog compares the callbacks of the operation with the model's removals.
	checkLog := func(expect []ent, ordered bool) {
		for _, im := range impls {
			if !im.hasCB {
				continue
			}
			ok := len(im.log) == len(expect)
			if ok && ordered {
				for i := range expect {
					if im.log[i].key != expect[i].key || im.log[i].val != interface{}(expect[i].val) {
						ok = false
					}
				}
			} else if ok {
				a := make([]string, 0, len(expect))
				b := make([]string, 0, len(expect))
				for i := range expect {
					a = append(a, fmt.Sprintf("%T%v=%v", expect[i].key, expect[i].key, expect[i].val))
					b = append(b, fmt.Sprintf("%T%v=%v", im.log[i].key, im.log[i].key, im.log[i].val))
				}
				sort.Strings(a)
				sort.Strings(b)
				for i := range a {
					if a[i] != b[i] {
						ok = false
					}
				}
			}
			if !ok {
				fail(im, "eviction callbacks of the last operation = %v, the model removed %v (each removed entry must be reported exactly once, least recently used first)", im.log, expect)
			}
		}
	}

	drawKey := func(t *rapid.T) interface{} { return rapid.SampledFrom(keySpace).Draw(t, "key") }
	// weights 0..maxWeight+2; three out of four are light (<= maxWeight/2) so that several entries coexist
	drawWeight := func(t *rapid.T) uint {
		if m.maxW > 1<<20 {
			return uint(rapid.IntRange(0, 8).Draw(t, "weight")) // "no weight limit"
		}
		hi := int(m.maxW) + 2
		if rapid.IntRange(0, 3).Draw(t, "heavy") != 0 {
			hi = int(m.maxW) / 2
		}
		return uint(rapid.IntRange(0, hi).Draw(t, "weight"))
	}
	// values are distinct integers; one in six is the nil interface ("known key, nothing to remember")
	nextVal := 0
	drawVal := func(t *rapid.T) interface{} {
		nextVal++
		if rapid.IntRange(0, 5).Draw(t, "nilValue") == 0 {
			nilValues++
			return nil
		}
		return nextVal
	}

	doAdd := func(t *rapid.T) {
		k, w, v := drawKey(t), drawWeight(t), drawVal(t)
		begin(opRec{code: "add", key: k, val: v, w: w})
		i := m.find(k)
		if i >= 0 {
			readdHit = true
			if i != len(m.items)-1 {
				refreshPending = true
			}
		}
		before := len(m.items)
		ev := m.add(k, v, w)
		self := false
		for _, e := range ev {
			if e.key == k {
				self = true
			}
		}
		if len(ev) >= 2 {
			multiEvict = true
		}
		if self {
			selfEvict = true
		}
		if len(ev) > 0 {
			newLen := before
			if i < 0 {
				newLen++
			}
			if newLen <= m.maxS {
				weightEvict = true
			} else {
				sizeEvict = true
			}
		}
		noteEvictions(ev)
		for _, im := range impls {
			if got := im.c.Add(k, v, w); got != len(ev) {
				fail(im, "Add returned %d evictions, model evicts %d %v", got, len(ev), ev)
			}
		}
		checkLog(ev, true)
	}

	lookup := func(code string, refresh bool) func(t *rapid.T) {
		return func(t *rapid.T) {
			k := drawKey(t)
			begin(opRec{code: code, key: k})
			i := m.find(k)
			var wantV interface{}
			if i >= 0 {
				wantV = m.items[i].val
				if i != len(m.items)-1 {
					if refresh {
						refreshPending = true
					} else {
						peekPending = true
					}
				}
				if refresh {
					m.refresh(i)
				}
			}
			for _, im := range impls {
				var gotV interface{}
				var ok bool
				switch code {
				case "get":
					gotV, ok = im.c.Get(k)
				case "peek":
					gotV, ok = im.c.Peek(k)
				case "contains":
					ok = im.c.Contains(k)
					gotV = wantV
				}
				if ok != (i >= 0) || (ok && gotV != wantV) {
					fail(im, "%s(%v) = (%v,%v), model has (%v,%v)", code, k, gotV, ok, wantV, i >= 0)
				}
			}
			checkLog(nil, true)
		}
	}

	orAdd := func(code string) func(t *rapid.T) {
		return func(t *rapid.T) {
			k, w, v := drawKey(t), drawWeight(t), drawVal(t)
			begin(opRec{code: code, key: k, val: v, w: w})
			i := m.find(k)
			var ev []ent
			var prev interface{}
			if i >= 0 {
				prev = m.items[i].val
				if i != len(m.items)-1 {
					peekPending = true
				}
			} else {
				ev = m.add(k, v, w)
				if len(ev) >= 2 {
					multiEvict = true
				}
				for _, e := range ev {
					if e.key == k {
						selfEvict = true
					}
				}
				noteEvictions(ev)
			}
			for _, im := range impls {
				var (
					found   bool
					evicted int
					gotPrev = prev
				)
				oa, isOA := im.c.(orAdder)
				switch {
				case isOA && code == "coa":
					found, evicted = oa.ContainsOrAdd(k, v, w)
				case isOA && code == "poa":
					gotPrev, found, evicted = oa.PeekOrAdd(k, v, w)
				case code == "coa":
					// simplewlru has no combined call: the same two steps by hand
					if found = im.c.Contains(k); !found {
						evicted = im.c.Add(k, v, w)
					}
				default:
					if gotPrev, found = im.c.Peek(k); !found {
						evicted = im.c.Add(k, v, w)
					}
				}
				if found != (i >= 0) || evicted != len(ev) || (found && gotPrev != prev) {
					fail(im, "%s(%v) = (prev=%v,found=%v,evicted=%d), model: (prev=%v,found=%v,evicted=%d)", code, k, gotPrev, found, evicted, prev, i >= 0, len(ev))
				}
			}
			checkLog(ev, true)
		}
	}

	actions := map[string]func(*rapid.T){
		"add1": doAdd, "add2": doAdd, "add3": doAdd, "add4": doAdd,
		"get1": lookup("get", true), "get2": lookup("get", true),
		"peek":     lookup("peek", false),
		"contains": lookup("contains", false),
		"coa":      orAdd("coa"),
		"poa":      orAdd("poa"),
		"remove": func(t *rapid.T) {
			k := drawKey(t)
			begin(opRec{code: "remove", key: k})
			i := m.find(k)
			var ev []ent
			if i >= 0 {
				ev = []ent{m.removeAt(i)}
				removeHit = true
			}
			for _, im := range impls {
				if got := im.c.Remove(k); got != (i >= 0) {
					fail(im, "Remove(%v) = %v, model has present=%v", k, got, i >= 0)
				}
			}
			checkLog(ev, true)
		},
		"removeOldest": func(t *rapid.T) {
			begin(opRec{code: "removeOldest"})
			var ev []ent
			if len(m.items) > 0 {
				ev = []ent{m.removeAt(0)}
				removeOldestHit = true
			}
			for _, im := range impls {
				k, v, ok := im.c.RemoveOldest()
				if ok != (len(ev) == 1) || (ok && (k != ev[0].key || v != interface{}(ev[0].val))) {
					fail(im, "RemoveOldest = (%v,%v,%v), model removes %v", k, v, ok, ev)
				}
			}
			checkLog(ev, true)
		},
		"getOldest": func(t *rapid.T) {
			begin(opRec{code: "getOldest"})
			if len(m.items) > 1 {
				peekPending = true
			}
			for _, im := range impls {
				k, v, ok := im.c.GetOldest()
				if ok != (len(m.items) > 0) || (ok && (k != m.items[0].key || v != interface{}(m.items[0].val))) {
					fail(im, "GetOldest = (%v,%v,%v), model oldest-first list is %v", k, v, ok, m.items)
				}
			}
			checkLog(nil, true)
		},
		"resize": func(t *rapid.T) {
			mw := uint(rapid.SampledFrom(weightBounds).Draw(t, "newMaxWeight"))
			ms := rapid.SampledFrom(sizeBounds).Draw(t, "newMaxSize")
			begin(opRec{code: "resize", mw: mw, ms: ms})
			m.maxW, m.maxS = mw, ms
			ev := m.shrink()
			if len(ev) > 0 {
				resizeEvict = true
			}
			noteEvictions(ev)
			for _, im := range impls {
				if got := im.c.Resize(mw, ms); got != len(ev) {
					fail(im, "Resize returned %d evictions, model evicts %d %v", got, len(ev), ev)
				}
			}
			checkLog(ev, true)
		},
		"purge": func(t *rapid.T) {
			begin(opRec{code: "purge"})
			ev := m.items
			m.items = nil
			if len(ev) > 0 {
				purgeNonEmpty = true
			}
			for _, im := range impls {
				im.c.Purge()
			}
			checkLog(ev, false) // all entries go at once: any order, each exactly once
		},
		"": func(t *rapid.T) {
			progress.Add(1)
			if m.maxS == 0 || m.maxW == 0 {
				zeroBound = true
			}
			if len(m.items) >= 3 {
				full3 = true
			}
			wantW := m.weight()
			for _, im := range impls {
				n, w := im.c.Len(), im.c.Weight()
				if n > m.maxS || w > m.maxW {
					fail(im, "bounds exceeded: Len=%d (max %d), Weight=%d (max %d)", n, m.maxS, w, m.maxW)
				}
				tw, tn := im.c.Total()
				if n != len(m.items) || w != wantW || tw != w || tn != n {
					fail(im, "Len=%d Weight=%d Total=(%d,%d), model has %d entries of weight %d", n, w, tw, tn, len(m.items), wantW)
				}
				keys := im.c.Keys()
				ok := len(keys) == len(m.items)
				for i := 0; ok && i < len(keys); i++ {
					ok = keys[i] == m.items[i].key
				}
				if !ok {
					fail(im, "Keys() = %v, model order oldest->newest is %v", keys, m.items)
				}
				// the returned list is the caller's: it may do with it what it likes
				for i, j := 0, len(keys)-1; i < j; i, j = i+1, j-1 {
					keys[i], keys[j] = keys[j], keys[i]
				}
				if len(keys) > 0 {
					keys[0] = "overwritten by the caller"
				}
			}
		},
	}
	t.Repeat(actions)

	// coverage accounting
	classes := []string{"history"}
	add := func(b bool, s string) {
		if b {
			classes = append(classes, s)
		}
	}
	add(multiEvict, "add_evicts_2plus")
	add(selfEvict, "add_evicts_itself")
	add(weightEvict, "evict_by_weight_only")
	add(sizeEvict, "evict_by_size")
	add(resizeEvict, "resize_evicts")
	add(purgeNonEmpty, "purge_nonempty")
	add(removeHit, "remove_hit")
	add(removeOldestHit, "removeoldest_hit")
	add(readdHit, "readd_existing")
	add(nilValues > 0, "nil_value_stored")
	add(refreshThenEvict, "eviction_after_order_changing_get_or_readd")
	add(peekThenEvict, "eviction_after_peek_of_non_newest")
	add(zeroBound, "zero_bound")
	add(full3, "held_3plus_entries")
	add(cbMode <= 1, "one_cache_without_callback")
	add(nEvicted == 0, "no_eviction_at_all")
	stC29.Case(stats.Hash(m.maxS, m.maxW, cbMode, histStrCompact(hist)), multiEvict || selfEvict, classes...)
	stC29.Sample(func() interface{} {
		return map[string]interface{}{"history": histStr(), "steps": len(hist), "evicted_total": nEvicted}
	})
}

func histStrCompact(h []opRec) string {
	var sb strings.Builder
	for _, o := range h {
		fmt.Fprintf(&sb, "%s|%v|%d|%d|%d;", o.code, o.key, o.w, o.mw, o.ms)
	}
	return sb.String()
}

// TestC29Model: random operation histories over both caches against the list model.
func TestC29Model(t *testing.T) {
	rapid.Check(t, propC29)
}

// FuzzC29: the same property driven by the native fuzzer's byte stream.
func FuzzC29(f *testing.F) {
	f.Fuzz(rapid.MakeFuzz(propC29))
}
